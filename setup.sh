#!/bin/sh
# Offline setup after a fresh restore: regenerate Gen/*, build the Lean library
# (models, proofs, property theorems, bridges), the driver executable, and warm the Go
# build cache with the harness compiled into /repo's working tree.
set -e
cd "$(dirname "$0")"
export GOFLAGS=-mod=mod GOPROXY=off
REPO=${VERIF_REPO:-/repo}
T=$(mktemp -d)
trap 'rm -rf "$T"' EXIT
mkdir -p lean/CueVerif/Gen
for g in $(python3 -c "import json,glob;print(' '.join(sorted({g for f in glob.glob('props/C*.json') for g in json.load(open(f)).get('gen',[])})))"); do
  lc=$(printf '%s' "$g" | tr 'A-Z' 'a-z')
  (cd extract && go build -o "$T/extract" main.go translate.go $(ls lib_*.go 2>/dev/null) $(ls "$lc"*.go))
  "$T/extract" -repo "$REPO" -gen "$g" > "$T/$g.lean"
  cmp -s "$T/$g.lean" "lean/CueVerif/Gen/$g.lean" || cp "$T/$g.lean" "lean/CueVerif/Gen/$g.lean"
done
MODS=$(python3 -c "
import json,os,glob
out=[]
for f in sorted(glob.glob('props/C*.json')):
    p=os.path.basename(f)[:-5]
    out.append('CueVerif.Props.'+p); out.append('drv_'+p)
    if os.path.exists('lean/CueVerif/Bridge/'+p+'.lean'): out.append('CueVerif.Bridge.'+p)
print(' '.join(out))")
(cd lean && lake build $MODS)
for f in props/C*.json; do ./harness/build.sh "$T/h" "$(basename "$f" .json)"; done
echo setup ok
