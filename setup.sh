#!/bin/sh
# Offline setup after a fresh restore: regenerate Gen/*, build the Lean library (models,
# proofs, property theorems, drivers, bridges) and warm the Go build cache with each
# property's harness compiled into /repo's working tree.
#
# A bridge theorem that does not build (because /repo's source differs from what the model
# was validated against) is NOT a setup failure: it is a broken obligation that the
# property's check reports.  Setup only fails when the property theorems or a driver do not
# build.
cd "$(dirname "$0")"
export GOFLAGS=-mod=mod GOPROXY=off
REPO=${VERIF_REPO:-/repo}
T=$(mktemp -d)
trap 'rm -rf "$T"' EXIT
mkdir -p lean/CueVerif/Gen
rc=0
PROPS=$(ls props/C*.json | sed 's#props/##; s#\.json##' | sort)
for p in $PROPS; do
  for g in $(python3 -c "import json;print(' '.join(json.load(open('props/$p.json')).get('gen',[])))"); do
    lc=$(printf '%s' "$g" | tr 'A-Z' 'a-z')
    if (cd extract && go build -o "$T/extract" main.go translate.go $(ls lib_*.go 2>/dev/null) $(ls "$lc"*.go)) && "$T/extract" -repo "$REPO" -gen "$g" > "$T/$g.lean"; then
      cmp -s "$T/$g.lean" "lean/CueVerif/Gen/$g.lean" || cp "$T/$g.lean" "lean/CueVerif/Gen/$g.lean"
    else
      echo "setup: WARNING extractor failed for $g (the check for $p will report it)"
      printf -- '-- extractor failed\nnamespace CueVerif.Gen.%s\ndef unavailable : Unit := ()\nend CueVerif.Gen.%s\n' "$g" "$g" > "lean/CueVerif/Gen/$g.lean"
    fi
  done
done
MODS=""
for p in $PROPS; do MODS="$MODS CueVerif.Props.$p drv_$p"; done
if ! (cd lean && lake build $MODS); then
  echo "setup: property theorems / drivers failed to build"; rc=1
fi
for p in $PROPS; do
  if [ -f "lean/CueVerif/Bridge/$p.lean" ]; then
    (cd lean && lake build CueVerif.Bridge.$p >"$T/bridge-$p.log" 2>&1) || { echo "setup: WARNING bridge of $p does not build against $REPO (the check for $p will report it)"; tail -5 "$T/bridge-$p.log"; }
  fi
done
for p in $PROPS; do
  ./harness/build.sh "$T/h" "$p" || echo "setup: WARNING harness of $p does not build against $REPO (the check for $p will report it)"
done
[ $rc = 0 ] && echo setup ok
exit $rc
