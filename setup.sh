#!/bin/sh
# Offline setup after a fresh restore: regenerate Gen/*, build the Lean library
# (models, proofs, property theorems, bridges), the driver executable, and warm the Go
# build cache with the harness compiled into /repo's working tree.
set -e
cd "$(dirname "$0")"
export GOFLAGS=-mod=mod GOPROXY=off
REPO=${VERIF_REPO:-/repo}
T=$(mktemp -d)
trap 'rm -rf "$T"' EXIT
(cd extract && go build -o "$T/extract" .)
mkdir -p lean/CueVerif/Gen
for g in $(python3 -c "import json;print(' '.join(sorted({g for p in json.load(open('props.json')).values() for g in p.get('gen',[])})))"); do
  "$T/extract" -repo "$REPO" -gen "$g" > "$T/$g.lean"
  cmp -s "$T/$g.lean" "lean/CueVerif/Gen/$g.lean" || cp "$T/$g.lean" "lean/CueVerif/Gen/$g.lean"
done
MODS=$(python3 -c "
import json,os
ps=json.load(open('props.json'))
out=[]
for p in sorted(ps):
    out.append('CueVerif.Props.'+p)
    if os.path.exists('lean/CueVerif/Bridge/'+p+'.lean'): out.append('CueVerif.Bridge.'+p)
print(' '.join(out))")
(cd lean && lake build $MODS driver)
./harness/build.sh "$T/h"
echo setup ok
