package main

func init() {
	gens["C14"] = func(o *out) {
		o.fn("internal/mod/semver", "isIdentChar", "isIdentChar", "(c : Nat) : Bool", nil)
		o.pins("internal/mod/semver", "parse", "parseInt", "parsePrerelease", "parseBuild",
			"isBadNum", "isNum", "compareInt", "comparePrerelease", "nextIdent",
			"Compare", "Canonical", "IsValid")
		o.pins("internal/mod/mvs", "NewGraph", "Graph.Require", "Graph.Selected", "Graph.BuildList", "buildList", "BuildList")
		o.pins("internal/par", "Work.Add", "Work.Do", "Work.runner", "Work.init")
		o.pins("mod/module", "Versions.Max")
		o.pins("internal/mod/modrequirements", "Requirements.readModGraph", "Requirements.cueModSummary", "NewRequirements", "Requirements.Graph", "cmpVersion")
		o.pins("internal/par", "NewQueue", "Queue.Add", "Queue.Idle")
		// extension round (session 3): the remaining operations of mvs.go (Model/MvsOps.lean)
		o.pins("internal/mod/mvs", "Req", "Upgrade", "UpgradeAll", "Downgrade", "override.Required")
	}
}
