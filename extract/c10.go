package main

// C10 facts.  Besides functions of the repository, the models of C10 transcribe code that
// lives OUTSIDE the repository but is what the repository's JSON encoder/decoder consists of:
// Go's encoding/json `appendString` + `safeSet` (string escaping; internal/encoding/json.Marshal
// is a thin wrapper around it) and cockroachdb/apd's 'G' format / SetString (number output and
// input).  They are located through the toolchain and module versions the repository itself
// selects (`go env GOROOT GOMODCACHE` run inside the repository, go.mod's apd version), so a
// toolchain or dependency bump that changes them breaks a bridge theorem.

import (
	"fmt"
	"go/ast"
	"go/token"
	"os"
	"os/exec"
	"path/filepath"
	"regexp"
	"strconv"
	"strings"
)

// c10External runs f with the extractor's root temporarily set to the file-system root, so that
// loadPkg/pin/constInt accept absolute directories (given without the leading slash).
func c10External(f func()) {
	old := repo
	repo = "/"
	defer func() { repo = old }()
	f()
}

func c10GoEnv(name string) string {
	cmd := exec.Command("go", "env", name)
	cmd.Dir = repo
	cmd.Env = append(os.Environ(), "GOFLAGS=-mod=mod", "GOPROXY=off")
	b, err := cmd.Output()
	if err != nil {
		return ""
	}
	return strings.TrimSpace(string(b))
}

func c10ApdDir() string {
	b, err := os.ReadFile(filepath.Join(repo, "go.mod"))
	if err != nil {
		return ""
	}
	m := regexp.MustCompile(`github\.com/cockroachdb/apd/v3\s+(v[^\s]+)`).FindSubmatch(b)
	if m == nil {
		return ""
	}
	mc := c10GoEnv("GOMODCACHE")
	if mc == "" {
		return ""
	}
	return filepath.Join(mc, "github.com/cockroachdb/apd/v3@"+string(m[1]))
}

func init() {
	gens["C10"] = func(o *out) {
		// ---- the repository's own code (hand-transcribed or composed in the model), pinned
		c10Pins(o, "encjson", "encoding/json", "Extract", "extract", "NewDecoder", "Decoder.Extract", "Decoder.extract", "Decoder.patchPos")
		c10Pins(o, "intjson", "internal/encoding/json", "Marshal", "PatchExpr", "hasSpaces")
		c10Pins(o, "cue", "cue", "Value.MarshalJSON", "Value.appendJSON", "structValue.appendJSON", "listAppendJSON")
		c10Pins(o, "scanner", "cue/scanner", "Scanner.scanString", "Scanner.scanEscape", "Scanner.next")
		c10Pins(o, "literal", "cue/literal", "NumInfo.decimal", "NumInfo.Decimal")
		c10Pins(o, "adt", "internal/core/adt", "UnaryExpr.evaluate")
		// the C09 models C10 composes (Model/Quote.lean `unquote`, Model/NumLit.lean automata)
		c10Pins(o, "literal", "cue/literal", "Unquote", "ParseQuotes", "QuoteInfo.Unquote", "hasClosingDelimPrefix",
			"skipWhitespaceAfterNewline", "isSimple", "unquoteChar", "unhex",
			"ParseNum", "NumInfo.next", "NumInfo.digitVal", "NumInfo.scanMantissa", "NumInfo.scanNumber")
		c10Pins(o, "scanner", "cue/scanner", "Scanner.scanNumber", "Scanner.scanMantissa")
		c10Pins(o, "pkgjson", "pkg/encoding/json", "Marshal", "MarshalStream", "Unmarshal", "UnmarshalStream")
		o.constInt("cue/parser", "maxNestLevel", "parserMaxNestLevel")

		// ---- Go's encoding/json (string escaping)
		goroot := c10GoEnv("GOROOT")
		jsonDir := strings.TrimPrefix(filepath.Join(goroot, "src/encoding/json"), "/")
		apdDir := strings.TrimPrefix(c10ApdDir(), "/")
		c10External(func() {
			if goroot == "" {
				fmt.Fprintf(o, "def goroot_unavailable : Unit := ()\n")
			} else {
				fmt.Fprintf(o, "def pin_stdjson_appendString : String := %s\n", leanStr(pin(jsonDir, "appendString")))
				c10SafeSet(o, jsonDir)
			}
			if apdDir == "" {
				fmt.Fprintf(o, "def apd_unavailable : Unit := ()\n")
			} else {
				for _, fn := range []string{"Decimal.Append", "fmtE", "fmtF", "Decimal.setString", "Decimal.setExponent",
					"Context.SetString", "Decimal.SetString", "Decimal.UnmarshalText", "Decimal.Neg", "Rounder.Round"} {
					fmt.Fprintf(o, "def pin_apd_%s : String := %s\n", leanIdent(fn), leanStr(pin(apdDir, fn)))
				}
				o.constInt(apdDir, "MaxExponent", "apdMaxExponent")
				o.constInt(apdDir, "MinExponent", "apdMinExponent")
				o.constInt(apdDir, "lowestZeroNegativeCoefficientCockroach", "apdLowestZeroExp")
			}
		})
	}
}

func c10Pins(o *out, prefix, dir string, fns ...string) {
	for _, fn := range fns {
		fmt.Fprintf(o, "def pin_%s_%s : String := %s\n", prefix, leanIdent(fn), leanStr(pin(dir, fn)))
	}
}

// c10SafeSet re-reads `var safeSet = [utf8.RuneSelf]bool{ ' ': true, … }` of encoding/json's
// tables.go and emits it as an association list (character code, value).
func c10SafeSet(o *out, dir string) {
	p := loadPkg(dir)
	e := p.findValue("safeSet")
	cl, ok := e.(*ast.CompositeLit)
	if !ok {
		fmt.Fprintf(o, "def safeSet_unavailable : Unit := ()\n")
		return
	}
	var parts []string
	for _, el := range cl.Elts {
		kv, ok := el.(*ast.KeyValueExpr)
		if !ok {
			fmt.Fprintf(o, "def safeSet_unavailable : Unit := ()\n")
			return
		}
		k, ok1 := kv.Key.(*ast.BasicLit)
		v, ok2 := kv.Value.(*ast.Ident)
		if !ok1 || !ok2 || k.Kind != token.CHAR || (v.Name != "true" && v.Name != "false") {
			fmt.Fprintf(o, "def safeSet_unavailable : Unit := ()\n")
			return
		}
		r, _, _, err := strconv.UnquoteChar(k.Value[1:len(k.Value)-1], '\'')
		if err != nil {
			fmt.Fprintf(o, "def safeSet_unavailable : Unit := ()\n")
			return
		}
		parts = append(parts, fmt.Sprintf("(%d, %s)", r, v.Name))
	}
	fmt.Fprintf(o, "/-- encoding/json.safeSet (entries not listed are false) -/\ndef safeSet : List (Nat × Bool) := [%s]\n", strings.Join(parts, ", "))
}
