package main

import (
	"fmt"
	"go/ast"
	"sort"
	"strings"
)

// c20Fields emits the key:value pairs of a package-level composite literal
// (e.g. `var subsumeProfile = subsume.Profile{Defaults: true, LeftDefault: true}`)
// as a sorted Lean `List String`.
func c20Fields(o *out, dir, goName, leanName string) {
	p := loadPkg(dir)
	e := p.findValue(goName)
	cl, ok := e.(*ast.CompositeLit)
	if !ok {
		fmt.Fprintf(o, "def %s_unavailable : Unit := ()\n", leanName)
		return
	}
	var items []string
	for _, el := range cl.Elts {
		kv, ok := el.(*ast.KeyValueExpr)
		if !ok {
			items = append(items, leanStr(p.src(el)))
			continue
		}
		items = append(items, leanStr(p.src(kv.Key)+"="+p.src(kv.Value)))
	}
	sort.Strings(items)
	fmt.Fprintf(o, "def %s : List String := [%s]\n", leanName, strings.Join(items, ", "))
	fmt.Fprintf(o, "def %s_type : String := %s\n", leanName, leanStr(p.src(cl.Type)))
}

func init() {
	gens["C20"] = func(o *out) {
		// the subsumption profile behind trim's `equallySpecific` (Model/Trim.lean
		// `equallySpecific`: defaults applied on both sides)
		c20Fields(o, "tools/trim", "subsumeProfile", "subsumeProfile")
		o.pins("tools/trim", "Files", "filesV3",
			"trimmerV3.findStaticDependencies", "trimmerV3.findPatterns", "trimmerV3.findDisjunctions",
			"trimmerV3.keepAllChildren", "trimmerV3.findConjunctForStruct", "trimmerV3.findRedundancies",
			"trimmerV3.linkResolvers", "trimmerV3.linkResolversOrig", "trimmerV3.linkStructComprehension",
			"trimmerV3.resolveElemAll", "trimmerV3.equallySpecific", "trimmerV3.solvePending",
			"trimmerV3.solveUndecideds", "trimmerV3.trim", "trimmerV3.getNodeMeta",
			"nodeMeta.isRequired", "nodeMeta._isRequired", "nodeMeta.isRequiredBy", "nodeMeta._isRequiredBy",
			"nodeMeta.isEmbedded", "nodeMeta.comprehensionDependsOn", "nodeMeta.isAncestorOf",
			"nodeMeta.addRequiredBy", "nodeMeta.markRequired",
			"nodeMetas.sort", "nodeMetas.seenCountSum", "nodeMetas.hasRequired")
		o.pins("cmd/cue/cmd", "runTrim")
		// what `equallySpecific` and `resolve` stand for in the evaluator
		o.pins("internal/core/subsume", "Profile.Value")
		o.pins("internal/core/adt", "Vertex.Default", "Disjunction.Default")
	}
}
