package main

func init() {
	gens["C09"] = func(o *out) {
		// table-like pieces, translated
		o.fn("cue/scanner", "digitVal", "scannerDigitVal", "(ch : Nat) : Nat", nil)
		o.constInt("cue/literal", "surHigh", "surHigh")
		o.constInt("cue/literal", "surLow", "surLow")
		o.constInt("cue/literal", "surEnd", "surEnd")
		o.constInt("cue/literal", "terminatedByQuote", "terminatedByQuote")
		o.constInt("cue/literal", "terminatedByExpr", "terminatedByExpr")
		o.constInt("cue/literal", "escapedNewline", "escapedNewline")
		// hand-transcribed functions, pinned
		o.pins("cue/literal", "Form.WithTabIndent", "Form.WithOptionalTabIndent", "Form.WithOptionalHashes",
			"Form.WithASCIIOnly", "Form.WithGraphicOnly", "Form.Quote", "Form.Append", "Form.appendEscaped",
			"Form.appendEscapedRune", "Form.appendEscape", "Form.isPrint", "Form.singleLineHashCount",
			"Form.requiredHashCount")
		o.pins("cue/literal", "Unquote", "ParseQuotes", "QuoteInfo.Unquote", "hasClosingDelimPrefix",
			"skipWhitespaceAfterNewline", "isSimple", "unquoteChar", "unhex")
		o.pins("cue/literal", "ParseNum", "NumInfo.next", "NumInfo.digitVal", "NumInfo.scanMantissa", "NumInfo.scanNumber", "NumInfo.decimal")
		o.pins("cue/scanner", "Scanner.scanNumber", "Scanner.scanMantissa", "Scanner.scanFieldIdentifier",
			"Scanner.scanIdentifier", "isLetter", "isDigit", "Scanner.next")
		o.pins("cue/ast", "IsValidIdent", "isLetter", "isDigit")
		// extension round (session 3): position table
		c09TokenGen(o)
		// … and the scanner as a total function
		c09ScanGen(o)
	}
}
