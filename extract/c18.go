package main

// C18: facts about tools/flow.
//   - the iota values of the State constants,
//   - Task.done's comparison as a predicate on the numeric state,
//   - the shape of Task.isReady (every dependency must be done),
//   - the guard/assignment of markReady's state loop and the state assignments of runLoop,
//   - fingerprints of every function the Lean model transcribes by hand.

import (
	"fmt"
	"go/ast"
	"go/constant"
	"go/token"
)

func init() {
	gens["C18"] = func(o *out) {
		const dir = "tools/flow"
		o.constInt(dir, "Waiting", "stateWaiting")
		o.constInt(dir, "Ready", "stateReady")
		o.constInt(dir, "Running", "stateRunning")
		o.constInt(dir, "Terminated", "stateTerminated")
		c18Done(o, dir)
		c18IsReady(o, dir)
		c18MarkReady(o, dir)
		c18RunLoop(o, dir)
		o.pins(dir, "Task.done", "Task.isReady", "Task.addDep", "Task.Fill",
			"Controller.runLoop", "Controller.markReady", "Controller.updateValue",
			"Controller.updateTaskValue", "Controller.updateTaskResults",
			"Controller.initTasks", "Controller.getTask", "Controller.findRootTasks",
			"Controller.markTaskDependencies", "Controller.findImpliedTask",
			"checkCycle", "cycleChecker.isCyclic", "cycleChecker.addCycleError",
			"New", "Controller.Run", "Controller.Value")
	}
}

func c18ConstOf(p *pkg, e ast.Expr) (int64, bool) {
	id, ok := e.(*ast.Ident)
	if !ok {
		return 0, false
	}
	v, ok := p.constVal(id.Name)
	if !ok || v.Kind() != constant.Int {
		return 0, false
	}
	n, ok := constant.Int64Val(v)
	return n, ok
}

// isSel reports whether e is `<ident>.<field>`.
func c18IsSel(e ast.Expr, field string) bool {
	s, ok := e.(*ast.SelectorExpr)
	if !ok || s.Sel.Name != field {
		return false
	}
	_, ok = s.X.(*ast.Ident)
	return ok
}

// func (t *Task) done() bool { return t.state <op> <Const> }
func c18Done(o *out, dir string) {
	p := loadPkg(dir)
	fd := p.findFunc("Task.done")
	fail := func(why string) {
		fmt.Fprintf(o, "def done_unavailable : Unit := ()  -- %s\n", why)
	}
	if fd == nil || fd.Body == nil || len(fd.Body.List) != 1 {
		fail("Task.done not a single statement")
		return
	}
	rs, ok := fd.Body.List[0].(*ast.ReturnStmt)
	if !ok || len(rs.Results) != 1 {
		fail("not a return")
		return
	}
	be, ok := rs.Results[0].(*ast.BinaryExpr)
	if !ok || !c18IsSel(be.X, "state") {
		fail("not a comparison of t.state")
		return
	}
	n, ok := c18ConstOf(p, be.Y)
	if !ok {
		fail("right operand is not a State constant")
		return
	}
	var op string
	switch be.Op {
	case token.GTR:
		op = ">"
	case token.GEQ:
		op = "≥"
	case token.LSS:
		op = "<"
	case token.LEQ:
		op = "≤"
	case token.EQL:
		op = "="
	default:
		fail("operator " + be.Op.String())
		return
	}
	fmt.Fprintf(o, "/-- translated from tools/flow Task.done: `%s` -/\ndef done (state : Nat) : Bool := decide (state %s %d)\n", p.src(rs), op, n)
}

// func (t *Task) isReady() bool { for _, d := range t.depTasks { if !d.done() { return false } }; return true }
func c18IsReady(o *out, dir string) {
	p := loadPkg(dir)
	fd := p.findFunc("Task.isReady")
	shape := "unrecognised"
	if fd != nil && fd.Body != nil && len(fd.Body.List) == 2 {
		rng, ok1 := fd.Body.List[0].(*ast.RangeStmt)
		ret, ok2 := fd.Body.List[1].(*ast.ReturnStmt)
		if ok1 && ok2 && c18IsSel(rng.X, "depTasks") && len(rng.Body.List) == 1 &&
			len(ret.Results) == 1 && p.src(ret.Results[0]) == "true" {
			if ifs, ok := rng.Body.List[0].(*ast.IfStmt); ok && ifs.Else == nil && ifs.Init == nil && len(ifs.Body.List) == 1 {
				if un, ok := ifs.Cond.(*ast.UnaryExpr); ok && un.Op == token.NOT {
					if call, ok := un.X.(*ast.CallExpr); ok && len(call.Args) == 0 && c18IsSel(call.Fun, "done") {
						if r, ok := ifs.Body.List[0].(*ast.ReturnStmt); ok && len(r.Results) == 1 && p.src(r.Results[0]) == "false" {
							shape = "all depTasks done"
						}
					}
				}
			}
		}
	}
	fmt.Fprintf(o, "def isReady_shape : String := %s\n", leanStr(shape))
}

// the first loop of markReady: if x.state == <C1> && x.isReady() { x.state = <C2> }
func c18MarkReady(o *out, dir string) {
	p := loadPkg(dir)
	fd := p.findFunc("Controller.markReady")
	from, to := int64(-1), int64(-1)
	if fd != nil && fd.Body != nil && len(fd.Body.List) > 0 {
		if rng, ok := fd.Body.List[0].(*ast.RangeStmt); ok && c18IsSel(rng.X, "tasks") && len(rng.Body.List) == 1 {
			if ifs, ok := rng.Body.List[0].(*ast.IfStmt); ok && ifs.Else == nil && ifs.Init == nil && len(ifs.Body.List) == 1 {
				if and, ok := ifs.Cond.(*ast.BinaryExpr); ok && and.Op == token.LAND {
					eq, ok1 := and.X.(*ast.BinaryExpr)
					call, ok2 := and.Y.(*ast.CallExpr)
					as, ok3 := ifs.Body.List[0].(*ast.AssignStmt)
					if ok1 && ok2 && ok3 && eq.Op == token.EQL && c18IsSel(eq.X, "state") &&
						len(call.Args) == 0 && c18IsSel(call.Fun, "isReady") &&
						as.Tok == token.ASSIGN && len(as.Lhs) == 1 && len(as.Rhs) == 1 && c18IsSel(as.Lhs[0], "state") {
						if a, ok := c18ConstOf(p, eq.Y); ok {
							if b, ok := c18ConstOf(p, as.Rhs[0]); ok {
								from, to = a, b
							}
						}
					}
				}
			}
		}
	}
	fmt.Fprintf(o, "/-- markReady: `if x.state == from && x.isReady() { x.state = to }` (-1: shape not recognised) -/\ndef markReady_from : Int := %d\ndef markReady_to : Int := %d\n", from, to)
}

// runLoop: the state written in `case Ready:` (first statement) and the state written on
// receipt of a completed task (first statement of the `case t := <-c.taskCh:` clause), and
// the loop condition.
func c18RunLoop(o *out, dir string) {
	p := loadPkg(dir)
	fd := p.findFunc("Controller.runLoop")
	dispatchFrom, dispatchTo, completeTo := int64(-1), int64(-1), int64(-1)
	loopCond := "unrecognised"
	stateAssign := func(s ast.Stmt) (int64, bool) {
		as, ok := s.(*ast.AssignStmt)
		if !ok || as.Tok != token.ASSIGN || len(as.Lhs) != 1 || len(as.Rhs) != 1 || !c18IsSel(as.Lhs[0], "state") {
			return 0, false
		}
		return c18ConstOf(p, as.Rhs[0])
	}
	if fd != nil && fd.Body != nil {
		ast.Inspect(fd.Body, func(n ast.Node) bool {
			switch x := n.(type) {
			case *ast.ForStmt:
				if x.Cond != nil && x.Init == nil && x.Post == nil && loopCond == "unrecognised" {
					loopCond = p.src(x.Cond)
				}
			case *ast.SwitchStmt:
				if x.Tag != nil && c18IsSel(x.Tag, "state") {
					for _, c := range x.Body.List {
						cc := c.(*ast.CaseClause)
						if len(cc.List) == 1 && len(cc.Body) > 0 {
							if to, ok := stateAssign(cc.Body[0]); ok {
								if from, ok := c18ConstOf(p, cc.List[0]); ok {
									dispatchFrom, dispatchTo = from, to
								}
							}
						}
					}
				}
			case *ast.CommClause:
				if as, ok := x.Comm.(*ast.AssignStmt); ok && len(as.Rhs) == 1 && len(x.Body) > 0 {
					if un, ok := as.Rhs[0].(*ast.UnaryExpr); ok && un.Op == token.ARROW && c18IsSel(un.X, "taskCh") {
						if to, ok := stateAssign(x.Body[0]); ok {
							completeTo = to
						}
					}
				}
			}
			return true
		})
	}
	fmt.Fprintf(o, "/-- runLoop: `case <from>: t.state = <to>` of the dispatch switch; state written when a completion is received; loop condition -/\n")
	fmt.Fprintf(o, "def dispatch_from : Int := %d\ndef dispatch_to : Int := %d\ndef complete_to : Int := %d\ndef loop_cond : String := %s\n",
		dispatchFrom, dispatchTo, completeTo, leanStr(loopCond))
}
