package main

import (
	"fmt"
	"go/ast"
	"go/token"
	"strconv"
	"strings"
)

func init() {
	gens["C15"] = func(o *out) {
		o.constInt("mod/modzip", "MaxZipFile", "maxZipFile")
		o.constInt("mod/modzip", "MaxCUEMod", "maxCUEMod")
		o.constInt("mod/modzip", "MaxLICENSE", "maxLICENSE")
		c15FileNameOK(o)
		c15StringTable(o, "mod/module", "badWindowsNames", "badWindowsNames")
		o.pins("mod/module", "checkPath", "checkElem", "CheckFilePath", "escapeString", "EscapePath", "EscapeVersion")
		o.pins("mod/modzip", "CheckedFiles.Err", "CheckFiles", "checkFiles", "CheckDir", "CheckZipFile", "CheckZip",
			"Create", "CreateFromDir", "isVendoredPackage", "Unzip", "collisionChecker.check",
			"listFilesInDir", "strToFold", "splitCUEMod",
			"dirFileIO.Path", "dirFileIO.Lstat", "dirFileIO.Open")
		// how the callers named in the property reach the checks
		c15Callers(o)
	}
}

// c15FileNameOK translates module.fileNameOK.  The generic translator does not know
// local `const` declarations, `utf8.RuneSelf` or `unicode.IsLetter`; the function body is
// rewritten first: the local string constant is substituted, utf8.RuneSelf becomes 128 and
// unicode.IsLetter(r) becomes a call of the Lean parameter `isLetter`.  Any other
// unexpected construct makes the translation unavailable.
func c15FileNameOK(o *out) {
	const lean = "fileNameOK"
	p := loadPkg("mod/module")
	fd := p.findFunc("fileNameOK")
	if fd == nil || fd.Body == nil {
		fmt.Fprintf(o, "def %s_unavailable : Unit := ()  -- not found\n", lean)
		return
	}
	consts := map[string]*ast.BasicLit{}
	var rewriteStmts func(ss []ast.Stmt) []ast.Stmt
	var rewriteExpr func(e ast.Expr) ast.Expr
	rewriteExpr = func(e ast.Expr) ast.Expr {
		switch x := e.(type) {
		case *ast.SelectorExpr:
			if pk, ok := x.X.(*ast.Ident); ok && pk.Name == "utf8" && x.Sel.Name == "RuneSelf" {
				return &ast.BasicLit{Kind: token.INT, Value: "128"}
			}
			return x
		case *ast.Ident:
			if lit, ok := consts[x.Name]; ok {
				return lit
			}
			return x
		case *ast.ParenExpr:
			return &ast.ParenExpr{X: rewriteExpr(x.X)}
		case *ast.UnaryExpr:
			return &ast.UnaryExpr{Op: x.Op, X: rewriteExpr(x.X)}
		case *ast.BinaryExpr:
			return &ast.BinaryExpr{X: rewriteExpr(x.X), Op: x.Op, Y: rewriteExpr(x.Y)}
		case *ast.CallExpr:
			if sel, ok := x.Fun.(*ast.SelectorExpr); ok {
				if pk, ok := sel.X.(*ast.Ident); ok && pk.Name == "unicode" && sel.Sel.Name == "IsLetter" && len(x.Args) == 1 {
					return &ast.CallExpr{Fun: ast.NewIdent("isLetter"), Args: []ast.Expr{rewriteExpr(x.Args[0])}}
				}
			}
			args := make([]ast.Expr, len(x.Args))
			for i, a := range x.Args {
				args[i] = rewriteExpr(a)
			}
			return &ast.CallExpr{Fun: x.Fun, Args: args}
		}
		return e
	}
	rewriteStmts = func(ss []ast.Stmt) []ast.Stmt {
		var outS []ast.Stmt
		for _, s := range ss {
			switch x := s.(type) {
			case *ast.DeclStmt:
				gd, ok := x.Decl.(*ast.GenDecl)
				if ok && gd.Tok == token.CONST {
					for _, sp := range gd.Specs {
						vs := sp.(*ast.ValueSpec)
						for i, n := range vs.Names {
							if i < len(vs.Values) {
								if lit, ok := vs.Values[i].(*ast.BasicLit); ok {
									consts[n.Name] = lit
								}
							}
						}
					}
					continue
				}
				outS = append(outS, s)
			case *ast.IfStmt:
				n := &ast.IfStmt{Init: x.Init, Cond: rewriteExpr(x.Cond), Body: &ast.BlockStmt{List: rewriteStmts(x.Body.List)}}
				switch el := x.Else.(type) {
				case *ast.BlockStmt:
					n.Else = &ast.BlockStmt{List: rewriteStmts(el.List)}
				case *ast.IfStmt:
					n.Else = rewriteStmts([]ast.Stmt{el})[0]
				}
				outS = append(outS, n)
			case *ast.ReturnStmt:
				rs := make([]ast.Expr, len(x.Results))
				for i, r := range x.Results {
					rs[i] = rewriteExpr(r)
				}
				outS = append(outS, &ast.ReturnStmt{Results: rs})
			default:
				outS = append(outS, s)
			}
		}
		return outS
	}
	body := rewriteStmts(fd.Body.List)
	t := &trCtx{p: p, params: map[string]bool{}, calls: map[string]string{"isLetter": "isLetter"}}
	for _, f := range fd.Type.Params.List {
		for _, n := range f.Names {
			t.params[n.Name] = true
		}
	}
	if len(t.params) != 1 || !t.params["r"] {
		fmt.Fprintf(o, "def %s_unavailable : Unit := ()  -- unexpected parameters\n", lean)
		return
	}
	res := t.stmts(body)
	if t.err != nil {
		fmt.Fprintf(o, "def %s_unavailable : Unit := ()  -- %v\n", lean, t.err)
		return
	}
	fmt.Fprintf(o, "/-- translated from mod/module.fileNameOK (utf8.RuneSelf = 128, unicode.IsLetter = parameter) -/\ndef %s (isLetter : Nat → Bool) (r : Nat) : Bool :=\n  %s\n", lean, res)
}

// c15StringTable emits a package-level `[]string{...}` of literals as a list of byte lists.
func c15StringTable(o *out, dir, goName, lean string) {
	p := loadPkg(dir)
	v := p.findValue(goName)
	cl, ok := v.(*ast.CompositeLit)
	if !ok {
		fmt.Fprintf(o, "def %s_unavailable : Unit := ()\n", lean)
		return
	}
	var items []string
	for _, e := range cl.Elts {
		lit, ok := e.(*ast.BasicLit)
		if !ok || lit.Kind != token.STRING {
			fmt.Fprintf(o, "def %s_unavailable : Unit := ()\n", lean)
			return
		}
		s, err := strconv.Unquote(lit.Value)
		if err != nil {
			fmt.Fprintf(o, "def %s_unavailable : Unit := ()\n", lean)
			return
		}
		var bs []string
		for i := 0; i < len(s); i++ {
			bs = append(bs, strconv.Itoa(int(s[i])))
		}
		items = append(items, "["+strings.Join(bs, ",")+"]")
	}
	fmt.Fprintf(o, "/-- %s.%s as byte strings -/\ndef %s : List (List Nat) :=\n  [%s]\n", dir, goName, lean, strings.Join(items, ","))
}

// c15Callers records which functions of a package call modzip.Unzip / modzip.CheckZip
// (the shared-core facts: every extraction goes through Unzip, which is pinned).
func c15Callers(o *out) {
	for _, q := range []struct{ dir, sel, lean string }{
		{"mod/modcache", "Unzip", "callers_modcache_Unzip"},
		{"mod/modregistry", "CheckZip", "callers_modregistry_CheckZip"},
	} {
		p := loadPkg(q.dir)
		var names []string
		for _, f := range p.files {
			for _, d := range f.Decls {
				fd, ok := d.(*ast.FuncDecl)
				if !ok || fd.Body == nil {
					continue
				}
				found := false
				ast.Inspect(fd.Body, func(n ast.Node) bool {
					if ce, ok := n.(*ast.CallExpr); ok {
						if sel, ok := ce.Fun.(*ast.SelectorExpr); ok {
							if pk, ok := sel.X.(*ast.Ident); ok && pk.Name == "modzip" && sel.Sel.Name == q.sel {
								found = true
							}
						}
					}
					return true
				})
				if found {
					n := fd.Name.Name
					if fd.Recv != nil && len(fd.Recv.List) > 0 {
						n = typeName(fd.Recv.List[0].Type) + "." + n
					}
					names = append(names, leanStr(n))
				}
			}
		}
		fmt.Fprintf(o, "def %s : List String := [%s]\n", q.lean, strings.Join(names, ", "))
	}
}
