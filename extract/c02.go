package main

func init() {
	gens["C02"] = func(o *out) {
		// errors.Sanitize and the position comparison it sorts with (Model/Sanitize.lean)
		o.pins("cue/errors", "Sanitize", "list.sanitize", "list.removeMultiples", "comparePosWithNoPosFirst",
			"Print", "Errors", "appendToList")
		o.pins("cue/token", "Pos.Compare", "Pos.IsValid", "Pos.Filename", "Pos.Offset", "Pos.HasAbsPos")
		// toposort.Graph.Sort and Tarjan's algorithm (Model/Toposort.lean)
		o.pins("internal/core/toposort", "indexComparison.compareNodeByName", "indexComparison.compareComponentsByNodes",
			"Graph.Sort", "appendNodes", "Graph.StronglyConnectedComponents", "sccFinderState.findSCC",
			"GraphBuilder.Build", "GraphBuilder.AddEdge", "GraphBuilder.EnsureNode")
		// graph construction from struct literals (Model/VertexFeatures.lean)
		o.pins("internal/core/toposort", "VertexFeatures", "vertexFeatures.addEdges", "vertexFeatures.compareStructMeta",
			"structMetaBatch.isExplicit", "structMetaBatches.appendBatch", "analyseStructs", "structMeta.hasDynamic")
		// the scanner's dispatch and loops (Model/ScanLoops.lean); scanNumber/scanMantissa are
		// NOT transcribed (their extent is an oracle of the model; C09 owns the number automaton)
		o.pins("cue/scanner", "Scanner.next", "Scanner.Init", "isLetter", "isDigit", "digitVal",
			"Scanner.scanIdentifier", "Scanner.scanFieldIdentifier", "Scanner.scanComment", "Scanner.skipWhitespace",
			"Scanner.recoverParen", "Scanner.consumeQuotes", "Scanner.scanHashes", "Scanner.consumeStringClose",
			"Scanner.scanEscape", "Scanner.scanString", "Scanner.popInterpolation", "Scanner.ResumeInterpolation",
			"Scanner.scanAttribute", "Scanner.scanAttributeTokens", "Scanner.switch2", "Scanner.Scan")
	}
}
