package main

func init() {
	gens["C02"] = func(o *out) {
		// errors.Sanitize and the position comparison it sorts with (Model/Sanitize.lean)
		o.pins("cue/errors", "Sanitize", "list.sanitize", "list.removeMultiples", "comparePosWithNoPosFirst",
			"Print", "Errors", "appendToList")
		o.pins("cue/token", "Pos.Compare", "Pos.IsValid", "Pos.Filename", "Pos.Offset", "Pos.HasAbsPos")
		// toposort.Graph.Sort and Tarjan's algorithm (Model/Toposort.lean)
		o.pins("internal/core/toposort", "indexComparison.compareNodeByName", "indexComparison.compareComponentsByNodes",
			"Graph.Sort", "appendNodes", "Graph.StronglyConnectedComponents", "sccFinderState.findSCC",
			"GraphBuilder.Build", "GraphBuilder.AddEdge", "GraphBuilder.EnsureNode")
	}
}
