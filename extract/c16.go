package main

import (
	"fmt"
	"go/ast"
	"go/token"
	"strconv"
	"strings"
)

// c16Watch is the set of calls that are file-system effects, lock operations, registry
// calls or single-flight entries of the module-cache protocol (the text of the called
// expression as written in the source).
var c16Watch = map[string]bool{
	"c.downloadDir": true, "c.downloadZip": true, "c.downloadZip1": true, "c.lockVersion": true,
	"unlock": true, "os.ReadDir": true, "RemoveAll": true, "robustio.RemoveAll": true,
	"os.MkdirAll": true, "robustio.WriteFile": true, "modzip.Unzip": true, "os.Remove": true,
	"makeDirsReadOnly": true, "os.Stat": true, "filepath.Glob": true, "tempFile": true,
	"c.reg.GetModule": true, "m.GetZip": true, "m.ModuleFile": true, "io.Copy": true,
	"f.Close": true, "f.Write": true, "os.Rename": true, "robustio.Rename": true,
	"robustio.ReadFile": true, "os.OpenFile": true, "os.Open": true, "zf.Open": true,
	"w.Close": true, "CheckZip": true, "c.downloadZipCache.Do": true, "c.modFileCache.Do": true,
	"c.fetchModFileData": true, "c.readDiskModFile": true, "c.readDiskCache": true,
	"c.downloadModFile1": true, "c.writeDiskModFile": true, "c.writeDiskCache": true,
	"lockedfile.MutexAt(path).Lock": true, "os.WriteFile": true, "os.Create": true,
}

// effects emits, for one function, the watched calls and the hook points in source order:
// `def <lean> : List String := ["c.downloadDir", …, "hook:fetch.locked", "defer unlock", …]`
// and `def <lean>_hooks : List String` with the hook names alone.
func (o *out) effects(dir, fn, lean string) {
	p := loadPkg(dir)
	fd := p.findFunc(fn)
	if fd == nil || fd.Body == nil {
		fmt.Fprintf(o, "def %s_unavailable : Unit := ()  -- %s not found\n", lean, fn)
		return
	}
	var evs, hooks []string
	deferred := map[*ast.CallExpr]bool{}
	ast.Inspect(fd.Body, func(n ast.Node) bool {
		switch x := n.(type) {
		case *ast.DeferStmt:
			deferred[x.Call] = true
		case *ast.CallExpr:
			name := p.src(x.Fun)
			if name == "verifhook.At" && len(x.Args) == 1 {
				if lit, ok := x.Args[0].(*ast.BasicLit); ok && lit.Kind == token.STRING {
					s, _ := strconv.Unquote(lit.Value)
					evs = append(evs, "hook:"+s)
					hooks = append(hooks, s)
				} else {
					evs = append(evs, "hook:?")
				}
				return true
			}
			if c16Watch[name] {
				if name == "os.Stat" && len(x.Args) == 1 {
					// which path is examined matters (directory before marker, …)
					name = "os.Stat(" + p.src(x.Args[0]) + ")"
				}
				if deferred[x] {
					name = "defer " + name
				}
				evs = append(evs, name)
			}
		}
		return true
	})
	q := func(xs []string) string {
		var ys []string
		for _, x := range xs {
			ys = append(ys, leanStr(x))
		}
		return "[" + strings.Join(ys, ", ") + "]"
	}
	fmt.Fprintf(o, "/-- watched calls and hook points of %s.%s in source order -/\ndef %s : List String := %s\n", dir, fn, lean, q(evs))
	fmt.Fprintf(o, "def %s_hooks : List String := %s\n", lean, q(hooks))
}

// removals emits the RemoveAll calls of a function with the conditions of the enclosing
// if statements ("RemoveAll(<arg>) if <cond> && <cond>"), the defining statements of a few
// local names, and the string literal appended to filepath.Base(dir) in tmpPrefix.
func (o *out) removals(dir, fn, lean string, names ...string) {
	p := loadPkg(dir)
	fd := p.findFunc(fn)
	if fd == nil || fd.Body == nil {
		fmt.Fprintf(o, "def %s_unavailable : Unit := ()  -- %s not found\n", lean, fn)
		return
	}
	var rem []string
	var walk func(n ast.Node, conds []string)
	walk = func(n ast.Node, conds []string) {
		switch x := n.(type) {
		case nil:
			return
		case *ast.IfStmt:
			walk(x.Init, conds)
			c := append(append([]string{}, conds...), p.src(x.Cond))
			walk(x.Cond, conds)
			walk(x.Body, c)
			if x.Else != nil {
				walk(x.Else, append(append([]string{}, conds...), "!("+p.src(x.Cond)+")"))
			}
			return
		case *ast.CallExpr:
			if name := p.src(x.Fun); (name == "RemoveAll" || name == "os.RemoveAll" || name == "robustio.RemoveAll") && len(x.Args) == 1 {
				s := "RemoveAll(" + p.src(x.Args[0]) + ")"
				if len(conds) > 0 {
					s += " if " + strings.Join(conds, " && ")
				}
				rem = append(rem, s)
			}
		}
		// generic descent in source order
		var kids []ast.Node
		ast.Inspect(n, func(c ast.Node) bool {
			if c == n {
				return true
			}
			if c != nil {
				kids = append(kids, c)
			}
			return false
		})
		for _, k := range kids {
			walk(k, conds)
		}
	}
	walk(fd.Body, nil)
	want := map[string]bool{}
	for _, n := range names {
		want[n] = true
	}
	var defs []string
	suffix := "?"
	ast.Inspect(fd.Body, func(n ast.Node) bool {
		as, ok := n.(*ast.AssignStmt)
		if !ok || as.Tok != token.DEFINE {
			return true
		}
		for _, l := range as.Lhs {
			if id, ok := l.(*ast.Ident); ok && want[id.Name] {
				defs = append(defs, p.src(as))
				if id.Name == "tmpPrefix" && len(as.Rhs) == 1 {
					if be, ok := as.Rhs[0].(*ast.BinaryExpr); ok && be.Op == token.ADD && p.src(be.X) == "filepath.Base(dir)" {
						if lit, ok := be.Y.(*ast.BasicLit); ok && lit.Kind == token.STRING {
							suffix, _ = strconv.Unquote(lit.Value)
						}
					}
				}
				break
			}
		}
		return true
	})
	q := func(xs []string) string {
		var ys []string
		for _, x := range xs {
			ys = append(ys, leanStr(x))
		}
		return "[" + strings.Join(ys, ", ") + "]"
	}
	fmt.Fprintf(o, "/-- RemoveAll calls of %s.%s with the conditions guarding them -/\ndef %s_removes : List String := %s\n", dir, fn, lean, q(rem))
	fmt.Fprintf(o, "def %s_defs : List String := %s\n", lean, q(defs))
	fmt.Fprintf(o, "/-- the literal appended to filepath.Base(dir) to form the sibling-cleanup prefix -/\ndef cleanup_tmp_suffix : String := %s\n", leanStr(suffix))
}

func init() {
	gens["C16"] = func(o *out) {
		o.removals("mod/modcache", "Cache.Fetch", "fx_Fetch", "parentDir", "tmpPrefix", "entries", "dirExists", "suffix")
		o.effects("mod/modcache", "Cache.Fetch", "fx_Fetch")
		o.effects("mod/modcache", "Cache.FetchFromCache", "fx_FetchFromCache")
		o.effects("mod/modcache", "Cache.downloadZip", "fx_downloadZip")
		o.effects("mod/modcache", "Cache.downloadZip1", "fx_downloadZip1")
		o.effects("mod/modcache", "Cache.downloadDir", "fx_downloadDir")
		o.effects("mod/modcache", "Cache.ModFile", "fx_ModFile")
		o.effects("mod/modcache", "Cache.fetchModFileData", "fx_fetchModFileData")
		o.effects("mod/modcache", "Cache.downloadModFile1", "fx_downloadModFile1")
		o.effects("mod/modcache", "Cache.readDiskCache", "fx_readDiskCache")
		o.effects("mod/modcache", "Cache.writeDiskCache", "fx_writeDiskCache")
		o.effects("mod/modcache", "Cache.lockVersion", "fx_lockVersion")
		o.effects("mod/modzip", "Unzip", "fx_Unzip")
		o.pins("mod/modcache", "Cache.Fetch", "Cache.FetchFromCache", "Cache.downloadZip", "Cache.downloadZip1",
			"Cache.downloadDir", "Cache.cachePath", "Cache.lockVersion", "Cache.writeDiskCache",
			"Cache.readDiskCache", "Cache.readDiskModFile", "Cache.writeDiskModFile",
			"Cache.fetchModFileData", "Cache.downloadModFile1", "Cache.ModFile", "tempFile", "RemoveAll", "isAllDigits", "isVersionDir",
			"downloadDirPartialError.Is")
		o.pins("mod/modzip", "Unzip")
		o.pins("internal/par", "ErrCache.Do", "Cache.Do")
		o.pins("internal/robustio", "Rename", "RemoveAll", "WriteFile", "ReadFile")
		o.pins("mod/modregistry", "Module.GetZip", "Module.ModuleFile")
	}
}
