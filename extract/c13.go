package main

import (
	"crypto/sha256"
	"encoding/hex"
	"fmt"
)

func init() {
	gens["C13"] = func(o *out) {
		// hand-transcribed by Model/JsonSchemaSkel.lean: the kind-indexed disjunction assembly,
		// the combinator encodings, the mask arithmetic of type/enum/const, and the two
		// validators the encodings rely on
		o.pins("encoding/jsonschema", "state.finalize", "kindToAST",
			"constraintAllOf", "constraintAnyOf", "constraintOneOf", "constraintNot", "constraintIfThenElse",
			"matchN", "constraintType", "constraintEnum", "constraintConst",
			"boolSchema", "errorDisallowed", "state.hasConstraints", "constraintInfo.add", "state.add")
		o.pinValue13("encoding/jsonschema", "coreToCUE", "pin_jsonschema_coreToCUE")
		o.pinValue13("encoding/jsonschema", "allTypes", "pin_jsonschema_allTypes")
		o.pinValue13("internal/core/compile", "matchNBuiltin", "pin_compile_matchNBuiltin")
		o.pinValue13("internal/core/compile", "matchIfBuiltin", "pin_compile_matchIfBuiltin")
		o.pins("internal/core/compile", "checkNum", "finalizeSelf")
		// hand-transcribed by Model/JsonSchemaCC.lean (session 3): the per-keyword builders of the
		// number / string / array families, constValue, the helpers they go through, schemaState
		// (phases, bool schemas) and the phase table
		o.pins("encoding/jsonschema",
			"constraintMinimum", "constraintMaximum", "constraintExclusiveMinimum", "constraintExclusiveMaximum",
			"constraintMultipleOf", "constraintMinLength", "constraintMaxLength", "constraintPattern",
			"constraintMinItems", "constraintMaxItems", "constraintUniqueItems", "constraintMinContains",
			"constraintMaxContains", "constraintContains", "constraintItems", "constraintPrefixItems",
			"setAdditionalItems", "constraintIf", "constraintThen", "constraintElse",
			"state.constValue", "state.schemaState", "state.schema", "isTop", "isErrorCall", "top",
			"decoder.number", "decoder.uint", "uint64Value", "decoder.regexpValue")
		o.pinValue13("encoding/jsonschema", "constraints", "pin_jsonschema_constraints")
	}
}

// pinValue13 fingerprints the initialiser of a package-level var/const (same as C05's
// pinValue; duplicated because every property compiles only its own extractor files).
func (o *out) pinValue13(dir, name, leanName string) {
	p := loadPkg(dir)
	e := p.findValue(name)
	if e == nil {
		fmt.Fprintf(o, "def %s : String := \"unavailable\"\n", leanName)
		return
	}
	h := sha256.Sum256([]byte(p.src(e)))
	fmt.Fprintf(o, "def %s : String := %s\n", leanName, leanStr(hex.EncodeToString(h[:8])))
}
