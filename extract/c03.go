package main

// Facts regenerated for C03 (scalar / bound lattice):
//   - adt.Kind bit constants, adt.opInfo as a table, adt.cmpTonode as a table,
//     compile.predefinedRanges as a table of exact integers, internal.BaseContext precision;
//   - fingerprints of the functions the Lean model transcribes by hand.

import (
	"fmt"
	"go/ast"
	"go/token"
	"math/big"
	"sort"
	"strconv"
	"strings"
)

func init() {
	gens["C03"] = func(o *out) {
		const adt = "internal/core/adt"
		for _, k := range []string{"NullKind", "BoolKind", "IntKind", "FloatKind", "StringKind", "BytesKind", "NumberKind", "TopKind", "BottomKind"} {
			o.constInt(adt, k, k)
		}
		c03OpInfo(o)
		c03CmpTonode(o)
		c03Ranges(o)
		c03Precision(o)
		o.pins(adt, "SimplifyBounds", "errIncompatibleBounds", "opInfo", "cmpTonode", "BinOpBool", "BinOp",
			"BoundValue.Kind", "BoundValue.validate", "BoundExpr.evaluate",
			"nodeContext.insertValueConjunct", "nodeContext.updateNodeType",
			"nodeContext.validateValue", "nodeContext.getValidators")
		o.pins("internal/core/compile", "mkIntRange", "mkFloatRange", "mkUint", "newBound")
	}
}

// c03OpInfo translates `func opInfo(op Op) (cmp Op, norm int)`: a switch over op whose cases
// return two values.
func c03OpInfo(o *out) {
	p := loadPkg("internal/core/adt")
	fd := p.findFunc("opInfo")
	if fd == nil || fd.Body == nil {
		fmt.Fprintf(o, "def opInfo_unavailable : Unit := ()\n")
		return
	}
	var rows []string
	ok := false
	for _, st := range fd.Body.List {
		sw, isSw := st.(*ast.SwitchStmt)
		if !isSw {
			continue
		}
		ok = true
		for _, c := range sw.Body.List {
			cc := c.(*ast.CaseClause)
			if len(cc.Body) != 1 {
				ok = false
				continue
			}
			ret, isRet := cc.Body[0].(*ast.ReturnStmt)
			if !isRet || len(ret.Results) != 2 {
				ok = false
				continue
			}
			cmp := p.src(ret.Results[0])
			norm := p.src(ret.Results[1])
			n, err := strconv.Atoi(strings.ReplaceAll(norm, " ", ""))
			if err != nil {
				ok = false
				continue
			}
			for _, e := range cc.List {
				rows = append(rows, fmt.Sprintf("(%s, %s, %d)", leanStr(p.src(e)), leanStr(cmp), n))
			}
		}
	}
	if !ok {
		fmt.Fprintf(o, "def opInfo_unavailable : Unit := ()\n")
		return
	}
	fmt.Fprintf(o, "/-- adt.opInfo: (op, comparison used to tighten, category) in source order -/\ndef opInfo : List (String × String × Int) :=\n  [%s]\n", strings.Join(rows, ",\n   "))
}

// c03CmpTonode translates the switch of cmpTonode: `case ops: result = <expr over r>`.
func c03CmpTonode(o *out) {
	p := loadPkg("internal/core/adt")
	fd := p.findFunc("cmpTonode")
	if fd == nil || fd.Body == nil {
		fmt.Fprintf(o, "def cmpTonode_unavailable : Unit := ()\n")
		return
	}
	var rows []string
	ok := false
	for _, st := range fd.Body.List {
		sw, isSw := st.(*ast.SwitchStmt)
		if !isSw {
			continue
		}
		ok = true
		for _, c := range sw.Body.List {
			cc := c.(*ast.CaseClause)
			if len(cc.Body) != 1 {
				ok = false
				continue
			}
			as, isAs := cc.Body[0].(*ast.AssignStmt)
			if !isAs || len(as.Rhs) != 1 || as.Tok != token.ASSIGN {
				ok = false
				continue
			}
			for _, e := range cc.List {
				rows = append(rows, fmt.Sprintf("(%s, %s)", leanStr(p.src(e)), leanStr(p.src(as.Rhs[0]))))
			}
		}
	}
	if !ok {
		fmt.Fprintf(o, "def cmpTonode_unavailable : Unit := ()\n")
		return
	}
	fmt.Fprintf(o, "/-- adt.cmpTonode: (op, truth of the comparison in terms of the three-way result r) -/\ndef cmpTonode : List (String × String) :=\n  [%s]\n", strings.Join(rows, ",\n   "))
}

// c03DecParts parses a decimal literal the way apd.SetString does: coefficient and exponent.
func c03DecParts(s string) (*big.Int, int, bool) {
	neg := strings.HasPrefix(s, "-")
	s = strings.TrimPrefix(strings.TrimPrefix(s, "-"), "+")
	exp := 0
	if i := strings.IndexAny(s, "eE"); i >= 0 {
		e, err := strconv.Atoi(strings.TrimPrefix(s[i+1:], "+"))
		if err != nil {
			return nil, 0, false
		}
		exp = e
		s = s[:i]
	}
	if i := strings.IndexByte(s, '.'); i >= 0 {
		exp -= len(s) - i - 1
		s = s[:i] + s[i+1:]
	}
	z, ok := new(big.Int).SetString(s, 10)
	if !ok {
		return nil, 0, false
	}
	if neg {
		z.Neg(z)
	}
	return z, exp, true
}

// c03Ranges translates compile.predefinedRanges: name, constructor, and the exact numbers.
// int ranges: (name, "int", lo, hi); uint: (name, "uint", 0, 0);
// float ranges: (name, "float", coefficient of the upper bound, its exponent) — the lower bound
// must be the negation.
func c03Ranges(o *out) {
	p := loadPkg("internal/core/compile")
	v := p.findValue("predefinedRanges")
	cl, isCl := v.(*ast.CompositeLit)
	if !isCl {
		fmt.Fprintf(o, "def ranges_unavailable : Unit := ()\n")
		return
	}
	strArg := func(e ast.Expr) (string, bool) {
		switch x := e.(type) {
		case *ast.BasicLit:
			if x.Kind == token.STRING {
				s, err := strconv.Unquote(x.Value)
				return s, err == nil
			}
		case *ast.CallExpr: // strconv.Itoa(0x10FFFF)
			if len(x.Args) == 1 {
				if bl, ok := x.Args[0].(*ast.BasicLit); ok && bl.Kind == token.INT {
					n, err := strconv.ParseInt(bl.Value, 0, 64)
					return strconv.FormatInt(n, 10), err == nil
				}
			}
		}
		return "", false
	}
	var rows []string
	ok := true
	for _, el := range cl.Elts {
		kv, isKV := el.(*ast.KeyValueExpr)
		if !isKV {
			ok = false
			continue
		}
		name, ok1 := strArg(kv.Key)
		call, isCall := kv.Value.(*ast.CallExpr)
		if !ok1 || !isCall {
			ok = false
			continue
		}
		fn := p.src(call.Fun)
		switch fn {
		case "mkUint":
			rows = append(rows, fmt.Sprintf("(%s, \"uint\", 0, 0)", leanStr(name)))
		case "mkIntRange":
			if len(call.Args) != 2 {
				ok = false
				continue
			}
			a, oka := strArg(call.Args[0])
			b, okb := strArg(call.Args[1])
			za, ea, ok2 := c03DecParts(a)
			zb, eb, ok3 := c03DecParts(b)
			if !oka || !okb || !ok2 || !ok3 || ea != 0 || eb != 0 {
				ok = false
				continue
			}
			rows = append(rows, fmt.Sprintf("(%s, \"int\", %s, %s)", leanStr(name), za.String(), zb.String()))
		case "mkFloatRange":
			if len(call.Args) != 2 {
				ok = false
				continue
			}
			a, oka := strArg(call.Args[0])
			b, okb := strArg(call.Args[1])
			za, ea, ok2 := c03DecParts(a)
			zb, eb, ok3 := c03DecParts(b)
			if !oka || !okb || !ok2 || !ok3 || ea != eb || new(big.Int).Neg(za).Cmp(zb) != 0 {
				ok = false
				continue
			}
			rows = append(rows, fmt.Sprintf("(%s, \"float\", %s, %d)", leanStr(name), zb.String(), eb))
		default:
			ok = false
		}
	}
	if !ok {
		fmt.Fprintf(o, "def ranges_unavailable : Unit := ()\n")
		return
	}
	sort.Strings(rows)
	fmt.Fprintf(o, "/-- compile.predefinedRanges, sorted by name -/\ndef ranges : List (String × String × Int × Int) :=\n  [%s]\n", strings.Join(rows, ",\n   "))
}

// c03Precision finds `BaseContext = Context{*apd.BaseContext.WithPrecision(N)}` in package internal.
func c03Precision(o *out) {
	p := loadPkg("internal")
	v := p.findValue("BaseContext")
	found := ""
	if v != nil {
		ast.Inspect(v, func(n ast.Node) bool {
			if call, ok := n.(*ast.CallExpr); ok {
				if sel, ok := call.Fun.(*ast.SelectorExpr); ok && sel.Sel.Name == "WithPrecision" && len(call.Args) == 1 {
					if bl, ok := call.Args[0].(*ast.BasicLit); ok && bl.Kind == token.INT {
						found = bl.Value
					}
				}
			}
			return true
		})
	}
	if found == "" {
		fmt.Fprintf(o, "def basePrecision_unavailable : Unit := ()\n")
		return
	}
	fmt.Fprintf(o, "def basePrecision : Nat := %s\n", found)
}
