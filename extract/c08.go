package main

import (
	"crypto/sha256"
	"encoding/hex"
	"fmt"
	"go/ast"
	"strings"
)

// fnRecv is o.fn for a method whose only "parameter" is its receiver
// (func (tok Token) Precedence() int): the receiver name is made a parameter.
func (o *out) fnRecv(dir, goName, leanName, sig string) {
	p := loadPkg(dir)
	fd := p.findFunc(goName)
	if fd == nil || fd.Body == nil || fd.Recv == nil || len(fd.Recv.List) != 1 || len(fd.Recv.List[0].Names) != 1 {
		fmt.Fprintf(o, "def %s_unavailable : Unit := ()  -- %s not found\n", leanName, goName)
		return
	}
	t := &trCtx{p: p, params: map[string]bool{fd.Recv.List[0].Names[0].Name: true}}
	body := t.stmts(fd.Body.List)
	if t.err != nil {
		fmt.Fprintf(o, "def %s_unavailable : Unit := ()  -- %s: %v\n", leanName, goName, t.err)
		return
	}
	fmt.Fprintf(o, "/-- translated from %s.%s (receiver: %s) -/\ndef %s %s :=\n  %s\n", dir, goName,
		fd.Recv.List[0].Names[0].Name, leanName, sig, body)
}

// pinCases fingerprints single `case *ast.T:` clauses of the (first) type switch in a
// function, so that unrelated arms of a large switch do not disturb the pin.
func (o *out) pinCases(dir, fn string, types ...string) {
	p := loadPkg(dir)
	fd := p.findFunc(fn)
	found := map[string]string{}
	if fd != nil && fd.Body != nil {
		ast.Inspect(fd.Body, func(n ast.Node) bool {
			ts, ok := n.(*ast.TypeSwitchStmt)
			if !ok {
				return true
			}
			for _, c := range ts.Body.List {
				cc := c.(*ast.CaseClause)
				for _, e := range cc.List {
					name := strings.TrimPrefix(p.src(e), "*ast.")
					if _, dup := found[name]; dup {
						continue
					}
					var sb strings.Builder
					for _, s := range cc.Body {
						sb.WriteString(p.src(s))
						sb.WriteString(" ; ")
					}
					h := sha256.Sum256([]byte(sb.String()))
					found[name] = hex.EncodeToString(h[:8])
				}
			}
			return false
		})
	}
	for _, t := range types {
		v, ok := found[t]
		if !ok {
			v = "unavailable"
		}
		fmt.Fprintf(o, "def pin_%s_%s_case_%s : String := %s\n", leanIdent(strings.TrimSuffix(dir[strings.LastIndex(dir, "/")+1:], "")), leanIdent(fn), t, leanStr(v))
	}
}

// c08Tokens are the operator tokens of the model, in the model's order.
var c08Tokens = []string{"ADD", "SUB", "MUL", "QUO", "AND", "OR", "LAND", "LOR", "BIND", "EQL", "LSS", "GTR", "NOT", "ARROW",
	"NEQ", "LEQ", "GEQ", "MAT", "NMAT", "LPAREN", "LBRACK", "LBRACE", "COMMA", "PERIOD", "ELLIPSIS",
	"RPAREN", "RBRACK", "RBRACE", "SEMICOLON", "COLON", "OPTION", "TILDE"}

func init() {
	gens["C08"] = func(o *out) {
		// the precedence table and the token numbering it is indexed by
		o.fnRecv("cue/token", "Token.Precedence", "precedence", "(tok : Nat) : Nat")
		for _, t := range c08Tokens {
			o.constInt("cue/token", t, "tok_"+t)
		}
		o.constInt("cue/token", "IDENT", "tok_IDENT")
		o.constInt("cue/token", "INT", "tok_INT")
		o.constInt("cue/token", "LowestPrec", "lowestPrec")
		o.constInt("cue/token", "UnaryPrec", "unaryPrec")
		o.constInt("cue/token", "HighestPrec", "highestPrec")
		// hand-transcribed: scanner, parser
		o.pins("cue/scanner", "Scanner.Scan", "Scanner.switch2", "Scanner.scanFieldIdentifier", "isLetter", "isDigit")
		o.pins("cue/parser", "parser.parseBinaryExpr", "parser.parseBinaryExprTail", "parser.parseUnaryExpr")
		// v1 formatter: the expression arms of exprRaw + the spacing helpers
		o.pinCases("cue/format", "formatter.exprRaw", "BinaryExpr", "UnaryExpr", "ParenExpr", "Ident", "BasicLit")
		o.pins("cue/format", "formatter.binaryExpr", "walkBinary", "cutoff", "diffPrec", "reduceDepth", "mayCombine", "unaryOpMergesWithOperand",
			"formatter.expr", "formatter.expr0", "formatter.expr1")
		// v2 formatter
		o.pins("internal/pretty", "converter.unaryExpr", "converter.binaryExprPrec", "converter.binaryOperand",
			"wrapForPrecedence", "binaryCutoff", "binaryWalk", "binaryDiffPrec", "operatorsWouldMerge",
			"unaryOpMergesWithOperand", "converter.parenExpr")
		// which formatter format.Node/Source select, and what `cue fmt` does with the result
		o.pins("cue/format", "Node", "Source")
		o.pins("cmd/cue/cmd", "formatFile")
	}
}
