package main

// C09 extension: facts for lean/CueVerif/Model/Scan.lean — the keyword table of
// cue/token, the comma-insertion rule of doc/ref/spec.md §Commas, pins of the scanner
// functions transcribed by hand.

import (
	"fmt"
	"go/ast"
	"go/parser"
	"go/token"
	"os"
	"path/filepath"
	"regexp"
	"strings"
)

func leanStrList(xs []string) string {
	var q []string
	for _, x := range xs {
		q = append(q, leanStr(x))
	}
	return "[" + strings.Join(q, ", ") + "]"
}

// c09Keywords reads the line comments of the constants between keywordBeg and keywordEnd
// in cue/token/token.go (the strings token.Lookup maps to keyword tokens).
func c09Keywords() ([]string, bool) {
	fset := token.NewFileSet()
	f, err := parser.ParseFile(fset, filepath.Join(repo, "cue/token/token.go"), nil, parser.ParseComments)
	if err != nil {
		return nil, false
	}
	var out []string
	in, done := false, false
	for _, d := range f.Decls {
		gd, ok := d.(*ast.GenDecl)
		if !ok || gd.Tok != token.CONST {
			continue
		}
		for _, s := range gd.Specs {
			vs := s.(*ast.ValueSpec)
			for _, n := range vs.Names {
				switch {
				case n.Name == "keywordBeg":
					in = true
				case n.Name == "keywordEnd":
					in, done = false, true
				case in:
					if vs.Comment == nil {
						return nil, false
					}
					out = append(out, strings.TrimSpace(vs.Comment.Text()))
				}
			}
		}
	}
	return out, done && len(out) > 0
}

// c09SpecCommas reads the bullet list of doc/ref/spec.md §Commas ("a comma is automatically
// inserted … after a line's final token if that token is") and translates it into token
// kind names: words → kinds, back-quoted characters → their tokens.
func c09SpecCommas() (bullets []string, kinds []string, ok bool) {
	b, err := os.ReadFile(filepath.Join(repo, "doc/ref/spec.md"))
	if err != nil {
		return nil, nil, false
	}
	lines := strings.Split(string(b), "\n")
	i := 0
	for i < len(lines) && strings.TrimSpace(lines[i]) != "### Commas" {
		i++
	}
	for i < len(lines) && !strings.Contains(lines[i], "if that token is") {
		i++
	}
	if i >= len(lines) {
		return nil, nil, false
	}
	i++
	for i < len(lines) && strings.TrimSpace(lines[i]) == "" {
		i++
	}
	for i < len(lines) && strings.HasPrefix(lines[i], "- ") {
		bullets = append(bullets, strings.TrimSpace(lines[i][2:]))
		i++
	}
	words := []struct{ re, kinds string }{
		{`\bidentifier\b`, "IDENT"}, {`\bkeyword\b`, "KEYWORD"}, {`\bbottom\b`, "BOTTOM"}, {`\bnumber\b`, "INT FLOAT"},
		{`\bstring literal\b`, "STRING"}, {`\binterpolation\b`, "INTERPOLATION"}, {`\battribute\b`, "ATTRIBUTE"},
	}
	chars := map[string]string{")": "RPAREN", "]": "RBRACK", "}": "RBRACE", "?": "OPTION", "...": "ELLIPSIS", ";": "SEMICOLON", "(": "LPAREN", "[": "LBRACK", "{": "LBRACE", ",": "COMMA", ":": "COLON"}
	tick := regexp.MustCompile("`([^`]+)`")
	for _, bl := range bullets {
		n := len(kinds)
		for _, w := range words {
			if regexp.MustCompile(w.re).MatchString(bl) {
				kinds = append(kinds, strings.Fields(w.kinds)...)
			}
		}
		for _, m := range tick.FindAllStringSubmatch(bl, -1) {
			k, known := chars[m[1]]
			if !known {
				return bullets, nil, false
			}
			kinds = append(kinds, k)
		}
		if len(kinds) == n {
			return bullets, nil, false // a bullet the translator does not understand
		}
	}
	return bullets, kinds, len(bullets) > 0
}

func c09ScanGen(o *out) {
	if kw, ok := c09Keywords(); ok {
		fmt.Fprintf(o, "def keywords : List String := %s\n", leanStrList(kw))
	} else {
		fmt.Fprintf(o, "def keywords_unavailable : Unit := ()\n")
	}
	if bullets, kinds, ok := c09SpecCommas(); ok {
		fmt.Fprintf(o, "/-- doc/ref/spec.md §Commas, the bullet list -/\ndef specCommaBullets : List String := %s\n", leanStrList(bullets))
		fmt.Fprintf(o, "/-- … translated into token kinds -/\ndef specCommaKinds : List String := %s\n", leanStrList(kinds))
	} else {
		fmt.Fprintf(o, "def specCommaKinds_unavailable : Unit := ()\n")
	}
	o.pins("cue/scanner", "Scanner.Scan", "Scanner.Init", "Scanner.skipWhitespace", "Scanner.scanComment", "Scanner.scanString",
		"Scanner.scanEscape", "Scanner.consumeQuotes", "Scanner.consumeStringClose", "Scanner.scanHashes", "stripCR",
		"Scanner.scanAttribute", "Scanner.scanAttributeTokens", "Scanner.recoverParen", "Scanner.switch2",
		"Scanner.popInterpolation", "Scanner.ResumeInterpolation", "Scanner.Offset", "Scanner.errf")
	o.pins("cue/token", "Lookup")
	o.pins("cue/parser", "parser.parseInterpolation")
}
