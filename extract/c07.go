package main

// Facts regenerated for C07 (export primitives):
//   - adt.intBuiltinRanges / adt.floatBuiltinRanges (builtinrange.go) as tables of exact numbers
//     (coefficient, exponent the way apd.SetString holds them);
//   - compile.predefinedRanges (predeclared.go) as a table, so that the two tables of the source
//     are compared with each other on every run;
//   - adt.IntKind, adt.ScalarKinds;
//   - fingerprints of the functions the Lean model transcribes by hand and of the entry points
//     the harness drives.

import (
	"crypto/sha256"
	"encoding/hex"
	"fmt"
	"go/ast"
	"go/token"
	"math/big"
	"sort"
	"strconv"
	"strings"
)

func init() {
	gens["C07"] = func(o *out) {
		const adt = "internal/core/adt"
		const export = "internal/core/export"
		o.constInt(adt, "IntKind", "IntKind")
		o.constInt(adt, "ScalarKinds", "ScalarKinds")
		c07BuiltinRanges(o, "intBuiltinRanges", "intRanges", true)
		c07BuiltinRanges(o, "floatBuiltinRanges", "floatRanges", false)
		c07PredefinedRanges(o)

		o.pins(adt, "MatchBuiltinRange", "mustDec", "BoundValue.Kind", "MakeIdentLabel")
		o.pins(export, "boundSimplifier.add", "boundSimplifier.expr", "wrapBin",
			"exporter.stringLabel", "exporter.boundValue", "exporter.num",
			"exporter.listComposite", "exporter.structComposite", "exporter.vertex",
			"Profile.Vertex", "Profile.Def")
		c07PinCases(o, export, "exporter.value", "*adt.", "Conjunction", "Disjunction")
		o.pins("cue/ast", "NewStringLabel", "StringLabelNeedsQuoting", "NewString", "IsValidIdent", "NewBinExpr")
		o.pins("internal/core/compile", "compiler.label")
		o.pins("cue", "Value.Syntax", "Final", "Concrete", "All", "Hidden", "Definitions", "Optional",
			"Attributes", "Docs", "Raw")
		o.pins("cmd/cue/cmd", "runEval")
		o.pins("internal/encoding", "NewEncoder")
	}
}

// c07DecParts parses a decimal literal the way apd.SetString does: coefficient and exponent.
func c07DecParts(s string) (*big.Int, int, bool) {
	neg := strings.HasPrefix(s, "-")
	s = strings.TrimPrefix(strings.TrimPrefix(s, "-"), "+")
	exp := 0
	if i := strings.IndexAny(s, "eE"); i >= 0 {
		e, err := strconv.Atoi(strings.TrimPrefix(s[i+1:], "+"))
		if err != nil {
			return nil, 0, false
		}
		exp = e
		s = s[:i]
	}
	if i := strings.IndexByte(s, '.'); i >= 0 {
		exp -= len(s) - i - 1
		s = s[:i] + s[i+1:]
	}
	z, ok := new(big.Int).SetString(s, 10)
	if !ok {
		return nil, 0, false
	}
	if neg {
		z.Neg(z)
	}
	return z, exp, true
}

// c07StrArg reads a string literal or strconv.Itoa(<int literal>).
func c07StrArg(e ast.Expr) (string, bool) {
	switch x := e.(type) {
	case *ast.BasicLit:
		if x.Kind == token.STRING {
			s, err := strconv.Unquote(x.Value)
			return s, err == nil
		}
	case *ast.CallExpr: // strconv.Itoa(0x10FFFF)
		if len(x.Args) == 1 {
			if bl, ok := x.Args[0].(*ast.BasicLit); ok && bl.Kind == token.INT {
				n, err := strconv.ParseInt(bl.Value, 0, 64)
				return strconv.FormatInt(n, 10), err == nil
			}
		}
	}
	return "", false
}

// c07BuiltinRanges translates `var <goName> = []builtinRange{{"name", mustDec("lo"), mustDec("hi")}, …}`
// in source order.  intTable: rows must have exponent 0 and are emitted as (name, lo, hi);
// otherwise (name, (coeff, exp) of lo, (coeff, exp) of hi).
func c07BuiltinRanges(o *out, goName, leanName string, intTable bool) {
	p := loadPkg("internal/core/adt")
	v := p.findValue(goName)
	cl, isCl := v.(*ast.CompositeLit)
	if !isCl {
		fmt.Fprintf(o, "def %s_unavailable : Unit := ()\n", leanName)
		return
	}
	dec := func(e ast.Expr) (*big.Int, int, bool) {
		call, ok := e.(*ast.CallExpr)
		if !ok || p.src(call.Fun) != "mustDec" || len(call.Args) != 1 {
			return nil, 0, false
		}
		s, ok := c07StrArg(call.Args[0])
		if !ok {
			return nil, 0, false
		}
		return c07DecParts(s)
	}
	var rows []string
	ok := true
	for _, el := range cl.Elts {
		row, isRow := el.(*ast.CompositeLit)
		if !isRow || len(row.Elts) != 3 {
			ok = false
			continue
		}
		name, ok1 := c07StrArg(row.Elts[0])
		lo, loExp, ok2 := dec(row.Elts[1])
		hi, hiExp, ok3 := dec(row.Elts[2])
		if !ok1 || !ok2 || !ok3 {
			ok = false
			continue
		}
		if intTable {
			if loExp != 0 || hiExp != 0 {
				ok = false
				continue
			}
			rows = append(rows, fmt.Sprintf("(%s, %s, %s)", leanStr(name), lo.String(), hi.String()))
		} else {
			rows = append(rows, fmt.Sprintf("(%s, (%s, %d), (%s, %d))", leanStr(name), lo.String(), loExp, hi.String(), hiExp))
		}
	}
	if !ok {
		fmt.Fprintf(o, "def %s_unavailable : Unit := ()\n", leanName)
		return
	}
	if intTable {
		fmt.Fprintf(o, "/-- adt.%s (builtinrange.go), source order: (name, lo, hi) -/\ndef %s : List (String × Int × Int) :=\n  [%s]\n", goName, leanName, strings.Join(rows, ",\n   "))
	} else {
		fmt.Fprintf(o, "/-- adt.%s (builtinrange.go), source order: (name, (coeff, exp) of lo, (coeff, exp) of hi) -/\ndef %s : List (String × (Int × Int) × (Int × Int)) :=\n  [%s]\n", goName, leanName, strings.Join(rows, ",\n   "))
	}
}

// c07PredefinedRanges translates compile.predefinedRanges: name, constructor, and the exact numbers.
// int ranges: (name, "int", lo, hi); uint: (name, "uint", 0, 0);
// float ranges: (name, "float", coefficient of the upper bound, its exponent) — the lower bound
// must be the negation.  Sorted by name.
func c07PredefinedRanges(o *out) {
	p := loadPkg("internal/core/compile")
	v := p.findValue("predefinedRanges")
	cl, isCl := v.(*ast.CompositeLit)
	if !isCl {
		fmt.Fprintf(o, "def predefinedRanges_unavailable : Unit := ()\n")
		return
	}
	var rows []string
	ok := true
	for _, el := range cl.Elts {
		kv, isKV := el.(*ast.KeyValueExpr)
		if !isKV {
			ok = false
			continue
		}
		name, ok1 := c07StrArg(kv.Key)
		call, isCall := kv.Value.(*ast.CallExpr)
		if !ok1 || !isCall {
			ok = false
			continue
		}
		switch p.src(call.Fun) {
		case "mkUint":
			rows = append(rows, fmt.Sprintf("(%s, \"uint\", 0, 0)", leanStr(name)))
		case "mkIntRange":
			if len(call.Args) != 2 {
				ok = false
				continue
			}
			a, oka := c07StrArg(call.Args[0])
			b, okb := c07StrArg(call.Args[1])
			za, ea, ok2 := c07DecParts(a)
			zb, eb, ok3 := c07DecParts(b)
			if !oka || !okb || !ok2 || !ok3 || ea != 0 || eb != 0 {
				ok = false
				continue
			}
			rows = append(rows, fmt.Sprintf("(%s, \"int\", %s, %s)", leanStr(name), za.String(), zb.String()))
		case "mkFloatRange":
			if len(call.Args) != 2 {
				ok = false
				continue
			}
			a, oka := c07StrArg(call.Args[0])
			b, okb := c07StrArg(call.Args[1])
			za, ea, ok2 := c07DecParts(a)
			zb, eb, ok3 := c07DecParts(b)
			if !oka || !okb || !ok2 || !ok3 || ea != eb || new(big.Int).Neg(za).Cmp(zb) != 0 {
				ok = false
				continue
			}
			rows = append(rows, fmt.Sprintf("(%s, \"float\", %s, %d)", leanStr(name), zb.String(), eb))
		default:
			ok = false
		}
	}
	if !ok {
		fmt.Fprintf(o, "def predefinedRanges_unavailable : Unit := ()\n")
		return
	}
	sort.Strings(rows)
	fmt.Fprintf(o, "/-- compile.predefinedRanges, sorted by name -/\ndef predefinedRanges : List (String × String × Int × Int) :=\n  [%s]\n", strings.Join(rows, ",\n   "))
}

// c07PinCases fingerprints single `case <prefix>T:` clauses of the (first) type switch in a
// function, so that unrelated arms of a large switch do not disturb the pin.
func c07PinCases(o *out, dir, fn, prefix string, types ...string) {
	p := loadPkg(dir)
	fd := p.findFunc(fn)
	found := map[string]string{}
	if fd != nil && fd.Body != nil {
		ast.Inspect(fd.Body, func(n ast.Node) bool {
			ts, ok := n.(*ast.TypeSwitchStmt)
			if !ok {
				return true
			}
			for _, c := range ts.Body.List {
				cc := c.(*ast.CaseClause)
				for _, e := range cc.List {
					name := strings.TrimPrefix(p.src(e), prefix)
					if _, dup := found[name]; dup {
						continue
					}
					var sb strings.Builder
					for _, s := range cc.Body {
						sb.WriteString(p.src(s))
						sb.WriteString(" ; ")
					}
					h := sha256.Sum256([]byte(sb.String()))
					found[name] = hex.EncodeToString(h[:8])
				}
			}
			return false
		})
	}
	short := dir[strings.LastIndex(dir, "/")+1:]
	for _, t := range types {
		v, ok := found[t]
		if !ok {
			v = "unavailable"
		}
		fmt.Fprintf(o, "def pin_%s_%s_case_%s : String := %s\n", leanIdent(short), leanIdent(fn), t, leanStr(v))
	}
}
