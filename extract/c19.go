package main

// C19: regenerates the lock/access PROTOCOL of every function that touches the shared
// mutable state behind cue.Value's immutable facade, as data for the Lean lock machine
// (lean/CueVerif/Model/Lockset.lean):
//
//   def protocols : List (String × List (String × String × String × Nat))
//
// one entry per function (sorted by name), one tuple per instruction in program order:
//   ("acq", lock, "w"|"r", 0)   X.Lock() / X.RLock()
//   ("rel", lock, "w"|"r", 0)   X.Unlock() / X.RUnlock()
//   ("dfr", lock, "w"|"r", 0)   defer X.Unlock() / defer X.RUnlock()
//   ("acc", var,  kind,    0)   access to a watched variable/field; kind ∈ lookup index len
//                               load store append assign incr delete sync
//   ("br",  cond, "",      n)   if cond { next n instructions }   (else skip them)
//   ("jmp", "",   "",      n)   end of a then-block that has an else-block of n instructions
//   ("ret", "",   "",      0)   return (also: panic(...))
//   ("call", f,   "",      0)   call of a function of the same package that itself locks
//   ("bad", why,  "",      0)   a statement shape that is not translated and contains
//                               watched operations or a return (loop, switch, closure …)
//
// plus the declared types of the watched variables (`decls`), the protocols of the
// constructor functions that initialise an object before it is shared (`ctor_protocols`),
// the writers of the init-time-frozen builtin tables (`frozen_writers`) and the callers
// of the registration entry points that are not `init` functions.

import (
	"fmt"
	"go/ast"
	"go/parser"
	"go/token"
	"os"
	"path/filepath"
	"sort"
	"strings"
)

type c19raw struct {
	op, a, b string
	n        int
}

type c19watch struct {
	dir    string
	vars   map[string]bool // package-level identifiers
	fields map[string]bool // selector names
	locks  map[string]bool // identifiers / selector names of mutexes
	frozen map[string]bool // selector names of init-time-frozen tables
	ctors  map[string]bool // functions that run before the object is shared
	types  map[string]string
}

type c19fn struct {
	w       *c19watch
	p       *pkg
	lockFns map[string]bool // names (bare function or method names) of functions that lock
	frozenW map[string]bool // frozen tables written by this function
}

func (c *c19fn) lockName(e ast.Expr) (string, bool) {
	switch x := e.(type) {
	case *ast.Ident:
		if c.w.locks[x.Name] {
			return x.Name, true
		}
	case *ast.SelectorExpr:
		if c.w.locks[x.Sel.Name] {
			return x.Sel.Name, true
		}
	case *ast.ParenExpr:
		return c.lockName(x.X)
	}
	return "", false
}

// watched returns the name of the watched variable/field an expression denotes.
func (c *c19fn) watched(e ast.Expr) (string, bool) {
	switch x := e.(type) {
	case *ast.Ident:
		if c.w.vars[x.Name] {
			return x.Name, true
		}
	case *ast.SelectorExpr:
		if c.w.fields[x.Sel.Name] {
			return x.Sel.Name, true
		}
	case *ast.ParenExpr:
		return c.watched(x.X)
	}
	return "", false
}

func (c *c19fn) frozenName(e ast.Expr) (string, bool) {
	if x, ok := e.(*ast.SelectorExpr); ok && c.w.frozen[x.Sel.Name] {
		return x.Sel.Name, true
	}
	return "", false
}

func (c *c19fn) isSyncType(name string) bool {
	t := c.w.types[name]
	return strings.HasPrefix(t, "sync.Map") || strings.HasPrefix(t, "atomic.")
}

func (c *c19fn) readKind(name string) string {
	t := c.w.types[name]
	switch {
	case strings.HasPrefix(t, "map["):
		return "lookup"
	case strings.HasPrefix(t, "[]"):
		return "index"
	}
	return "lookup"
}

func lockMode(sel string) (op string, mode string, ok bool) {
	switch sel {
	case "Lock":
		return "acq", "w", true
	case "RLock":
		return "acq", "r", true
	case "Unlock":
		return "rel", "w", true
	case "RUnlock":
		return "rel", "r", true
	}
	return "", "", false
}

// expr collects the events of an expression in source (evaluation) order.
func (c *c19fn) expr(e ast.Expr) []c19raw {
	var out []c19raw
	if e == nil {
		return nil
	}
	switch x := e.(type) {
	case *ast.CallExpr:
		if sel, ok := x.Fun.(*ast.SelectorExpr); ok {
			if op, mode, ok := lockMode(sel.Sel.Name); ok {
				if l, ok := c.lockName(sel.X); ok {
					return []c19raw{{op, l, mode, 0}}
				}
			}
			if v, ok := c.watched(sel.X); ok && c.isSyncType(v) {
				for _, a := range x.Args {
					out = append(out, c.expr(a)...)
				}
				return append(out, c19raw{"acc", v, "sync", 0})
			}
		}
		if id, ok := x.Fun.(*ast.Ident); ok {
			switch id.Name {
			case "len", "cap":
				if len(x.Args) == 1 {
					if v, ok := c.watched(x.Args[0]); ok {
						return []c19raw{{"acc", v, "len", 0}}
					}
				}
			case "delete", "clear":
				if len(x.Args) >= 1 {
					if v, ok := c.watched(x.Args[0]); ok {
						for _, a := range x.Args[1:] {
							out = append(out, c.expr(a)...)
						}
						return append(out, c19raw{"acc", v, "delete", 0})
					}
					if f, ok := c.frozenName(x.Args[0]); ok {
						c.frozenW[f] = true
					}
				}
			case "panic":
				for _, a := range x.Args {
					out = append(out, c.expr(a)...)
				}
				return append(out, c19raw{"ret", "", "", 0})
			}
		}
		out = append(out, c.expr(x.Fun)...)
		for _, a := range x.Args {
			out = append(out, c.expr(a)...)
		}
		// a call of a function of this package that takes locks itself
		name := ""
		switch f := x.Fun.(type) {
		case *ast.Ident:
			name = f.Name
		case *ast.SelectorExpr:
			name = f.Sel.Name
		}
		if name != "" && c.lockFns[name] {
			out = append(out, c19raw{"call", name, "", 0})
		}
		return out
	case *ast.IndexExpr:
		if v, ok := c.watched(x.X); ok {
			out = append(out, c.expr(x.Index)...)
			return append(out, c19raw{"acc", v, c.readKind(v), 0})
		}
		out = append(out, c.expr(x.X)...)
		return append(out, c.expr(x.Index)...)
	case *ast.Ident, *ast.SelectorExpr:
		if v, ok := c.watched(x); ok {
			return []c19raw{{"acc", v, "load", 0}}
		}
		if s, ok := x.(*ast.SelectorExpr); ok {
			return c.expr(s.X)
		}
		return nil
	case *ast.FuncLit:
		if c.containsWatched(x.Body, false) {
			return []c19raw{{"bad", "closure", "", 0}}
		}
		return nil
	case *ast.ParenExpr:
		return c.expr(x.X)
	case *ast.StarExpr:
		return c.expr(x.X)
	case *ast.UnaryExpr:
		return c.expr(x.X)
	case *ast.BinaryExpr:
		return append(c.expr(x.X), c.expr(x.Y)...)
	case *ast.KeyValueExpr:
		return append(c.expr(x.Key), c.expr(x.Value)...)
	case *ast.CompositeLit:
		for _, el := range x.Elts {
			if kv, ok := el.(*ast.KeyValueExpr); ok {
				// struct field keys are bare identifiers, not accesses
				if _, isId := kv.Key.(*ast.Ident); !isId {
					out = append(out, c.expr(kv.Key)...)
				}
				out = append(out, c.expr(kv.Value)...)
			} else {
				out = append(out, c.expr(el)...)
			}
		}
		return out
	case *ast.SliceExpr:
		out = append(out, c.expr(x.X)...)
		out = append(out, c.expr(x.Low)...)
		out = append(out, c.expr(x.High)...)
		return append(out, c.expr(x.Max)...)
	case *ast.TypeAssertExpr:
		return c.expr(x.X)
	}
	return nil
}

// containsWatched: does the node contain a lock operation, a watched access, a call of a
// locking function or (when returns is set) a return / panic?
func (c *c19fn) containsWatched(n ast.Node, returns bool) bool {
	found := false
	ast.Inspect(n, func(m ast.Node) bool {
		if found || m == nil {
			return false
		}
		switch x := m.(type) {
		case *ast.ReturnStmt:
			if returns {
				found = true
			}
		case *ast.Ident:
			if c.w.vars[x.Name] || c.w.locks[x.Name] {
				found = true
			}
		case *ast.SelectorExpr:
			if c.w.fields[x.Sel.Name] || c.w.locks[x.Sel.Name] {
				found = true
			}
		case *ast.CallExpr:
			switch f := x.Fun.(type) {
			case *ast.Ident:
				if c.lockFns[f.Name] || (returns && f.Name == "panic") {
					found = true
				}
			case *ast.SelectorExpr:
				if c.lockFns[f.Sel.Name] {
					found = true
				}
			}
		}
		return !found
	})
	return found
}

func (c *c19fn) noteFrozenWrite(lhs ast.Expr) {
	switch x := lhs.(type) {
	case *ast.IndexExpr:
		if f, ok := c.frozenName(x.X); ok {
			c.frozenW[f] = true
		}
	case *ast.SelectorExpr:
		if f, ok := c.frozenName(x); ok {
			c.frozenW[f] = true
		}
	}
}

func (c *c19fn) stmts(list []ast.Stmt) []c19raw {
	var out []c19raw
	for _, s := range list {
		out = append(out, c.stmt(s)...)
	}
	return out
}

func (c *c19fn) stmt(s ast.Stmt) []c19raw {
	var out []c19raw
	switch x := s.(type) {
	case nil:
		return nil
	case *ast.ExprStmt:
		return c.expr(x.X)
	case *ast.AssignStmt:
		// x = append(x, …)
		if len(x.Lhs) == 1 && len(x.Rhs) == 1 {
			if v, ok := c.watched(x.Lhs[0]); ok {
				if call, ok := x.Rhs[0].(*ast.CallExpr); ok {
					if id, ok := call.Fun.(*ast.Ident); ok && id.Name == "append" && len(call.Args) >= 1 {
						if v2, ok := c.watched(call.Args[0]); ok && v2 == v {
							for _, a := range call.Args[1:] {
								out = append(out, c.expr(a)...)
							}
							return append(out, c19raw{"acc", v, "append", 0})
						}
					}
				}
			}
		}
		for _, r := range x.Rhs {
			out = append(out, c.expr(r)...)
		}
		for _, l := range x.Lhs {
			c.noteFrozenWrite(l)
			if ix, ok := l.(*ast.IndexExpr); ok {
				if v, ok := c.watched(ix.X); ok {
					out = append(out, c.expr(ix.Index)...)
					out = append(out, c19raw{"acc", v, "store", 0})
					continue
				}
			}
			if v, ok := c.watched(l); ok {
				k := "assign"
				if x.Tok != token.ASSIGN && x.Tok != token.DEFINE {
					k = "incr"
				}
				out = append(out, c19raw{"acc", v, k, 0})
				continue
			}
			if _, isId := l.(*ast.Ident); !isId {
				out = append(out, c.expr(l)...)
			}
		}
		return out
	case *ast.IncDecStmt:
		c.noteFrozenWrite(x.X)
		if v, ok := c.watched(x.X); ok {
			return []c19raw{{"acc", v, "incr", 0}}
		}
		if ix, ok := x.X.(*ast.IndexExpr); ok {
			if v, ok := c.watched(ix.X); ok {
				return append(c.expr(ix.Index), c19raw{"acc", v, "store", 0})
			}
		}
		return c.expr(x.X)
	case *ast.DeclStmt:
		if gd, ok := x.Decl.(*ast.GenDecl); ok {
			for _, sp := range gd.Specs {
				if vs, ok := sp.(*ast.ValueSpec); ok {
					for _, v := range vs.Values {
						out = append(out, c.expr(v)...)
					}
				}
			}
		}
		return out
	case *ast.ReturnStmt:
		for _, r := range x.Results {
			out = append(out, c.expr(r)...)
		}
		return append(out, c19raw{"ret", "", "", 0})
	case *ast.DeferStmt:
		if sel, ok := x.Call.Fun.(*ast.SelectorExpr); ok {
			if op, mode, ok := lockMode(sel.Sel.Name); ok && op == "rel" {
				if l, ok := c.lockName(sel.X); ok {
					return []c19raw{{"dfr", l, mode, 0}}
				}
			}
		}
		if c.containsWatched(x.Call, false) {
			return []c19raw{{"bad", "defer", "", 0}}
		}
		return nil
	case *ast.BlockStmt:
		return c.stmts(x.List)
	case *ast.IfStmt:
		out = append(out, c.stmt(x.Init)...)
		out = append(out, c.expr(x.Cond)...)
		body := c.stmts(x.Body.List)
		var els []c19raw
		if x.Else != nil {
			els = c.stmt(x.Else)
		}
		if len(body) == 0 && len(els) == 0 {
			return out
		}
		n := len(body)
		if len(els) > 0 {
			n++
		}
		out = append(out, c19raw{"br", c.p.src(x.Cond), "", n})
		out = append(out, body...)
		if len(els) > 0 {
			out = append(out, c19raw{"jmp", "", "", len(els)})
			out = append(out, els...)
		}
		return out
	case *ast.EmptyStmt:
		return nil
	default:
		// for, range, switch, type switch, select, go, labeled, goto, send …
		if c.containsWatched(s, true) {
			return []c19raw{{"bad", fmt.Sprintf("%T", s), "", 0}}
		}
		return nil
	}
}

func c19funcName(fd *ast.FuncDecl) string {
	if fd.Recv != nil && len(fd.Recv.List) > 0 {
		return typeName(fd.Recv.List[0].Type) + "." + fd.Name.Name
	}
	return fd.Name.Name
}

func c19lean(rs []c19raw) string {
	var ys []string
	for _, r := range rs {
		ys = append(ys, fmt.Sprintf("(%s, %s, %s, %d)", leanStr(r.op), leanStr(r.a), leanStr(r.b), r.n))
	}
	return "[" + strings.Join(ys, ", ") + "]"
}

// declType finds the declared type text of a package-level var or a struct field.
func (p *pkg) declType(name string) string {
	for _, f := range p.files {
		for _, d := range f.Decls {
			gd, ok := d.(*ast.GenDecl)
			if !ok {
				continue
			}
			for _, s := range gd.Specs {
				switch sp := s.(type) {
				case *ast.ValueSpec:
					if gd.Tok != token.VAR {
						continue
					}
					for i, n := range sp.Names {
						if n.Name != name {
							continue
						}
						if sp.Type != nil {
							return p.src(sp.Type)
						}
						if i < len(sp.Values) {
							switch v := sp.Values[i].(type) {
							case *ast.CompositeLit:
								return p.src(v.Type)
							case *ast.CallExpr:
								if id, ok := v.Fun.(*ast.Ident); ok && id.Name == "make" && len(v.Args) > 0 {
									return p.src(v.Args[0])
								}
								return p.src(v.Fun) + "(…)"
							}
						}
					}
				case *ast.TypeSpec:
					st, ok := sp.Type.(*ast.StructType)
					if !ok {
						continue
					}
					for _, fl := range st.Fields.List {
						for _, n := range fl.Names {
							if n.Name == name {
								return p.src(fl.Type)
							}
						}
					}
				}
			}
		}
	}
	return "unavailable"
}

func (o *out) c19package(w *c19watch, prefix string) {
	p := loadPkg(w.dir)
	w.types = map[string]string{}
	var names []string
	for _, m := range []map[string]bool{w.vars, w.fields, w.locks, w.frozen} {
		for n := range m {
			if _, ok := w.types[n]; !ok {
				w.types[n] = p.declType(n)
				names = append(names, n)
			}
		}
	}
	sort.Strings(names)
	// pass 1: which functions take locks
	lockFns := map[string]bool{}
	for _, f := range p.files {
		for _, d := range f.Decls {
			fd, ok := d.(*ast.FuncDecl)
			if !ok || fd.Body == nil {
				continue
			}
			c := &c19fn{w: w, p: p, lockFns: map[string]bool{}, frozenW: map[string]bool{}}
			for _, r := range c.stmts(fd.Body.List) {
				if r.op == "acq" {
					lockFns[fd.Name.Name] = true
				}
			}
		}
	}
	// pass 2
	type ent struct {
		name string
		rs   []c19raw
	}
	var protos, ctors []ent
	frozenWriters := map[string][]string{}
	for _, f := range p.files {
		for _, d := range f.Decls {
			fd, ok := d.(*ast.FuncDecl)
			if !ok || fd.Body == nil {
				continue
			}
			c := &c19fn{w: w, p: p, lockFns: lockFns, frozenW: map[string]bool{}}
			rs := c.stmts(fd.Body.List)
			name := c19funcName(fd)
			for fz := range c.frozenW {
				frozenWriters[fz] = append(frozenWriters[fz], name)
			}
			// relevant = the function mentions a watched variable / mutex at all
			cc := &c19fn{w: w, p: p, lockFns: map[string]bool{}, frozenW: map[string]bool{}}
			if !cc.containsWatched(fd.Body, false) {
				continue
			}
			if w.ctors[name] {
				ctors = append(ctors, ent{name, rs})
			} else {
				protos = append(protos, ent{name, rs})
			}
		}
	}
	sort.Slice(protos, func(i, j int) bool { return protos[i].name < protos[j].name })
	sort.Slice(ctors, func(i, j int) bool { return ctors[i].name < ctors[j].name })
	emit := func(lean string, es []ent) {
		fmt.Fprintf(o, "def %s : List (String × List (String × String × String × Nat)) := [\n", lean)
		for i, e := range es {
			sep := ","
			if i == len(es)-1 {
				sep = ""
			}
			fmt.Fprintf(o, "  (%s, %s)%s\n", leanStr(e.name), c19lean(e.rs), sep)
		}
		fmt.Fprintf(o, "]\n")
	}
	fmt.Fprintf(o, "/-- lock/access protocol of every function of %s that touches the watched shared state -/\n", w.dir)
	emit(prefix+"protocols", protos)
	fmt.Fprintf(o, "/-- the same for the constructors (run before the object is shared) -/\n")
	emit(prefix+"ctor_protocols", ctors)
	for _, e := range protos {
		fmt.Fprintf(o, "def %sproto_%s : List (String × String × String × Nat) := %s\n", prefix, leanIdent(e.name), c19lean(e.rs))
	}
	var ds []string
	for _, n := range names {
		ds = append(ds, fmt.Sprintf("(%s, %s)", leanStr(n), leanStr(w.types[n])))
	}
	fmt.Fprintf(o, "/-- declared types of the watched variables / fields / mutexes of %s -/\n", w.dir)
	fmt.Fprintf(o, "def %sdecls : List (String × String) := [%s]\n", prefix, strings.Join(ds, ", "))
	if len(w.frozen) > 0 {
		var fz []string
		for n := range w.frozen {
			fz = append(fz, n)
		}
		sort.Strings(fz)
		var parts []string
		for _, n := range fz {
			ws := frozenWriters[n]
			sort.Strings(ws)
			var q []string
			for _, x := range ws {
				q = append(q, leanStr(x))
			}
			parts = append(parts, fmt.Sprintf("(%s, [%s])", leanStr(n), strings.Join(q, ", ")))
		}
		fmt.Fprintf(o, "/-- functions that write the init-time-frozen tables -/\n")
		fmt.Fprintf(o, "def %sfrozen_writers : List (String × List String) := [%s]\n", prefix, strings.Join(parts, ", "))
	}
}

// c19callers lists "<dir>:<func>" for every non-test function in the repository that
// calls <qualifier>.<fn>( … ) or, inside dir `home`, fn( … ) / x.fn( … ).
func c19callers(qualifier, fn, home string) []string {
	var res []string
	needle := fn + "("
	filepath.WalkDir(repo, func(path string, d os.DirEntry, err error) error {
		if err != nil {
			return nil
		}
		if d.IsDir() {
			n := d.Name()
			if n == ".git" || n == "testdata" || n == "node_modules" || (strings.HasPrefix(n, ".") && path != repo) {
				return filepath.SkipDir
			}
			return nil
		}
		if !strings.HasSuffix(path, ".go") || strings.HasSuffix(path, "_test.go") {
			return nil
		}
		b, err := os.ReadFile(path)
		if err != nil || !strings.Contains(string(b), needle) {
			return nil
		}
		fset := token.NewFileSet()
		f, err := parser.ParseFile(fset, path, b, parser.SkipObjectResolution)
		if err != nil {
			return nil
		}
		rel, _ := filepath.Rel(repo, filepath.Dir(path))
		for _, dd := range f.Decls {
			fd, ok := dd.(*ast.FuncDecl)
			if !ok || fd.Body == nil {
				continue
			}
			hit := false
			ast.Inspect(fd.Body, func(n ast.Node) bool {
				call, ok := n.(*ast.CallExpr)
				if !ok {
					return true
				}
				switch x := call.Fun.(type) {
				case *ast.SelectorExpr:
					if x.Sel.Name == fn {
						if id, ok := x.X.(*ast.Ident); ok && (id.Name == qualifier || rel == home) {
							hit = true
						} else if rel == home {
							hit = true
						}
					}
				case *ast.Ident:
					if x.Name == fn && rel == home {
						hit = true
					}
				}
				return true
			})
			if hit {
				res = append(res, rel+":"+c19funcName(fd))
			}
		}
		return nil
	})
	sort.Strings(res)
	return res
}

func c19strList(xs []string) string {
	var q []string
	for _, x := range xs {
		q = append(q, leanStr(x))
	}
	return "[" + strings.Join(q, ", ") + "]"
}

func set(xs ...string) map[string]bool {
	m := map[string]bool{}
	for _, x := range xs {
		m[x] = true
	}
	return m
}

func init() {
	gens["C19"] = func(o *out) {
		// the runtime: global intern table, per-runtime import maps, unique ids, build data
		o.c19package(&c19watch{
			dir:    "internal/core/runtime",
			vars:   set("labelMap", "labels"),
			fields: set("imports", "importsByBuild", "nextUniqueID", "loaded", "typeCache"),
			locks:  set("mutex", "lock"),
			frozen: set("importPaths", "instances", "shortNames"),
			ctors:  set("Runtime.Init", "newIndex"),
		}, "")
		// Go type → CUE conversion caches
		o.c19package(&c19watch{
			dir:  "internal/core/convert",
			vars: set("astTypeCache"),
		}, "convert_")
		// Decode's struct field cache
		o.c19package(&c19watch{
			dir:  "cue",
			vars: set("fieldCache"),
		}, "cue_")
		// OpContext generation counter, the weak memoizer
		o.c19package(&c19watch{
			dir:    "internal/core/adt",
			vars:   set("contextGeneration"),
		}, "adt_")

		// builtin tables are frozen after package initialisation: who registers?
		var notInit []string
		for _, c := range c19callers("pkg", "Register", "internal/pkg") {
			if !strings.HasSuffix(c, ":init") {
				notInit = append(notInit, c)
			}
		}
		fmt.Fprintf(o, "/-- callers of internal/pkg.Register that are not `init` functions -/\n")
		fmt.Fprintf(o, "def register_not_init : List String := %s\n", c19strList(notInit))
		fmt.Fprintf(o, "/-- callers of runtime.RegisterBuiltin -/\n")
		fmt.Fprintf(o, "def registerBuiltin_callers : List String := %s\n", c19strList(c19callers("runtime", "RegisterBuiltin", "internal/core/runtime")))
		fmt.Fprintf(o, "/-- callers of builtins.registerBuiltin -/\n")
		fmt.Fprintf(o, "def registerBuiltin_inner_callers : List String := %s\n", c19strList(c19callers("stdBuiltins", "registerBuiltin", "internal/core/runtime")))

		// Cue-Go binding: per-codec type cache
		o.c19package(&c19watch{
			dir:    "cuego",
			fields: set("typeCache"),
		}, "cuego_")

		// only the two functions whose DATA effect the Lean model transcribes by hand are
		// pinned; for all others the regenerated protocol is the whole tie
		o.pins("internal/core/runtime", "getKey", "index.IndexToString", "Runtime.StringToIndex", "Runtime.IndexToString")
	}
}
