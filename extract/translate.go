package main

// A deliberately small Go→Lean translator for table-like pure functions:
//   - parameters and results are integers (bytes, runes, ints, enum constants) or bools;
//   - the body is a sequence of `if c { return e }`, `switch [x] { case …: return e }`
//     and a final `return e`;
//   - expressions: literals, parameters, package constants (with iota), comparison,
//     boolean and integer operators, calls to other translated predicates,
//     strings.ContainsRune / strings.IndexByte / bytes.IndexByte against a constant.
// Anything else makes the function "unavailable" (the bridge theorem then fails).

import (
	"fmt"
	"go/ast"
	"go/constant"
	"go/token"
	"strconv"
	"strings"
)

type trCtx struct {
	p      *pkg
	params map[string]bool
	calls  map[string]string // Go callee name -> Lean name (already generated)
	err    error
}

func (t *trCtx) fail(format string, a ...any) string {
	if t.err == nil {
		t.err = fmt.Errorf(format, a...)
	}
	return "0"
}

// constVal evaluates a package-level constant (supports iota blocks, literals, shifts,
// | & + - *, references to other constants, conversions T(x)).
func (p *pkg) constVal(name string) (constant.Value, bool) {
	for _, f := range p.files {
		for _, d := range f.Decls {
			gd, ok := d.(*ast.GenDecl)
			if !ok || gd.Tok != token.CONST {
				continue
			}
			var last []ast.Expr
			for idx, s := range gd.Specs {
				vs := s.(*ast.ValueSpec)
				vals := vs.Values
				if len(vals) == 0 {
					vals = last
				} else {
					last = vals
				}
				for i, n := range vs.Names {
					if n.Name == name && i < len(vals) {
						return p.evalConst(vals[i], idx)
					}
				}
			}
		}
	}
	return nil, false
}

func (p *pkg) evalConst(e ast.Expr, iota int) (constant.Value, bool) {
	switch x := e.(type) {
	case *ast.BasicLit:
		v := constant.MakeFromLiteral(x.Value, x.Kind, 0)
		if x.Kind == token.CHAR {
			r, _, _, err := strconv.UnquoteChar(x.Value[1:len(x.Value)-1], '\'')
			if err != nil {
				return nil, false
			}
			return constant.MakeInt64(int64(r)), true
		}
		return v, v.Kind() != constant.Unknown
	case *ast.Ident:
		if x.Name == "iota" {
			return constant.MakeInt64(int64(iota)), true
		}
		return p.constVal(x.Name)
	case *ast.ParenExpr:
		return p.evalConst(x.X, iota)
	case *ast.CallExpr: // conversion
		if len(x.Args) == 1 {
			return p.evalConst(x.Args[0], iota)
		}
	case *ast.UnaryExpr:
		v, ok := p.evalConst(x.X, iota)
		if !ok {
			return nil, false
		}
		return constant.UnaryOp(x.Op, v, 0), true
	case *ast.BinaryExpr:
		a, ok1 := p.evalConst(x.X, iota)
		b, ok2 := p.evalConst(x.Y, iota)
		if !ok1 || !ok2 {
			return nil, false
		}
		if x.Op == token.SHL || x.Op == token.SHR {
			n, _ := constant.Uint64Val(b)
			return constant.Shift(a, x.Op, uint(n)), true
		}
		return constant.BinaryOp(a, x.Op, b), true
	}
	return nil, false
}

func (t *trCtx) expr(e ast.Expr) string {
	switch x := e.(type) {
	case *ast.ParenExpr:
		return "(" + t.expr(x.X) + ")"
	case *ast.BasicLit:
		switch x.Kind {
		case token.INT:
			v := constant.MakeFromLiteral(x.Value, x.Kind, 0)
			return v.ExactString()
		case token.CHAR:
			r, _, _, err := strconv.UnquoteChar(x.Value[1:len(x.Value)-1], '\'')
			if err != nil {
				return t.fail("bad char %s", x.Value)
			}
			return strconv.Itoa(int(r))
		}
		return t.fail("literal %s", x.Value)
	case *ast.Ident:
		switch x.Name {
		case "true", "false":
			return x.Name
		}
		if t.params[x.Name] {
			return x.Name
		}
		if v, ok := t.p.constVal(x.Name); ok {
			if v.Kind() == constant.Int {
				return v.ExactString()
			}
			if v.Kind() == constant.Bool {
				return v.String()
			}
		}
		return t.fail("identifier %s", x.Name)
	case *ast.UnaryExpr:
		if x.Op == token.NOT {
			return "(!" + t.expr(x.X) + ")"
		}
		if x.Op == token.SUB {
			return "(-" + t.expr(x.X) + ")"
		}
		return t.fail("unary %s", x.Op)
	case *ast.BinaryExpr:
		a, b := t.expr(x.X), t.expr(x.Y)
		switch x.Op {
		case token.LAND:
			return "(" + a + " && " + b + ")"
		case token.LOR:
			return "(" + a + " || " + b + ")"
		case token.EQL:
			return "(" + a + " == " + b + ")"
		case token.NEQ:
			return "(" + a + " != " + b + ")"
		case token.LSS:
			return "(decide (" + a + " < " + b + "))"
		case token.LEQ:
			return "(decide (" + a + " ≤ " + b + "))"
		case token.GTR:
			return "(decide (" + a + " > " + b + "))"
		case token.GEQ:
			return "(decide (" + a + " ≥ " + b + "))"
		case token.ADD:
			return "(" + a + " + " + b + ")"
		case token.SUB:
			return "(" + a + " - " + b + ")"
		case token.MUL:
			return "(" + a + " * " + b + ")"
		case token.AND:
			return "(" + a + " &&& " + b + ")"
		case token.OR:
			return "(" + a + " ||| " + b + ")"
		}
		return t.fail("binary %s", x.Op)
	case *ast.CallExpr:
		// conversion of a single argument: rune(c), byte(c), int(c)
		if id, ok := x.Fun.(*ast.Ident); ok && len(x.Args) == 1 {
			switch id.Name {
			case "rune", "byte", "int", "uint8", "int32", "uint", "int64", "uint64":
				return t.expr(x.Args[0])
			}
			if ln, ok := t.calls[id.Name]; ok {
				return "(" + ln + " " + t.expr(x.Args[0]) + ")"
			}
		}
		if sel, ok := x.Fun.(*ast.SelectorExpr); ok && len(x.Args) == 2 {
			pk, _ := sel.X.(*ast.Ident)
			if pk != nil && (pk.Name == "strings" || pk.Name == "bytes") &&
				(sel.Sel.Name == "ContainsRune" || sel.Sel.Name == "IndexByte" || sel.Sel.Name == "IndexRune") {
				s, ok := t.constString(x.Args[0])
				if !ok {
					return t.fail("non-constant set in %s", sel.Sel.Name)
				}
				var alts []string
				for _, r := range s {
					alts = append(alts, fmt.Sprintf("%s == %d", t.expr(x.Args[1]), r))
				}
				if len(alts) == 0 {
					return "false"
				}
				m := "(" + strings.Join(alts, " || ") + ")"
				if sel.Sel.Name == "ContainsRune" {
					return m
				}
				return t.fail("IndexByte outside comparison")
			}
		}
		return t.fail("call %s", t.p.src(x.Fun))
	}
	return t.fail("expression %T", e)
}

func (t *trCtx) constString(e ast.Expr) (string, bool) {
	switch x := e.(type) {
	case *ast.BasicLit:
		if x.Kind == token.STRING {
			s, err := strconv.Unquote(x.Value)
			return s, err == nil
		}
	case *ast.Ident:
		if v, ok := t.p.constVal(x.Name); ok && v.Kind() == constant.String {
			return constant.StringVal(v), true
		}
	}
	return "", false
}

// stmts translates a statement list ending in a return into a Lean expression.
func (t *trCtx) stmts(ss []ast.Stmt) string {
	if len(ss) == 0 {
		return t.fail("fell off the end of the function")
	}
	switch s := ss[0].(type) {
	case *ast.ReturnStmt:
		if len(s.Results) != 1 {
			return t.fail("return with %d results", len(s.Results))
		}
		return t.expr(s.Results[0])
	case *ast.IfStmt:
		if s.Init != nil {
			return t.fail("if with init")
		}
		thenE := t.stmts(append(append([]ast.Stmt{}, s.Body.List...), ss[1:]...))
		var elseE string
		switch el := s.Else.(type) {
		case nil:
			elseE = t.stmts(ss[1:])
		case *ast.BlockStmt:
			elseE = t.stmts(append(append([]ast.Stmt{}, el.List...), ss[1:]...))
		case *ast.IfStmt:
			elseE = t.stmts(append([]ast.Stmt{el}, ss[1:]...))
		}
		return "(if " + t.expr(s.Cond) + " then " + thenE + " else " + elseE + ")"
	case *ast.SwitchStmt:
		if s.Init != nil {
			return t.fail("switch with init")
		}
		rest := t.stmts(ss[1:])
		if len(ss) == 1 {
			// a switch in tail position must have a default
			rest = ""
		}
		var def *ast.CaseClause
		type arm struct{ cond, body string }
		var arms []arm
		for _, c := range s.Body.List {
			cc := c.(*ast.CaseClause)
			if cc.List == nil {
				def = cc
				continue
			}
			var alts []string
			for _, e := range cc.List {
				if s.Tag != nil {
					alts = append(alts, "("+t.expr(s.Tag)+" == "+t.expr(e)+")")
				} else {
					alts = append(alts, t.expr(e))
				}
			}
			arms = append(arms, arm{strings.Join(alts, " || "), t.stmts(append(append([]ast.Stmt{}, cc.Body...), ss[1:]...))})
		}
		tail := rest
		if def != nil {
			tail = t.stmts(append(append([]ast.Stmt{}, def.Body...), ss[1:]...))
		} else if len(ss) == 1 {
			return t.fail("switch without default in tail position")
		}
		for i := len(arms) - 1; i >= 0; i-- {
			tail = "(if " + arms[i].cond + " then " + arms[i].body + " else " + tail + ")"
		}
		return tail
	}
	return t.fail("statement %T", ss[0])
}

// fn translates a function to a Lean definition over Nat/Int/Bool.
// sig is the Lean signature after the name, e.g. "(c : Nat) : Bool".
func (o *out) fn(dir, goName, leanName, sig string, calls map[string]string) {
	p := loadPkg(dir)
	fd := p.findFunc(goName)
	if fd == nil || fd.Body == nil {
		fmt.Fprintf(o, "def %s_unavailable : Unit := ()  -- %s not found\n", leanName, goName)
		return
	}
	t := &trCtx{p: p, params: map[string]bool{}, calls: calls}
	for _, f := range fd.Type.Params.List {
		for _, n := range f.Names {
			t.params[n.Name] = true
		}
	}
	// parameter names must match the Lean signature's binder names
	body := t.stmts(fd.Body.List)
	if t.err != nil {
		fmt.Fprintf(o, "def %s_unavailable : Unit := ()  -- %s: %v\n", leanName, goName, t.err)
		return
	}
	var names []string
	for _, f := range fd.Type.Params.List {
		for _, n := range f.Names {
			names = append(names, n.Name)
		}
	}
	fmt.Fprintf(o, "/-- translated from %s.%s (parameters: %s) -/\ndef %s %s :=\n  %s\n", dir, goName, strings.Join(names, ", "), leanName, sig, body)
}

// constInt emits a package constant.
func (o *out) constInt(dir, goName, leanName string) {
	p := loadPkg(dir)
	if v, ok := p.constVal(goName); ok && v.Kind() == constant.Int {
		fmt.Fprintf(o, "def %s : Int := %s\n", leanName, v.ExactString())
		return
	}
	fmt.Fprintf(o, "def %s_unavailable : Unit := ()\n", leanName)
}
