package main

// C01: the evaluator is not transcribed (the CueCore model is tied by correspondence and the
// property is checked directly); a modest set of anchored entry points is fingerprinted so
// that a change to them is visible as a broken obligation and triggers the focused search.
func init() {
	gens["C01"] = func(o *out) {
		o.pins("internal/core/adt", "nodeContext.scheduleVertexConjuncts", "nodeContext.insertArc",
			"nodeContext.shareIfPossible", "nodeContext.unshare", "appendDisjunct", "Vertex.updateArcType",
			"nodeContext.checkTypos", "nodeContext.addResolver", "processListLit")
	}
}
