package main

// C17: every function the tidy model (lean/CueVerif/Model/Tidy.lean) and the module-file model
// (Model/Modfile.lean) transcribe by hand is pinned: a changed fingerprint says "the model is no
// longer known to describe this function" and triggers the failing-input search.
func init() {
	gens["C17"] = func(o *out) {
		o.pins("internal/mod/modload", "tidy", "loader.tidyOnce", "loader.resolveDependencies",
			"loader.resolveMissingImports", "loader.updateRoots", "loader.tidyRoots", "keepImpliedDefaults",
			"modfileFromRequirements", "equalRequirements", "mergeRequirements",
			"loader.queryImport", "loader.queryLatestModules", "LatestVersion",
			"loader.shouldIncludePkgFile", "withoutIgnoredFiles", "readPublishedModuleFile")
		o.pins("internal/mod/modpkgload", "LoadPackages", "Packages.load", "Packages.addPkg",
			"Packages.applyPkgFlags", "Packages.buildStacks", "Packages.importFromModules",
			"FindPackageLocations", "locInModule", "Packages.fetch", "pathAncestors", "IsStdlibPackage")
		o.pins("internal/mod/modrequirements", "NewRequirements", "Requirements.WithDefaultMajorVersions",
			"Requirements.initDefaultMajorVersions", "Requirements.RootSelected", "Requirements.DefaultMajorVersion",
			"Requirements.DependencyDefaultMajorVersion", "Requirements.readModGraph", "Requirements.Graph",
			"ModuleGraph.Selected", "cmpVersion")
		o.pins("internal/mod/modimports", "AllImports", "PackageFiles", "AllModuleFiles", "yieldAllModFiles")
		o.pins("internal/mod/modfiledata", "File.init", "File.QualifiedModule", "File.DepVersions", "File.DefaultMajorVersions")
		o.pins("mod/modfile", "Parse", "ParseNonStrict", "parse", "Format")
		o.pins("cmd/cue/cmd", "runModTidy")
	}
}
