package main

// C05: the arc-type merge of Vertex.updateArcType as a TRANSLATED definition.
// The method mutates v.ArcType; its effect on the modelled kinds is decided by one guard
//     if <cond over t, v.ArcType and ArcType constants> { return }
// followed (as last statement) by `v.ArcType = t`.  arcMerge finds exactly that shape,
// renders the guard condition into Lean and emits
//     updateArcTypeKeeps cur t : Bool   (the guard)
//     updateArcTypeResult cur t : Int   (if guard then cur else t)
// Anything else in the body (cycle reporting for ArcPending, unshare of the parent) does not
// touch ArcType for the three modelled kinds; the bridge theorem quantifies over them only.
// If the shape is not found an `_unavailable` marker is emitted and the bridge breaks.

import (
	"fmt"
	"go/ast"
	"go/token"
	"strings"
)

func c05lowerFirst(s string) string { return strings.ToLower(s[:1]) + s[1:] }

// c05cond renders a boolean Go expression over `t`, `<recv>.ArcType` and Arc* constants.
func c05cond(e ast.Expr, recv string, consts map[string]bool) (string, bool) {
	switch x := e.(type) {
	case *ast.ParenExpr:
		return c05cond(x.X, recv, consts)
	case *ast.BinaryExpr:
		switch x.Op {
		case token.LOR, token.LAND:
			l, ok1 := c05cond(x.X, recv, consts)
			r, ok2 := c05cond(x.Y, recv, consts)
			op := "||"
			if x.Op == token.LAND {
				op = "&&"
			}
			return "(" + l + " " + op + " " + r + ")", ok1 && ok2
		case token.GEQ, token.GTR, token.LEQ, token.LSS, token.EQL, token.NEQ:
			l, ok1 := c05term(x.X, recv, consts)
			r, ok2 := c05term(x.Y, recv, consts)
			op := map[token.Token]string{token.GEQ: "≥", token.GTR: ">", token.LEQ: "≤", token.LSS: "<", token.EQL: "=", token.NEQ: "≠"}[x.Op]
			return "decide (" + l + " " + op + " " + r + ")", ok1 && ok2
		}
	}
	return "", false
}

func c05term(e ast.Expr, recv string, consts map[string]bool) (string, bool) {
	switch x := e.(type) {
	case *ast.Ident:
		if x.Name == "t" {
			return "t", true
		}
		if strings.HasPrefix(x.Name, "Arc") {
			consts[x.Name] = true
			return c05lowerFirst(x.Name), true
		}
	case *ast.SelectorExpr:
		if id, ok := x.X.(*ast.Ident); ok && id.Name == recv && x.Sel.Name == "ArcType" {
			return "cur", true
		}
	}
	return "", false
}

func (o *out) arcMerge(known map[string]bool) {
	p := loadPkg("internal/core/adt")
	fd := p.findFunc("Vertex.updateArcType")
	fail := func(why string) {
		fmt.Fprintf(o, "def updateArcType_unavailable : Unit := ()  -- %s\n", why)
	}
	if fd == nil || fd.Body == nil || fd.Recv == nil || len(fd.Recv.List) != 1 || len(fd.Recv.List[0].Names) != 1 {
		fail("Vertex.updateArcType not found")
		return
	}
	recv := fd.Recv.List[0].Names[0].Name
	if len(fd.Type.Params.List) != 1 || len(fd.Type.Params.List[0].Names) != 1 || fd.Type.Params.List[0].Names[0].Name != "t" {
		fail("parameter is not `t`")
		return
	}
	body := fd.Body.List
	if len(body) < 2 {
		fail("body too short")
		return
	}
	// last statement: <recv>.ArcType = t
	as, ok := body[len(body)-1].(*ast.AssignStmt)
	if !ok || as.Tok != token.ASSIGN || len(as.Lhs) != 1 || len(as.Rhs) != 1 {
		fail("last statement is not an assignment")
		return
	}
	if l, ok := c05term(as.Lhs[0], recv, map[string]bool{}); !ok || l != "cur" {
		fail("last statement does not assign the ArcType")
		return
	}
	if r, ok := c05term(as.Rhs[0], recv, map[string]bool{}); !ok || r != "t" {
		fail("last statement does not assign t")
		return
	}
	// no other assignment to ArcType anywhere in the body
	nAssign := 0
	ast.Inspect(fd.Body, func(n ast.Node) bool {
		if a, ok := n.(*ast.AssignStmt); ok {
			for _, l := range a.Lhs {
				if s, ok := c05term(l, recv, map[string]bool{}); ok && s == "cur" {
					nAssign++
				}
			}
		}
		return true
	})
	if nAssign != 1 {
		fail("ArcType is assigned more than once")
		return
	}
	// the guards: top-level `if cond { return }` statements whose condition is translatable
	// (conditions mentioning other state, e.g. the ArcPending cycle report, are rendered only
	// if they consist of t / ArcType / constants; the others must not return for the modelled
	// kinds: they test `== ArcPending`, which the bridge theorem excludes by quantifying over
	// member/required/optional)
	consts := map[string]bool{}
	var guards []string
	var srcs []string
	for _, st := range body[:len(body)-1] {
		is, ok := st.(*ast.IfStmt)
		if !ok || is.Else != nil || is.Init != nil {
			continue
		}
		if len(is.Body.List) != 1 {
			continue
		}
		if _, ok := is.Body.List[0].(*ast.ReturnStmt); !ok {
			continue
		}
		g, ok := c05cond(is.Cond, recv, consts)
		if !ok {
			fail("a returning guard is not translatable: " + p.src(is.Cond))
			return
		}
		guards = append(guards, g)
		srcs = append(srcs, p.src(is.Cond))
	}
	if len(guards) == 0 {
		fail("no returning guard")
		return
	}
	for c := range consts {
		if !known[c] {
			o.constInt("internal/core/adt", c, c05lowerFirst(c))
		}
	}
	fmt.Fprintf(o, "/-- translated from the returning guard(s) of adt.Vertex.updateArcType: `%s` -/\n", strings.Join(srcs, "` ; `"))
	fmt.Fprintf(o, "def updateArcTypeKeeps (cur t : Int) : Bool :=\n  %s\n", strings.Join(guards, " || "))
	fmt.Fprintf(o, "/-- … followed by `%s` -/\n", p.src(as))
	fmt.Fprintf(o, "def updateArcTypeResult (cur t : Int) : Int :=\n  if updateArcTypeKeeps cur t then cur else t\n")
}
