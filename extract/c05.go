package main

import (
	"crypto/sha256"
	"encoding/hex"
	"fmt"
)

// pinValue fingerprints the initialiser of a package-level var/const (used for
// `var closeBuiltin = &adt.Builtin{…}` whose Func literal the model transcribes).
func (o *out) pinValue(dir, name, leanName string) {
	p := loadPkg(dir)
	e := p.findValue(name)
	if e == nil {
		fmt.Fprintf(o, "def %s : String := \"unavailable\"\n", leanName)
		return
	}
	h := sha256.Sum256([]byte(p.src(e)))
	fmt.Fprintf(o, "def %s : String := %s\n", leanName, leanStr(hex.EncodeToString(h[:8])))
}

func init() {
	gens["C05"] = func(o *out) {
		// adt.ArcType: the order of the constants IS the merge order of updateArcType
		o.constInt("internal/core/adt", "ArcMember", "arcMember")
		o.constInt("internal/core/adt", "ArcRequired", "arcRequired")
		o.constInt("internal/core/adt", "ArcOptional", "arcOptional")
		o.constInt("internal/core/adt", "ArcPending", "arcPending")
		// the merge itself: translated from the guard + final assignment of updateArcType
		o.arcMerge(map[string]bool{"ArcMember": true, "ArcRequired": true, "ArcOptional": true, "ArcPending": true})
		// hand-transcribed: the merge (Kind.merge), one-level closing by close()
		// (closeV), the required/concreteness walk (validate), Allows (Val.allows).
		// The evidence-based typo check (typocheck.go) is deliberately NOT pinned: it is
		// held to the semantic model by correspondence only.
		o.pins("internal/core/adt", "Vertex.updateArcType", "Vertex.Accept", "Vertex.accepts",
			"Vertex.IsOpenStruct", "Vertex.IsClosedStruct", "isClosed", "validator.validate")
		o.pinValue("internal/core/compile", "closeBuiltin", "pin_compile_closeBuiltin")
		o.pins("cue", "Value.Allows")
		// ---- evidence algorithm (session 3): Model/Typo.lean transcribes these by hand
		o.constInt("internal/core/adt", "defEmbedding", "defEmbedding")
		o.constInt("internal/core/adt", "defReference", "defReference")
		o.constInt("internal/core/adt", "defStruct", "defStruct")
		o.constInt("internal/core/adt", "cHasEllipsis", "cHasEllipsis")
		o.constInt("internal/core/adt", "cHasTop", "cHasTop")
		o.constInt("internal/core/adt", "cHasStruct", "cHasStruct")
		o.pins("internal/core/adt",
			"OpContext.getNextDefID", "nodeContext.addReplacement", "nodeContext.updateConjunctInfo",
			"nodeContext.addResolver", "OpContext.subField", "nodeContext.newReq",
			"nodeContext.injectEmbedNode", "nodeContext.splitStruct", "nodeContext.splitScope",
			"nodeContext.checkTypos", "nodeContext.hasEvidenceForAll", "nodeContext.hasEvidenceForOne",
			"nodeContext.containsDefIDRec", "getReqSets", "nodeContext.filterTop", "hasParentEllipsis",
			"markIgnored", "filterSets", "reqSets.lookupSet",
			// pattern constraints (Model/PatMatch.lean)
			"matchPattern", "matchPatternValue", "BoundValue.validateStr",
			// the callers Layer B follows
			"nodeContext.scheduleStruct", "nodeContext.scheduleVertexConjuncts", "OpContext.notAllowedError")
	}
}
