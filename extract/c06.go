package main

// Facts regenerated for C06 (arithmetic, comparison, number literals and printing):
//   - internal.BaseContext precision and its source expression; the literal package's own
//     context precision; the apd version of go.mod;
//   - which apd context method each of OpContext.Add/Sub/Mul/Quo/Pow hands to numOp, which
//     big.Int method each of IntDiv/IntMod/IntQuo/IntRem uses, which of those each builtin
//     div/mod/quo/rem calls;
//   - adt.cmpTonode as a table; literal.charToMul and the multiplier bases of mulToRat;
//   - fingerprints of the functions the Lean model transcribes by hand.

import (
	"fmt"
	"go/ast"
	"go/token"
	"os"
	"path/filepath"
	"regexp"
	"sort"
	"strconv"
	"strings"
)

func init() {
	gens["C06"] = func(o *out) {
		c06Precision(o)
		c06LitPrecision(o)
		c06ApdVersion(o)
		c06ArithCtx(o)
		c06IntDivTable(o)
		c06BuiltinTable(o)
		c06CmpTonode(o)
		c06Multipliers(o)
		c06Unmarshal(o)
		o.pins("internal/core/adt", "numOp", "intDivOp", "OpContext.Add", "OpContext.Sub", "OpContext.Mul",
			"OpContext.Quo", "OpContext.IntDiv", "OpContext.IntMod", "OpContext.IntQuo", "OpContext.IntRem",
			"BinOp", "cmpTonode", "OpContext.newNum", "UnaryExpr.evaluate", "Num.Cmp")
		o.pins("internal", "reduceKeepingFloats", "Context.Quo")
		o.pins("cue/literal", "NumInfo.decimal", "ParseNum", "NumInfo.scanNumber", "NumInfo.scanMantissa", "NumInfo.next")
		o.pins("internal/core/compile", "intDivOp", "compiler.parse")
		o.pins("internal/core/export", "exporter.num")
		o.pins("pkg/math", "Floor", "Ceil", "Trunc", "Round", "RoundToEven", "toInt", "MultipleOf", "Abs", "Pow")
	}
}

func c06Precision(o *out) {
	p := loadPkg("internal")
	v := p.findValue("BaseContext")
	found := ""
	if v != nil {
		ast.Inspect(v, func(n ast.Node) bool {
			if call, ok := n.(*ast.CallExpr); ok {
				if sel, ok := call.Fun.(*ast.SelectorExpr); ok && sel.Sel.Name == "WithPrecision" && len(call.Args) == 1 {
					if bl, ok := call.Args[0].(*ast.BasicLit); ok && bl.Kind == token.INT {
						found = bl.Value
					}
				}
			}
			return true
		})
	}
	if found == "" {
		fmt.Fprintf(o, "def basePrecision_unavailable : Unit := ()\n")
		return
	}
	fmt.Fprintf(o, "def basePrecision : Nat := %s\n", found)
	fmt.Fprintf(o, "/-- source of `internal.BaseContext` (no Rounding field: apd's default, half up) -/\ndef baseContextSrc : String := %s\n", leanStr(p.src(v)))
}

// c06LitPrecision finds `baseContext.Precision = N` in package literal.
func c06LitPrecision(o *out) {
	p := loadPkg("cue/literal")
	found := ""
	var assigns []string
	for _, f := range p.files {
		ast.Inspect(f, func(n ast.Node) bool {
			as, ok := n.(*ast.AssignStmt)
			if !ok || len(as.Lhs) != 1 || len(as.Rhs) != 1 {
				return true
			}
			lhs := p.src(as.Lhs[0])
			if strings.HasPrefix(lhs, "baseContext") {
				assigns = append(assigns, lhs+" = "+p.src(as.Rhs[0]))
				if lhs == "baseContext.Precision" {
					if bl, ok := as.Rhs[0].(*ast.BasicLit); ok && bl.Kind == token.INT {
						found = bl.Value
					}
				}
			}
			return true
		})
	}
	if found == "" {
		fmt.Fprintf(o, "def litPrecision_unavailable : Unit := ()\n")
		return
	}
	fmt.Fprintf(o, "def litPrecision : Nat := %s\n", found)
	sort.Strings(assigns)
	fmt.Fprintf(o, "/-- every assignment to literal.baseContext -/\ndef litContextAssigns : List String := [%s]\n", c06Strs(assigns))
}

func c06Strs(xs []string) string {
	var q []string
	for _, x := range xs {
		q = append(q, leanStr(x))
	}
	return strings.Join(q, ", ")
}

func c06ApdVersion(o *out) {
	b, err := os.ReadFile(filepath.Join(repo, "go.mod"))
	v := ""
	if err == nil {
		m := regexp.MustCompile(`github.com/cockroachdb/apd/v3 (v[0-9.]+)`).FindSubmatch(b)
		if m != nil {
			v = string(m[1])
		}
	}
	if v == "" {
		fmt.Fprintf(o, "def apdVersion_unavailable : Unit := ()\n")
		return
	}
	fmt.Fprintf(o, "def apdVersion : String := %s\n", leanStr(v))
}

// selectorArgs returns the source text of every argument of calls to callee inside fn.
func c06CallArgs(p *pkg, fd *ast.FuncDecl, callee string) [][]string {
	var res [][]string
	if fd == nil || fd.Body == nil {
		return nil
	}
	ast.Inspect(fd.Body, func(n ast.Node) bool {
		call, ok := n.(*ast.CallExpr)
		if !ok {
			return true
		}
		if p.src(call.Fun) == callee {
			var as []string
			for _, a := range call.Args {
				as = append(as, p.src(a))
			}
			res = append(res, as)
		}
		return true
	})
	return res
}

// c06ArithCtx: OpContext.X → the function handed to numOp.
func c06ArithCtx(o *out) {
	p := loadPkg("internal/core/adt")
	var rows []string
	for _, m := range []string{"Add", "Sub", "Mul", "Quo", "Pow"} {
		calls := c06CallArgs(p, p.findFunc("OpContext."+m), "numOp")
		if len(calls) != 1 || len(calls[0]) != 4 {
			fmt.Fprintf(o, "def arithCtx_unavailable : Unit := ()\n")
			return
		}
		rows = append(rows, fmt.Sprintf("(%s, %s)", leanStr(m), leanStr(calls[0][1])))
	}
	fmt.Fprintf(o, "/-- OpContext method ↦ function passed to numOp -/\ndef arithCtx : List (String × String) := [%s]\n", strings.Join(rows, ", "))
}

func c06IntDivTable(o *out) {
	p := loadPkg("internal/core/adt")
	var rows []string
	for _, m := range []string{"IntDiv", "IntMod", "IntQuo", "IntRem"} {
		calls := c06CallArgs(p, p.findFunc("OpContext."+m), "intDivOp")
		if len(calls) != 1 || len(calls[0]) != 4 {
			fmt.Fprintf(o, "def intDivTable_unavailable : Unit := ()\n")
			return
		}
		rows = append(rows, fmt.Sprintf("(%s, %s)", leanStr(m), leanStr(calls[0][1])))
	}
	fmt.Fprintf(o, "/-- OpContext method ↦ big.Int function passed to intDivOp -/\ndef intDivTable : List (String × String) := [%s]\n", strings.Join(rows, ", "))
}

func c06BuiltinTable(o *out) {
	p := loadPkg("internal/core/compile")
	var rows []string
	for _, b := range []string{"div", "mod", "quo", "rem"} {
		v := p.findValue(b + "Builtin")
		if v == nil {
			fmt.Fprintf(o, "def builtinTable_unavailable : Unit := ()\n")
			return
		}
		name, params, result, fn := "", "", "", ""
		ast.Inspect(v, func(n ast.Node) bool {
			switch x := n.(type) {
			case *ast.KeyValueExpr:
				switch p.src(x.Key) {
				case "Name":
					name = p.src(x.Value)
				case "Params":
					params = p.src(x.Value)
				case "Result":
					result = p.src(x.Value)
				}
			case *ast.CallExpr:
				if p.src(x.Fun) == "intDivOp" && len(x.Args) == 5 {
					fn = p.src(x.Args[1]) + " " + p.src(x.Args[3]) + " " + p.src(x.Args[4])
				}
			}
			return true
		})
		rows = append(rows, fmt.Sprintf("(%s, %s, %s, %s)", leanStr(name), leanStr(params), leanStr(result), leanStr(fn)))
	}
	fmt.Fprintf(o, "/-- builtin ↦ (Name, Params, Result, function and arguments handed to compile.intDivOp) -/\ndef builtinTable : List (String × String × String × String) :=\n  [%s]\n", strings.Join(rows, ",\n   "))
}

func c06CmpTonode(o *out) {
	p := loadPkg("internal/core/adt")
	fd := p.findFunc("cmpTonode")
	if fd == nil || fd.Body == nil {
		fmt.Fprintf(o, "def cmpTonode_unavailable : Unit := ()\n")
		return
	}
	var rows []string
	ok := false
	for _, st := range fd.Body.List {
		sw, isSw := st.(*ast.SwitchStmt)
		if !isSw {
			continue
		}
		ok = true
		for _, c := range sw.Body.List {
			cc := c.(*ast.CaseClause)
			if len(cc.Body) != 1 {
				ok = false
				continue
			}
			as, isAs := cc.Body[0].(*ast.AssignStmt)
			if !isAs || len(as.Rhs) != 1 || as.Tok != token.ASSIGN {
				ok = false
				continue
			}
			for _, e := range cc.List {
				rows = append(rows, fmt.Sprintf("(%s, %s)", leanStr(p.src(e)), leanStr(p.src(as.Rhs[0]))))
			}
		}
	}
	if !ok {
		fmt.Fprintf(o, "def cmpTonode_unavailable : Unit := ()\n")
		return
	}
	fmt.Fprintf(o, "/-- adt.cmpTonode: (op, truth of the comparison in terms of the three-way result r) -/\ndef cmpTonode : List (String × String) :=\n  [%s]\n", strings.Join(rows, ",\n   "))
}

// c06Multipliers: charToMul (letter ↦ index) and the two bases used to fill mulToRat.
func c06Multipliers(o *out) {
	p := loadPkg("cue/literal")
	v := p.findValue("charToMul")
	cl, isCl := v.(*ast.CompositeLit)
	if !isCl {
		fmt.Fprintf(o, "def charToMul_unavailable : Unit := ()\n")
		return
	}
	var rows []string
	for _, el := range cl.Elts {
		kv, ok := el.(*ast.KeyValueExpr)
		if !ok {
			fmt.Fprintf(o, "def charToMul_unavailable : Unit := ()\n")
			return
		}
		bl, ok1 := kv.Key.(*ast.BasicLit)
		id, ok2 := kv.Value.(*ast.Ident)
		if !ok1 || !ok2 || bl.Kind != token.CHAR {
			fmt.Fprintf(o, "def charToMul_unavailable : Unit := ()\n")
			return
		}
		ch, _, _, err := strconv.UnquoteChar(bl.Value[1:len(bl.Value)-1], '\'')
		val, okc := p.constVal(id.Name)
		if err != nil || !okc {
			fmt.Fprintf(o, "def charToMul_unavailable : Unit := ()\n")
			return
		}
		rows = append(rows, fmt.Sprintf("(%d, %s)", ch, val.ExactString()))
	}
	fmt.Fprintf(o, "/-- literal.charToMul: (letter, index) -/\ndef charToMul : List (Nat × Nat) := [%s]\n", strings.Join(rows, ", "))
	for _, k := range []string{"mulBin", "mulDec"} {
		if val, ok := p.constVal(k); ok {
			fmt.Fprintf(o, "def %s : Nat := %s\n", k, val.ExactString())
		} else {
			fmt.Fprintf(o, "def %s_unavailable : Unit := ()\n", k)
		}
	}
	// the init function that fills mulToRat: collect apd.New(…) calls and the map assignments
	var news, assigns []string
	loop := ""
	for _, f := range p.files {
		for _, d := range f.Decls {
			fd, ok := d.(*ast.FuncDecl)
			if !ok || fd.Name.Name != "init" || fd.Body == nil || !strings.Contains(p.src(fd.Body), "mulToRat") {
				continue
			}
			ast.Inspect(fd.Body, func(n ast.Node) bool {
				switch x := n.(type) {
				case *ast.AssignStmt:
					if len(x.Lhs) == 1 && len(x.Rhs) == 1 {
						l, r := p.src(x.Lhs[0]), p.src(x.Rhs[0])
						if strings.HasPrefix(r, "apd.New(") {
							news = append(news, l+" := "+r)
						}
						if strings.HasPrefix(l, "mulToRat[") {
							assigns = append(assigns, l+" = "+r)
						}
					}
				case *ast.ForStmt:
					loop = p.src(x.Init) + "; " + p.src(x.Cond) + "; " + p.src(x.Post)
				case *ast.CallExpr:
					if s := p.src(x); strings.HasPrefix(s, "c.Mul(") {
						assigns = append(assigns, s)
					}
				}
				return true
			})
		}
	}
	fmt.Fprintf(o, "/-- the init function filling literal.mulToRat: constants, loop header, multiplications and stores -/\ndef mulToRatInit : List String := [%s]\n", c06Strs(append(append(news, loop), assigns...)))
}

// c06Unmarshal: the statement of NumInfo.decimal that reads the buffer with UnmarshalText —
// whether its error is returned (commit 1674508) or dropped.
func c06Unmarshal(o *out) {
	p := loadPkg("cue/literal")
	fd := p.findFunc("NumInfo.decimal")
	found := ""
	mul := ""
	if fd != nil && fd.Body != nil {
		for _, st := range fd.Body.List {
			if src := p.src(st); strings.Contains(src, "UnmarshalText") {
				found = src
			}
		}
		ast.Inspect(fd.Body, func(n ast.Node) bool {
			if call, ok := n.(*ast.CallExpr); ok {
				if src := p.src(call); strings.Contains(src, ".Mul(") && strings.Contains(src, "mulToRat") {
					mul = src
				}
			}
			return true
		})
	}
	if mul == "" {
		fmt.Fprintf(o, "def mulCall_unavailable : Unit := ()\n")
	} else {
		fmt.Fprintf(o, "/-- the multiplication by the SI/IEC multiplier in NumInfo.decimal (which context) -/\ndef mulCall : String := %s\n", leanStr(mul))
	}
	if found == "" {
		fmt.Fprintf(o, "def unmarshalStmt_unavailable : Unit := ()\n")
		return
	}
	fmt.Fprintf(o, "/-- how NumInfo.decimal treats the error of UnmarshalText -/\ndef unmarshalStmt : String := %s\n", leanStr(found))
}
