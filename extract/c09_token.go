package main

// C09 extension: facts about cue/token/position.go (the position table) for
// lean/CueVerif/Model/TokenFile.lean.

import (
	"fmt"
	"os"
	"path/filepath"
	"regexp"
	"strings"
)

// countCallSites counts textual call sites `.<name>(` in the non-test Go files of the tree
// (vendored and testdata directories included: a call anywhere would make the modelled
// "f.infos is empty" assumption wrong).
func countCallSites(name string) int {
	re := regexp.MustCompile(`\.` + regexp.QuoteMeta(name) + `\(`)
	n := 0
	filepath.WalkDir(repo, func(p string, d os.DirEntry, err error) error {
		if err != nil {
			return nil
		}
		if d.IsDir() {
			if b := d.Name(); b == ".git" || b == "node_modules" {
				return filepath.SkipDir
			}
			return nil
		}
		if !strings.HasSuffix(p, ".go") || strings.HasSuffix(p, "_test.go") {
			return nil
		}
		b, err := os.ReadFile(p)
		if err != nil {
			return nil
		}
		n += len(re.FindAll(b, -1))
		return nil
	})
	return n
}

func c09TokenGen(o *out) {
	o.constInt("cue/token", "relShift", "relShift")
	o.constInt("cue/token", "relMask", "relMask")
	o.constInt("cue/token", "commaBit", "commaBit")
	o.constInt("cue/token", "scannedBit", "scannedBit")
	fmt.Fprintf(o, "def addLineInfoCallSites : Nat := %d\n", countCallSites("AddLineInfo"))
	fmt.Fprintf(o, "def mergeLineCallSites : Nat := %d\n", countCallSites("MergeLine"))
	fmt.Fprintf(o, "def setLinesCallSites : Nat := %d\n", countCallSites("SetLines"))
	o.pins("cue/token", "NewFile", "File.fixOffset", "File.AddLine", "File.SetLines", "File.SetLinesForContent",
		"File.Pos", "File.Offset", "File.unpack", "File.position", "File.PositionFor", "File.Position",
		"searchInts", "toPos", "Pos.index", "Pos.Add", "Pos.Position", "Pos.Offset", "Pos.HasAbsPos", "Pos.IsValid",
		"File.Lines", "File.LineCount")
}
