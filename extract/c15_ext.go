package main

// C15 extension: string tables of the directory walk, regenerated from the source so that the
// model's copies are proved equal (Bridge/C15.lean: vcsNames_eq, vendorPrefix_eq).

import (
	"fmt"
	"go/ast"
	"go/token"
	"strconv"
	"strings"
)

func init() {
	prev := gens["C15"]
	gens["C15"] = func(o *out) {
		prev(o)
		c15CaseStrings(o, "mod/modzip", "listFilesInDir", "vcsNames")
		c15PrefixLiteral(o, "mod/modzip", "isVendoredPackage", "vendorPrefix")
	}
}

func c15Bytes(s string) string {
	var bs []string
	for i := 0; i < len(s); i++ {
		bs = append(bs, strconv.Itoa(int(s[i])))
	}
	return "[" + strings.Join(bs, ",") + "]"
}

// c15CaseStrings emits the string literals of the first `case "a", "b", …:` clause inside a function.
func c15CaseStrings(o *out, dir, fn, lean string) {
	p := loadPkg(dir)
	fd := p.findFunc(fn)
	if fd == nil || fd.Body == nil {
		fmt.Fprintf(o, "def %s_unavailable : Unit := ()\n", lean)
		return
	}
	var items []string
	done := false
	ast.Inspect(fd.Body, func(n ast.Node) bool {
		if done {
			return false
		}
		cc, ok := n.(*ast.CaseClause)
		if !ok || len(cc.List) == 0 {
			return true
		}
		var its []string
		for _, e := range cc.List {
			lit, ok := e.(*ast.BasicLit)
			if !ok || lit.Kind != token.STRING {
				return true
			}
			s, err := strconv.Unquote(lit.Value)
			if err != nil {
				return true
			}
			its = append(its, c15Bytes(s))
		}
		items = its
		done = true
		return false
	})
	if !done {
		fmt.Fprintf(o, "def %s_unavailable : Unit := ()\n", lean)
		return
	}
	fmt.Fprintf(o, "/-- the names of the `case` clause in %s.%s -/\ndef %s : List (List Nat) :=\n  [%s]\n", dir, fn, lean, strings.Join(items, ","))
}

// c15PrefixLiteral emits the literal of `return strings.HasPrefix(x, "lit")` when that is the whole body.
func c15PrefixLiteral(o *out, dir, fn, lean string) {
	p := loadPkg(dir)
	fd := p.findFunc(fn)
	bad := func() { fmt.Fprintf(o, "def %s_unavailable : Unit := ()\n", lean) }
	if fd == nil || fd.Body == nil || len(fd.Body.List) != 1 {
		bad()
		return
	}
	rs, ok := fd.Body.List[0].(*ast.ReturnStmt)
	if !ok || len(rs.Results) != 1 {
		bad()
		return
	}
	ce, ok := rs.Results[0].(*ast.CallExpr)
	if !ok || len(ce.Args) != 2 {
		bad()
		return
	}
	sel, ok := ce.Fun.(*ast.SelectorExpr)
	if !ok || sel.Sel.Name != "HasPrefix" {
		bad()
		return
	}
	if pk, ok := sel.X.(*ast.Ident); !ok || pk.Name != "strings" {
		bad()
		return
	}
	lit, ok := ce.Args[1].(*ast.BasicLit)
	if !ok || lit.Kind != token.STRING {
		bad()
		return
	}
	s, err := strconv.Unquote(lit.Value)
	if err != nil {
		bad()
		return
	}
	fmt.Fprintf(o, "/-- the prefix tested by %s.%s -/\ndef %s : List Nat := %s\n", dir, fn, lean, c15Bytes(s))
}
