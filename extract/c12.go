package main

func init() {
	gens["C12"] = func(o *out) {
		// the functions Model/Toml.lean transcribes by hand
		o.pins("encoding/toml", "NewDecoder", "Decoder.Decode", "Decoder.nextRootNode", "Decoder.decodeField",
			"Decoder.findArray", "Decoder.findArrayPrefix", "Decoder.decodeKey", "Decoder.inlineFields",
			"quoteLabelIfNeeded", "Decoder.label", "Decoder.decodeExpr", "NewEncoder", "Encoder.Encode", "checkNoNull")
		o.pins("cue/ast", "StringLabelNeedsQuoting")
		// repaired defects of this property (known-findings.d/C12.txt, fixed: lines): the code of the
		// repairs is pinned so that touching it triggers the failing-input search
		o.pins("cue", "Value.Int64")
		o.pins("cmd/cue/cmd", "buildPlan.placeOrphans")
		// how output files are opened (refuse / replace an existing file): exercised by c12_overwrite.go
		o.pins("internal/encoding", "writer")
	}
}
