package main

func init() {
	gens["C12"] = func(o *out) {
		// the functions Model/Toml.lean transcribes by hand
		o.pins("encoding/toml", "NewDecoder", "Decoder.Decode", "Decoder.nextRootNode", "Decoder.decodeField",
			"Decoder.findArray", "Decoder.findArrayPrefix", "Decoder.decodeKey", "Decoder.inlineFields",
			"quoteLabelIfNeeded", "Decoder.label", "Decoder.decodeExpr", "NewEncoder", "Encoder.Encode")
		o.pins("cue/ast", "StringLabelNeedsQuoting")
	}
}
