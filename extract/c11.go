package main

// C11 — facts regenerated from internal/encoding/yaml/goccy/{encode,decode}.go and
// internal/encoding/yaml/encode.go: string tables (as byte lists), regexp source texts, the
// rune test of yamlUnprintable, the pre-filter byte set of shouldQuote, pins of the
// hand-transcribed decision functions.

import (
	"fmt"
	"go/ast"
	"go/token"
	"sort"
	"strconv"
	"strings"
)

func c11Bytes(s string) string {
	var ps []string
	for i := 0; i < len(s); i++ {
		ps = append(ps, strconv.Itoa(int(s[i])))
	}
	return "[" + strings.Join(ps, ", ") + "]"
}

func c11Lit(e ast.Expr) (string, bool) {
	if bl, ok := e.(*ast.BasicLit); ok && bl.Kind == token.STRING {
		s, err := strconv.Unquote(bl.Value)
		return s, err == nil
	}
	return "", false
}

// c11StrKeys emits the keys of a `map[string]bool{…}` / `map[string]string{…}` package variable
// as a sorted `List (List Nat)` (and, for string values, a sorted list of pairs).
func (o *out) c11StrMap(dir, goName, leanName string, withValues bool) {
	p := loadPkg(dir)
	cl, ok := p.findValue(goName).(*ast.CompositeLit)
	if !ok {
		fmt.Fprintf(o, "def %s_unavailable : Unit := ()  -- %s not found\n", leanName, goName)
		return
	}
	type kv struct{ k, v string }
	var items []kv
	for _, e := range cl.Elts {
		x, ok := e.(*ast.KeyValueExpr)
		if !ok {
			fmt.Fprintf(o, "def %s_unavailable : Unit := ()  -- %s: unexpected element\n", leanName, goName)
			return
		}
		k, ok1 := c11Lit(x.Key)
		v, ok2 := "", true
		if withValues {
			v, ok2 = c11Lit(x.Value)
		} else if id, isId := x.Value.(*ast.Ident); !isId || id.Name != "true" {
			ok2 = false
		}
		if !ok1 || !ok2 {
			fmt.Fprintf(o, "def %s_unavailable : Unit := ()  -- %s: unexpected element\n", leanName, goName)
			return
		}
		items = append(items, kv{k, v})
	}
	sort.Slice(items, func(i, j int) bool { return items[i].k < items[j].k })
	var ps, names []string
	for _, it := range items {
		names = append(names, strconv.Quote(it.k))
		if withValues {
			ps = append(ps, "("+c11Bytes(it.k)+", "+c11Bytes(it.v)+")")
		} else {
			ps = append(ps, c11Bytes(it.k))
		}
	}
	ty := "List (List Nat)"
	if withValues {
		ty = "List (List Nat × List Nat)"
	}
	fmt.Fprintf(o, "/-- %s.%s, keys sorted: %s -/\ndef %s : %s :=\n  [%s]\n", dir, goName, strings.Join(names, " "), leanName, ty, strings.Join(ps, ",\n   "))
}

// c11Regexp emits the source text of `var name = sync.OnceValue(func() *regexp.Regexp { return
// regexp.MustCompile(`…`) })` (or a direct regexp.MustCompile).
func (o *out) c11Regexp(dir, goName, leanName string) {
	p := loadPkg(dir)
	src, found := "", false
	if v := p.findValue(goName); v != nil {
		ast.Inspect(v, func(n ast.Node) bool {
			call, ok := n.(*ast.CallExpr)
			if !ok || found {
				return true
			}
			if sel, ok := call.Fun.(*ast.SelectorExpr); ok && sel.Sel.Name == "MustCompile" && len(call.Args) == 1 {
				if s, ok := c11Lit(call.Args[0]); ok {
					src, found = s, true
				}
			}
			return true
		})
	}
	if !found {
		fmt.Fprintf(o, "def %s_unavailable : Unit := ()  -- %s not found\n", leanName, goName)
		return
	}
	fmt.Fprintf(o, "def %s : String := %s\n", leanName, leanStr(src))
}

// c11ConstBytes emits a string constant as bytes.
func (o *out) c11ConstBytes(dir, goName, leanName string) {
	p := loadPkg(dir)
	t := &trCtx{p: p}
	if s, ok := t.constString(ast.NewIdent(goName)); ok {
		fmt.Fprintf(o, "/-- %s.%s = %s -/\ndef %s : List Nat := %s\n", dir, goName, strconv.Quote(s), leanName, c11Bytes(s))
		return
	}
	fmt.Fprintf(o, "def %s_unavailable : Unit := ()  -- %s not found\n", leanName, goName)
}

// c11CallArg emits the string-literal first argument of the first call `pkg.fn("…", …)` found
// in a function (the byte set of shouldQuote's pre-filter).
func (o *out) c11CallArg(dir, goFunc, pkgName, fn, leanName string) {
	p := loadPkg(dir)
	fd := p.findFunc(goFunc)
	if fd != nil {
		var res *string
		ast.Inspect(fd, func(n ast.Node) bool {
			call, ok := n.(*ast.CallExpr)
			if !ok || res != nil {
				return true
			}
			if sel, ok := call.Fun.(*ast.SelectorExpr); ok && sel.Sel.Name == fn {
				if id, ok := sel.X.(*ast.Ident); ok && id.Name == pkgName && len(call.Args) > 0 {
					if s, ok := c11Lit(call.Args[0]); ok {
						res = &s
					}
				}
			}
			return true
		})
		if res != nil {
			fmt.Fprintf(o, "/-- first argument of %s.%s in %s.%s: %s -/\ndef %s : List Nat := %s\n", pkgName, fn, dir, goFunc, strconv.Quote(*res), leanName, c11Bytes(*res))
			return
		}
	}
	fmt.Fprintf(o, "def %s_unavailable : Unit := ()  -- %s.%s call not found in %s\n", leanName, pkgName, fn, goFunc)
}

// c11CaseCond translates the condition of the switch case (in a tagless switch inside a
// range loop of the function) that mentions the given literal, as a predicate of `param`.
func (o *out) c11CaseCond(dir, goFunc, mention, param, leanName string) {
	p := loadPkg(dir)
	fd := p.findFunc(goFunc)
	if fd != nil {
		var cond ast.Expr
		ast.Inspect(fd, func(n ast.Node) bool {
			cc, ok := n.(*ast.CaseClause)
			if !ok || cond != nil || len(cc.List) != 1 {
				return true
			}
			if strings.Contains(p.src(cc.List[0]), mention) {
				cond = cc.List[0]
			}
			return true
		})
		if cond != nil {
			t := &trCtx{p: p, params: map[string]bool{param: true}}
			body := t.expr(cond)
			if t.err == nil {
				fmt.Fprintf(o, "/-- translated from the switch case of %s.%s mentioning %s -/\ndef %s (%s : Nat) : Bool :=\n  %s\n", dir, goFunc, mention, leanName, param, body)
				return
			}
			fmt.Fprintf(o, "def %s_unavailable : Unit := ()  -- %s: %v\n", leanName, goFunc, t.err)
			return
		}
	}
	fmt.Fprintf(o, "def %s_unavailable : Unit := ()  -- case not found in %s\n", leanName, goFunc)
}

// c11Loops: the string-scanning decision functions, translated mechanically by lib_loops.go
// (bridge theorems `Gen.C11.f … = Yaml.f …` in Bridge/C11.lean replace their pins).
func c11Loops(o *out) {
	const g = "internal/encoding/yaml/goccy"
	const v3 = "internal/encoding/yaml"
	isPrint := Extern{Key: "unicode.IsPrint", Name: "isPrint", Type: "Nat → Bool", Res: tBool}
	legacy := Extern{Key: "legacyStrings[]", Name: "legacy", Type: "List Nat → Bool", Res: tBool}
	useQ := Extern{Key: "useQuote().MatchString", Name: "useQuoteMatch", Type: "List Nat → Bool", Res: tBool}
	anyOct := Extern{Key: "rxAnyOctalYaml11().MatchString", Name: "anyOctalMatch", Type: "List Nat → Bool", Res: tBool}
	nonStr := Extern{Key: "decodesAsNonString", Name: "decodesAsNonString", Type: "List Nat → Bool", Res: tBool}
	goQuote := Extern{Key: "strconv.Quote", Name: "goQuote", Type: "List Nat → List Nat", Res: tStr}
	rxInt := Extern{Key: "rxYamlInt().MatchString", Name: "yamlIntMatch", Type: "List Nat → Bool", Res: tBool}
	rxFloat := Extern{Key: "rxYamlFloat().MatchString", Name: "yamlFloatMatch", Type: "List Nat → Bool", Res: tBool}
	o.WriteString(LoopsPrelude)
	nsq := &LoopFn{Dir: g, Go: "needsSingleQuoting", Lean: "needsSingleQuoting"}
	sq := &LoopFn{Dir: g, Go: "singleQuoted", Lean: "singleQuoted"}
	unp := &LoopFn{Dir: g, Go: "yamlUnprintable", Lean: "yamlUnprintable", Externs: []Extern{ExtDecodeRune, isPrint}}
	bls := &LoopFn{Dir: g, Go: "blockLiteralSafe", Lean: "blockLiteralSafe", Externs: unp.Externs, Calls: []*LoopFn{unp}}
	shq := &LoopFn{Dir: g, Go: "shouldQuote", Lean: "shouldQuote",
		Externs: []Extern{legacy, useQ, anyOct, nonStr, ExtDecodeRune, isPrint}, Calls: []*LoopFn{unp}}
	qs := &LoopFn{Dir: g, Go: "quoteScalar", Lean: "quoteScalar",
		Externs: append(append([]Extern{}, shq.Externs...), goQuote), Calls: []*LoopFn{nsq, sq, unp, shq}}
	consts := map[string]string{}
	tp := loadPkg("cue/token")
	for _, n := range []string{"ILLEGAL", "INT", "FLOAT"} {
		if v, ok := tp.constVal(n); ok {
			consts["token."+n] = v.ExactString()
			fmt.Fprintf(o, "def token_%s : Nat := %s\n", n, v.ExactString())
		}
	}
	nk := &LoopFn{Dir: g, Go: "numberKind", Lean: "numberKind", Externs: []Extern{rxInt, rxFloat}, Consts: consts, RetNat: true}
	oct := &LoopFn{Dir: g, Go: "yaml11OctalToCUE", Lean: "yaml11OctalToCUE", Externs: []Extern{ExtDecodeRune}}
	shq3 := &LoopFn{Dir: v3, Go: "shouldQuote", Lean: "shouldQuoteV3", Externs: []Extern{legacy, useQ}}
	for _, f := range []*LoopFn{nsq, sq, unp, bls, shq, qs, nk, oct, shq3} {
		o.loopFn(f)
	}
}

func init() {
	gens["C11"] = func(o *out) {
		const g = "internal/encoding/yaml/goccy"
		const v3 = "internal/encoding/yaml"
		o.c11StrMap(g, "legacyStrings", "legacyStrings", false)
		o.c11StrMap(g, "specialFloats", "specialFloats", true)
		o.c11ConstBytes(g, "nonStringStarts", "nonStringStarts")
		o.c11CallArg(g, "shouldQuote", "strings", "IndexByte", "regexpStarts")
		o.c11CaseCond(g, "yamlUnprintable", "0x7F", "r", "unprintableRune")
		o.c11Regexp(g, "useQuote", "re_useQuote")
		o.c11Regexp(g, "rxAnyOctalYaml11", "re_rxAnyOctalYaml11")
		o.c11Regexp(g, "rxYamlInt", "re_rxYamlInt")
		o.c11Regexp(g, "rxYamlFloat", "re_rxYamlFloat")
		o.c11StrMap(v3, "legacyStrings", "legacyStringsV3", false)
		o.c11Regexp(v3, "useQuote", "re_useQuoteV3")
		o.c11Regexp(v3, "rxAnyOctalYaml11", "re_rxAnyOctalYaml11V3")
		c11Loops(o)
		// hand-transcribed decision functions outside the loop translator's subset, pinned
		o.pins(g, "encodeScalar", "decodesAsNonString", "isNumberTokenType", "singleToken", "yamlNumber", "yamlIsNumber", "quoteFlowUnsafe", "stripBlankLinePadding")
		o.pins(g, "decoder.scalarString", "decoder.intExpr", "decoder.floatExpr",
			"decoder.makeNum", "infString", "decoder.quotedString", "decoder.integer", "decoder.float", "decoder.label", "decoder.keyLabel")
		o.pins(v3, "encodeScalar", "setNum", "decoder.scalar", "decoder.label")
	}
}
