package main

import (
	"fmt"
	"go/ast"
	"go/token"
	"strings"
)

func init() {
	gens["C04"] = func(o *out) {
		const adt = "internal/core/adt"
		// the defaultMode constants and their numeric order
		o.constInt(adt, "maybeDefault", "maybeDefault")
		o.constInt(adt, "isDefault", "isDefault")
		o.constInt(adt, "notDefault", "notDefault")
		// table-like pure functions, translated (modes as Nat, flags as Bool)
		o.fn(adt, "combineDefault", "combineDefault", "(a b : Nat) : Nat", nil)
		o.fnAssign(adt, "combineDefault2", "combineDefault2",
			"(a b : Nat) (dropsDefaultA dropsDefaultB : Bool) : Nat",
			map[string]string{"combineDefault": "combineDefault"})
		// hand-transcribed functions: fingerprints of their normalised source
		o.pins(adt, "mode",
			"nodeContext.processDisjunctions", "nodeContext.crossProduct", "nodeContext.doDisjunct",
			"appendDisjunct", "nodeContext.finalizeDisjunctions",
			"Disjunction.Default", "Vertex.Default", "Default", "Vertex.DerefDisjunct")
		o.pins("internal/core/compile", "compiler.addDisjunctionElem")
		o.pins("cue", "Value.Default")
	}
}

// fnAssign translates the shape of combineDefault2: a sequence of
// `if cond { param = expr }` statements (no else) followed by `return f(args…)` where f is
// an already translated function, or a plain translatable expression.
func (o *out) fnAssign(dir, goName, leanName, sig string, calls map[string]string) {
	p := loadPkg(dir)
	fd := p.findFunc(goName)
	unavailable := func(why string) {
		fmt.Fprintf(o, "def %s_unavailable : Unit := ()  -- %s: %s\n", leanName, goName, why)
	}
	if fd == nil || fd.Body == nil || len(fd.Body.List) == 0 {
		unavailable("not found")
		return
	}
	t := &trCtx{p: p, params: map[string]bool{}}
	for _, f := range fd.Type.Params.List {
		for _, n := range f.Names {
			t.params[n.Name] = true
		}
	}
	var sb strings.Builder
	ss := fd.Body.List
	for _, s := range ss[:len(ss)-1] {
		is, ok := s.(*ast.IfStmt)
		if !ok || is.Init != nil || is.Else != nil || len(is.Body.List) != 1 {
			unavailable("statement is not `if c { x = e }`")
			return
		}
		as, ok := is.Body.List[0].(*ast.AssignStmt)
		if !ok || as.Tok != token.ASSIGN || len(as.Lhs) != 1 || len(as.Rhs) != 1 {
			unavailable("body is not a single assignment")
			return
		}
		id, ok := as.Lhs[0].(*ast.Ident)
		if !ok || !t.params[id.Name] {
			unavailable("assignment target is not a parameter")
			return
		}
		fmt.Fprintf(&sb, "  let %s := if %s then %s else %s\n", id.Name, t.expr(is.Cond), t.expr(as.Rhs[0]), id.Name)
	}
	rs, ok := ss[len(ss)-1].(*ast.ReturnStmt)
	if !ok || len(rs.Results) != 1 {
		unavailable("no final return")
		return
	}
	var ret string
	if ce, ok := rs.Results[0].(*ast.CallExpr); ok {
		id, _ := ce.Fun.(*ast.Ident)
		if id == nil || calls[id.Name] == "" {
			unavailable("return calls an untranslated function")
			return
		}
		ret = calls[id.Name]
		for _, a := range ce.Args {
			ret += " " + t.expr(a)
		}
	} else {
		ret = t.expr(rs.Results[0])
	}
	if t.err != nil {
		unavailable(t.err.Error())
		return
	}
	fmt.Fprintf(o, "/-- translated from %s.%s -/\ndef %s %s :=\n%s  %s\n", dir, goName, leanName, sig, sb.String(), ret)
}
