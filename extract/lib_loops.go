package main

// lib_loops.go — a Go→Lean translator for pure string-scanning functions WITH LOOPS
// (shared library of the extractor; translate.go handles the loop-free table shapes).
//
// Use (from extract/cxx*.go):
//
//	f := &LoopFn{Dir: "internal/…", Go: "yamlUnprintable", Lean: "yamlUnprintable",
//	        Externs: []Extern{ExtDecodeRune, {Key: "unicode.IsPrint", Name: "isPrint", Type: "Nat → Bool", Res: tBool}}}
//	o.loopFn(f)                       // prints `def yamlUnprintable_loop1 …` and `def yamlUnprintable …`
//	g := &LoopFn{…, Calls: []*LoopFn{f}} // g may call f (f's externs must be externs of g too)
//
// and prove in Bridge/Cxx.lean `∀ s, Gen.Cxx.f <externs> s = Model.f s` by induction on the
// fuel of each `_loopN` (how-to: notes/C11.md, section "Loop translator").  Anything outside
// the grammar below makes the translator print `def <name>_unavailable : Unit := ()  -- reason`
// (never a silent skip), so the bridge theorem stops compiling.
//
// SUPPORTED GRAMMAR
//
//	types       string, []byte  ↦ List Nat (bytes);  int, byte, rune, uint8, … ↦ Nat;  bool ↦ Bool
//	            one result; parameters and locals of these types only
//	statements  x := e | x = e | x += e | x++ | var x = e | var x T | const c = lit
//	            a, b := e1, e2 | a, b = e1, e2 (parallel)
//	            r, ok := strings.CutPrefix(s, p) | r, n := utf8.DecodeRuneInString(s) (also with _)
//	            if [init;] c {…} [else …] | switch [tag] { case …: … default: … } (no fallthrough)
//	            return e | break | continue (unlabelled) | { … }
//	loops       for i := a; i < len(s) [&& c]; i++ {…}      (body must not assign i or s)
//	            for i < len(s) [&& c] {… i++ …}              (an unconditional top-level `i++`/`i += k`,
//	                                                         no `continue` before it, i only increased, s fixed)
//	            for len(s) > 0 [&& c] {… s = s[k:] …}        (same, with a literal k ≥ 1)
//	            for i, r := range s {…} | for _, r := range s | for i := range s
//	                over a string: runes, decoded by the EXTERN `decodeRune` (a named parameter of the
//	                generated definition: instantiate it with the model's UTF-8 decoder); over []byte: bytes
//	            loops may follow one another but not nest (put the inner loop into its own function)
//	expressions literals (int, char, string), parameters, locals, package constants, ! && || == != < <= > >=
//	            + (ints; strings: concatenation) *, len(s), s[i], s[a:], s[:b], s[a:b], conversions
//	            rune(x) byte(x) int(x) string(x) []byte(x), calls of other translated functions (Calls),
//	            calls / map lookups declared as Externs (opaque named parameters, e.g. unicode.IsPrint,
//	            re().MatchString, table[s]),
//	            strings.|bytes. HasPrefix HasSuffix Contains ContainsRune ContainsAny IndexByte(…) >= 0 | < 0
//	            TrimLeft TrimRight TrimPrefix TrimSuffix ReplaceAll(s, "c", new) (one-byte old) — cutsets,
//	            needles and runes must be ASCII constants (then byte-wise = rune-wise)
//	bounds      Go panics on s[i] / s[a:b] out of range; Lean's getD/drop/take do not.  An index or slice
//	            is therefore translated only if it is EVIDENTLY in range from the guards on the path
//	            (s == "" / len(s) == 0 / len(s) > 0 / i < len(s) tests in enclosing if/&&/||/loop
//	            conditions, not invalidated by an assignment); otherwise the function is unavailable.
//	no ints below zero: `-` is not supported (ints are Nat); IndexByte only inside `>= 0` / `< 0`.
//
// TRANSLATION SCHEME.  A statement list becomes ONE pure expression in continuation-passing style:
// assignments are `let x := e;` (shadowing), the statements after an `if`/`switch` are copied into
// every branch that falls through.  Each loop becomes its own definition
//
//	def f_loopN (externs…) : Nat → T1 → … → Tn → R
//	  | 0,        v1, …, vn => EXIT
//	  | fuel + 1, v1, …, vn => if cond then BODY[continue ↦ f_loopN … fuel v1' … vn'] else EXIT
//
// over ALL variables in scope (v1 … vn, current values), structurally recursive on the fuel, where
// EXIT is the translation of everything that follows the loop in the function (so `return` inside
// a loop is just an expression, and `break` is EXIT).  The loop is entered with fuel = the loop's
// measure (len(s) - i, or len(s)); the restrictions on the loop shapes above make every iteration
// decrease the measure, so fuel 0 is reached only when the loop condition is false, where EXIT is
// what Go does too.  (A Go loop that does not terminate has no Lean counterpart: partial correctness.)

import (
	_ "embed"
	"fmt"
	"go/ast"
	"go/constant"
	"go/parser"
	"go/token"
	"strconv"
	"strings"
)

type lty int

const (
	tBad lty = iota
	tStr
	tBytes
	tNat
	tBool
)

func (t lty) lean() string {
	switch t {
	case tStr, tBytes:
		return "List Nat"
	case tNat:
		return "Nat"
	case tBool:
		return "Bool"
	}
	return "Unit"
}
func (t lty) isStr() bool { return t == tStr || t == tBytes }

// Extern is an opaque callee or map: Key is the normalised Go source of the callee
// ("unicode.IsPrint", "useQuote().MatchString") or "<name>[]" for a map lookup; it becomes the
// parameter (Name : Type) of every generated definition of the function.
type Extern struct {
	Key, Name, Type string
	Res             lty
}

// ExtDecodeRune is what `range` over a string and utf8.DecodeRuneInString use.
var ExtDecodeRune = Extern{Key: "utf8.DecodeRuneInString", Name: "decodeRune", Type: "List Nat → Nat × Nat"}

type LoopFn struct {
	Dir, Go, Lean string
	Externs       []Extern
	Calls         []*LoopFn
	// Consts: qualified constants of other packages the function mentions, as Nat literals
	// ("token.INT" ↦ "5"); RetNat: the result type is such an enumeration (translated as Nat).
	Consts map[string]string
	RetNat bool
	params []lvar // filled in by loopFn
	ret    lty
}

type lvar struct {
	name string
	ty   lty
}

// lenv: variables in scope (declaration order) and the flow facts known on this path.
type lenv struct {
	vars     []lvar
	nonempty map[string]bool   // len(x) > 0
	below    map[string]string // below[i] = s: i < len(s)
}

func (e *lenv) clone() *lenv {
	n := &lenv{vars: append([]lvar{}, e.vars...), nonempty: map[string]bool{}, below: map[string]string{}}
	for k, v := range e.nonempty {
		n.nonempty[k] = v
	}
	for k, v := range e.below {
		n.below[k] = v
	}
	return n
}
func (e *lenv) lookup(name string) lty {
	for _, v := range e.vars {
		if v.name == name {
			return v.ty
		}
	}
	return tBad
}

// assigned forgets every fact about x.
func (e *lenv) assigned(x string) *lenv {
	n := e.clone()
	delete(n.nonempty, x)
	delete(n.below, x)
	for k, v := range n.below {
		if v == x {
			delete(n.below, k)
		}
	}
	return n
}
func (e *lenv) trunc(n int) *lenv {
	c := e.clone()
	if len(c.vars) > n {
		c.vars = c.vars[:n]
	}
	return c
}
func (e *lenv) noFacts() *lenv {
	return &lenv{vars: e.vars, nonempty: map[string]bool{}, below: map[string]string{}}
}

// kont: what to do on falling off the end of a statement list / on break / on continue.
type kont struct {
	next, brk, cont func(*lenv) string
	inLoop          bool
}

type loopInfo struct {
	name, fuel0 string
	nInit       int // how many of vars (the last ones) the init statement declares
	vars        []lvar
	init        func(call string) string // the loop's init statement around the first call
}

type ltr struct {
	p     *pkg
	fn    *LoopFn
	err   error
	defs  []string
	loops map[ast.Stmt]*loopInfo
}

func (t *ltr) fail(format string, a ...any) string {
	if t.err == nil {
		t.err = fmt.Errorf(format, a...)
	}
	return "default"
}

func lBytes(s string) string {
	var ps []string
	for i := 0; i < len(s); i++ {
		ps = append(ps, strconv.Itoa(int(s[i])))
	}
	return "([" + strings.Join(ps, ", ") + "] : List Nat)"
}

func goType(e ast.Expr) lty {
	switch x := e.(type) {
	case *ast.Ident:
		switch x.Name {
		case "string":
			return tStr
		case "bool":
			return tBool
		case "int", "byte", "rune", "uint8", "int32", "uint", "int64", "uint64", "uint32":
			return tNat
		}
	case *ast.ArrayType:
		if id, ok := x.Elt.(*ast.Ident); ok && x.Len == nil && (id.Name == "byte" || id.Name == "uint8") {
			return tBytes
		}
	}
	return tBad
}

// ---- flow facts -------------------------------------------------------------------------

func isLenOf(e ast.Expr) (string, bool) {
	if c, ok := e.(*ast.CallExpr); ok && len(c.Args) == 1 {
		if id, ok := c.Fun.(*ast.Ident); ok && id.Name == "len" {
			if a, ok := c.Args[0].(*ast.Ident); ok {
				return a.Name, true
			}
		}
	}
	return "", false
}
func isLit(e ast.Expr, v string) bool {
	b, ok := e.(*ast.BasicLit)
	return ok && b.Value == v
}

// facts adds to env what is known when cond evaluates to `want`.
func facts(cond ast.Expr, want bool, e *lenv) *lenv {
	switch x := cond.(type) {
	case *ast.ParenExpr:
		return facts(x.X, want, e)
	case *ast.UnaryExpr:
		if x.Op == token.NOT {
			return facts(x.X, !want, e)
		}
	case *ast.BinaryExpr:
		if (x.Op == token.LAND && want) || (x.Op == token.LOR && !want) {
			return facts(x.Y, want, facts(x.X, want, e))
		}
		n := e.clone()
		l, lok := isLenOf(x.X)
		r, rok := isLenOf(x.Y)
		xi, xid := x.X.(*ast.Ident)
		yi, yid := x.Y.(*ast.Ident)
		switch {
		// len(s) > 0, len(s) != 0, len(s) >= 1, 0 < len(s) (true) / len(s) == 0 (false)
		case lok && want && ((x.Op == token.GTR || x.Op == token.NEQ) && isLit(x.Y, "0") || x.Op == token.GEQ && isLit(x.Y, "1")),
			lok && !want && x.Op == token.EQL && isLit(x.Y, "0"):
			n.nonempty[l] = true
		case rok && want && x.Op == token.LSS && isLit(x.X, "0"):
			n.nonempty[r] = true
		// s != "" (true) / s == "" (false)
		case xid && isLit(x.Y, `""`) && (want && x.Op == token.NEQ || !want && x.Op == token.EQL):
			n.nonempty[xi.Name] = true
		// i < len(s) (true) / i >= len(s) (false); len(s) > i (true)
		case xid && rok && (want && x.Op == token.LSS || !want && x.Op == token.GEQ):
			n.below[xi.Name] = r
			n.nonempty[r] = true
		case lok && yid && want && x.Op == token.GTR:
			n.below[yi.Name] = l
			n.nonempty[l] = true
		}
		return n
	}
	return e
}

// ---- expressions ------------------------------------------------------------------------

func (t *ltr) asciiConst(e ast.Expr) (string, bool) {
	tc := &trCtx{p: t.p}
	s, ok := tc.constString(e)
	if !ok {
		return "", false
	}
	for i := 0; i < len(s); i++ {
		if s[i] >= 0x80 {
			return "", false
		}
	}
	return s, true
}

func (t *ltr) extern(key string) *Extern {
	for i := range t.fn.Externs {
		if t.fn.Externs[i].Key == key {
			return &t.fn.Externs[i]
		}
	}
	return nil
}

func (t *ltr) externArgs(f *LoopFn) string {
	var b strings.Builder
	for _, x := range f.Externs {
		if t.fn != f && t.externByName(x.Name) == nil {
			t.fail("callee %s needs extern %s", f.Go, x.Name)
		}
		b.WriteString(" " + x.Name)
	}
	return b.String()
}
func (t *ltr) externByName(n string) *Extern {
	for i := range t.fn.Externs {
		if t.fn.Externs[i].Name == n {
			return &t.fn.Externs[i]
		}
	}
	return nil
}

func (t *ltr) want(e ast.Expr, env *lenv, ty lty) string {
	s, got := t.expr(e, env)
	if t.err == nil && !(got == ty || got.isStr() && ty.isStr()) {
		return t.fail("%s: expected %s", t.p.src(e), ty.lean())
	}
	return s
}

// indexByteCmp: strings.IndexByte(set, c) >= 0 | < 0 | != -1 | == -1
func (t *ltr) indexByteCmp(x *ast.BinaryExpr, env *lenv) (string, bool) {
	c, ok := x.X.(*ast.CallExpr)
	if !ok {
		return "", false
	}
	sel, ok := c.Fun.(*ast.SelectorExpr)
	if !ok || sel.Sel.Name != "IndexByte" || len(c.Args) != 2 {
		return "", false
	}
	neg1 := false
	if u, ok := x.Y.(*ast.UnaryExpr); ok && u.Op == token.SUB && isLit(u.X, "1") {
		neg1 = true
	}
	in := "(List.contains " + t.want(c.Args[0], env, tStr) + " " + t.want(c.Args[1], env, tNat) + ")"
	switch {
	case x.Op == token.GEQ && isLit(x.Y, "0"), x.Op == token.NEQ && neg1:
		return in, true
	case x.Op == token.LSS && isLit(x.Y, "0"), x.Op == token.EQL && neg1:
		return "(!" + in + ")", true
	}
	return "", false
}

func (t *ltr) expr(e ast.Expr, env *lenv) (string, lty) {
	switch x := e.(type) {
	case *ast.ParenExpr:
		return t.expr(x.X, env)
	case *ast.BasicLit:
		switch x.Kind {
		case token.INT:
			return constant.MakeFromLiteral(x.Value, x.Kind, 0).ExactString(), tNat
		case token.CHAR:
			r, _, _, err := strconv.UnquoteChar(x.Value[1:len(x.Value)-1], '\'')
			if err == nil {
				return strconv.Itoa(int(r)), tNat
			}
		case token.STRING:
			if s, err := strconv.Unquote(x.Value); err == nil {
				return lBytes(s), tStr
			}
		}
		return t.fail("literal %s", x.Value), tBad
	case *ast.Ident:
		if x.Name == "true" || x.Name == "false" {
			return x.Name, tBool
		}
		if ty := env.lookup(x.Name); ty != tBad {
			return x.Name, ty
		}
		if v, ok := t.p.constVal(x.Name); ok {
			switch v.Kind() {
			case constant.Int:
				return v.ExactString(), tNat
			case constant.Bool:
				return v.String(), tBool
			case constant.String:
				return lBytes(constant.StringVal(v)), tStr
			}
		}
		return t.fail("identifier %s", x.Name), tBad
	case *ast.SelectorExpr:
		if v, ok := map[string]string{"utf8.RuneError": "65533", "utf8.RuneSelf": "128", "utf8.MaxRune": "1114111", "utf8.UTFMax": "4"}[t.p.src(x)]; ok {
			return v, tNat
		}
		if v, ok := t.fn.Consts[t.p.src(x)]; ok {
			return v, tNat
		}
		return t.fail("selector %s", t.p.src(x)), tBad
	case *ast.UnaryExpr:
		if x.Op == token.NOT {
			return "(!" + t.want(x.X, env, tBool) + ")", tBool
		}
		return t.fail("unary %s", x.Op), tBad
	case *ast.BinaryExpr:
		if s, ok := t.indexByteCmp(x, env); ok {
			return s, tBool
		}
		switch x.Op {
		case token.LAND:
			return "(" + t.want(x.X, env, tBool) + " && " + t.want(x.Y, facts(x.X, true, env), tBool) + ")", tBool
		case token.LOR:
			return "(" + t.want(x.X, env, tBool) + " || " + t.want(x.Y, facts(x.X, false, env), tBool) + ")", tBool
		}
		a, ta := t.expr(x.X, env)
		b := t.want(x.Y, env, ta)
		switch x.Op {
		case token.EQL:
			return "(" + a + " == " + b + ")", tBool
		case token.NEQ:
			return "(" + a + " != " + b + ")", tBool
		case token.ADD:
			if ta.isStr() {
				return "(" + a + " ++ " + b + ")", ta
			}
		}
		if ta != tNat {
			return t.fail("%s on %s", x.Op, ta.lean()), tBad
		}
		switch x.Op {
		case token.LSS:
			return "(decide (" + a + " < " + b + "))", tBool
		case token.LEQ:
			return "(decide (" + a + " ≤ " + b + "))", tBool
		case token.GTR:
			return "(decide (" + a + " > " + b + "))", tBool
		case token.GEQ:
			return "(decide (" + a + " ≥ " + b + "))", tBool
		case token.ADD:
			return "(" + a + " + " + b + ")", tNat
		case token.MUL:
			return "(" + a + " * " + b + ")", tNat
		}
		return t.fail("binary %s (ints are Nat)", x.Op), tBad
	case *ast.IndexExpr:
		if id, ok := x.X.(*ast.Ident); ok {
			if ex := t.extern(id.Name + "[]"); ex != nil {
				a, _ := t.expr(x.Index, env)
				return "(" + ex.Name + " " + a + ")", ex.Res
			}
			if env.lookup(id.Name).isStr() {
				if isLit(x.Index, "0") && env.nonempty[id.Name] {
					return "(" + id.Name + ".getD 0 0)", tNat
				}
				if ix, ok := x.Index.(*ast.Ident); ok && env.below[ix.Name] == id.Name {
					return "(" + id.Name + ".getD " + ix.Name + " 0)", tNat
				}
				return t.fail("%s is not evidently in range", t.p.src(x)), tBad
			}
		}
		return t.fail("index %s", t.p.src(x)), tBad
	case *ast.SliceExpr:
		id, ok := x.X.(*ast.Ident)
		if !ok || !env.lookup(id.Name).isStr() || x.Slice3 {
			return t.fail("slice %s", t.p.src(x)), tBad
		}
		ty := env.lookup(id.Name)
		// a bound is safe when it is 0, 1 with s non-empty, or a variable known to be < len(s)
		safe := func(b ast.Expr) bool {
			if b == nil || isLit(b, "0") || (isLit(b, "1") && env.nonempty[id.Name]) {
				return true
			}
			v, ok := b.(*ast.Ident)
			return ok && env.below[v.Name] == id.Name
		}
		if !safe(x.Low) || !safe(x.High) {
			return t.fail("%s is not evidently in range", t.p.src(x)), tBad
		}
		if x.Low != nil && x.High != nil {
			// low ≤ high is needed as well: only constants 0 ≤ 1 or the same variable
			if !(isLit(x.Low, "0") || t.p.src(x.Low) == t.p.src(x.High)) {
				return t.fail("%s: low ≤ high not evident", t.p.src(x)), tBad
			}
		}
		s := id.Name
		if x.High != nil {
			s = "(" + s + ".take " + t.want(x.High, env, tNat) + ")"
		}
		if x.Low != nil {
			s = "(" + s + ".drop " + t.want(x.Low, env, tNat) + ")"
		}
		return s, ty
	case *ast.CallExpr:
		return t.call(x, env)
	}
	return t.fail("expression %T", e), tBad
}

func (t *ltr) call(x *ast.CallExpr, env *lenv) (string, lty) {
	if _, ok := x.Fun.(*ast.ArrayType); ok && len(x.Args) == 1 && goType(x.Fun) == tBytes { // []byte(s)
		return t.want(x.Args[0], env, tStr), tBytes
	}
	key := t.p.src(x.Fun)
	if ex := t.extern(key); ex != nil && ex.Res != tBad {
		s := "(" + ex.Name
		for _, a := range x.Args {
			as, _ := t.expr(a, env)
			s += " " + as
		}
		return s + ")", ex.Res
	}
	if id, ok := x.Fun.(*ast.Ident); ok {
		if len(x.Args) == 1 {
			switch id.Name {
			case "len":
				return t.want(x.Args[0], env, tStr) + ".length", tNat
			case "rune", "byte", "int", "uint8", "int32", "uint", "int64", "uint64", "uint32":
				return t.want(x.Args[0], env, tNat), tNat
			case "string":
				return t.want(x.Args[0], env, tStr), tStr // string(rune) is not supported: the argument must be bytes
			}
		}
		for _, f := range t.fn.Calls {
			if f.Go == id.Name && len(f.params) == len(x.Args) && f.ret != tBad {
				s := "(" + f.Lean + t.externArgs(f)
				for i, a := range x.Args {
					s += " " + t.want(a, env, f.params[i].ty)
				}
				return s + ")", f.ret
			}
		}
	}
	sel, ok := x.Fun.(*ast.SelectorExpr)
	if pk, _ := selPkg(sel); ok && (pk == "strings" || pk == "bytes") && len(x.Args) >= 2 {
		s, ts := t.expr(x.Args[0], env)
		if !ts.isStr() {
			return t.fail("%s: first argument", key), tBad
		}
		switch sel.Sel.Name {
		case "HasPrefix":
			return "(List.isPrefixOf " + t.want(x.Args[1], env, tStr) + " " + s + ")", tBool
		case "HasSuffix":
			return "(List.isSuffixOf " + t.want(x.Args[1], env, tStr) + " " + s + ")", tBool
		case "Contains":
			return "(lpContains " + t.want(x.Args[1], env, tStr) + " " + s + ")", tBool
		case "TrimPrefix":
			return "(lpTrimPrefix " + t.want(x.Args[1], env, tStr) + " " + s + ")", ts
		case "TrimSuffix":
			return "(lpTrimSuffix " + t.want(x.Args[1], env, tStr) + " " + s + ")", ts
		case "ContainsRune":
			if r, tr := t.expr(x.Args[1], env); tr == tNat {
				if n, err := strconv.Atoi(r); err == nil && n < 0x80 {
					return "(List.contains " + s + " " + r + ")", tBool
				}
			}
			return t.fail("%s: rune must be an ASCII constant", key), tBad
		case "ContainsAny", "TrimLeft", "TrimRight":
			set, ok := t.asciiConst(x.Args[1])
			if !ok {
				return t.fail("%s: set must be an ASCII constant", key), tBad
			}
			in := "(fun c => List.contains " + lBytes(set) + " c)"
			switch sel.Sel.Name {
			case "ContainsAny":
				return "(List.any " + s + " " + in + ")", tBool
			case "TrimLeft":
				return "(List.dropWhile " + in + " " + s + ")", ts
			}
			return "(List.reverse (List.dropWhile " + in + " (List.reverse " + s + ")))", ts
		case "ReplaceAll":
			old, ok := t.asciiConst(x.Args[1])
			if !ok || len(old) != 1 || len(x.Args) != 3 {
				return t.fail("%s: old must be a one-byte ASCII constant", key), tBad
			}
			return "(lpReplaceByte " + strconv.Itoa(int(old[0])) + " " + t.want(x.Args[2], env, tStr) + " " + s + ")", ts
		}
	}
	return t.fail("call %s", key), tBad
}

func selPkg(sel *ast.SelectorExpr) (string, string) {
	if sel == nil {
		return "", ""
	}
	if id, ok := sel.X.(*ast.Ident); ok {
		return id.Name, sel.Sel.Name
	}
	return "", ""
}

// LoopsPrelude: helper definitions the translated code refers to (emit once per Gen module).
const LoopsPrelude = `set_option linter.unusedVariables false
/-- strings.Contains (byte-wise substring) -/
def lpContains (p : List Nat) : List Nat → Bool
  | [] => p.isEmpty
  | c :: t => List.isPrefixOf p (c :: t) || lpContains p t
/-- strings.TrimPrefix / TrimSuffix -/
def lpTrimPrefix (p s : List Nat) : List Nat := if List.isPrefixOf p s then s.drop p.length else s
def lpTrimSuffix (p s : List Nat) : List Nat := if List.isSuffixOf p s then s.take (s.length - p.length) else s
/-- strings.ReplaceAll(s, string(old), new) for a one-byte old -/
def lpReplaceByte (old : Nat) (new : List Nat) : List Nat → List Nat
  | [] => []
  | c :: t => (if c == old then new else [c]) ++ lpReplaceByte old new t
`

// ---- statements -------------------------------------------------------------------------

func let(name string, ty lty, val, rest string) string {
	return "let " + name + " : " + ty.lean() + " := " + val + ";\n" + rest
}

func (t *ltr) declare(env *lenv, name string, ty lty) *lenv {
	if name == "_" {
		return env
	}
	if env.lookup(name) != tBad {
		t.fail("%s shadows a variable in scope", name)
	}
	n := env.assigned(name)
	n.vars = append(n.vars, lvar{name, ty})
	return n
}

// assign translates one (possibly parallel) assignment and continues with rest(env').
func (t *ltr) assign(s *ast.AssignStmt, env *lenv, rest func(*lenv) string) string {
	def := s.Tok == token.DEFINE
	name := func(e ast.Expr) string {
		if id, ok := e.(*ast.Ident); ok {
			return id.Name
		}
		return t.fail("assignment to %s", t.p.src(e))
	}
	bind := func(env *lenv, n string, ty lty) *lenv {
		if def && env.lookup(n) == tBad {
			return t.declare(env, n, ty)
		}
		if n != "_" && env.lookup(n) != ty && !(env.lookup(n).isStr() && ty.isStr()) {
			t.fail("assignment changes the type of %s", n)
		}
		return env.assigned(n)
	}
	// x, y := f(…) with a two-valued library function
	if len(s.Lhs) == 2 && len(s.Rhs) == 1 {
		c, ok := s.Rhs[0].(*ast.CallExpr)
		if !ok {
			return t.fail("assignment %s", t.p.src(s))
		}
		a, b := name(s.Lhs[0]), name(s.Lhs[1])
		sel, _ := c.Fun.(*ast.SelectorExpr)
		switch pk, fn := selPkg(sel); {
		case pk == "utf8" && fn == "DecodeRuneInString" && len(c.Args) == 1 && t.extern("utf8.DecodeRuneInString") != nil:
			arg := t.want(c.Args[0], env, tStr)
			e2 := bind(bind(env, a, tNat), b, tNat)
			out := rest(e2)
			if b != "_" {
				out = let(b, tNat, "(decodeRune "+arg+").2", out)
			}
			if a != "_" {
				out = let(a, tNat, "(decodeRune "+arg+").1", out)
			}
			return out
		case (pk == "strings" || pk == "bytes") && fn == "CutPrefix" && len(c.Args) == 2:
			x, tx := t.expr(c.Args[0], env)
			p := t.want(c.Args[1], env, tStr)
			e2 := bind(bind(env, a, tx), b, tBool)
			out := rest(e2)
			if b != "_" {
				out = let(b, tBool, "tmp_ok_", out)
			}
			if a != "_" {
				out = let(a, tx, "(if tmp_ok_ then tmp_s_.drop "+p+".length else tmp_s_)", out)
			}
			return let("tmp_s_", tx, x, let("tmp_ok_", tBool, "(List.isPrefixOf "+p+" tmp_s_)", out))
		}
		return t.fail("assignment %s", t.p.src(s))
	}
	if len(s.Lhs) != len(s.Rhs) {
		return t.fail("assignment %s", t.p.src(s))
	}
	// op-assignment
	if s.Tok != token.DEFINE && s.Tok != token.ASSIGN {
		if s.Tok != token.ADD_ASSIGN || len(s.Lhs) != 1 {
			return t.fail("assignment operator %s", s.Tok)
		}
		n := name(s.Lhs[0])
		v, ty := t.expr(&ast.BinaryExpr{X: s.Lhs[0], Op: token.ADD, Y: s.Rhs[0]}, env)
		return let(n, ty, v, rest(bind(env, n, ty)))
	}
	// parallel assignment: right-hand sides first, into temporaries when there are several
	type b struct {
		n, v string
		ty   lty
	}
	var bs []b
	for i := range s.Lhs {
		v, ty := t.expr(s.Rhs[i], env)
		bs = append(bs, b{name(s.Lhs[i]), v, ty})
	}
	e2 := env
	for _, x := range bs {
		e2 = bind(e2, x.n, x.ty)
	}
	out := rest(e2)
	if len(bs) == 1 {
		if bs[0].n == "_" {
			return out
		}
		return let(bs[0].n, bs[0].ty, bs[0].v, out)
	}
	for i := len(bs) - 1; i >= 0; i-- {
		if bs[i].n != "_" {
			out = let(bs[i].n, bs[i].ty, fmt.Sprintf("tmp_%d_", i), out)
		}
	}
	for i := len(bs) - 1; i >= 0; i-- {
		out = let(fmt.Sprintf("tmp_%d_", i), bs[i].ty, bs[i].v, out)
	}
	return out
}

func cat(a []ast.Stmt, b ...ast.Stmt) []ast.Stmt { return append(append([]ast.Stmt{}, a...), b...) }

// block translates a statement list in CPS.
func (t *ltr) block(ss []ast.Stmt, env *lenv, k kont) string {
	if t.err != nil {
		return "default"
	}
	if len(ss) == 0 {
		return k.next(env)
	}
	depth := len(env.vars)
	rest := func(e *lenv) string { return t.block(ss[1:], e, k) }
	// a nested block: its fall-through continues with the rest of this list, its locals dropped
	nested := func(body []ast.Stmt, e *lenv, k2 kont) string {
		k2.next = func(e2 *lenv) string { return rest(e2.trunc(depth)) }
		return t.block(body, e, k2)
	}
	switch s := ss[0].(type) {
	case *ast.ReturnStmt:
		if len(s.Results) != 1 {
			return t.fail("return with %d results", len(s.Results))
		}
		return t.want(s.Results[0], env, t.fn.ret)
	case *ast.EmptyStmt:
		return rest(env)
	case *ast.BlockStmt:
		return nested(s.List, env, k)
	case *ast.AssignStmt:
		return t.assign(s, env, rest)
	case *ast.IncDecStmt:
		id, ok := s.X.(*ast.Ident)
		if !ok || s.Tok != token.INC || env.lookup(id.Name) != tNat {
			return t.fail("statement %s", t.p.src(s))
		}
		return let(id.Name, tNat, "("+id.Name+" + 1)", rest(env.assigned(id.Name)))
	case *ast.DeclStmt:
		gd := s.Decl.(*ast.GenDecl)
		if gd.Tok != token.VAR && gd.Tok != token.CONST || len(gd.Specs) != 1 {
			return t.fail("declaration %s", t.p.src(s))
		}
		vs := gd.Specs[0].(*ast.ValueSpec)
		if len(vs.Names) != 1 || len(vs.Values) > 1 {
			return t.fail("declaration %s", t.p.src(s))
		}
		var v string
		var ty lty
		if len(vs.Values) == 1 {
			v, ty = t.expr(vs.Values[0], env)
		} else {
			ty = goType(vs.Type)
			v = map[lty]string{tStr: "([] : List Nat)", tBytes: "([] : List Nat)", tNat: "0", tBool: "false"}[ty]
			if ty == tBad {
				return t.fail("declaration %s", t.p.src(s))
			}
		}
		return let(vs.Names[0].Name, ty, v, rest(t.declare(env, vs.Names[0].Name, ty)))
	case *ast.BranchStmt:
		if s.Label != nil {
			return t.fail("labelled %s", s.Tok)
		}
		switch {
		case s.Tok == token.BREAK && k.brk != nil:
			return k.brk(env)
		case s.Tok == token.CONTINUE && k.cont != nil:
			return k.cont(env)
		}
		return t.fail("%s outside a loop or switch", s.Tok)
	case *ast.IfStmt:
		if s.Init != nil {
			// the init statement's variables are scoped to the if
			cp := *s
			cp.Init = nil
			return nested([]ast.Stmt{s.Init, &cp}, env, k)
		}
		c := t.want(s.Cond, env, tBool)
		thenE := nested(s.Body.List, facts(s.Cond, true, env), k)
		eF := facts(s.Cond, false, env)
		var elseE string
		switch el := s.Else.(type) {
		case nil:
			elseE = rest(eF)
		case *ast.BlockStmt:
			elseE = nested(el.List, eF, k)
		case *ast.IfStmt:
			elseE = nested([]ast.Stmt{el}, eF, k)
		}
		return "(if " + c + " then\n" + thenE + "\nelse\n" + elseE + ")"
	case *ast.SwitchStmt:
		if s.Init != nil {
			return t.fail("switch with init")
		}
		k2 := k
		k2.brk = func(e2 *lenv) string { return rest(e2.trunc(depth)) } // break leaves the switch
		var def *ast.CaseClause
		type arm struct{ cond, body string }
		var arms []arm
		eF := env
		for _, c := range s.Body.List {
			cc := c.(*ast.CaseClause)
			for _, b := range cc.Body {
				if br, ok := b.(*ast.BranchStmt); ok && br.Tok == token.FALLTHROUGH {
					return t.fail("fallthrough")
				}
			}
			if cc.List == nil {
				def = cc
				continue
			}
			var alts []string
			eT := eF
			for _, e := range cc.List {
				var ce ast.Expr = e
				if s.Tag != nil {
					ce = &ast.BinaryExpr{X: s.Tag, Op: token.EQL, Y: e}
				}
				alts = append(alts, t.want(ce, eF, tBool))
				if len(cc.List) == 1 {
					eT = facts(ce, true, eF)
				}
				eF = facts(ce, false, eF)
			}
			arms = append(arms, arm{strings.Join(alts, " || "), nested(cc.Body, eT, k2)})
		}
		tail := ""
		if def != nil {
			tail = nested(def.Body, eF, k2)
		} else {
			tail = rest(eF)
		}
		for i := len(arms) - 1; i >= 0; i-- {
			tail = "(if " + arms[i].cond + " then\n" + arms[i].body + "\nelse\n" + tail + ")"
		}
		return tail
	case *ast.ForStmt, *ast.RangeStmt:
		if k.inLoop {
			return t.fail("nested loop (move the inner loop into a function of its own)")
		}
		return t.loop(ss[0], env, func(e2 *lenv) string { return rest(e2.trunc(depth)) })
	}
	return t.fail("statement %T", ss[0])
}

// ---- loops ------------------------------------------------------------------------------

// assignsTo reports whether the statements assign to the variable other than by `x++` / `x += e`
// (incOK) or `x = x[e:]` (sliceOK).
func assignsTo(body ast.Node, x string, incOK, sliceOK bool) bool {
	bad := false
	ast.Inspect(body, func(n ast.Node) bool {
		switch s := n.(type) {
		case *ast.IncDecStmt:
			if id, ok := s.X.(*ast.Ident); ok && id.Name == x && !(incOK && s.Tok == token.INC) {
				bad = true
			}
		case *ast.AssignStmt:
			for i, l := range s.Lhs {
				id, ok := l.(*ast.Ident)
				if !ok || id.Name != x {
					continue
				}
				switch {
				case incOK && s.Tok == token.ADD_ASSIGN:
				case sliceOK && s.Tok == token.ASSIGN && len(s.Lhs) == len(s.Rhs) && isSelfSlice(s.Rhs[i], x):
				default:
					bad = true
				}
			}
		}
		return true
	})
	return bad
}
func isSelfSlice(e ast.Expr, x string) bool {
	sl, ok := e.(*ast.SliceExpr)
	if !ok || sl.High != nil || sl.Low == nil {
		return false
	}
	id, ok := sl.X.(*ast.Ident)
	return ok && id.Name == x
}

// progress: the top-level statements contain an unconditional step (`i++`, `i += k`, `s = s[k:]`
// with a literal k ≥ 1) and no `continue` can be executed before it.
func progress(body []ast.Stmt, x string) bool {
	posLit := func(e ast.Expr) bool {
		if b, ok := e.(*ast.BasicLit); ok {
			n, err := strconv.Atoi(b.Value)
			return err == nil && n >= 1
		}
		return false
	}
	for _, s := range body {
		switch st := s.(type) {
		case *ast.IncDecStmt:
			if id, ok := st.X.(*ast.Ident); ok && id.Name == x && st.Tok == token.INC {
				return true
			}
		case *ast.AssignStmt:
			if len(st.Lhs) == 1 {
				if id, ok := st.Lhs[0].(*ast.Ident); ok && id.Name == x {
					if st.Tok == token.ADD_ASSIGN && posLit(st.Rhs[0]) {
						return true
					}
					if sl, ok := st.Rhs[0].(*ast.SliceExpr); ok && st.Tok == token.ASSIGN && isSelfSlice(sl, x) && posLit(sl.Low) {
						return true
					}
				}
			}
		}
		hasContinue := false
		ast.Inspect(s, func(n ast.Node) bool {
			if b, ok := n.(*ast.BranchStmt); ok && b.Tok == token.CONTINUE {
				hasContinue = true
			}
			return true
		})
		if hasContinue {
			return false
		}
	}
	return false
}

// measure finds `i < len(s)` / `len(s) > 0` / `s != ""` among the top-level conjuncts of cond.
func measure(cond ast.Expr) (i, s string, ok bool) {
	switch x := cond.(type) {
	case *ast.ParenExpr:
		return measure(x.X)
	case *ast.BinaryExpr:
		if x.Op == token.LAND {
			if i, s, ok = measure(x.X); ok {
				return
			}
			return measure(x.Y)
		}
		e := facts(x, true, &lenv{nonempty: map[string]bool{}, below: map[string]string{}})
		for i, s := range e.below {
			return i, s, true
		}
		for s := range e.nonempty {
			return "", s, true
		}
	}
	return "", "", false
}

func (t *ltr) loop(st ast.Stmt, env *lenv, after func(*lenv) string) string {
	if li, ok := t.loops[st]; ok { // reached again on another path: same definition
		return li.init(t.loopCall(li.name, li.fuel0, env, li.vars, li.nInit))
	}
	name := fmt.Sprintf("%s_loop%d", t.fn.Lean, len(t.loops)+1)
	outer := len(env.vars)
	var cond, fuel0, pre string // pre: lets in front of the body
	var body []ast.Stmt
	var stepVar, step string // after each iteration: stepVar += step
	entry := env             // environment of the first call (after the init statement)
	var init func(string) string = func(call string) string { return call }
	benv := (*lenv)(nil)
	switch s := st.(type) {
	case *ast.ForStmt:
		if s.Cond == nil {
			return t.fail("for without condition")
		}
		if s.Init != nil {
			var e2 *lenv
			as, ok := s.Init.(*ast.AssignStmt)
			if !ok {
				return t.fail("for init %s", t.p.src(s.Init))
			}
			initS := t.assign(as, env, func(e *lenv) string { e2 = e; return "\x00" })
			init = func(call string) string { return strings.Replace(initS, "\x00", call, 1) }
			entry = e2
		}
		i, str, ok := measure(s.Cond)
		if !ok {
			return t.fail("loop condition %s has no conjunct i < len(s) / len(s) > 0", t.p.src(s.Cond))
		}
		stepOK := false
		if i != "" {
			fuel0 = "(" + str + ".length - " + i + ")"
			if s.Post != nil {
				inc, ok := s.Post.(*ast.IncDecStmt)
				stepOK = ok && t.p.src(inc.X) == i && inc.Tok == token.INC && !assignsTo(s.Body, i, false, false)
			} else {
				stepOK = progress(s.Body.List, i) && !assignsTo(s.Body, i, true, false)
			}
			stepOK = stepOK && !assignsTo(s.Body, str, false, false)
		} else {
			fuel0 = str + ".length"
			stepOK = s.Post == nil && progress(s.Body.List, str) && !assignsTo(s.Body, str, false, true)
		}
		if !stepOK {
			return t.fail("loop %s: cannot see that every iteration makes progress", t.p.src(s.Cond))
		}
		benv = entry.noFacts()
		cond = t.want(s.Cond, benv, tBool)
		benv = facts(s.Cond, true, benv)
		body = s.Body.List
		if s.Post != nil {
			stepVar, step = i, "1"
		}
	case *ast.RangeStmt:
		id, ok := s.X.(*ast.Ident)
		ty := env.lookup(t.p.src(s.X))
		if !ok || !ty.isStr() || s.Tok != token.DEFINE {
			return t.fail("range over %s", t.p.src(s.X))
		}
		key, val := "idx_", ""
		if k, ok := s.Key.(*ast.Ident); ok && k.Name != "_" {
			key = k.Name
		}
		if v, ok := s.Value.(*ast.Ident); ok && v.Name != "_" {
			val = v.Name
		}
		if assignsTo(s.Body, key, false, false) || assignsTo(s.Body, id.Name, false, false) {
			return t.fail("range body assigns to %s or %s", key, id.Name)
		}
		entry = t.declare(env, key, tNat)
		init = func(call string) string { return let(key, tNat, "0", call) }
		fuel0 = "(" + id.Name + ".length - " + key + ")"
		cond = "(decide (" + key + " < " + id.Name + ".length))"
		benv = entry.noFacts()
		benv.below[key] = id.Name
		benv.nonempty[id.Name] = true
		width := "1"
		if ty == tStr {
			if t.extern("utf8.DecodeRuneInString") == nil {
				return t.fail("range over a string needs the extern decodeRune")
			}
			width = "(decodeRune (" + id.Name + ".drop " + key + ")).2"
			if val != "" {
				benv = t.declare(benv, val, tNat)
				pre = "let " + val + " : Nat := (decodeRune (" + id.Name + ".drop " + key + ")).1;\n"
			}
		} else if val != "" {
			benv = t.declare(benv, val, tNat)
			pre = "let " + val + " : Nat := (" + id.Name + ".getD " + key + " 0);\n"
		}
		body = s.Body.List
		// the step: key advances by the width of the rune decoded at the start of the iteration
		stepVar, step = key, width
	}
	if t.err != nil {
		return "default"
	}
	vars := append([]lvar{}, entry.vars...)
	t.loops[st] = &loopInfo{name, fuel0, len(vars) - outer, vars, init}
	again := func(e *lenv) string { // next iteration: the post statement, then the recursive call
		call := t.loopCall(name, "fuel", e, vars, 0)
		if stepVar != "" {
			return let(stepVar, tNat, "("+stepVar+" + "+step+")", call)
		}
		return call
	}
	exit := func(e *lenv) string { return after(e.trunc(outer)) }
	k := kont{next: again, cont: again, brk: exit, inLoop: true}
	bodyE := pre + t.block(body, benv, k)
	exitE := exit(entry.noFacts())
	if t.err != nil {
		return "default"
	}
	var sig, pat []string
	for _, v := range vars {
		sig = append(sig, v.ty.lean())
		pat = append(pat, v.name)
	}
	def := fmt.Sprintf("def %s%s : Nat → %s → %s\n  | 0, %s =>\n%s\n  | fuel + 1, %s =>\n(if %s then\n%s\nelse\n%s)\n",
		name, t.externSig(), strings.Join(sig, " → "), t.fn.ret.lean(), strings.Join(pat, ", "), exitE,
		strings.Join(pat, ", "), cond, bodyE, exitE)
	t.defs = append(t.defs, def)
	return init(t.loopCall(name, fuel0, entry, vars, 0))
}

func (t *ltr) loopCall(name, fuel string, e *lenv, vars []lvar, nInit int) string {
	s := "(" + name + t.externArgs(t.fn) + " " + fuel
	for i, v := range vars {
		if i < len(vars)-nInit && e.lookup(v.name) == tBad {
			return t.fail("loop variable %s is not in scope at a re-entry", v.name)
		}
		s += " " + v.name
	}
	return s + ")"
}

func (t *ltr) externSig() string {
	var b strings.Builder
	for _, x := range t.fn.Externs {
		fmt.Fprintf(&b, " (%s : %s)", x.Name, x.Type)
	}
	return b.String()
}

// indent re-indents the generated expression by parenthesis depth (readability only).
func indent(s string, base int) string {
	var b strings.Builder
	depth := base
	for _, line := range strings.Split(s, "\n") {
		d := depth
		if strings.HasPrefix(line, "else") {
			d--
		}
		b.WriteString(strings.Repeat("  ", d) + line + "\n")
		depth += strings.Count(line, "(") - strings.Count(line, ")")
	}
	return strings.TrimRight(b.String(), "\n")
}

// translate fills in f.params / f.ret and returns the Lean text of the function (loop definitions first).
func (f *LoopFn) translate(p *pkg) (string, error) {
	fd := p.findFunc(f.Go)
	if fd == nil || fd.Body == nil {
		return "", fmt.Errorf("%s not found", f.Go)
	}
	t := &ltr{p: p, fn: f, loops: map[ast.Stmt]*loopInfo{}}
	env := &lenv{nonempty: map[string]bool{}, below: map[string]string{}}
	f.params, f.ret = nil, tBad
	for _, fl := range fd.Type.Params.List {
		for _, n := range fl.Names {
			ty := goType(fl.Type)
			if ty == tBad {
				return "", fmt.Errorf("%s: parameter %s has an unsupported type", f.Go, n.Name)
			}
			f.params = append(f.params, lvar{n.Name, ty})
			env.vars = append(env.vars, lvar{n.Name, ty})
		}
	}
	if fd.Type.Results == nil || len(fd.Type.Results.List) != 1 || len(fd.Type.Results.List[0].Names) > 0 ||
		(goType(fd.Type.Results.List[0].Type) == tBad && !f.RetNat) {
		return "", fmt.Errorf("%s: one unnamed result of a supported type is required", f.Go)
	}
	if f.ret = goType(fd.Type.Results.List[0].Type); f.RetNat {
		f.ret = tNat
	}
	body := t.block(fd.Body.List, env, kont{next: func(*lenv) string { return t.fail("fell off the end of the function") }})
	if t.err != nil {
		f.ret = tBad
		return "", fmt.Errorf("%s: %v", f.Go, t.err)
	}
	var sb strings.Builder
	for _, d := range t.defs {
		lines := strings.SplitN(d, "\n", 2)
		sb.WriteString(lines[0] + "\n" + indentDef(lines[1]) + "\n")
	}
	var ps []string
	for _, v := range f.params {
		ps = append(ps, fmt.Sprintf(" (%s : %s)", v.name, v.ty.lean()))
	}
	fmt.Fprintf(&sb, "/-- translated from %s.%s by extract/lib_loops.go -/\ndef %s%s%s : %s :=\n%s\n", f.Dir, f.Go, f.Lean,
		t.externSig(), strings.Join(ps, ""), f.ret.lean(), indent(body, 1))
	return sb.String(), nil
}

func indentDef(s string) string {
	var out []string
	for _, part := range strings.Split(s, "\n  | ") {
		part = strings.TrimPrefix(part, "  | ")
		hl := strings.SplitN(part, "\n", 2)
		if len(hl) == 2 {
			out = append(out, "  | "+hl[0]+"\n"+indent(strings.TrimRight(hl[1], "\n"), 2))
		}
	}
	return strings.Join(out, "\n")
}

// loopFn prints the translation of f, or `def <name>_unavailable`.
func (o *out) loopFn(f *LoopFn) {
	s, err := f.translate(loadPkg(f.Dir))
	if err != nil {
		fmt.Fprintf(o, "def %s_unavailable : Unit := ()  -- %v\n", f.Lean, err)
		return
	}
	o.WriteString(s)
}

// ---- self-check: `extract -gen LoopsSelftest | (cd ../lean && lake env lean --stdin)` ------------
// The snippets below are ordinary Go functions of this file; the self-check translates their
// SOURCE (this file, embedded) and prints, for a few inputs, `example : f input = <what the
// compiled Go function returns> := by decide` — Go semantics against the translation's.

//go:embed lib_loops.go
var loopsSelf string

func lpSkipDigits(s string) int { // for i < len(s) && c(s[i]) { i++ }
	i := 0
	for i < len(s) && s[i] >= '0' && s[i] <= '9' {
		i++
	}
	return i
}

func lpCountCommas(s string, stop byte) int { // classic for, continue / break
	n := 0
	for i := 0; i < len(s); i++ {
		if s[i] == stop {
			break
		}
		if s[i] != ',' {
			continue
		}
		n++
	}
	return n
}

func lpAllOctal(s string) bool { // range over runes with early return, then a second loop
	rest, ok := strings.CutPrefix(s, "0")
	if !ok || rest == "" {
		return false
	}
	for _, c := range rest {
		if (c < '0' || c > '7') && c != '_' {
			return false
		}
	}
	for len(rest) > 0 {
		if rest[0] == '_' {
			return true
		}
		rest = rest[1:]
	}
	return false
}

func lpTrimmed(b []byte) []byte { // []byte, range over bytes, switch, library calls
	var out []byte
	for i, c := range b {
		switch {
		case c == ' ' && i == 0:
		case c == '\t':
			out = append0(out)
		default:
			return []byte(strings.TrimRight(strings.TrimPrefix(string(b[i:]), "- "), " \n"))
		}
	}
	return out
}
func append0(b []byte) []byte { return []byte(string(b) + "0") }

func init() {
	gens["LoopsSelftest"] = func(o *out) {
		fset := token.NewFileSet()
		file, err := parser.ParseFile(fset, "lib_loops.go", loopsSelf, parser.SkipObjectResolution)
		if err != nil {
			fmt.Fprintf(o, "def selftest_unavailable : Unit := ()  -- %v\n", err)
			return
		}
		pkgCache["<self>"] = &pkg{fset: fset, files: []*ast.File{file}}
		o.WriteString(LoopsPrelude)
		app := &LoopFn{Dir: "<self>", Go: "append0", Lean: "append0"}
		fns := []*LoopFn{
			{Dir: "<self>", Go: "lpSkipDigits", Lean: "lpSkipDigits"},
			{Dir: "<self>", Go: "lpCountCommas", Lean: "lpCountCommas"},
			{Dir: "<self>", Go: "lpAllOctal", Lean: "lpAllOctal", Externs: []Extern{ExtDecodeRune}},
			app,
			{Dir: "<self>", Go: "lpTrimmed", Lean: "lpTrimmed", Calls: []*LoopFn{app}},
			{Dir: "<self>", Go: "progress", Lean: "notInSubset"}, // must come out as _unavailable
		}
		for _, f := range fns {
			o.loopFn(f)
		}
		// ASCII-only stand-in for the UTF-8 decoder (the samples are ASCII)
		o.WriteString("def asciiDecode : List Nat → Nat × Nat\n  | [] => (65533, 0)\n  | c :: _ => (c, 1)\n")
		nat := func(s string) string { return strings.TrimSuffix(strings.TrimPrefix(lBytes(s), "("), " : List Nat)") }
		for _, s := range []string{"", "123", "12a4", "a", "0", "017", "0_7", "08", "01_", " \t- x \n", "\t\t", "a,b,,c;d,", ",;,"} {
			fmt.Fprintf(o, "example : lpSkipDigits %s = %d := by decide\n", nat(s), lpSkipDigits(s))
			fmt.Fprintf(o, "example : lpCountCommas %s 59 = %d := by decide\n", nat(s), lpCountCommas(s, ';'))
			fmt.Fprintf(o, "example : lpAllOctal asciiDecode %s = %v := by decide\n", nat(s), lpAllOctal(s))
			fmt.Fprintf(o, "example : lpTrimmed %s = %s := by decide\n", nat(s), nat(string(lpTrimmed([]byte(s)))))
		}
		o.WriteString("example : notInSubset_unavailable = () := rfl\n")
	}
}
