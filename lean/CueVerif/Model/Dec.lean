/-
Shared model of arbitrary-precision decimals (cockroachdb/apd `Decimal`, finite form), used by
C03 (bounds) and later C06 (arithmetic).  Core Lean only.

A `Dec` is `coeff * 10 ^ exp` with a signed integer coefficient (apd stores sign and
magnitude separately; negative zero is not modelled — CUE normalises `-0.0` to `0.0` and the
only place apd produces it, `Modf` of a negative fraction, is sign-insensitive in our users).

Everything here is exact: `cmp`, `add`, `sub`, `mul`, `neg`, `isInt`, `floor`, `ceil`,
`trunc`.  The only rounding operation is `roundHalfUp p`, which models what an apd `Context`
with `Precision: p` and the default rounder (`RoundHalfUp`) does to an exact result, and
reports the `Inexact` condition.  `internal.BaseContext` is `apd.BaseContext.WithPrecision(34)`.

Lemmas are in `CueVerif/Proofs/Dec.lean`.
-/
namespace CueVerif

structure Dec where
  coeff : Int
  exp : Int
deriving DecidableEq, Repr, Inhabited

namespace Dec

def ofInt (z : Int) : Dec := ⟨z, 0⟩

/-- the numerator of `d` at exponent `e` (meaningful when `e ≤ d.exp`): `d = shift d e * 10^e` -/
def shift (d : Dec) (e : Int) : Int := d.coeff * 10 ^ (d.exp - e).toNat

/-- exact three-way comparison of the denoted values (apd `Decimal.Cmp`) -/
def cmp (a b : Dec) : Ordering :=
  let e := min a.exp b.exp
  compare (shift a e) (shift b e)

def le (a b : Dec) : Bool := (cmp a b).isLE
def lt (a b : Dec) : Bool := cmp a b == .lt
/-- equality of the denoted values (`1.0` and `1.00` are equal) -/
def eqv (a b : Dec) : Bool := cmp a b == .eq

def neg (a : Dec) : Dec := ⟨-a.coeff, a.exp⟩

def add (a b : Dec) : Dec :=
  let e := min a.exp b.exp
  ⟨shift a e + shift b e, e⟩

def sub (a b : Dec) : Dec :=
  let e := min a.exp b.exp
  ⟨shift a e - shift b e, e⟩

def mul (a b : Dec) : Dec := ⟨a.coeff * b.coeff, a.exp + b.exp⟩

/-- -1, 0, 1 -/
def sign (a : Dec) : Int := a.coeff.sign

/-- the value is an integer -/
def isInt (d : Dec) : Bool :=
  decide (0 ≤ d.exp) || d.coeff % 10 ^ (-d.exp).toNat == 0

/-- largest integer `≤ d` (Lean's `/` on `Int` rounds towards -∞ for a positive divisor) -/
def floor (d : Dec) : Int :=
  if 0 ≤ d.exp then d.coeff * 10 ^ d.exp.toNat else d.coeff / 10 ^ (-d.exp).toNat

/-- smallest integer `≥ d` -/
def ceil (d : Dec) : Int := - floor (neg d)

/-- integer part, rounding towards zero (apd `Modf`) -/
def trunc (d : Dec) : Int := if 0 ≤ d.coeff then floor d else ceil d

/-- `some z` when the value is the integer `z` -/
def intVal? (d : Dec) : Option Int := if isInt d then some (floor d) else none

/-! ### digits, normalisation, rounding -/

/-- number of decimal digits of `n`, with `numDigits 0 = 1` as in apd (`fuel` ≥ digits) -/
def numDigitsAux : Nat → Nat → Nat
  | 0, _ => 1
  | fuel + 1, n => if n < 10 then 1 else 1 + numDigitsAux fuel (n / 10)

def numDigits (n : Nat) : Nat := numDigitsAux n n

/-- strip trailing decimal zeros of a coefficient, counting them -/
def stripZerosAux : Nat → Int → Nat → Int × Nat
  | 0, c, k => (c, k)
  | fuel + 1, c, k => if c != 0 && c % 10 == 0 then stripZerosAux fuel (c / 10) (k + 1) else (c, k)

/-- canonical representative of the value: no trailing zeros in the coefficient, zero is `0e0` -/
def normalize (d : Dec) : Dec :=
  if d.coeff == 0 then ⟨0, 0⟩ else
  let (c, k) := stripZerosAux d.coeff.natAbs d.coeff 0
  ⟨c, d.exp + k⟩

/-- Round to at most `p` significant digits, half away from zero on the magnitude (apd's default
`RoundHalfUp`); the flag is apd's `Inexact` condition (non-zero digits were discarded). -/
def roundHalfUp (p : Nat) (d : Dec) : Dec × Bool :=
  let m := d.coeff.natAbs
  if m < 10 ^ p then (d, false) else
  let k := numDigits m - p
  let q := m / 10 ^ k
  let r := m % 10 ^ k
  let q' := if 10 ^ k ≤ 2 * r then q + 1 else q
  (⟨(if d.coeff < 0 then -(q' : Int) else (q' : Int)), d.exp + k⟩, r != 0)

/-- the precision of `internal.BaseContext` -/
def basePrecision : Nat := 34

/-- `BaseContext.Sub`: the exact difference when representable in 34 digits (`none` = Inexact) -/
def sub34 (a b : Dec) : Option Dec :=
  let d := sub a b
  if (roundHalfUp basePrecision d).2 then none else some d

/-- an integer rounded to the base precision; `none` = the Inexact condition -/
def roundInt34 (z : Int) : Option Dec :=
  let r := roundHalfUp basePrecision (ofInt z)
  if r.2 then none else some r.1

/-- `BaseContext.Ceil`: `Modf`, then `Add(d, d, 1)` at precision 34 when the fraction is positive.
`none` = the Add was Inexact (the integer part does not fit 34 digits); `SimplifyBounds` then
skips the simplification. -/
def ceil34? (d : Dec) : Option Dec :=
  if isInt d then some (ofInt (trunc d))
  else if 0 < d.coeff then roundInt34 (trunc d + 1)
  else some (ofInt (trunc d))

/-- `BaseContext.Floor`, dually. -/
def floor34? (d : Dec) : Option Dec :=
  if isInt d then some (ofInt (trunc d))
  else if d.coeff < 0 then roundInt34 (trunc d - 1)
  else some (ofInt (trunc d))

/-! ### parsing / printing for the driver protocol: `<coeff>e<exp>` -/

def toString (d : Dec) : String := s!"{d.coeff}e{d.exp}"

end Dec
end CueVerif
