/-
C13 — the CUE-constraint target language `CC` and the per-keyword BUILDERS of the importer.

`CC` is the fragment of CUE the JSON Schema importer emits for the keyword families
numbers / strings / arrays / type / enum / const / combinators, with a denotation
`acc re : CC → Json → Bool` ("the concrete datum unified with the constraint validates") that
follows the documented semantics of the CUE builtins:
  `>=n >n <=n <n` number bounds by value (int and float compare by value);
  `int` accepts int literals only (`1`, not `1.0`: CUE keeps int and float apart);
  `math.MultipleOf(m)`; `strings.MinRunes/MaxRunes` count code points; `=~p` un-anchored match
  (opaque matcher `re`); a data literal accepts the equal datum, numbers equal by value AND by
  int/float-ness; `[a, b, ...T]` needs AT LEAST the prefix elements, `[a, b]` exactly them;
  `list.MaxItems`, `list.UniqueItems` (CUE equality), `list.MatchN(>=lo & <=hi, c)` counts matching
  elements; `&` conjunction, `|` disjunction, `matchN`, `matchIf` as in Model/JsonSchemaSkel.

Transcribed from /repo/encoding/jsonschema (hand transcription, pinned in Bridge/C13, compared
structurally with the real importer's AST by the harness op `cc`):
* constraints_number.go: constraintMinimum/Maximum/ExclusiveMinimum/ExclusiveMaximum/MultipleOf
  (numeric form of exclusive*: the boolean draft-4 form is outside the subset)
* constraints_string.go: constraintMinLength/MaxLength/Pattern
* constraints_array.go: constraintMinItems/MaxItems/UniqueItems/MinContains/MaxContains/Contains/
  Items (schema form) / PrefixItems / setAdditionalItems
* constraints_generic.go: constraintType/Enum/Const, decode.go constValue
* constraints_combinator.go: constraintAllOf/AnyOf/OneOf/Not/If/Then/Else/IfThenElse, with the
  progressive narrowing of `allowedTypes` inside allOf and the `then` narrowing
* decode.go: constraintInfo.add (drops `_`), state.add, state.hasConstraints, state.finalize (incl. the
  stable sort "list literals last"), schemaState (phases 0–4 in keyword order, bool schemas,
  `knownTypes = allowedTypes` after finalize), constraints_gen.go: the phase table.
NOT here: the object family (constraints_object.go, finalizeObject), `$ref`/`$defs`, annotations,
formats, OpenAPI/CRD branches.  `translate` skips those keywords; `inSubset` says whether a schema
stays inside the transcribed part.

Core Lean only.
-/
import CueVerif.Model.JsonSchemaSkel
namespace CueVerif.CCm
open CueVerif.JS CueVerif.Skel

inductive Cmp where
  | ge | gt | le | lt
deriving Repr, DecidableEq

def Cmp.holds : Cmp → Num → Num → Bool
  | .ge, n, x => n.le x
  | .gt, n, x => n.lt x
  | .le, n, x => x.le n
  | .lt, n, x => x.lt n

/-- written as an int literal (no fraction): the driver's JSON reader gives `den = 1` exactly then -/
def isIntLit (x : Num) : Bool := x.den == 1

/-- the `cue.Kind` of a JSON datum (`n.Kind()`) -/
def kindOf : Json → CKind
  | .null => .null | .bool _ => .bool
  | .num x => if isIntLit x then .int else .float
  | .str _ => .string | .arr _ => .list | .obj _ => .struct

/-! CUE equality of concrete data as the unification of two literals decides it: like `jeq`, but a
number must also agree in int/float-ness; a struct literal from `constValue` is
`close({"k"!: v, …})`: exactly these fields -/
mutual
def litEq : Json → Json → Bool
  | .null, .null => true
  | .bool a, .bool b => a == b
  | .num a, .num b => a.eq b && (isIntLit a == isIntLit b)
  | .str a, .str b => a == b
  | .arr xs, .arr ys => litEqList xs ys
  | .obj a, .obj b => a.length == b.length && litEqObj a b
  | _, _ => false
def litEqList : List Json → List Json → Bool
  | [], [] => true
  | x :: xs, y :: ys => litEq x y && litEqList xs ys
  | _, _ => false
def litEqObj : List (String × Json) → List (String × Json) → Bool
  | [], _ => true
  | (k, v) :: rest, b =>
    (match b.find? (fun p => p.1 == k) with
     | some p => litEq v p.2
     | none => false) && litEqObj rest b
end

def allDistinctLit : List Json → Bool
  | [] => true
  | x :: xs => !(xs.any (litEq x)) && allDistinctLit xs

inductive CC where
  | top                                          -- `_`
  | disallowed                                   -- `error("disallowed")`
  | kind (t : CoreType)                          -- null, bool, number, string, [...], {...}
  | int                                          -- `int`
  | bound (op : Cmp) (n : Num)                   -- `>=n` …
  | multipleOf (n : Num)                         -- `math.MultipleOf(n)`
  | minRunes (n : Nat)                           -- `strings.MinRunes(n)`
  | maxRunes (n : Nat)                           -- `strings.MaxRunes(n)`
  | matches (p : String)                         -- `=~p`
  | lit (v : Json)                               -- constValue(v)
  | listOpen (pre : List CC) (rest : CC)         -- `[a, b, ...T]` (`...` = `...(_)`)
  | listClosed (pre : List CC)                   -- `[a, b]`
  | maxItems (n : Nat)                           -- `list.MaxItems(n)`
  | uniqueItems                                  -- `list.UniqueItems()`
  | listMatchN (lo : Nat) (hi : Option Nat) (c : CC)   -- `list.MatchN(>=lo [& <=hi], c)`
  | and (a b : CC)
  | or (a b : CC)
  | matchN (b : Bound) (vs : List CC)
  | matchIf (i t e : CC)

instance : Inhabited CC := ⟨.top⟩

mutual
/-- `acc re c j`: the concrete datum `j` unified with `c` validates -/
def acc (re : String → String → Bool) : CC → Json → Bool
  | .top, _ => true
  | .disallowed, _ => false
  | .kind t, j => coreOf j == t
  | .int, .num x => isIntLit x
  | .bound op n, .num x => op.holds n x
  | .multipleOf m, .num x => x.isMultipleOf m
  | .minRunes n, .str s => decide (n ≤ s.length)
  | .maxRunes n, .str s => decide (s.length ≤ n)
  | .matches p, .str s => re p s
  | .lit v, j => litEq v j
  | .listOpen pre rest, .arr xs => accPrefix re pre xs && (xs.drop (lenCC pre)).all (fun x => acc re rest x)
  | .listClosed pre, .arr xs => accPrefix re pre xs && decide (xs.length ≤ lenCC pre)
  | .maxItems n, .arr xs => decide (xs.length ≤ n)
  | .uniqueItems, .arr xs => allDistinctLit xs
  | .listMatchN lo hi c, .arr xs =>
    let n := xs.countP (fun x => acc re c x)
    decide (lo ≤ n) && (match hi with | some h => decide (n ≤ h) | none => true)
  | .and a b, j => acc re a j && acc re b j
  | .or a b, j => acc re a j || acc re b j
  | .matchN b vs, j => b.ok (accCount re vs j)
  | .matchIf i t e, j => if acc re i j then acc re t j else acc re e j
  | _, _ => false
/-- every prefix element must be PRESENT and accepted -/
def accPrefix (re : String → String → Bool) : List CC → List Json → Bool
  | [], _ => true
  | _ :: _, [] => false
  | c :: cs, x :: xs => acc re c x && accPrefix re cs xs
def accCount (re : String → String → Bool) : List CC → Json → Nat
  | [], _ => 0
  | v :: vs, j => (if acc re v j then 1 else 0) + accCount re vs j
def lenCC : List CC → Nat
  | [] => 0
  | _ :: r => lenCC r + 1
end

def CC.isTop : CC → Bool
  | .top => true
  | _ => false
/-- decode.go `isErrorCall` on what the importer itself produces -/
def CC.isErrorCall : CC → Bool
  | .disallowed => true
  | _ => false
/-- `_, ok := x.(*ast.ListLit)` -/
def CC.isListLit : CC → Bool
  | .listOpen _ _ => true
  | .listClosed _ => true
  | .lit (.arr _) => true
  | _ => false

/-- `ast.NewBinExpr(token.AND, x, xs...)` (left-nested) -/
def foldAnd : CC → List CC → CC
  | a, [] => a
  | a, b :: r => foldAnd (.and a b) r
def foldOr : CC → List CC → CC
  | a, [] => a
  | a, b :: r => foldOr (.or a b) r

/-! ## the state of one schema object (`state`, the fields the transcribed builders use) -/

structure TSt where
  allowed : KSet
  known : KSet
  types : CoreType → List CC
  all : List CC
  minContains : Option Nat
  maxContains : Option Nat
  /-- `s.list`: index (in `types .array`) of the list literal made by prefixItems -/
  listIdx : Option Nat
  ifS : Option Schema
  thenS : Option Schema
  elseS : Option Schema

def TSt.init (T : KSet) : TSt :=
  { allowed := T, known := KSet.full, types := fun _ => [], all := [],
    minContains := none, maxContains := none, listIdx := none, ifS := none, thenS := none, elseS := none }

/-- `state.add` / `constraintInfo.add`: `_` is dropped -/
def addC (st : TSt) (t : CoreType) (c : CC) : TSt :=
  if c.isTop then st else
  { st with types := fun t' => if t' == t then st.types t' ++ [c] else st.types t' }

/-- `s.all.add` -/
def addAll (st : TSt) (c : CC) : TSt :=
  if c.isTop then st else { st with all := st.all ++ [c] }

/-- what `schemaState` returns: the expression and the `schemaInfo` fields the callers read -/
structure TSub where
  expr : CC
  allowed : KSet
  known : KSet
  hasC : Bool

instance : Inhabited TSub := ⟨⟨.top, KSet.full, KSet.full, false⟩⟩

/-! ## numbers (constraints_number.go) -/

def bMinimum (n : Num) (st : TSt) : TSt := addC st .num (.bound .ge n)
def bMaximum (n : Num) (st : TSt) : TSt := addC st .num (.bound .le n)
def bExclusiveMinimum (n : Num) (st : TSt) : TSt := addC st .num (.bound .gt n)
def bExclusiveMaximum (n : Num) (st : TSt) : TSt := addC st .num (.bound .lt n)
def bMultipleOf (n : Num) (st : TSt) : TSt := addC st .num (.multipleOf n)

/-! ## strings (constraints_string.go) -/

def bMinLength (n : Nat) (st : TSt) : TSt := addC st .string (.minRunes n)
def bMaxLength (n : Nat) (st : TSt) : TSt := addC st .string (.maxRunes n)
def bPattern (p : String) (st : TSt) : TSt := addC st .string (.matches p)

/-! ## arrays (constraints_array.go) -/

def bMaxItems (n : Nat) (st : TSt) : TSt := addC st .array (.maxItems n)
/-- `[_, …(n times), ...]` -/
def bMinItems (n : Nat) (st : TSt) : TSt := addC st .array (.listOpen (List.replicate n .top) .top)
def bUniqueItems (b : Bool) (st : TSt) : TSt := if b then addC st .array .uniqueItems else st
def bMinContains (n : Nat) (st : TSt) : TSt := { st with minContains := some n }
def bMaxContains (n : Nat) (st : TSt) : TSt := { st with maxContains := some n }
def bContains (x : CC) (st : TSt) : TSt :=
  addC st .array (.listMatchN (st.minContains.getD 1) st.maxContains x)
/-- `s.list = [a…, ...]`, added to the array constraints and remembered -/
def bPrefixItems (vs : List CC) (st : TSt) : TSt :=
  { addC st .array (.listOpen vs .top) with listIdx := some (st.types .array).length }

/-- `setAdditionalItems`: `false` removes the ellipsis, `_` leaves it, anything else types it -/
def setAdditionalItems (elem : CC) (c : CC) : CC :=
  match c with
  | .listOpen pre rest =>
    if elem.isErrorCall then .listClosed pre
    else if elem.isTop then .listOpen pre rest
    else .listOpen pre elem
  | c => c

def listSet : List CC → Nat → (CC → CC) → List CC
  | [], _, _ => []
  | c :: r, 0, f => f c :: r
  | c :: r, n + 1, f => c :: listSet r n f

/-- `constraintItems`, schema form -/
def bItems (elem : CC) (st : TSt) : TSt :=
  match st.listIdx with
  | some i =>
    { st with types := fun t => if t == .array then listSet (st.types .array) i (setAdditionalItems elem)
                                 else st.types t }
  | none => addC st .array (.listOpen [] elem)

/-! ## type / enum / const (constraints_generic.go) -/

def kindsOfTypeName := Skel.kindsOfTypeName

/-- `constraintType`: every "integer" adds `int` to the number constraints; then
`allowedTypes &= types` -/
def bType (ts : List TypeName) (st : TSt) : TSt :=
  let st1 := ts.foldl (fun st t => if t == .integer then addC st .num .int else st) st
  { st1 with allowed := st1.allowed.inter (fun k => ts.any fun t => kindsOfTypeName t k) }

def kindSingle (j : Json) : KSet := fun k => k == kindOf j

/-- `constraintEnum` -/
def bEnum (vs : List Json) (st : TSt) : TSt :=
  let kept := vs.filter (fun v => st.allowed (kindOf v))
  let types : KSet := fun k => kept.any (fun v => kindOf v == k)
  let st1 := { st with known := st.known.inter types, allowed := st.allowed.inter types }
  match kept.map CC.lit with
  | [] => st1
  | a :: r => addAll st1 (foldOr a r)

/-- `constraintConst` (no filtering by `allowedTypes`) -/
def bConst (v : Json) (st : TSt) : TSt :=
  let st1 := addAll st (.lit v)
  { st1 with allowed := st1.allowed.inter (kindSingle v), known := st1.known.inter (kindSingle v) }

/-! ## combinators (constraints_combinator.go) -/

/-- the loop of `constraintAllOf`: `allowedTypes` narrows member by member -/
def allOfLoop (tr : KSet → Schema → TSub) : List Schema → KSet → KSet → List CC → KSet × KSet × List CC
  | [], al, kn, a => (al, kn, a)
  | v :: r, al, kn, a =>
    let sub := tr al v
    let al' := al.inter sub.allowed
    if sub.hasC then allOfLoop tr r al' (kn.union sub.known) (a ++ [sub.expr])
    else allOfLoop tr r al' kn a

def bAllOf (tr : KSet → Schema → TSub) (ss : List Schema) (st : TSt) : TSt :=
  let (al, kn, a) := allOfLoop tr ss st.allowed KSet.empty []
  let st1 := { st with allowed := al }
  match a with
  | [] => st1
  | [x] => addAll { st1 with known := st1.known.inter kn } x
  | a => addAll { st1 with known := st1.known.inter kn } (.matchN (.eq ss.length) a)

/-- the kept members of anyOf / oneOf: those with a non-empty `allowedTypes` -/
def keptSubs (tr : KSet → Schema → TSub) (T : KSet) (ss : List Schema) : List TSub :=
  (ss.map (tr T)).filter (fun s => !s.allowed.isEmpty)

def unionAllowed (subs : List TSub) : KSet := fun k => subs.any (·.allowed k)
def unionKnown (subs : List TSub) : KSet := fun k => subs.any (·.known k)

def bAnyOf (tr : KSet → Schema → TSub) (ss : List Schema) (st : TSt) : TSt :=
  let a := keptSubs tr st.allowed ss
  match a with
  | [] => { st with allowed := KSet.empty }
  | [x] => addAll st x.expr
  | a => addAll { st with allowed := st.allowed.inter (unionAllowed a),
                          known := st.known.inter (unionKnown a) }
           (.matchN (.ge 1) (a.map (·.expr)))

/-- `needsConstraint` -/
def oneOfNeeds : KSet → List TSub → Bool
  | _, [] => false
  | seen, s :: r => s.hasC || seen.overlaps s.allowed || oneOfNeeds (seen.union s.allowed) r

def bOneOf (tr : KSet → Schema → TSub) (ss : List Schema) (st : TSt) : TSt :=
  let a := keptSubs tr st.allowed ss
  let st1 := { st with allowed := st.allowed.inter (unionAllowed a) }
  if !a.isEmpty && oneOfNeeds KSet.empty a then
    let st2 := { st1 with known := st1.known.inter (unionKnown a) }
    match a with
    | [x] => addAll st2 x.expr
    | a => addAll st2 (.matchN (.eq 1) (a.map (·.expr)))
  else st1

def bNot (tr : KSet → Schema → TSub) (s : Schema) (st : TSt) : TSt :=
  addAll st (.matchN (.eq 0) [(tr KSet.full s).expr])

/-- `constraintIfThenElse`, run after the phases -/
def bIfThenElse (tr : KSet → Schema → TSub) (st : TSt) : TSt :=
  match st.ifS with
  | none => st
  | some i =>
    if st.thenS.isNone && st.elseS.isNone then st else
    let ifSub := tr st.allowed i
    let thenE := match st.thenS with
      | some t => (tr (st.allowed.inter ifSub.allowed) t).expr
      | none => .top
    let elseE := match st.elseS with
      | some e => (tr st.allowed e).expr
      | none => .top
    addAll st (.matchIf ifSub.expr thenE elseE)

/-! ## phases (constraints_gen.go) and `schemaState` -/

/-- the phase of each keyword of the subset (table `constraints`) -/
def phaseOf : Kw → Nat
  | .type _ | .enum _ | .const _ | .exclusiveMinimum _ | .exclusiveMaximum _ | .multipleOf _
  | .minLength _ | .maxLength _ | .pattern _ | .minItems _ | .maxItems _ | .uniqueItems _
  | .minContains _ | .maxContains _ | .minProperties _ | .maxProperties _ | .annot _ => 1
  | .minimum _ | .maximum _ | .contains _ | .prefixItems _ | .allOf _ | .anyOf _ | .oneOf _ | .not _
  | .ifS _ | .thenS _ | .elseS _ | .properties _ | .patternProperties _ | .propertyNames _
  | .defs _ | .ref _ => 2
  | .items _ | .additionalProperties _ => 3
  | .required _ => 4

/-- one keyword applied to the state (`c.fn(key, value, s)`); keywords outside the transcribed
part are skipped (see `inSubset`) -/
def stepKw (tr : KSet → Schema → TSub) (st : TSt) : Kw → TSt
  | .type ts => bType ts st
  | .enum vs => bEnum vs st
  | .const v => bConst v st
  | .minimum n => bMinimum n st
  | .maximum n => bMaximum n st
  | .exclusiveMinimum n => bExclusiveMinimum n st
  | .exclusiveMaximum n => bExclusiveMaximum n st
  | .multipleOf n => bMultipleOf n st
  | .minLength n => bMinLength n st
  | .maxLength n => bMaxLength n st
  | .pattern p => bPattern p st
  | .minItems n => bMinItems n st
  | .maxItems n => bMaxItems n st
  | .uniqueItems b => bUniqueItems b st
  | .minContains n => bMinContains n st
  | .maxContains n => bMaxContains n st
  | .contains s => bContains (tr KSet.full s).expr st
  | .prefixItems ss => bPrefixItems (ss.map fun s => (tr KSet.full s).expr) st
  | .items s => bItems (tr KSet.full s).expr st
  | .allOf ss => bAllOf tr ss st
  | .anyOf ss => bAnyOf tr ss st
  | .oneOf ss => bOneOf tr ss st
  | .not s => bNot tr s st
  | .ifS s => { st with ifS := some s }
  | .thenS s => { st with thenS := some s }
  | .elseS s => { st with elseS := some s }
  | _ => st

def runPhase (tr : KSet → Schema → TSub) (p : Nat) (kws : List Kw) (st : TSt) : TSt :=
  kws.foldl (fun st kw => if phaseOf kw == p then stepKw tr st kw else st) st

def runPhases (tr : KSet → Schema → TSub) (kws : List Kw) (st : TSt) : TSt :=
  [0, 1, 2, 3, 4].foldl (fun st p => runPhase tr p kws st) st

/-! ## `state.finalize` on `CC` (same assembly as `Skel.finalize`, plus the stable sort) -/

/-- `slices.SortStableFunc(… cmpBool(aList, bList))`: list literals last, order otherwise kept -/
def sortListsLast (l : List CC) : List CC := l.filter (!·.isListLit) ++ l.filter (·.isListLit)

def TSt.sorted (st : TSt) (t : CoreType) : List CC :=
  if t == .array then sortListsLast (st.types t) else st.types t

def disjunctFor (st : TSt) (t : CoreType) : Option CC :=
  match st.sorted t with
  | c :: r => if hasCore st.allowed t then some (foldAnd c r) else none
  | [] => if hasCore st.allowed t && hasCore st.known t then some (.kind t) else none

def needsTypeDisjunction (st : TSt) : Bool :=
  !(st.allowed.beq st.known) ||
  CoreType.all.any fun t => !(st.types t).isEmpty && hasCore st.allowed t

def disjuncts (st : TSt) : List CC :=
  if needsTypeDisjunction st then CoreType.all.filterMap (disjunctFor st) else []

def finalize (st : TSt) : CC :=
  if st.allowed.isEmpty then .disallowed else
  let conjuncts := st.all ++ (match disjuncts st with | [] => [] | d :: ds => [foldOr d ds])
  match conjuncts with
  | [] => .top
  | c :: cs => foldAnd c cs

/-- `state.hasConstraints` (no patterns / title / description / obj / id in the subset) -/
def hasConstraints (st : TSt) : Bool :=
  !st.all.isEmpty || CoreType.all.any fun t => !(st.types t).isEmpty

/-- `schemaState(n, types, nil)`; fuel = nesting depth (structural recursion) -/
def translate : Nat → KSet → Schema → TSub
  | 0, T, _ => ⟨.disallowed, T, KSet.full, false⟩
  | _ + 1, T, .bool b => ⟨if b then .top else .disallowed, T, KSet.full, false⟩
  | n + 1, T, .obj kws =>
    let st := bIfThenElse (translate n) (runPhases (translate n) kws (TSt.init T))
    ⟨finalize st, st.allowed, st.allowed, hasConstraints st⟩

/-! ## the transcribed subset -/

def Kw.tag : Kw → String
  | .type _ => "type" | .enum _ => "enum" | .const _ => "const" | .minimum _ => "minimum"
  | .maximum _ => "maximum" | .exclusiveMinimum _ => "exclusiveMinimum"
  | .exclusiveMaximum _ => "exclusiveMaximum" | .multipleOf _ => "multipleOf"
  | .minLength _ => "minLength" | .maxLength _ => "maxLength" | .pattern _ => "pattern"
  | .properties _ => "properties" | .patternProperties _ => "patternProperties"
  | .additionalProperties _ => "additionalProperties" | .propertyNames _ => "propertyNames"
  | .required _ => "required" | .minProperties _ => "minProperties" | .maxProperties _ => "maxProperties"
  | .items _ => "items" | .prefixItems _ => "prefixItems" | .minItems _ => "minItems"
  | .maxItems _ => "maxItems" | .uniqueItems _ => "uniqueItems" | .contains _ => "contains"
  | .minContains _ => "minContains" | .maxContains _ => "maxContains" | .allOf _ => "allOf"
  | .anyOf _ => "anyOf" | .oneOf _ => "oneOf" | .not _ => "not" | .ifS _ => "if" | .thenS _ => "then"
  | .elseS _ => "else" | .defs _ => "$defs" | .ref _ => "$ref" | .annot n => n

def distinctStrs : List String → Bool
  | [] => true
  | x :: r => !r.contains x && distinctStrs r

/-- a schema the transcription covers: every keyword is from the number / string / array / type /
enum / const / combinator families, no keyword occurs twice in one object (JSON object keys are
distinct), nesting depth ≤ fuel -/
def inModel : Nat → Schema → Bool
  | 0, _ => false
  | _ + 1, .bool _ => true
  | n + 1, .obj kws =>
    distinctStrs (kws.map Kw.tag) &&
    kws.all fun kw => match kw with
      | .type _ | .enum _ | .const _ | .minimum _ | .maximum _ | .exclusiveMinimum _
      | .exclusiveMaximum _ | .multipleOf _ | .minLength _ | .maxLength _ | .pattern _
      | .minItems _ | .maxItems _ | .uniqueItems _ | .minContains _ | .maxContains _ => true
      | .contains s | .items s | .not s | .ifS s | .thenS s | .elseS s => inModel n s
      | .prefixItems ss | .allOf ss | .anyOf ss | .oneOf ss => ss.all (inModel n)
      | _ => false

end CueVerif.CCm
