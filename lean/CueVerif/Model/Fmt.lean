/-
Model for C08 (`cue fmt`): operator-precedence printing, the scanner's maximal munch on
operator / punctuation tokens, precedence-climbing parsing, and the blank-insertion
policies of the two formatters.  Core Lean only.

Transcribed Go code (all pinned or regenerated in Bridge/C08.lean):

* `cue/token`     `Token.Precedence` (REGENERATED: `OpTok.prec`), `LowestPrec/UnaryPrec/HighestPrec`,
                  the token numbering (`OpTok.code`).
* `cue/scanner`   `Scanner.Scan` (the operator / punctuation arms of its big switch, identifiers made
                  of ASCII letters and digits, decimal digit strings) and `switch2`      → `scanOne`, `scan`.
* `cue/parser`    `parseBinaryExpr`, `parseBinaryExprTail`, `parseUnaryExpr` and the operand / `(`…`)`
                  arms of `parsePrimaryExpr`/`parseOperand`                               → `parseUnary/parseBinary/parseTail`.
* `cue/format`    node.go `exprRaw` (BinaryExpr, UnaryExpr, ParenExpr, Ident/BasicLit arms),
                  `binaryExpr`, `walkBinary`, `cutoff`, `diffPrec`, `reduceDepth`; printer.go
                  `mayCombine` and the `token.Token` arm of `printer.Print`               → `printP`, `fmt1`, `fmtV1`.
* `internal/pretty` ast.go `unaryExpr`, `binaryExprPrec`, `binaryOperand`, `wrapForPrecedence`,
                  `binaryCutoff`, `binaryWalk`, `binaryDiffPrec`, `operatorsWouldMerge`,
                  `unaryOpMergesWithOperand`, `parenExpr`                                 → `fmt2`, `fmtV2`.

Expression trees carry NO positions: this is the behaviour for programmatically built ASTs; for
parsed single-line expressions the v1 printer behaves identically because every position print
in `binaryExpr` / the UnaryExpr arm is preceded by `nooverride`.

Not modelled: selectors, index, slice, call, postfix (HighestPrec contexts), struct and list
literals, interpolations, comments, line breaking.  Those are covered by the harness' direct predicates only.
-/
namespace CueVerif.Fmt

/-! ### tokens -/

/-- the operator and punctuation tokens the scanner produces (cue/token operatorBeg..operatorEnd
without POW, which the scanner never emits) -/
inductive OpTok
  | add | sub | mul | quo | and | or | land | lor | bind | eql | lss | gtr | not | arrow
  | neq | leq | geq | mat | nmat | lparen | lbrack | lbrace | comma | period | ellipsis
  | rparen | rbrack | rbrace | semicolon | colon | option | tilde
  deriving DecidableEq, Repr

namespace OpTok

/-- the value of the Go constant (cue/token: iota order); bridged against `Gen.C08.tok_*` -/
def code : OpTok → Nat
  | add => 13 | sub => 14 | mul => 15 | quo => 17 | and => 18 | or => 19 | land => 20 | lor => 21
  | bind => 22 | eql => 23 | lss => 24 | gtr => 25 | not => 26 | arrow => 27
  | neq => 28 | leq => 29 | geq => 30 | mat => 31 | nmat => 32
  | lparen => 33 | lbrack => 34 | lbrace => 35 | comma => 36 | period => 37 | ellipsis => 38
  | rparen => 39 | rbrack => 40 | rbrace => 41 | semicolon => 42 | colon => 43 | option => 44 | tilde => 45

def all : List OpTok :=
  [add, sub, mul, quo, and, or, land, lor, bind, eql, lss, gtr, not, arrow, neq, leq, geq, mat, nmat,
   lparen, lbrack, lbrace, comma, period, ellipsis, rparen, rbrack, rbrace, semicolon, colon, option, tilde]

def ofCode (n : Nat) : Option OpTok := all.find? (fun o => o.code == n)

/-- `Token.Precedence` (REGENERATED; Bridge: `Gen.C08.precedence o.code = o.prec`) -/
def prec : OpTok → Nat
  | or => 1
  | and => 2
  | lor => 3
  | land => 4
  | eql | neq | lss | leq | gtr | geq | mat | nmat => 5
  | add | sub => 6
  | mul | quo => 7
  | _ => 0

/-- the operators `parseUnaryExpr` accepts (`==` under the StructCmp experiment, which is on by
default on this tree: harness op `unop`) -/
def isUnary : OpTok → Bool
  | add | sub | not | mul | lss | leq | geq | gtr | neq | mat | nmat | eql => true
  | _ => false

/-- `Token.String` for operator tokens -/
def spell : OpTok → List Char
  | add => ['+'] | sub => ['-'] | mul => ['*'] | quo => ['/'] | and => ['&'] | or => ['|']
  | land => ['&', '&'] | lor => ['|', '|'] | bind => ['='] | eql => ['=', '='] | lss => ['<']
  | gtr => ['>'] | not => ['!'] | arrow => ['<', '-'] | neq => ['!', '='] | leq => ['<', '=']
  | geq => ['>', '='] | mat => ['=', '~'] | nmat => ['!', '~'] | lparen => ['('] | lbrack => ['[']
  | lbrace => ['{'] | comma => [','] | period => ['.'] | ellipsis => ['.', '.', '.']
  | rparen => [')'] | rbrack => [']'] | rbrace => ['}'] | semicolon => [';'] | colon => [':']
  | option => ['?'] | tilde => ['~']

end OpTok

def lowestPrec : Nat := 0
def unaryPrec : Nat := 8
def highestPrec : Nat := 9

def isLetter (c : Char) : Bool := ('a' ≤ c && c ≤ 'z') || ('A' ≤ c && c ≤ 'Z')
def isDigit (c : Char) : Bool := '0' ≤ c && c ≤ '9'
def isIdentChar (c : Char) : Bool := isLetter c || isDigit c

/-- primary atoms: identifiers made of ASCII letters and digits (first a letter), decimal digit
strings.  (Keywords are not distinguished: only token extents matter here.) -/
inductive Atom
  | ident (s : List Char)
  | int (s : List Char)
  deriving DecidableEq, Repr

def Atom.spell : Atom → List Char
  | .ident s => s
  | .int s => s

def Atom.wf : Atom → Bool
  | .ident [] => false
  | .ident (c :: s) => isLetter c && s.all isIdentChar
  | .int [] => false
  | .int (c :: s) => isDigit c && s.all isDigit

inductive Tok
  | op (o : OpTok)
  | atom (a : Atom)
  deriving DecidableEq, Repr

def Tok.spell : Tok → List Char
  | .op o => o.spell
  | .atom a => a.spell

def Tok.wf : Tok → Bool
  | .op _ => true
  | .atom a => a.wf

/-! ### the scanner (maximal munch) -/

/-- one `Scanner.Scan` step after white space has been skipped.  `none` = the input leaves the
modelled fragment (comment, number with fraction/exponent/multiplier, `..`, `_`, `$`, `#`, quotes,
any other character). -/
def scanOne : List Char → Option (Tok × List Char)
  | [] => none
  | c :: cs =>
    if isDigit c then
      match (c :: cs).span isDigit with
      | (ds, []) => some (.atom (.int ds), [])
      | (ds, d :: rest) =>
        if d = '.' || isLetter d || d = '_' then none else some (.atom (.int ds), d :: rest)
    else if isLetter c then
      match (c :: cs).span isIdentChar with
      | (ls, []) => some (.atom (.ident ls), [])
      | (ls, d :: rest) =>
        if d = '_' || d = '$' || d = '#' then none else some (.atom (.ident ls), d :: rest)
    else if c = '+' then some (.op .add, cs)
    else if c = '-' then some (.op .sub, cs)
    else if c = '*' then some (.op .mul, cs)
    else if c = '/' then
      match cs with
      | '/' :: _ => none                       -- comment
      | _ => some (.op .quo, cs)
    else if c = '<' then
      match cs with
      | '-' :: r => some (.op .arrow, r)
      | '=' :: r => some (.op .leq, r)         -- switch2
      | _ => some (.op .lss, cs)
    else if c = '>' then
      match cs with
      | '=' :: r => some (.op .geq, r)
      | _ => some (.op .gtr, cs)
    else if c = '=' then
      match cs with
      | '~' :: r => some (.op .mat, r)
      | '=' :: r => some (.op .eql, r)
      | _ => some (.op .bind, cs)
    else if c = '!' then
      match cs with
      | '~' :: r => some (.op .nmat, r)
      | '=' :: r => some (.op .neq, r)
      | _ => some (.op .not, cs)
    else if c = '&' then
      match cs with
      | '&' :: r => some (.op .land, r)
      | _ => some (.op .and, cs)
    else if c = '|' then
      match cs with
      | '|' :: r => some (.op .lor, r)
      | _ => some (.op .or, cs)
    else if c = '.' then
      match cs with
      | '.' :: '.' :: r => some (.op .ellipsis, r)
      | '.' :: _ => none                       -- illegal token '..'
      | d :: r => if isDigit d then none else some (.op .period, d :: r)   -- `.5` is a number
      | [] => some (.op .period, [])
    else if c = ',' then some (.op .comma, cs)
    else if c = ';' then some (.op .semicolon, cs)
    else if c = ':' then some (.op .colon, cs)
    else if c = '?' then some (.op .option, cs)
    else if c = '~' then some (.op .tilde, cs)
    else if c = '(' then some (.op .lparen, cs)
    else if c = ')' then some (.op .rparen, cs)
    else if c = '[' then some (.op .lbrack, cs)
    else if c = ']' then some (.op .rbrack, cs)
    else if c = '{' then some (.op .lbrace, cs)
    else if c = '}' then some (.op .rbrace, cs)
    else none

/-- skipWhitespace restricted to blanks (the only separator the expression printers emit on one line) -/
def skipBlanks : List Char → List Char
  | ' ' :: cs => skipBlanks cs
  | cs => cs

def scanFuel : Nat → List Char → Option (List Tok)
  | 0, _ => none
  | n + 1, cs =>
    match skipBlanks cs with
    | [] => some []
    | c :: cs' =>
      match scanOne (c :: cs') with
      | none => none
      | some (t, rest) =>
        match scanFuel n rest with
        | none => none
        | some ts => some (t :: ts)

/-- the token sequence of a character string (comma insertion off: `scanner.DontInsertCommas`) -/
def scan (cs : List Char) : Option (List Tok) := scanFuel (cs.length + 1) cs

/-! ### printing with blanks -/

/-- formatter output on one line: each token with the decision "a blank is written before it" -/
abbrev Items := List (Bool × Tok)

def render : Items → List Char
  | [] => []
  | (b, t) :: r => (if b then [' '] else []) ++ t.spell ++ render r

def toks (l : Items) : List Tok := l.map (·.2)

def setFirst (b : Bool) : Items → Items
  | [] => []
  | (b0, t) :: r => (b || b0, t) :: r

/-! ### expressions -/

/-- expression trees as the Go AST stores them: operator fields hold tokens (any token can be
stored by a programmatic builder; `Expr.wf` says they are operators of the right arity) -/
inductive Expr
  | atom (a : Atom)
  | un (o : OpTok) (x : Expr)
  | bin (o : OpTok) (x y : Expr)
  | paren (x : Expr)
  deriving DecidableEq, Repr

/-- A negative number built as ONE literal (`ast.BasicLit{Kind: INT, Value: "-12"}`, what the exporter
produces for bounds such as `< -12`).  Both printers write its characters, which the scanner reads as
`-` followed by the number, and since 9a3bd4a both `unaryOpMergesWithOperand` guards look at the first
byte of a BasicLit operand exactly as at the operator of a nested UnaryExpr.  So for the token stream,
the parenthesisation, the re-parsed tree and the unary guard it IS the tree `-` applied to the number,
and that is how the model represents it.  (Only the optional blanks after a binary `-`/`+` differ —
`walkBinary`/`operatorsWouldMerge` look at UnaryExpr only —, which is harmless: `--` is not a token.) -/
def negLit (digits : List Char) : Expr := .un .sub (.atom (.int digits))

def Expr.wf : Expr → Bool
  | .atom a => a.wf
  | .un o x => o.isUnary && x.wf
  | .bin o x y => decide (1 ≤ o.prec) && x.wf && y.wf
  | .paren x => x.wf

def parens (l : List Tok) : List Tok := [.op .lparen] ++ l ++ [.op .rparen]

/-- the token stream both formatters produce (`exprRaw`/`binaryExpr` resp.
`binaryExprPrec`/`binaryOperand`/`wrapForPrecedence`): parentheses iff `prec < prec1`, left operand
at `prec`, right operand at `prec+1`, unary operand at `UnaryPrec`, `((x))` collapsed to `(x)`.
(The parenthesised branch of the Go code re-enters the same node with prec1 = LowestPrec, which
prints the unparenthesised body: transcribed as `body`.) -/
def printP : Nat → Expr → List Tok
  | _, .atom a => [.atom a]
  | p, .bin o x y =>
    let body := printP o.prec x ++ [.op o] ++ printP (o.prec + 1) y
    if o.prec < p then parens body else body
  | p, .un o x =>
    let body := .op o :: printP unaryPrec x
    if unaryPrec < p then parens body else body
  | _, .paren (.paren x) => printP lowestPrec (.paren x)
  | _, .paren x => parens (printP lowestPrec x)

def printE (e : Expr) : List Tok := printP lowestPrec e

/-- the tree denoted by the printed form: a `paren` node wherever the printer wrote parentheses -/
def normP : Nat → Expr → Expr
  | _, .atom a => .atom a
  | p, .bin o x y =>
    let b := Expr.bin o (normP o.prec x) (normP (o.prec + 1) y)
    if o.prec < p then .paren b else b
  | p, .un o x =>
    let b := Expr.un o (normP unaryPrec x)
    if unaryPrec < p then .paren b else b
  | _, .paren (.paren x) => normP lowestPrec (.paren x)
  | _, .paren x => .paren (normP lowestPrec x)

/-- `stripRedundantParens` of DESIGN §C08: the tree `cue fmt`'s output parses to -/
def norm (e : Expr) : Expr := normP lowestPrec e

/-! ### the parser (precedence climbing), with explicit fuel -/

def tokPrec : Tok → Nat
  | .op o => o.prec
  | .atom _ => 0

mutual
/-- `parseUnaryExpr` + the operand and `(` Expr `)` arms of `parsePrimaryExpr` -/
def parseUnary : Nat → List Tok → Option (Expr × List Tok)
  | 0, _ => none
  | _ + 1, [] => none
  | _ + 1, .atom a :: ts => some (.atom a, ts)
  | n + 1, .op o :: ts =>
    if o.isUnary then
      match parseUnary n ts with
      | some (x, r) => some (.un o x, r)
      | none => none
    else if o = .lparen then
      match parseBinary n 1 ts with            -- parseExpr = parseBinaryExprLeft(LowestPrec+1)
      | some (x, .op .rparen :: r) => some (.paren x, r)
      | _ => none
    else none
/-- `parseBinaryExpr(prec1)` -/
def parseBinary : Nat → Nat → List Tok → Option (Expr × List Tok)
  | 0, _, _ => none
  | n + 1, prec1, ts =>
    match parseUnary n ts with
    | some (x, r) => parseTail n prec1 x r
    | none => none
/-- `parseBinaryExprTail(prec1, x)`: the loop -/
def parseTail : Nat → Nat → Expr → List Tok → Option (Expr × List Tok)
  | 0, _, _, _ => none
  | _ + 1, _, x, [] => some (x, [])
  | n + 1, prec1, x, t :: ts =>
    if tokPrec t < prec1 then some (x, t :: ts)
    else
      match t with
      | .atom _ => none                        -- unreachable for prec1 ≥ 1
      | .op o =>
        match parseBinary n (o.prec + 1) ts with
        | some (y, r) => parseTail n prec1 (.bin o x y) r
        | none => none
end

def parseFuel (ts : List Tok) : Nat := 4 * ts.length + 4

/-- parse a complete expression: all tokens must be consumed -/
def parseE (ts : List Tok) : Option Expr :=
  match parseBinary (parseFuel ts) 1 ts with
  | some (e, []) => some e
  | _ => none

/-! ### blank policy of the v1 formatter (cue/format) -/

structure Walk where
  has6 : Bool
  has7 : Bool
  has8 : Bool
  maxProblem : Nat
  deriving DecidableEq, Repr

/-- `walkBinary` (defined on every node; only its value on `bin` nodes is used) -/
def walkBinary : Expr → Walk
  | .bin o x y =>
    let w : Walk := { has6 := o.prec == 6, has7 := o.prec == 7, has8 := o.prec == 8, maxProblem := 0 }
    let w : Walk := match x with
      | .bin l _ _ =>
        if l.prec < o.prec then w else
          let wl := walkBinary x
          { has6 := w.has6 || wl.has6, has7 := w.has7 || wl.has7, has8 := w.has8 || wl.has8,
            maxProblem := if w.maxProblem < wl.maxProblem then wl.maxProblem else w.maxProblem }
      | _ => w
    match y with
    | .bin r _ _ =>
      if r.prec ≤ o.prec then w else
        let wr := walkBinary y
        { has6 := w.has6 || wr.has6, has7 := w.has7 || wr.has7, has8 := w.has8 || wr.has8,
          maxProblem := if w.maxProblem < wr.maxProblem then wr.maxProblem else w.maxProblem }
    | .un r _ =>
      if o = .quo && r = .mul then { w with maxProblem := 8 }
      else if (o = .add && r = .add) || (o = .sub && r = .sub) then
        (if w.maxProblem < 6 then { w with maxProblem := 6 } else w)
      else w
    | _ => w
  | _ => { has6 := false, has7 := false, has8 := false, maxProblem := 0 }

/-- `cutoff` -/
def cutoff (e : Expr) (depth : Nat) : Nat :=
  let w := walkBinary e
  if w.maxProblem > 0 then w.maxProblem + 1
  else if (w.has6 || w.has7) && w.has8 then
    (if depth == 1 then 8 else if w.has7 then 7 else 6)
  else if w.has6 && w.has7 then
    (if depth == 1 then 7 else 6)
  else if depth == 1 then 8 else 6

/-- `diffPrec` -/
def diffPrec (e : Expr) (prec : Nat) : Nat :=
  match e with
  | .bin o _ _ => if prec != o.prec then 1 else 0
  | _ => 1

/-- `reduceDepth` -/
def reduceDepth (depth : Nat) : Nat := if depth - 1 < 1 then 1 else depth - 1

/-- `unaryOpMergesWithOperand` (internal/pretty and, since ab8529a, cue/format; extended by 9a3bd4a to
BasicLit operands, which the model represents by `negLit`, i.e. as `.un .sub _`) -/
def unaryOpMerges (op : OpTok) (operand : Expr) : Bool :=
  match operand with
  | .un inner _ =>
    match inner.spell with
    | [] => false
    | c :: _ =>
      if op = .lss then c = '-' || c = '='
      else if op = .gtr || op = .not then c = '='
      else false
  | _ => false

def iparens (l : Items) : Items := [(false, .op .lparen)] ++ l ++ [(false, .op .rparen)]

/-- `exprRaw`/`binaryExpr` with the explicit blanks (`printBlank := prec < cutoff`).  `guard`
= the separation guard in the UnaryExpr arm (`unaryOpMergesWithOperand`, present since fix ab8529a;
see `v1GuardEnabled`). -/
def fmt1 (guard : Bool) : Nat → Nat → Expr → Items
  | _, _, .atom a => [(false, .atom a)]
  | p, depth, .bin o x y =>
    -- parenthesised: `f.expr0(x, reduceDepth(depth))` re-enters this node with prec1 = 0
    let d := if o.prec < p then reduceDepth depth else depth
    let d := if d < 1 then 1 else d
    let pb := decide (o.prec < cutoff (.bin o x y) d)
    let body := fmt1 guard o.prec (d + diffPrec x o.prec) x ++ (pb, .op o) :: setFirst pb (fmt1 guard (o.prec + 1) (d + 1) y)
    if o.prec < p then iparens body else body
  | p, depth, .un o x =>
    -- parenthesised: `f.expr(x)` re-enters this node with prec1 = 0 and depth = 1
    let d := if unaryPrec < p then 1 else depth
    let body := (false, .op o) :: setFirst (guard && unaryOpMerges o x) (fmt1 guard unaryPrec d x)
    if unaryPrec < p then iparens body else body
  | _, depth, .paren (.paren x) => fmt1 guard lowestPrec depth (.paren x)
  | _, depth, .paren x => iparens (fmt1 guard lowestPrec (reduceDepth depth) x)

/-- printer.go `mayCombine(prev, next).before` for the modelled tokens (no keyword tokens occur) -/
def mayCombine (prev next : Tok) : Bool :=
  match prev, next with
  | .atom (.int _), .op .period => true
  | .op .add, .op o => o.spell.head? = some '+'
  | .op .sub, .op o => o.spell.head? = some '-'
  | .op .quo, .op o => o.spell.head? = some '*'
  | _, _ => false

/-- the `token.Token` arm of `printer.Print`: a blank is forced when `mayCombine` says so -/
def applyMayCombine : Option Tok → Items → Items
  | _, [] => []
  | none, (b, t) :: r => (b, t) :: applyMayCombine (some t) r
  | some p, (b, t) :: r => (b || mayCombine p t, t) :: applyMayCombine (some t) r

/-- THE SWITCH. `true` = cue/format/node.go since the fix ab8529a: the UnaryExpr arm of `exprRaw`
prints a blank after the operator when `unaryOpMergesWithOperand(x.Op, x.X)` (a copy of
internal/pretty's) holds. `false` was the printer before the fix (no guard), kept only for the
statements about the OLD policy in Props/C08.lean. -/
def v1GuardEnabled : Bool := true

def fmtV1g (guard : Bool) (e : Expr) : Items := applyMayCombine none (fmt1 guard lowestPrec 1 e)

/-- `cue/format.Node(expr)` with `CUE_EXPERIMENT=formatv2=0` on a position-free expression -/
def fmtV1 (e : Expr) : Items := fmtV1g v1GuardEnabled e

/-! ### blank policy of the v2 formatter (internal/pretty, the default) -/

/-- `binaryWalk` -/
def binaryWalk : Expr → Bool × Bool
  | .bin o x y =>
    let h : Bool × Bool := (o.prec == 6, o.prec == 7)
    let h : Bool × Bool := match x with
      | .bin l _ _ => if l.prec ≥ o.prec then (let w := binaryWalk x; (h.1 || w.1, h.2 || w.2)) else h
      | _ => h
    match y with
    | .bin r _ _ => if r.prec > o.prec then (let w := binaryWalk y; (h.1 || w.1, h.2 || w.2)) else h
    | _ => h
  | _ => (false, false)

/-- `binaryCutoff` -/
def binaryCutoff (e : Expr) (depth : Nat) : Nat :=
  let h := binaryWalk e
  if h.1 && h.2 then (if depth == 1 then 7 else 6)
  else if depth == 1 then 8 else 6

/-- the leftmost leading unary operator of `operatorsWouldMerge`'s descent -/
def leadUnary : Expr → Option OpTok
  | .bin _ x _ => leadUnary x
  | .un o _ => some o
  | _ => none

/-- `operatorsWouldMerge` -/
def operatorsWouldMerge (op : OpTok) (rhs : Expr) : Bool :=
  match leadUnary rhs with
  | some lead =>
    if op = .add then lead = .add
    else if op = .sub then lead = .sub
    else if op = .quo then lead = .mul
    else false
  | none => false

/-- `binaryOperand(e, p, depth)`; `c.expr(e)` is `fmt2 0 1 e`.  A lower-precedence binary operand
is rendered by `c.expr` (fresh depth 1) and wrapped by `wrapForPrecedence`. -/
def fmt2 : Nat → Nat → Expr → Items
  | _, _, .atom a => [(false, .atom a)]
  | p, depth, .bin o x y =>
    let d := if o.prec < p then 1 else depth
    let sp := decide (o.prec < binaryCutoff (.bin o x y) d) || operatorsWouldMerge o y
    let body := fmt2 o.prec (d + diffPrec x o.prec) x ++ (sp, .op o) :: setFirst sp (fmt2 (o.prec + 1) (d + 1) y)
    if o.prec < p then iparens body else body
  | _, _, .un o x =>
    (false, .op o) :: setFirst (unaryOpMerges o x) (fmt2 unaryPrec 1 x)
  | _, _, .paren (.paren x) => fmt2 lowestPrec 1 (.paren x)
  | _, _, .paren x => iparens (fmt2 lowestPrec 1 x)

/-- `cue/format.Node(expr)` with the default formatter (formatv2) on a position-free expression,
in the modelled fragment (the v2 unary arm never parenthesises itself: HighestPrec contexts are
outside the fragment) -/
def fmtV2 (e : Expr) : Items := fmt2 lowestPrec 1 e

end CueVerif.Fmt
