/-
C11 — model of the IN-REPO decisions of the YAML encoder and decoder (core Lean only).

Transcribed from internal/encoding/yaml/goccy/encode.go:
  needsSingleQuoting, quoteScalar, encodeScalar (string branch), encodeDecls (key quoting),
  shouldQuote, yamlUnprintable, blockLiteralSafe, decodesAsNonString, isNumberTokenType,
  the tables legacyStrings / nonStringStarts and the regexps useQuote / rxAnyOctalYaml11;
from internal/encoding/yaml/goccy/decode.go:
  scalarString, numberKind, specialFloats, rxYamlInt / rxYamlFloat, yaml11OctalToCUE, intExpr,
  floatExpr, makeNum, infString, and the scalar arms of decoder.extract;
from internal/encoding/yaml/encode.go (the yaml.v3 based encoder): shouldQuote.

NOT modelled (third-party code, parameters of the model, values supplied by the harness):
  * `Lex` — what goccy's `lexer.Tokenize` says about a text (one token? which type? value
    unchanged?), consulted by `decodesAsNonString` and, in context, by the decoder;
  * `IsPrint` — Go's `unicode.IsPrint`, consulted by `yamlUnprintable` since /repo fb65e27;
  * `libq` — goccy's own `token.IsNeedQuoted`, applied by the library to every string the
    in-repo code hands over unquoted;
  * emission and parsing of mappings, sequences, flow style, comments.

Regular expressions are values of `RE` matched by Brzozowski derivatives; the four regexps of
the code are written out as `RE` terms (`reUseQuote`, …) next to their source text, which the
bridge pins against the regenerated source and the harness cross-checks against Go's regexp.
-/
import CueVerif.Model.Quote
import CueVerif.Model.NumLit
namespace CueVerif.Yaml
open CueVerif.Quote (Bytes decodeRune)

/-! ### regular expressions over bytes -/

inductive RE where
  | empty
  | eps
  | cls (ranges : List (Nat × Nat))
  | seq (a b : RE)
  | alt (a b : RE)
  | star (a : RE)
deriving DecidableEq, Repr, Inhabited

namespace RE

def inCls (rs : List (Nat × Nat)) (c : Nat) : Bool := rs.any fun p => decide (p.1 ≤ c) && decide (c ≤ p.2)

def nullable : RE → Bool
  | empty => false
  | eps => true
  | cls _ => false
  | seq a b => nullable a && nullable b
  | alt a b => nullable a || nullable b
  | star _ => true

def mkSeq (a b : RE) : RE :=
  match a, b with
  | empty, _ => empty
  | _, empty => empty
  | eps, b => b
  | a, b => seq a b

def mkAlt (a b : RE) : RE :=
  match a, b with
  | empty, b => b
  | a, empty => a
  | a, b => if a = b then a else alt a b

def deriv (c : Nat) : RE → RE
  | empty => empty
  | eps => empty
  | cls rs => if inCls rs c then eps else empty
  | seq a b => mkAlt (mkSeq (deriv c a) b) (if nullable a then deriv c b else empty)
  | alt a b => mkAlt (deriv c a) (deriv c b)
  | star a => mkSeq (deriv c a) (star a)

/-- whole-string match (`^…$`) -/
def «matches» (r : RE) (s : Bytes) : Bool := nullable (s.foldl (fun r c => deriv c r) r)

/-- the bytes a non-empty match can start with (as ranges) -/
def first : RE → List (Nat × Nat)
  | empty => []
  | eps => []
  | cls rs => rs
  | seq a b => first a ++ (if nullable a then first b else [])
  | alt a b => first a ++ first b
  | star a => first a

def plus (a : RE) : RE := seq a (star a)
def opt (a : RE) : RE := alt a eps
def ch (c : Char) : RE := cls [(c.toNat, c.toNat)]
def rng (a b : Char) : (Nat × Nat) := (a.toNat, b.toNat)
def one (c : Char) : (Nat × Nat) := (c.toNat, c.toNat)

end RE
open RE

def digit : RE := cls [rng '0' '9']
def sign : RE := cls [one '-', one '+']
def hexd : RE := cls [rng '0' '9', rng 'a' 'f', rng 'A' 'F']

/-- `[\-+0-9:\. \t]` -/
def dateCls : RE := cls [one '-', one '+', rng '0' '9', one ':', one '.', one ' ', one '\t']

def srcUseQuote : String := "^[\\-+0-9:\\. \\t]+([-:]|[tT])[\\-+0-9:\\. \\t]+[zZ]?$|^0x[a-fA-F0-9]+$"
/-- encode.go `useQuote` -/
def reUseQuote : RE :=
  alt (seq (plus dateCls) (seq (alt (cls [one '-', one ':']) (cls [one 't', one 'T']))
        (seq (plus dateCls) (opt (cls [one 'z', one 'Z'])))))
      (seq (ch '0') (seq (ch 'x') (plus (cls [rng 'a' 'f', rng 'A' 'F', rng '0' '9']))))

def srcAnyOctal : String := "^[-+]?0[0-9_]+$"
/-- encode.go `rxAnyOctalYaml11` -/
def reAnyOctal : RE := seq (opt sign) (seq (ch '0') (plus (cls [rng '0' '9', one '_'])))

def srcYamlInt : String := "^[-+]?(0|[1-9][0-9]*|0b[01]+|0o?[0-7]+|0x[0-9a-fA-F]+)$"
/-- decode.go `rxYamlInt` -/
def reYamlInt : RE :=
  seq (opt sign)
    (alt (ch '0')
    (alt (seq (cls [rng '1' '9']) (star digit))
    (alt (seq (ch '0') (seq (ch 'b') (plus (cls [rng '0' '1']))))
    (alt (seq (ch '0') (seq (opt (ch 'o')) (plus (cls [rng '0' '7']))))
         (seq (ch '0') (seq (ch 'x') (plus (cls [rng '0' '9', rng 'a' 'f', rng 'A' 'F']))))))))

def srcYamlFloat : String := "^[-+]?((\\.[0-9]+|[0-9]+\\.[0-9]*)([eE][-+]?[0-9]+)?|[0-9]+[eE][-+]?[0-9]+)$"
def expo : RE := seq (cls [one 'e', one 'E']) (seq (opt sign) (plus digit))
/-- decode.go `rxYamlFloat` -/
def reYamlFloat : RE :=
  seq (opt sign)
    (alt (seq (alt (seq (ch '.') (plus digit)) (seq (plus digit) (seq (ch '.') (star digit)))) (opt expo))
         (seq (plus digit) expo))

/-! ### tables (regenerated from the source on every run; see Bridge/C11) -/

def b (s : String) : Bytes := s.toList.map Char.toNat

/-- encode.go `legacyStrings` (sorted) -/
def legacyStrings : List Bytes :=
  [b ".Nan", b "F", b "FALSE", b "False", b "N", b "NO", b "No", b "OFF", b "ON", b "Off", b "On",
   b "T", b "TRUE", b "True", b "Y", b "YES", b "Yes", b "f", b "false", b "n", b "no", b "off",
   b "on", b "t", b "true", b "y", b "yes"]

/-- decode.go `specialFloats` (sorted by key) -/
def specialFloats : List (Bytes × Bytes) :=
  [(b "+.INF", b "+Inf"), (b "+.Inf", b "+Inf"), (b "+.inf", b "+Inf"),
   (b "-.INF", b "-Inf"), (b "-.Inf", b "-Inf"), (b "-.inf", b "-Inf"),
   (b ".INF", b "+Inf"), (b ".Inf", b "+Inf"), (b ".NAN", b "NaN"), (b ".NaN", b "NaN"),
   (b ".inf", b "+Inf"), (b ".nan", b "NaN")]

/-- encode.go `nonStringStarts` -/
def nonStringStarts : Bytes := b "0123456789+-.~<tTfFnN"

/-- the byte set of shouldQuote's regexp pre-filter -/
def regexpStarts : Bytes := b "-+0123456789:. \t"

/-- the rune test of `yamlUnprintable`'s second switch case -/
def unprintableRune (r : Nat) : Bool :=
  decide (r < 0x20) || r == 0x7F || r == 0x85 || r == 0x2028 || r == 0x2029 || r == 0xFFFE || r == 0xFFFF

/-! ### the goccy lexer's verdict on a text: a PARAMETER -/

inductive Tok where
  | str | bool | null | implicitNull | inf | nan | merge | int | float | quoted | other
deriving DecidableEq, Repr, Inhabited

/-- `lexer.Tokenize(s)`: exactly one token? its type; is its Value the text itself? -/
structure Lex where
  single : Bool
  ty : Tok
  same : Bool
deriving DecidableEq, Repr, Inhabited

/-! ### encoder decisions -/

def hasPrefix (p s : Bytes) : Bool := p.isPrefixOf s
def hasSuffix (p s : Bytes) : Bool := p.isSuffixOf s
def containsSub (p : Bytes) : Bytes → Bool
  | [] => p.isEmpty
  | s@(_ :: t) => p.isPrefixOf s || containsSub p t

/-- `needsSingleQuoting` (since /repo c5058c4: also a suffix `<<` and a prefix `...`) -/
def needsSingleQuoting (s : Bytes) : Bool :=
  s == b "?" || hasPrefix (b "? ") s || hasSuffix (b "<<") s || hasPrefix (b "...") s

/-- `unicode.IsPrint` — a PARAMETER of the model (a large Unicode table of the Go library).
No contract is assumed: every theorem holds for every predicate; the driver is given the real
verdicts for the runes occurring in each case. -/
abbrev IsPrint := Nat → Bool

/-- a sample predicate for `example`s: printable ASCII only -/
def asciiPrint : IsPrint := fun r => decide (0x20 ≤ r) && decide (r < 0x7F)

/-- `yamlUnprintable`: `for i, r := range s` with the model's own UTF-8 decoder; an invalid
byte shows up as (U+FFFD, width 1).  Since /repo fb65e27 every rune other than the blank and
U+FFFD that `unicode.IsPrint` rejects counts as unprintable too. -/
def yamlUnprintableLoop (P : IsPrint) : Nat → Bytes → Bool
  | 0, _ => false
  | _, [] => false
  | fuel + 1, s@(_ :: _) =>
    let rw := decodeRune s
    if rw.1 == 9 || rw.1 == 10 then yamlUnprintableLoop P fuel (s.drop rw.2)
    else if unprintableRune rw.1 then true
    else if rw.1 != 32 && rw.1 != 0xFFFD && !P rw.1 then true
    else if rw.1 == 0xFFFD && rw.2 == 1 then true
    else yamlUnprintableLoop P fuel (s.drop (max rw.2 1))

def yamlUnprintable (P : IsPrint) (s : Bytes) : Bool := yamlUnprintableLoop P s.length s

/-- `blockLiteralSafe` as it was before /repo 05f5435 (history; no longer tied to the tree) -/
def blockLiteralSafeOld (P : IsPrint) (s : Bytes) : Bool :=
  match s with
  | [] => false
  | c :: _ =>
    if c == 32 || c == 9 then false
    else if containsSub [32, 10] s || hasSuffix [32] s then false
    else !yamlUnprintable P s

/-- `blockLiteralSafe` (since /repo 05f5435 the first non-empty line must exist and must not
start with a blank or tab: the block's indentation is detected from it) -/
def blockLiteralSafe (P : IsPrint) (s : Bytes) : Bool :=
  match s with
  | [] => false
  | c :: _ =>
    if c == 32 || c == 9 then false
    else match s.dropWhile (· == 10) with
      | [] => false
      | f :: _ =>
        if f == 32 || f == 9 then false
        else if containsSub [32, 10] s || hasSuffix [32] s then false
        else !yamlUnprintable P s

inductive NumKind where
  | illegal | int | float
deriving DecidableEq, Repr

/-- `numberKind` -/
def numberKind (s : Bytes) : NumKind :=
  match s with
  | [] => .illegal
  | c :: _ =>
    if c == 95 then .illegal else
    let plain := s.filter (· != 95)
    if reYamlInt.matches plain then .int
    else if reYamlFloat.matches plain then .float
    else .illegal

def specialFloat (s : Bytes) : Option Bytes := (specialFloats.find? (·.1 == s)).map (·.2)

/-- `isNumberTokenType` and the first arm of the switch in `decodesAsNonString` -/
def Tok.nonString : Tok → Bool
  | .bool | .null | .implicitNull | .inf | .nan | .merge | .int | .float => true
  | _ => false

/-- `decodesAsNonString` -/
def decodesAsNonString (lx : Lex) (s : Bytes) : Bool :=
  match s with
  | [] => false
  | c :: _ =>
    if !nonStringStarts.contains c then false
    else if !lx.single then false
    else match lx.ty with
      | .str =>
        if !lx.same then false
        else if (specialFloat s).isSome then true
        else numberKind s != .illegal
      | t => t.nonString

/-- the part of `shouldQuote` that does not look at printability: empty, legacy strings, the
two regexps behind their byte pre-filter, `decodesAsNonString`, a tab -/
def shouldQuoteCore (lx : Lex) (s : Bytes) : Bool :=
  match s with
  | [] => true
  | c :: _ =>
    if legacyStrings.contains s then true
    else if regexpStarts.contains c && (reUseQuote.matches s || reAnyOctal.matches s) then true
    else decodesAsNonString lx s || s.contains 9

/-- `shouldQuote` (its last disjunct is `yamlUnprintable`; `yamlUnprintable ""` is false) -/
def shouldQuote (P : IsPrint) (lx : Lex) (s : Bytes) : Bool :=
  shouldQuoteCore lx s || yamlUnprintable P s

/-- what the in-repo code does with a string scalar -/
inductive Decision where
  | double      -- rawScalar(strconv.Quote(s))
  | single      -- rawScalar(singleQuoted(s))
  | block       -- literal block scalar (multi-line string handed over / literalString)
  | lib         -- handed to the library as a Go string: the library quotes or leaves plain
deriving DecidableEq, Repr

/-- `quoteScalar` (single quotes cannot escape anything: since /repo c5058c4 / ae37630 they
are used only when the string holds nothing unprintable and no line feed) -/
def quoteScalar (P : IsPrint) (lx : Lex) (s : Bytes) : Decision :=
  if needsSingleQuoting s && !yamlUnprintable P s && !s.contains 10 then .single
  else if shouldQuote P lx s || needsSingleQuoting s then .double
  else .lib

/-- the string branch of `encodeScalar` (`multi` = the CUE literal is a multi-line one) -/
def valueDecision (P : IsPrint) (lx : Lex) (s : Bytes) (multi : Bool) : Decision :=
  if s.contains 10 then
    if multi && blockLiteralSafe P s then .block else .double
  else if multi && blockLiteralSafe P s then .block
  else quoteScalar P lx s

/-- key quoting in `encodeDecls` -/
def keyDecision (P : IsPrint) (lx : Lex) (s : Bytes) : Decision :=
  match quoteScalar P lx s with
  | .lib => if s.contains 10 then .double else .lib
  | d => d

/-- the scalar style visible in the output -/
inductive Style where
  | plain | single | double | literal
deriving DecidableEq, Repr

def Decision.visible (libq : Bool) : Decision → Style
  | .double => .double
  | .single => .single
  | .block => .literal
  | .lib => if libq then .single else .plain

def valueStyle (P : IsPrint) (lx : Lex) (libq : Bool) (s : Bytes) (multi : Bool) : Style :=
  (valueDecision P lx s multi).visible libq
def keyStyle (P : IsPrint) (lx : Lex) (libq : Bool) (s : Bytes) : Style :=
  (keyDecision P lx s).visible libq

/-- the yaml.v3 based encoder's own decision (internal/encoding/yaml/encode.go shouldQuote) -/
def shouldQuoteV3 (s : Bytes) : Bool := legacyStrings.contains s || reUseQuote.matches s

/-! ### decoder: classification of a scalar token -/

/-- `yaml11OctalToCUE` -/
def yaml11OctalToCUE (v : Bytes) : Bytes :=
  let (sg, digits) : Bytes × Bytes := match v with
    | c :: rest => if c == 43 || c == 45 then ([c], rest) else ([], v)
    | [] => ([], [])
  match digits with
  | 48 :: rest =>
    if rest.isEmpty then v
    else if rest.all (fun c => (decide (48 ≤ c) && decide (c ≤ 55)) || c == 95) then sg ++ b "0o" ++ rest
    else v
  | _ => v

inductive Class where
  | null
  | bool (v : Bool)
  | int (lit : Bytes)        -- CUE literal incl. a leading '-' (makeNum turns it into a unary minus)
  | float (lit : Bytes)
  | numberAnd (lit : Bytes)  -- `number & <int literal>`
  | str (s : Bytes)
  | err
  | other
deriving DecidableEq, Repr

/-- `intExpr` -/
def intExpr (v : Bytes) : Class :=
  let value := yaml11OctalToCUE v
  match NumLit.parseNum value with
  | none => .err
  | some .float => .err
  | some .int => .int value

def containsAny (set s : Bytes) : Bool := s.any (set.contains ·)

/-- `floatExpr` -/
def floatExpr (v : Bytes) (explicitTag : Bool) : Class :=
  let value := yaml11OctalToCUE v
  match NumLit.parseNum value with
  | none => .err
  | some _ =>
    if explicitTag && !containsAny (b ".eEiInN") value then .numberAnd value else .float value

/-- the scalar arms of `decoder.extract` + `scalarString`: `ty` is the type of the token the
decoder sees, `v` its Value -/
def decodeScalar (ty : Tok) (v : Bytes) : Class :=
  match ty with
  | .null | .implicitNull => .null
  | .bool => .bool (v == b "true" || v == b "True" || v == b "TRUE")
  | .inf => .float (if v.head? == some 45 then b "-Inf" else b "+Inf")
  | .nan => .float (b "NaN")
  | .int => intExpr v
  | .float => floatExpr v false
  | .quoted => .str v
  | .str =>
    match specialFloat v with
    | some f => .float f
    | none =>
      match numberKind v with
      | .int => intExpr v
      | .float => floatExpr v true
      | .illegal => .str v
  | .merge | .other => .other

/-! ### literal block scalars: what the emitter writes and what a YAML parser reads back

`emitBlock` follows goccy's `LiteralBlockHeader` (chomping indicator from the trailing line
breaks, never an indentation indicator) and the printer (every non-empty line indented by
`ind` spaces, empty lines left empty after `stripBlankLinePadding`).  `parseBlock` is written
from YAML 1.2 §8.1.1: the content indentation is that of the first non-empty line; `-` strips,
no indicator clips (one final line break kept if there is content), `+` keeps. -/

def splitLines (s : Bytes) : List Bytes :=
  (s.foldr (fun c acc => match acc with
    | [] => if c == 10 then [[], []] else [[c]]
    | l :: ls => if c == 10 then [] :: l :: ls else (c :: l) :: ls) [[]])

inductive Chomp where
  | strip | clip | keep
deriving DecidableEq, Repr

def blockHeader (s : Bytes) : Chomp :=
  if hasSuffix [10, 10] s then .keep else if hasSuffix [10] s then .clip else .strip

/-- the lines written after the header -/
def emitBlock (ind : Nat) (s : Bytes) : Chomp × List Bytes :=
  let ls := splitLines s
  let body := if hasSuffix [10] s then ls.dropLast else ls
  (blockHeader s, body.map fun l => if l.isEmpty then [] else List.replicate ind 32 ++ l)

def leadingSpaces : Bytes → Nat
  | 32 :: t => leadingSpaces t + 1
  | _ => 0

def joinLines : List Bytes → Bytes
  | [] => []
  | [l] => l
  | l :: ls => l ++ [10] ++ joinLines ls

def dropTrailingNL (s : Bytes) : Bytes := (s.reverse.dropWhile (· == 10)).reverse

def parseBlock (c : Chomp) (ls : List Bytes) : Bytes :=
  let n := match ls.find? (fun l => l.any (· != 32)) with
    | some l => leadingSpaces l
    | none => 0
  let content := joinLines (ls.map fun l => l.drop n) ++ [10]
  match c with
  | .keep => content
  | .strip => dropTrailingNL content
  | .clip => let t := dropTrailingNL content; if t.isEmpty then [] else t ++ [10]

/-- a YAML parser rejects the block when a later non-empty line is indented less than the
first non-empty one (the driver answers `err` then) -/
def blockIllIndented (ls : List Bytes) : Bool :=
  match ls.find? (fun l => l.any (· != 32)) with
  | some l => ls.any fun l' => l'.any (· != 32) && decide (leadingSpaces l' < leadingSpaces l)
  | none => false

/-! ### double-quoted escapes: Go's strconv.Quote vs YAML 1.2 §5.7 -/

inductive Esc where
  | char (cp : Nat)   -- the escape denotes this code point
  | hex (digits : Nat) -- followed by that many hex digits giving the code point
deriving DecidableEq, Repr

/-- the escapes `strconv.Quote` can emit (Go spec, "Rune literals" + `\"`) -/
def goEscape (letter : Nat) : Option Esc :=
  if letter == 'a'.toNat then some (.char 7) else if letter == 'b'.toNat then some (.char 8)
  else if letter == 'f'.toNat then some (.char 12) else if letter == 'n'.toNat then some (.char 10)
  else if letter == 'r'.toNat then some (.char 13) else if letter == 't'.toNat then some (.char 9)
  else if letter == 'v'.toNat then some (.char 11) else if letter == '\\'.toNat then some (.char 92)
  else if letter == '"'.toNat then some (.char 34) else if letter == 'x'.toNat then some (.hex 2)
  else if letter == 'u'.toNat then some (.hex 4) else if letter == 'U'.toNat then some (.hex 8)
  else none

/-- YAML 1.2.2 §5.7 escape sequences of double-quoted scalars -/
def yamlEscape (letter : Nat) : Option Esc :=
  if letter == '0'.toNat then some (.char 0) else if letter == 'a'.toNat then some (.char 7)
  else if letter == 'b'.toNat then some (.char 8) else if letter == 't'.toNat then some (.char 9)
  else if letter == 9 then some (.char 9) else if letter == 'n'.toNat then some (.char 10)
  else if letter == 'v'.toNat then some (.char 11) else if letter == 'f'.toNat then some (.char 12)
  else if letter == 'r'.toNat then some (.char 13) else if letter == 'e'.toNat then some (.char 27)
  else if letter == ' '.toNat then some (.char 32) else if letter == '"'.toNat then some (.char 34)
  else if letter == '/'.toNat then some (.char 47) else if letter == '\\'.toNat then some (.char 92)
  else if letter == 'N'.toNat then some (.char 0x85) else if letter == '_'.toNat then some (.char 0xA0)
  else if letter == 'L'.toNat then some (.char 0x2028) else if letter == 'P'.toNat then some (.char 0x2029)
  else if letter == 'x'.toNat then some (.hex 2) else if letter == 'u'.toNat then some (.hex 4)
  else if letter == 'U'.toNat then some (.hex 8) else none

end CueVerif.Yaml
