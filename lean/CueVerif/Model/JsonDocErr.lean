/-
Model of `Value.appendJSON` (cue/types.go) INCLUDING its error branches and the kinds left out
of Model/JsonDoc.lean (property C10).  Core Lean only.

  * `x` is a Resolver / not concrete  → `marshalErrf(… IncompleteError …)`            → `.error`
  * `adt.BottomKind`                   → `toMarshalErr`                                 → `.error`
  * `adt.BytesKind`                    → `json.Marshal(x.(*adt.Bytes).B)`: Go's encoding/json
    `encodeByteSlice` = `"` + base64.StdEncoding (padded) + `"`                        → `base64Std`
  * int/float kind with a NON-finite decimal: `Append(b, 'G')` still succeeds and writes
    `Infinity` / `-Infinity` / `NaN` (`fmtDec`) — NOT valid JSON (see Props `C10_nonfinite_invalid`;
    whether such a value can be built is a question for the harness: op `encerr`)
  * lists / structs: the first element / member whose encoding fails makes the whole call
    fail (`return nil, err`): no partial output.
-/
import CueVerif.Model.JsonDoc
namespace CueVerif.Json
open CueVerif.Quote (Bytes)

/-- an evaluated value as the appender meets it, incl. what it refuses -/
inductive EVal where
  | null
  | bool (b : Bool)
  | num (d : ApdDec)
  | str (s : Bytes)
  | bytes (b : Bytes)
  | list (es : List EVal)
  | struct (fs : List (Bytes × EVal))
  | incomplete          -- unresolved reference / non-concrete value
  | bottom              -- an error value

/-- `encodeStd[i]` of encoding/base64 -/
def b64Char (i : Nat) : Nat :=
  if i < 26 then 65 + i else if i < 52 then 97 + (i - 26) else if i < 62 then 48 + (i - 52)
  else if i == 62 then 0x2B else 0x2F

/-- `base64.StdEncoding.Encode` (with `=` padding) -/
def base64Std : Bytes → Bytes
  | [] => []
  | [a] => [b64Char (a / 4 % 64), b64Char (a % 4 * 16), 0x3D, 0x3D]
  | [a, b] => [b64Char (a / 4 % 64), b64Char (a % 4 * 16 + b / 16 % 16), b64Char (b % 16 * 4), 0x3D]
  | a :: b :: c :: rest =>
    b64Char (a / 4 % 64) :: b64Char (a % 4 * 16 + b / 16 % 16) :: b64Char (b % 16 * 4 + c / 64 % 4) ::
      b64Char (c % 64) :: base64Std rest

mutual
/-- `Value.appendJSON`, `none` = an error is returned (and no bytes) -/
def appendJSONE : EVal → Option Bytes
  | .null => some [0x6E, 0x75, 0x6C, 0x6C]
  | .bool b => some (if b then [0x74, 0x72, 0x75, 0x65] else [0x66, 0x61, 0x6C, 0x73, 0x65])
  | .num d => some (fmtDec d)
  | .str s => some (jsonEscape s)
  | .bytes b => some (0x22 :: (base64Std b ++ [0x22]))
  | .list es =>
    match appendElemsE es with
    | some t => some (0x5B :: (t ++ [0x5D]))
    | none => none
  | .struct fs =>
    match appendFieldsE fs with
    | some t => some (0x7B :: (t ++ [0x7D]))
    | none => none
  | .incomplete => none
  | .bottom => none
def appendElemsE : List EVal → Option Bytes
  | [] => some []
  | e :: es =>
    match appendJSONE e with
    | none => none
    | some a =>
      if es.isEmpty then some a
      else
        match appendElemsE es with
        | none => none
        | some t => some (a ++ 0x2C :: t)
def appendFieldsE : List (Bytes × EVal) → Option Bytes
  | [] => some []
  | (k, v) :: fs =>
    match appendJSONE v with
    | none => none
    | some a =>
      if fs.isEmpty then some (jsonEscape k ++ 0x3A :: a)
      else
        match appendFieldsE fs with
        | none => none
        | some t => some (jsonEscape k ++ 0x3A :: (a ++ 0x2C :: t))
end

mutual
/-- the value contains nothing the appender refuses and no non-finite number; then it is a
value of Model/JsonDoc.lean, with a bytes value standing for its base64 string -/
def EVal.toM : EVal → Option MVal
  | .null => some .null
  | .bool b => some (.bool b)
  | .num (.finite n c e) => some (.num n c e)
  | .num _ => none
  | .str s => some (.str s)
  | .bytes b => some (.str (base64Std b))
  | .list es => (EVal.toMList es).map MVal.list
  | .struct fs => (EVal.toMFields fs).map MVal.struct
  | .incomplete => none
  | .bottom => none
def EVal.toMList : List EVal → Option (List MVal)
  | [] => some []
  | e :: es =>
    match e.toM, EVal.toMList es with
    | some a, some as => some (a :: as)
    | _, _ => none
def EVal.toMFields : List (Bytes × EVal) → Option (List (Bytes × MVal))
  | [] => some []
  | (k, v) :: fs =>
    match v.toM, EVal.toMFields fs with
    | some a, some as => some ((k, a) :: as)
    | _, _ => none
end

mutual
/-- some part of the value is incomplete or an error -/
def EVal.refused : EVal → Bool
  | .incomplete => true
  | .bottom => true
  | .list es => EVal.refusedList es
  | .struct fs => EVal.refusedFields fs
  | _ => false
def EVal.refusedList : List EVal → Bool
  | [] => false
  | e :: es => e.refused || EVal.refusedList es
def EVal.refusedFields : List (Bytes × EVal) → Bool
  | [] => false
  | (_, v) :: fs => v.refused || EVal.refusedFields fs
end

end CueVerif.Json
