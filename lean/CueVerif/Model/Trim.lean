/-
C20 — the value model in which `cue trim`'s removal criterion is stated.

NOT a transcription of tools/trim/trimv3.go (dependency linking and AST rewriting are tied
per run by translation validation in harness/c20*.go).  What is modelled is the algebra
the criterion lives in:

* `SL S`       unification as a meet-semilattice with top (`_`): commutative, associative,
               idempotent.  Everything below is proved for EVERY such structure.
* `SL.pi`      a package value = a function path → value, unified pointwise
               (a vertex = the multiset of conjuncts seen at one path).
* `SL.opt`     `none` = "the field does not exist" (a new top element: a conjunct that
               says nothing about a path leaves it absent).
* `DV`/`SLB.dv` value/default pairs ⟨v, d⟩ of the CUE spec (U1/U2: componentwise
               unification; `d = ⊥` = all marked disjuncts eliminated) and `resolve`
               (internal/core/adt/default.go `Vertex.Default`): the default if one is left,
               the value otherwise.
* `equallySpecific`  trimv3.go `equallySpecific`/`subsumeProfile`
               (`subsume.Profile{Defaults: true, LeftDefault: true}`): the candidate with
               defaults applied is subsumed by the vertex with defaults applied.
* `Cj`/`vertexValue` plain conjuncts versus pattern-constraint conjuncts (which constrain a
               field but never create it).
* `greedy`/`trimModel` the specification-level trimmer: scan the conjuncts once, drop each
               removable conjunct that is redundant w.r.t. the CURRENT multiset.
* `bits`       the concrete instance used by the driver and the witnesses: sets of atoms of
               a finite universe as `BitVec 32` (`&` = intersection, `|` = union).
Core Lean only.
-/
namespace CueVerif.Trim

/-- unification: a meet-semilattice with top -/
structure SL (S : Type) where
  meet : S → S → S
  top : S
  comm : ∀ a b, meet a b = meet b a
  assoc : ∀ a b c, meet (meet a b) c = meet a (meet b c)
  idem : ∀ a, meet a a = a
  top_meet : ∀ a, meet top a = a

/-- … with a bottom (the error value) that absorbs -/
structure SLB (V : Type) extends SL V where
  bot : V
  bot_meet : ∀ a, meet bot a = bot

/-- the value of a vertex: all its conjuncts unified -/
def unifyAll (L : SL S) (C : List S) : S := C.foldr L.meet L.top

/-- `a ⊑ b`: a is at least as specific as b (b subsumes a) -/
def le (L : SL S) (a b : S) : Prop := L.meet a b = a

instance [DecidableEq S] (L : SL S) (a b : S) : Decidable (le L a b) := by
  unfold le; infer_instance

/-- pointwise unification of functions path → value -/
def SL.pi (L : SL S) (P : Type) : SL (P → S) where
  meet f g := fun p => L.meet (f p) (g p)
  top := fun _ => L.top
  comm f g := funext fun p => L.comm _ _
  assoc f g h := funext fun p => L.assoc _ _ _
  idem f := funext fun p => L.idem _
  top_meet f := funext fun p => L.top_meet _

def optMeet (m : S → S → S) : Option S → Option S → Option S
  | none, y => y
  | x, none => x
  | some a, some b => some (m a b)

/-- adjoin "absent" as a new top -/
def SL.opt (L : SL S) : SL (Option S) where
  meet := optMeet L.meet
  top := none
  comm a b := by cases a <;> cases b <;> simp [optMeet, L.comm]
  assoc a b c := by cases a <;> cases b <;> cases c <;> simp [optMeet, L.assoc]
  idem a := by cases a <;> simp [optMeet, L.idem]
  top_meet a := by cases a <;> simp [optMeet]

/-- value/default pair ⟨v, d⟩; an unmarked value is ⟨v, v⟩ -/
structure DV (V : Type) where
  v : V
  d : V
deriving DecidableEq, Repr

/-- spec rules U1/U2: unify componentwise -/
def SLB.dv (L : SLB V) : SL (DV V) where
  meet a b := ⟨L.meet a.v b.v, L.meet a.d b.d⟩
  top := ⟨L.top, L.top⟩
  comm a b := by simp [L.comm a.v, L.comm a.d]
  assoc a b c := by simp [L.assoc]
  idem a := by simp [L.idem]
  top_meet a := by simp [L.top_meet]

/-- defaults resolved: the default when one survives, otherwise the value itself -/
def resolve (L : SLB V) [DecidableEq V] (x : DV V) : V := if x.d = L.bot then x.v else x.d

/-- a conjunct without default marks -/
def DV.unmarked (x : DV V) : Prop := x.d = x.v

/-- trim's test "the conjunct(s) w are as specific as the vertex c"
(`subsumeProfile.Value(ctx, v, conjVertex)` with `Defaults` and `LeftDefault`) -/
def equallySpecific (L : SLB V) [DecidableEq V] (c w : DV V) : Prop :=
  le L.toSL (resolve L w) (resolve L c)

instance (L : SLB V) [DecidableEq V] (c w : DV V) : Decidable (equallySpecific L c w) := by
  unfold equallySpecific; infer_instance

/-! ### plain and pattern conjuncts -/

/-- a conjunct at one path: `pattern = true` when it reaches the path only through a
pattern constraint (`[string]: v`): it constrains the field but does not create it. -/
structure Cj (S : Type) where
  val : S
  pattern : Bool := false
  removable : Bool := true
deriving DecidableEq, Repr

/-- the value at a path: absent unless some plain conjunct declares the field -/
def vertexValue (L : SL S) (C : List (Cj S)) : Option S :=
  if C.any (fun c => !c.pattern) then some (unifyAll L (C.map Cj.val)) else none

/-! ### the specification-level trimmer -/

/-- one left-to-right scan: `c` is dropped iff it is removable and redundant with respect
to what is currently left (`pre` = already decided to keep, `rest` = still to scan). -/
def greedy (L : SL S) [DecidableEq S] (val : K → S) (ok : K → Bool) : List K → List K → List K
  | pre, [] => pre
  | pre, c :: rest =>
    if ok c = true ∧ unifyAll L ((pre ++ rest).map val) = unifyAll L ((pre ++ c :: rest).map val)
    then greedy L val ok pre rest
    else greedy L val ok (pre ++ [c]) rest

def trimModel (L : SL S) [DecidableEq S] (val : K → S) (ok : K → Bool) (C : List K) : List K :=
  greedy L val ok [] C

/-! ### the concrete instance: sets of atoms of a finite universe -/

abbrev Mask := BitVec 32

def bits : SLB Mask where
  meet a b := a &&& b
  top := BitVec.allOnes 32
  comm := BitVec.and_comm
  assoc := BitVec.and_assoc
  idem _ := BitVec.and_self
  top_meet _ := BitVec.allOnes_and
  bot := 0#32
  bot_meet _ := BitVec.zero_and

/-- final value of one vertex of the concrete model: `none` = no such field,
`some m` = the set of atoms left after unifying all conjuncts and resolving defaults. -/
def finalMask (C : List (Cj (DV Mask))) : Option Mask :=
  (vertexValue bits.dv C).map (resolve bits)

end CueVerif.Trim
