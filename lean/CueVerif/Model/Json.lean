/-
Model of the token-level code paths of CUE's JSON decoder and encoder (property C10).
Core Lean only.  Imports the C09 models (Model/Quote.lean: `unquote` and the UTF-8 codec;
Model/NumLit.lean: the scanner's and literal.ParseNum's number automata).

DECODER.  encoding/json/json.go (`extract`, `Decoder.extract`) hands the JSON text to
`parser.ParseExpr`, i.e. JSON is read AS CUE SYNTAX; internal/core/compile then turns every
BasicLit into a value.  Transcribed here, for one token:
  * cue/scanner/scanner.go `scanString` for a `"`-quoted single-line literal without hashes,
    `scanEscape`, and the three errors of `next` (NUL, illegal UTF-8, byte order mark after
    offset 0)                                                    → `scanStringTok`
  * literal.Unquote on the token (compile.go, `case token.STRING`)  → `Quote.unquote` (C09)
  * the scanner's number token and literal.ParseNum (`case token.INT, token.FLOAT`)
                                                → `NumLit.scannerAccepts`, `NumLit.parseNum` (C09)
  * `NumInfo.decimal` for base 10 without multiplier: `v.UnmarshalText(p.buf)`, whose error
    is returned (the number is then rejected at compile time) — i.e. apd `Context.SetString` =
    `Decimal.setString` + `round`/`setExponent` under `apd.BaseContext` (Precision 0, exponent
    limits ±100000), with `strconv.ParseInt(_, 10, 32)` for the exponent   → `apdSetString`
  * the unary minus of adt `UnaryExpr` (`f.X.Neg(&v.X)`, apd `Decimal.Neg`)   → `apdNeg`
  composed in `decodeString` / `decodeNumber`.
  (json.Valid / json.Decoder of Go's encoding/json run first and reject everything that is not
  JSON; they are part of the trusted base and not modelled.)

ENCODER.  cue/types.go `Value.appendJSON`:
  * strings and object keys: internal/encoding/json.Marshal = Go's encoding/json `appendString`
    with escapeHTML = false                                       → `jsonEscape`
  * numbers: `apd.Decimal.Append(b, 'G')` with `fmtE`, `fmtF`       → `fmtDec`

Byte strings are `List Nat`.  Arbitrary-precision integers are `Nat`/`Int`.
-/
import CueVerif.Model.Quote
import CueVerif.Model.NumLit
namespace CueVerif.Json
open CueVerif.Quote (Bytes decodeRune encodeRune hexDigit)

/-! ## decoder: string tokens -/

/-- the one-letter escapes `scanEscape` accepts in a `"` literal:
`'a', 'b', 'f', 'n', 'r', 't', 'v', '\\', '/', quote.char` -/
def scanSimpleEscape (e : Nat) : Bool :=
  e == 0x61 || e == 0x62 || e == 0x66 || e == 0x6E || e == 0x72 || e == 0x74 || e == 0x76 ||
    e == 0x5C || e == 0x2F || e == 0x22

/-- one digit of the loop of `scanEscape`: `s.ch == '_' || d >= base` is an error (base 16) -/
def scanHexOk (c : Nat) : Bool := c != 95 && decide (NumLit.digitVal c < 16)

/-- The loop of `scanString` for quote = {char '"', numChar 1, numHash 0}, started after the
opening quote.  `true` iff the scanner closes the literal exactly at the end of the input,
stays a plain STRING token (no interpolation) and no error is reported by `scanString`,
`scanEscape` or `next` for any character read. -/
def scanStrLoop : Bytes → Bool
  | [] => false                                   -- "string literal not terminated"
  | 0x5C :: rest =>
    match rest with
    | [] => false                                 -- "escape sequence not terminated"
    | 0x75 :: a :: b :: c :: d :: t =>            -- \u: four hex digits, x ≤ MaxRune always
      if scanHexOk a && scanHexOk b && scanHexOk c && scanHexOk d then scanStrLoop t else false
    | 0x55 :: a :: b :: c :: d :: e :: f :: g :: h :: t =>   -- \U: eight hex digits, x ≤ MaxRune
      if scanHexOk a && scanHexOk b && scanHexOk c && scanHexOk d &&
         scanHexOk e && scanHexOk f && scanHexOk g && scanHexOk h then
        let x := ((((((NumLit.digitVal a * 16 + NumLit.digitVal b) * 16 + NumLit.digitVal c) * 16 +
          NumLit.digitVal d) * 16 + NumLit.digitVal e) * 16 + NumLit.digitVal f) * 16 +
          NumLit.digitVal g) * 16 + NumLit.digitVal h
        if x > 0x10FFFF then false else scanStrLoop t
      else false
    | e :: t =>
      if scanSimpleEscape e then scanStrLoop t
      else false                                  -- `\(` (interpolation), octal, \x, short \u, unknown
  | c :: rest =>
    if c == 10 then false                         -- newline in a single-line literal
    else if c == 0 then false                     -- next: "illegal character NUL"
    else if c == 0x22 then rest.isEmpty           -- consumeStringClose
    else if 0x80 ≤ c then
      let rw := decodeRune (c :: rest)
      if rw.1 == 0xFFFD && rw.2 == 1 then false   -- next: "illegal UTF-8 encoding"
      else if rw.1 == 0xFEFF then false           -- next: "illegal byte order mark" (offset > 0)
      else scanStrLoop (rest.drop (rw.2 - 1))
    else scanStrLoop rest
termination_by s => s.length
decreasing_by all_goals simp_wf <;> omega

/-- the scanner lexes the whole of `t` as one error-free `"…"` STRING token.  (A token that
begins with three quotes is a multi-line opener; it cannot be a JSON string token and is
answered `false` here.) -/
def scanStringTok (t : Bytes) : Bool :=
  match t with
  | 0x22 :: 0x22 :: 0x22 :: _ => false
  | 0x22 :: rest => scanStrLoop rest
  | _ => false

inductive DecodeErr where
  | scanner                       -- the CUE scanner reports an error / not one STRING token
  | unquote (e : Quote.Err)       -- literal.Unquote fails at compile time
  deriving Repr, DecidableEq

/-- what the JSON decoder makes of a string token -/
def decodeString (t : Bytes) : Except DecodeErr Bytes :=
  if !scanStringTok t then .error .scanner
  else match Quote.unquote t with
    | .ok s => .ok s
    | .error e => .error (.unquote e)

/-! ## decoder: number tokens -/

/-- the state of an `apd.Decimal` as far as it matters here -/
inductive ApdDec where
  | finite (neg : Bool) (coeff : Nat) (exp : Int)
  | nan (neg : Bool)
  | inf (neg : Bool)
  deriving Repr, DecidableEq

def apdMaxExponent : Int := 100000
def apdMinExponent : Int := -100000

/-- `strconv.ParseInt(s, 10, 32)`: optional sign, at least one digit, digits only (no
underscores for an explicit base), value within int32; `none` = an error is returned -/
def parseInt32 (s : Bytes) : Option Int :=
  let (neg, ds) := match s with
    | 0x2D :: ds => (true, ds)
    | 0x2B :: ds => (false, ds)
    | _ => (false, s)
  if ds.isEmpty || !(ds.all fun c => decide (48 ≤ c) && decide (c ≤ 57)) then none
  else
    let v : Int := (ds.foldl (fun a c => a * 10 + (c - 48)) 0 : Nat)
    let v := if neg then -v else v
    if v < -2147483648 || v > 2147483647 then none else some v

/-- `strings.ToLower` on the bytes that can matter (ASCII letters; every other byte of a
string that survives the later digit check is unchanged) -/
def toLowerAscii (s : Bytes) : Bytes := s.map fun c => if 65 ≤ c ∧ c ≤ 90 then c + 32 else c

/-- `big.Int.NumDigits`-style count used by `Decimal.NumDigits`: decimal digits of the
coefficient, 1 for zero -/
def numDigits : Nat → Nat
  | n => if n < 10 then 1 else numDigits (n / 10) + 1
decreasing_by omega

/-- `Decimal.setExponent(c = BaseContext, nd = unknown, res = 0, xs...)` for a finite decimal
with coefficient `coeff` whose `Exponent` field currently is 0.  Returns the new exponent and
whether an error condition (SystemOverflow/SystemUnderflow) was returned — in which case the
exponent is left as it was.  With BaseContext's limits equal to the package limits the
subnormal/overflow branches after the two range checks are unreachable. -/
def apdSetExponent (coeff : Nat) (xs : List Int) : Int × Bool :=
  if xs.any fun x => decide (x > apdMaxExponent) || decide (x < apdMinExponent) then (0, true)
  else
    let sum := xs.foldl (· + ·) 0
    let adj := sum + (numDigits coeff : Int) - 1
    if adj > apdMaxExponent || adj < apdMinExponent then (0, true) else (sum, false)

/-- `Context.SetString` = `Decimal.setString` + `c.round` (called as `v.UnmarshalText(p.buf)` →
`BaseContext.SetString`).
Returns the state `d` is left in and whether an error was returned (`NumInfo.decimal` turns
an error into a rejection of the literal). -/
def apdSetString (s0 : Bytes) : ApdDec × Bool :=
  let (s1, neg) := match s0 with
    | 0x2D :: r => (r, true)
    | _ => (s0, false)
  let s2 := if neg then s1 else match s1 with
    | 0x2B :: r => r
    | _ => s1
  let s := toLowerAscii s2
  match s with
  | 0x2D :: _ => (.nan neg, true)
  | 0x2B :: _ => (.nan neg, true)
  | _ =>
    if s == [105, 110, 102, 105, 110, 105, 116, 121] || s == [105, 110, 102] then (.inf neg, false)
    else
      -- consumePrefix "nan", then consumePrefix "snan" (payload digits are verified, ignored)
      let (s', isNaN) := if [110, 97, 110].isPrefixOf s then (s.drop 3, true) else (s, false)
      let isNaN := isNaN || [115, 110, 97, 110].isPrefixOf s'
      if isNaN then (.nan neg, false)      -- (the payload check's error flag is not modelled)
      else
        -- exponent: everything after the first 'e'
        let ie := s.findIdx? (· == 101)
        let em : Option (Bytes × List Int) :=
          match ie with
          | some i =>
            match parseInt32 (s.drop (i + 1)) with
            | some e => some (s.take i, [e])
            | none => none
          | none => some (s, [])
        match em with
        | none => (.nan neg, true)                   -- "parse exponent": Form stays NaN
        | some (m, exps) =>
          let (m, exps) :=
            match m.findIdx? (· == 46) with
            | some i => (m.take i ++ m.drop (i + 1), exps ++ [-((m.length - i - 1 : Nat) : Int)])
            | none => (m, exps)
          if !(m.all fun c => decide (48 ≤ c) && decide (c ≤ 57)) then (.nan neg, true)   -- "parse mantissa"
          else if m.isEmpty then (.nan neg, true)    -- big.Int.SetString("") fails
          else
            let coeff := m.foldl (fun a c => a * 10 + (c - 48)) 0
            let (e, err) := apdSetExponent coeff exps
            -- `Context.SetString` then runs `c.round(d, d)`, which with Precision 0 is a second
            -- `setExponent(c, nd, 0, int64(d.Exponent))`: an error (state unchanged) when the
            -- exponent itself is outside the limits
            (.finite neg coeff e, err || decide (e > apdMaxExponent) || decide (e < apdMinExponent))

/-- apd `Decimal.Neg`: `d.Set(x); if d.IsZero() { d.Negative = false } else { d.Negative = !d.Negative }`
(`IsZero` is false for NaN and Infinite) -/
def apdNeg : ApdDec → ApdDec
  | .finite neg coeff exp => if coeff == 0 then .finite false coeff exp else .finite (!neg) coeff exp
  | .nan neg => .nan (!neg)
  | .inf neg => .inf (!neg)

/-- What the JSON decoder makes of a number token `t` (`-` + literal is a UnaryExpr over a
BasicLit).  `none`: the scanner does not lex the unsigned part as one number token,
`literal.ParseNum` rejects it, or apd's SetString reports an error (exponent out of range).  Only base-10 spellings without separator and multiplier are in
scope (for these `p.buf` equals the literal); others are answered `none`. -/
def decodeNumber (t : Bytes) : Option (NumLit.Kind × ApdDec) :=
  let (neg, u) := match t with
    | 0x2D :: u => (true, u)
    | _ => (false, t)
  if u.any fun c => c == 95 || NumLit.isMul c || c == 105 || c == 120 || c == 88 || c == 98 || c == 111 then none
  else
    match NumLit.scannerAccepts u with
    | none => none
    | some _ =>
      match NumLit.parseNum u with
      | none => none
      | some k =>
        -- `NumInfo.decimal`: `if err := v.UnmarshalText(p.buf); err != nil { return p.errorf(…) }`
        -- (since commit 1674508; before, the error was discarded and the left-over state used)
        let (d, err) := apdSetString u
        if err then none else some (k, if neg then apdNeg d else d)

/-! ## encoder: strings -/

/-- `safeSet[b]` of encoding/json/tables.go for b < 0x80: every ASCII character except the
control characters, `"` and `\` (bridge: regenerated table) -/
def safeAscii (b : Nat) : Bool := decide (0x20 ≤ b) && b != 0x22 && b != 0x5C

/-- the `switch b` of `appendString` for an ASCII byte that is not safe -/
def escapeAscii (b : Nat) : Bytes :=
  if b == 0x5C || b == 0x22 then [0x5C, b]
  else if b == 8 then [0x5C, 0x62]
  else if b == 12 then [0x5C, 0x66]
  else if b == 10 then [0x5C, 0x6E]
  else if b == 13 then [0x5C, 0x72]
  else if b == 9 then [0x5C, 0x74]
  else [0x5C, 0x75, 0x30, 0x30, hexDigit (b / 16 % 16), hexDigit (b % 16)]

/-- the loop of `appendString(dst, src, escapeHTML = false)`; the `start`/`i` copying scheme
is flattened to "copy the rune's bytes" -/
def escapeLoop : Bytes → Bytes
  | [] => []
  | b :: rest =>
    if b < 0x80 then
      (if safeAscii b then [b] else escapeAscii b) ++ escapeLoop rest
    else
      let rw := decodeRune (b :: rest)
      if rw.1 == 0xFFFD && rw.2 == 1 then
        [0x5C, 0x75, 0x66, 0x66, 0x66, 0x64] ++ escapeLoop rest          -- `�`
      else if rw.1 == 0x2028 || rw.1 == 0x2029 then
        [0x5C, 0x75, 0x32, 0x30, 0x32, hexDigit (rw.1 % 16)] ++ escapeLoop (rest.drop (rw.2 - 1))
      else (b :: rest).take rw.2 ++ escapeLoop (rest.drop (rw.2 - 1))
termination_by s => s.length
decreasing_by all_goals simp_wf <;> omega

/-- `internal/encoding/json.Marshal(s)` for a Go string `s` -/
def jsonEscape (s : Bytes) : Bytes := 0x22 :: (escapeLoop s ++ [0x22])

/-! ## encoder: numbers -/

/-- `big.Int.Append(buf, 10)` for a non-negative integer: decimal digit characters, "0" for 0 -/
def natDigits : Nat → Bytes
  | n => if n < 10 then [48 + n] else natDigits (n / 10) ++ [48 + n % 10]
decreasing_by omega

/-- `fmtE(buf, 'E', d, digits)` -/
def fmtE (digits : Bytes) (exp : Int) : Bytes :=
  let adj : Int := exp + (digits.length : Int) - 1
  (match digits with
   | [] => []                                   -- unreachable: digits is never empty
   | d0 :: ds => d0 :: (if ds.isEmpty then [] else 0x2E :: ds)) ++
  [0x45] ++ (if adj < 0 then [0x2D] else [0x2B]) ++ natDigits adj.natAbs

/-- `fmtF(buf, d, digits)` -/
def fmtF (digits : Bytes) (exp : Int) : Bytes :=
  if exp < 0 then
    let left : Int := -exp - (digits.length : Int)
    if left ≥ 0 then [0x30, 0x2E] ++ List.replicate left.toNat 0x30 ++ digits
    else digits.take (-left).toNat ++ [0x2E] ++ digits.drop (-left).toNat
  else digits ++ List.replicate exp.toNat 0x30

/-- `(*apd.Decimal).Append(buf, 'G')` for a finite decimal -/
def fmtG (neg : Bool) (coeff : Nat) (exp : Int) : Bytes :=
  let digits := natDigits coeff
  let digitLen : Int :=
    if coeff == 0 && decide (exp ≥ -2000) && decide (exp < 0) then (digits.length : Int) + -exp
    else (digits.length : Int)
  let adj : Int := exp + (digitLen - 1)
  (if neg then [0x2D] else []) ++
    (if exp ≤ 0 ∧ adj ≥ -6 then fmtF digits exp else fmtE digits exp)

/-- `Append(buf, 'G')` for every form -/
def fmtDec : ApdDec → Bytes
  | .finite neg coeff exp => fmtG neg coeff exp
  | .nan neg => (if neg then [0x2D] else []) ++ [78, 97, 78]                       -- "NaN"
  | .inf neg => (if neg then [0x2D] else []) ++ [73, 110, 102, 105, 110, 105, 116, 121]  -- "Infinity"

end CueVerif.Json
