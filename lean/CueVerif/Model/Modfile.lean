import CueVerif.Model.Semver
/-!
TREE-level model of `modfile.Parse` / `modfile.Format`
(/repo/mod/modfile/modfile.go, /repo/mod/modfile/schema.cue,
 /repo/internal/mod/modfiledata/modfile.go).  Core Lean only.

Transcribed:
* `parse` (modfile.go): the `baseFileVersion` decode of `language.version`, the
  "no language version" / `semver.IsValid` / "too new" checks, the schema choice loop
  (latest schema version ≤ language.version among v0.8.0-alpha.0, v0.9.0-alpha.0, v0.17.0;
  none → error), unification with the CLOSED `#File` of that schema version
  (top level, `language`, `source`, every `#Dep`; field types; `source.kind`;
  `#Semver: =~"."`; `source` refused by the v0.8 schema; `replaceWith` refused and `v`
  required by the v0.8/v0.9 schemas; `custom: [string]: {[_]: _}`), and `v.Decode(&mf)`
  (a `null` dependency version passes the schema but cannot be decoded into a Go string;
  a missing `source.kind` cannot be decoded; the schema field `description?: string` has
  NO counterpart in `modfiledata.File` and is silently dropped).
* `File.init(strict=true)` (modfiledata): language version valid+canonical, every
  dependency accepted by `module.NewVersion` with `Path() == key`, at most one default
  major version per base path (the main module's path counts as a default).
* `Format`: `cuecontext.Encode(f)` with the struct tags' omitempty behaviour.

What the model works on: the CONCRETE DATA TREE that evaluating the CUE text yields
(`Val`; struct fields are a key/value list with distinct keys).  Lexing, evaluation and
printing of CUE text are the subject of other properties.

Trusted parameters (`Lib`): the module-path library verdicts
(`okMain` = the main-module checks of `File.init`, `okDep m v` = `module.NewVersion(m, v)`
succeeds with `Path() == m`) and `current` = `cueversion.LanguageVersion()`.
Semantic versions use the model of `internal/mod/semver` (Model/Semver.lean).
-/
namespace CueVerif.Modfile
open CueVerif

abbrev Str := List Nat

/-- concrete CUE data -/
inductive Val where
  | str (s : Str)
  | bool (b : Bool)
  | null
  | num (n : Int)
  | struct (fs : List (Str × Val))
  | list (vs : List Val)

abbrev Fields := List (Str × Val)

/-- `modfiledata.Dep` -/
structure Dep where
  v : Str
  dflt : Bool
  replaceWith : Str
deriving DecidableEq, Repr

/-- `modfiledata.File` (public fields). `language = none` is a nil `*Language`,
`source = none` a nil `*Source`, `custom = none` a nil map (`some []` an empty non-nil map:
the encoder omits only the nil map).  A nil and an empty `Deps` map are both `[]`
(`Format` turns the empty map into nil). -/
structure Modfile where
  module : Str
  language : Option Str
  source : Option Str
  deps : List (Str × Dep)
  custom : Option (List (Str × Fields))

/-- trusted library verdicts -/
structure Lib where
  /-- `cueversion.LanguageVersion()` -/
  current : Str
  /-- the main-module part of `File.init` accepts this `module` string -/
  okMain : Str → Bool
  /-- `module.NewVersion(m, v)` succeeds and `.Path() == m` -/
  okDep : Str → Str → Bool

inductive Err where
  | notStruct
  | languageNotStruct
  | versionNotString
  | noLanguageVersion
  | invalidLanguageVersion
  | languageTooNew
  | noSchema
  | unknownField (within : Str)
  | wrongType (field : Str)
  | missing (field : Str)
  | emptySemver
  | badSourceKind
  | sourceNotAllowed
  | replaceNotAllowed
  | badModulePath
  | languageNotCanonical
  | badDep (m : Str)
  | multipleDefaults (base : Str)
deriving Repr

/-! ### field names -/
def kModule : Str := [109, 111, 100, 117, 108, 101]
def kLanguage : Str := [108, 97, 110, 103, 117, 97, 103, 101]
def kVersion : Str := [118, 101, 114, 115, 105, 111, 110]
def kSource : Str := [115, 111, 117, 114, 99, 101]
def kKind : Str := [107, 105, 110, 100]
def kDescription : Str := [100, 101, 115, 99, 114, 105, 112, 116, 105, 111, 110]
def kDeps : Str := [100, 101, 112, 115]
def kCustom : Str := [99, 117, 115, 116, 111, 109]
def kV : Str := [118]
def kDefault : Str := [100, 101, 102, 97, 117, 108, 116]
def kReplaceWith : Str := [114, 101, 112, 108, 97, 99, 101, 87, 105, 116, 104]
def kSelf : Str := [115, 101, 108, 102]
def kGit : Str := [103, 105, 116]

/-- the fields of `#File` (every schema version: the older ones embed v0.17.0) -/
def topFields : List Str := [kModule, kLanguage, kSource, kDescription, kDeps, kCustom]
def languageFields : List Str := [kVersion]
def sourceFields : List Str := [kKind]
/-- the fields of `#Dep`; `replaceWith` is *mentioned* by every schema version but its
value is an error below v0.17.0 (see `depReplace`) -/
def depFields : List Str := [kV, kDefault, kReplaceWith]

/-! ### schema versions -/
inductive Schema where
  | v08 | v09 | v017
deriving DecidableEq, Repr

def ver08 : Str := [118, 48, 46, 56, 46, 48, 45, 97, 108, 112, 104, 97, 46, 48]
def ver09 : Str := [118, 48, 46, 57, 46, 48, 45, 97, 108, 112, 104, 97, 46, 48]
def ver017 : Str := [118, 48, 46, 49, 55, 46, 48]

def schemaVersions : List (Str × Schema) := [(ver08, .v08), (ver09, .v09), (ver017, .v017)]

/-- one iteration of the schema choice loop of `parse` -/
def pickStep (lv : Str) (latest : Option (Str × Schema)) (vs : Str × Schema) :
    Option (Str × Schema) :=
  if Semver.compare' vs.1 lv == .gt then latest
  else match latest with
    | none => some vs
    | some l => if Semver.compare' vs.1 l.1 == .gt then some vs else latest

/-- latest schema version ≤ the declared language version -/
def pickSchema (lv : Str) : Option Schema :=
  (schemaVersions.foldl (pickStep lv) none).map (·.2)

/-! ### struct access -/
def lookup (k : Str) : Fields → Option Val
  | [] => none
  | (k', v) :: r => if k' = k then some v else lookup k r

/-- closedness: every field name is one of `allowed` -/
def closed (allowed : List Str) (fs : Fields) : Bool :=
  fs.all fun kv => allowed.contains kv.1

/-! ### `parse`: language version -/

/-- `v.Decode(&base)` with `baseFileVersion` -/
def baseVersion (top : Fields) : Except Err Str :=
  match lookup kLanguage top with
  | none => .ok []
  | some (.struct lfs) =>
    match lookup kVersion lfs with
    | none => .ok []
    | some (.str s) => .ok s
    | some _ => .error .versionNotString
  | some _ => .error .languageNotStruct

/-- the closed `language: {version: #Semver}` struct -/
def checkLanguage (top : Fields) : Except Err Unit :=
  match lookup kLanguage top with
  | some (.struct lfs) =>
    if closed languageFields lfs then .ok () else .error (.unknownField kLanguage)
  | _ => .error .languageNotStruct

/-! ### schema validation + Decode, field by field -/

def decodeModule (top : Fields) : Except Err Str :=
  match lookup kModule top with
  | none => .ok []
  | some (.str s) => .ok s
  | some _ => .error (.wrongType kModule)

def decodeSource (sch : Schema) (top : Fields) : Except Err (Option Str) :=
  match lookup kSource top with
  | none => .ok none
  | some sv =>
    if sch = .v08 then .error .sourceNotAllowed
    else match sv with
      | .struct sfs =>
        if !closed sourceFields sfs then .error (.unknownField kSource)
        else match lookup kKind sfs with
          | none => .error (.missing kKind)
          | some (.str k) =>
            if k = kSelf ∨ k = kGit then .ok (some k) else .error .badSourceKind
          | some _ => .error (.wrongType kKind)
      | _ => .error (.wrongType kSource)

/-- `description?: string` is validated and then dropped: `File` has no such field. -/
def checkDescription (top : Fields) : Except Err Unit :=
  match lookup kDescription top with
  | none => .ok ()
  | some (.str _) => .ok ()
  | some _ => .error (.wrongType kDescription)

/-- `v?: #Semver | null` (`v!: _` below v0.17.0); `null` cannot be decoded into a string -/
def depV (sch : Schema) (fs : Fields) : Except Err Str :=
  match lookup kV fs with
  | none => if sch = .v017 then .ok [] else .error (.missing kV)
  | some (.str s) => if s = [] then .error .emptySemver else .ok s
  | some _ => .error (.wrongType kV)

def depDefault (fs : Fields) : Except Err Bool :=
  match lookup kDefault fs with
  | none => .ok false
  | some (.bool b) => .ok b
  | some _ => .error (.wrongType kDefault)

def depReplace (sch : Schema) (fs : Fields) : Except Err Str :=
  match lookup kReplaceWith fs with
  | none => .ok []
  | some rv =>
    if sch ≠ .v017 then .error .replaceNotAllowed
    else match rv with
      | .str s => .ok s
      | _ => .error (.wrongType kReplaceWith)

def decodeDep (sch : Schema) : Val → Except Err Dep
  | .struct fs =>
    if !closed depFields fs then .error (.unknownField kDeps)
    else
      match depV sch fs with
      | .error e => .error e
      | .ok v =>
        match depDefault fs with
        | .error e => .error e
        | .ok d =>
          match depReplace sch fs with
          | .error e => .error e
          | .ok rw => .ok ⟨v, d, rw⟩
  | _ => .error (.wrongType kDeps)

def decodeDepList (sch : Schema) : Fields → Except Err (List (Str × Dep))
  | [] => .ok []
  | (m, dv) :: r =>
    match decodeDep sch dv with
    | .error e => .error e
    | .ok d =>
      match decodeDepList sch r with
      | .error e => .error e
      | .ok ds => .ok ((m, d) :: ds)

def decodeDeps (sch : Schema) (top : Fields) : Except Err (List (Str × Dep)) :=
  match lookup kDeps top with
  | none => .ok []
  | some (.struct dfs) => decodeDepList sch dfs
  | some _ => .error (.wrongType kDeps)

def decodeCustomList : Fields → Except Err (List (Str × Fields))
  | [] => .ok []
  | (k, .struct fs) :: r =>
    match decodeCustomList r with
    | .error e => .error e
    | .ok cs => .ok ((k, fs) :: cs)
  | _ :: _ => .error (.wrongType kCustom)

def decodeCustom (top : Fields) : Except Err (Option (List (Str × Fields))) :=
  match lookup kCustom top with
  | none => .ok none
  | some (.struct cfs) =>
    match decodeCustomList cfs with
    | .error e => .error e
    | .ok cs => .ok (some cs)
  | some _ => .error (.wrongType kCustom)

/-! ### `File.init(strict = true)` -/

/-- the prefix result of `ast.SplitPackageVersion`: everything before the first '@' -/
def basePath (p : Str) : Str := p.takeWhile (· != 64)

def initLanguage : Option Str → Except Err Unit
  | none => .ok ()
  | some lv =>
    if !Semver.isValid lv then .error .invalidLanguageVersion
    else if Semver.canonical lv != lv then .error .languageNotCanonical
    else .ok ()

/-- the dependency loop of `init`: `seen` are the keys of `defaultMajorVersions` -/
def initDeps (L : Lib) (seen : List Str) : List (Str × Dep) → Except Err Unit
  | [] => .ok ()
  | (m, d) :: r =>
    if !L.okDep m d.v then .error (.badDep m)
    else if d.dflt then
      (if seen.contains (basePath m) then .error (.multipleDefaults (basePath m))
       else initDeps L (basePath m :: seen) r)
    else initDeps L seen r

def initSeen (module : Str) : List Str :=
  if basePath module = [] then [] else [basePath module]

def init (L : Lib) (f : Modfile) : Except Err Unit :=
  if !L.okMain f.module then .error .badModulePath
  else match initLanguage f.language with
    | .error e => .error e
    | .ok () => initDeps L (initSeen f.module) f.deps

/-! ### `Parse` on a data tree -/

/-- the part of `parse` after the schema has been chosen, followed by `File.Init` -/
def decodeWith (L : Lib) (sch : Schema) (lv : Str) (top : Fields) : Except Err Modfile :=
  if !closed topFields top then .error (.unknownField [])
  else
    match checkLanguage top with
    | .error e => .error e
    | .ok () =>
    match decodeModule top with
    | .error e => .error e
    | .ok m =>
    match decodeSource sch top with
    | .error e => .error e
    | .ok src =>
    match checkDescription top with
    | .error e => .error e
    | .ok () =>
    match decodeDeps sch top with
    | .error e => .error e
    | .ok deps =>
    match decodeCustom top with
    | .error e => .error e
    | .ok cust =>
      let f : Modfile := ⟨m, some lv, src, deps, cust⟩
      match init L f with
      | .error e => .error e
      | .ok () => .ok f

/-- language version checks and schema choice of `parse` -/
def chooseSchema (L : Lib) (lv : Str) : Except Err Schema :=
  if lv = [] then .error .noLanguageVersion
  else if !Semver.isValid lv then .error .invalidLanguageVersion
  else if Semver.compare' lv L.current == .gt then .error .languageTooNew
  else match pickSchema lv with
    | none => .error .noSchema
    | some sch => .ok sch

/-- `modfile.Parse` on the evaluated data tree -/
def decode (L : Lib) : Val → Except Err Modfile
  | .struct top =>
    match baseVersion top with
    | .error e => .error e
    | .ok lv =>
      match chooseSchema L lv with
      | .error e => .error e
      | .ok sch => decodeWith L sch lv top
  | _ => .error .notStruct

/-! ### `Format`: what `cuecontext.Encode(f)` produces -/

/-- an optional field in front of `r` -/
def fld (k : Str) (o : Option Val) (r : Fields) : Fields :=
  match o with
  | none => r
  | some v => (k, v) :: r

def encodeDep (d : Dep) : Val :=
  .struct (fld kV (some (.str d.v))
    (fld kDefault (if d.dflt then some (.bool true) else none)
      (fld kReplaceWith (if d.replaceWith.isEmpty then none else some (.str d.replaceWith)) [])))

def encodeDepList : List (Str × Dep) → Fields
  | [] => []
  | (m, d) :: r => (m, encodeDep d) :: encodeDepList r

def encodeCustomList : List (Str × Fields) → Fields
  | [] => []
  | (k, fs) :: r => (k, .struct fs) :: encodeCustomList r

/-- `Language{Version string "version,omitempty"}` -/
def encodeLanguage (lv : Str) : Val :=
  .struct (fld kVersion (if lv.isEmpty then none else some (.str lv)) [])

def encodeFields (f : Modfile) : Fields :=
  fld kModule (some (.str f.module))
    (fld kLanguage (f.language.map encodeLanguage)
      (fld kSource (f.source.map fun k => .struct [(kKind, .str k)])
        (fld kDeps (if f.deps.isEmpty then none else some (.struct (encodeDepList f.deps)))
          (fld kCustom (f.custom.map fun c => .struct (encodeCustomList c)) []))))

def encode (f : Modfile) : Val := .struct (encodeFields f)

/-! ### well-formedness: exactly what `decode` demands of a `File` value -/

def wfDep (sch : Schema) (d : Dep) : Bool :=
  !d.v.isEmpty && (d.replaceWith.isEmpty || sch == .v017)

def wfSource (sch : Schema) : Option Str → Bool
  | none => true
  | some k => sch != .v08 && (k == kSelf || k == kGit)

/-- `wf L f`: `f` has a language version admitted by `parse`, its fields are admitted by the
schema of that version, and `File.init` accepts it. -/
def wf (L : Lib) (f : Modfile) : Bool :=
  match f.language with
  | none => false
  | some lv =>
    match chooseSchema L lv with
    | .error _ => false
    | .ok sch =>
      wfSource sch f.source && f.deps.all (fun md => wfDep sch md.2) &&
      (match init L f with | .ok () => true | .error _ => false)

end CueVerif.Modfile
