/-
Model of the runner protocol of /repo/internal/par/work.go (Work.Add, Work.Do,
Work.runner): n runners share `todo` and the counter `waiting` under one mutex and a
condition variable.  Every step below is one critical section (or the part of f(item)
between two of them).  Core Lean only.
-/
namespace CueVerif.Work

inductive Phase where
  /-- at the top of the `for` loop, about to lock -/
  | idle
  /-- inside `w.wait.Wait()`: counted in `waiting`, parked on the condition variable -/
  | sleeping
  /-- signalled/broadcast, not yet re-acquired the mutex: still counted in `waiting` -/
  | woken
  /-- running `f(item)`, with `k` calls of `Add` of new items still to make -/
  | working (k : Nat)
  /-- returned from `runner` -/
  | done
deriving DecidableEq, Repr

structure St where
  /-- number of items in `w.todo` -/
  todo : Nat
  /-- `w.waiting` -/
  waiting : Nat
  /-- phase of each runner; `phases.length` = `w.running` -/
  phases : List Phase
deriving Repr

def count (p : Phase → Bool) (s : St) : Nat := (s.phases.filter p).length

def isWorking : Phase → Bool
  | .working _ => true
  | _ => false

/-- `wait.Broadcast()`: every parked runner becomes runnable -/
def broadcast (ps : List Phase) : List Phase :=
  ps.map fun p => if p = .sleeping then .woken else p

/-- `wait.Signal()`: one parked runner (if any) becomes runnable — the first one here; the
theorems do not depend on which one -/
def signal : List Phase → List Phase
  | [] => []
  | p :: ps => if p = .sleeping then .woken :: ps else p :: signal ps

/-- the body of the `for { lock; for len(todo)==0 {…} … }` loop entered with the mutex held
by runner `i` whose phase is being decided: returns the new state -/
def enter (s : St) (i : Nat) : St :=
  if s.todo = 0 then
    let w := s.waiting + 1
    if w = s.phases.length then
      -- all done: Broadcast, Unlock, return
      { s with waiting := w, phases := (broadcast s.phases).set i .done }
    else
      { s with waiting := w, phases := s.phases.set i .sleeping }
  else
    -- pick an item (which one is irrelevant here); it will Add `k` new items, any k
    s

inductive Step : St → St → Prop
  /-- an idle runner locks; todo empty → sleep or finish -/
  | idleEmpty (s : St) (i : Nat) (h : s.phases[i]? = some .idle) (h0 : s.todo = 0) :
      Step s (enter s i)
  /-- an idle runner locks and takes an item whose processing will add `k` new items -/
  | idleTake (s : St) (i k : Nat) (h : s.phases[i]? = some .idle) (h0 : s.todo ≠ 0) :
      Step s { s with todo := s.todo - 1, phases := s.phases.set i (.working k) }
  /-- a woken runner re-acquires the mutex: `waiting--`, re-test the loop condition -/
  | wokenEmpty (s : St) (i : Nat) (h : s.phases[i]? = some .woken) (h0 : s.todo = 0) :
      Step s (enter { s with waiting := s.waiting - 1 } i)
  | wokenTake (s : St) (i k : Nat) (h : s.phases[i]? = some .woken) (h0 : s.todo ≠ 0) :
      Step s { s with waiting := s.waiting - 1, todo := s.todo - 1,
                      phases := s.phases.set i (.working k) }
  /-- `Add(item)` of a new item from inside f: append, Signal if someone waits -/
  | add (s : St) (i k : Nat) (h : s.phases[i]? = some (.working (k + 1))) :
      Step s { s with todo := s.todo + 1,
                      phases := (if s.waiting > 0 then signal s.phases else s.phases).set i (.working k) }
  /-- f(item) returns -/
  | finish (s : St) (i : Nat) (h : s.phases[i]? = some (.working 0)) :
      Step s { s with phases := s.phases.set i .idle }

/-- `Do(n, f)` after `m` initial `Add`s: n idle runners -/
def init (n m : Nat) : St := { todo := m, waiting := 0, phases := List.replicate n .idle }

inductive Run (n m : Nat) : St → Prop
  | init : Run n m (init n m)
  | step {s t} : Run n m s → Step s t → Run n m t

/-- no step is enabled -/
def Stuck (s : St) : Prop := ∀ t, ¬ Step s t

end CueVerif.Work
