/-
"CueCore": a self-contained model of CUE's unification on scalars, structs (with
regular / required / optional arcs and close()), used for property C01
("the evaluation result is independent of declaration and conjunct order").

This is NOT a transcription of /repo/internal/core/adt (the evaluator is far too large);
it is a reference semantics for the fragment the harness generates, small enough that
the order-independence laws are theorems.  The harness compares `eval` of this model
with the implementation's result on generated programs and on their rearrangements.

  * scalars      : `Sc` with `Sc.meet` (a meet-semilattice with `none` = bottom):
                   int / string / bool / null atoms, the basic types int, string, bool and
                   inclusive integer ranges `int & >=lo & <=hi`.
  * values       : `Val` = bot | top | scalar | struct | list.  A struct is the list of its
                   arcs indexed by label number (slot i describes label i); `Slot.none` =
                   no arc.  A closed struct forbids arcs it does not have.  Lists are closed
                   lists: they unify element-wise when of equal length, else bottom; a
                   bottom element makes the list bottom.
  * `unify`      : bottom absorbs, top is the identity, structs merge slot-wise, arc types
                   merge by "most present wins" (regular < required < optional),
                   a bottom REGULAR field makes the struct bottom.
  * expressions  : literals, `&`, struct literals (fields and embeddings), `close(e)`,
                   list literals.

Core Lean only.
-/
namespace CueVerif.Core

/-! ### scalars -/

inductive Sc where
  | int (z : Int)
  | str (n : Nat)
  | bool (b : Bool)
  | null
  | tInt
  | tStr
  | tBool
  /-- `int & >=lo & <=hi`, either bound may be missing -/
  | rng (lo hi : Option Int)
  deriving DecidableEq, Repr, Inhabited

/-- maximum of two lower bounds (`none` = −∞) -/
def omax : Option Int → Option Int → Option Int
  | none, b => b
  | some a, none => some a
  | some a, some b => some (if a ≤ b then b else a)

/-- minimum of two upper bounds (`none` = +∞) -/
def omin : Option Int → Option Int → Option Int
  | none, b => b
  | some a, none => some a
  | some a, some b => some (if a ≤ b then a else b)

/-- the smart constructor of integer intervals: `none` = bottom (empty interval);
the result is always normalised -/
def mkRng : Option Int → Option Int → Option Sc
  | none, none => some .tInt
  | some a, some b =>
    if a = b then some (.int a) else if a < b then some (.rng (some a) (some b)) else none
  | lo, hi => some (.rng lo hi)

/-- the interval denoted by an integer-like scalar -/
def Sc.iv : Sc → Option (Option Int × Option Int)
  | .int z => some (some z, some z)
  | .tInt => some (none, none)
  | .rng lo hi => some (lo, hi)
  | _ => none

/-- meet of two scalars none of which is integer-like -/
def meetN : Sc → Sc → Option Sc
  | .str n, .str m => if n = m then some (.str n) else none
  | .str n, .tStr => some (.str n)
  | .tStr, .str n => some (.str n)
  | .tStr, .tStr => some .tStr
  | .bool a, .bool b => if a = b then some (.bool a) else none
  | .bool a, .tBool => some (.bool a)
  | .tBool, .bool a => some (.bool a)
  | .tBool, .tBool => some .tBool
  | .null, .null => some .null
  | _, _ => none

/-- greatest lower bound of two scalars; `none` = bottom -/
def Sc.meet (a b : Sc) : Option Sc :=
  match a.iv, b.iv with
  | some i, some j => mkRng (omax i.1 j.1) (omin i.2 j.2)
  | none, none => meetN a b
  | _, _ => none

/-- normal form of a scalar (`none` = it denotes bottom, e.g. `int & >=5 & <=3`) -/
def Sc.norm (a : Sc) : Option Sc :=
  match a.iv with
  | some i => mkRng i.1 i.2
  | none => some a

/-- normalised: a range is neither all of int, nor a single point, nor empty -/
def Sc.wf : Sc → Bool
  | .rng none none => false
  | .rng (some a) (some b) => decide (a < b)
  | _ => true

def Sc.WF (a : Sc) : Prop := a.wf = true

instance (a : Sc) : Decidable a.WF := inferInstanceAs (Decidable (a.wf = true))

/-! ### values -/

/-- arc types; merging = "most present wins": regular < required < optional, merge = min -/
inductive ArcTy where
  | regular
  | required
  | optional
  deriving DecidableEq, Repr, Inhabited

def ArcTy.min : ArcTy → ArcTy → ArcTy
  | .regular, _ => .regular
  | _, .regular => .regular
  | .required, _ => .required
  | _, .required => .required
  | .optional, .optional => .optional

mutual
inductive Val where
  | bot
  | top
  | sc (s : Sc)
  | struct (slots : Slots) (closed : Bool)
  | list (elems : Vals)
inductive Slots where
  | nil
  | cons (s : Slot) (rest : Slots)
inductive Slot where
  | none
  | some (t : ArcTy) (v : Val)
inductive Vals where
  | nil
  | cons (v : Val) (rest : Vals)
end

instance : Inhabited Val := ⟨.bot⟩

deriving instance DecidableEq for Val, Slots, Slot, Vals

def Val.isBot : Val → Bool
  | .bot => true
  | _ => false

def Vals.hasBot : Vals → Bool
  | .nil => false
  | .cons v rest => v.isBot || rest.hasBot

/-- a list with a bottom element is bottom -/
def normL (vs : Vals) : Val :=
  if vs.hasBot then .bot else .list vs

/-- the result of unifying two lists element-wise; `none` = the lengths differ -/
def listRes : Option Vals → Val
  | some vs => normL vs
  | none => .bot

/-- a regular field whose value is bottom -/
def Slot.isRegBot : Slot → Bool
  | .some .regular .bot => true
  | _ => false

def Slot.isSome : Slot → Bool
  | .some _ _ => true
  | .none => false

def Slots.hasRegBot : Slots → Bool
  | .nil => false
  | .cons s rest => s.isRegBot || rest.hasRegBot

/-- errors propagate upwards through regular fields: a struct with a bottom regular
field is bottom -/
def normS (xs : Slots) (closed : Bool) : Val :=
  if xs.hasRegBot then .bot else .struct xs closed

/-- an arc meets "no arc" of the other side: forbidden (value becomes bottom) when the
other side is closed -/
def closeSlot (otherClosed : Bool) : Slot → Slot
  | .none => .none
  | .some t v => if otherClosed then .some t .bot else .some t v

def closeBy (otherClosed : Bool) : Slots → Slots
  | .nil => .nil
  | .cons s rest => .cons (closeSlot otherClosed s) (closeBy otherClosed rest)

def scMeet (s t : Sc) : Val :=
  match Sc.meet s t with
  | some r => .sc r
  | none => .bot

mutual
/-- unification -/
def unify : Val → Val → Val
  | .bot, _ => .bot
  | .top, b => b
  | .sc _, .bot => .bot
  | .sc s, .top => .sc s
  | .sc s, .sc t => scMeet s t
  | .sc _, .struct _ _ => .bot
  | .sc _, .list _ => .bot
  | .struct _ _, .bot => .bot
  | .struct xs c, .top => .struct xs c
  | .struct _ _, .sc _ => .bot
  | .struct xs c, .struct ys d => normS (mergeSlots xs c ys d) (c || d)
  | .struct _ _, .list _ => .bot
  | .list _, .bot => .bot
  | .list xs, .top => .list xs
  | .list _, .sc _ => .bot
  | .list _, .struct _ _ => .bot
  | .list xs, .list ys => listRes (zipU xs ys)
termination_by structural a => a
/-- slot-wise merge; `c`, `d` are the closed flags of the two sides; the missing slots of
the shorter list behave as `Slot.none` of that side -/
def mergeSlots : Slots → Bool → Slots → Bool → Slots
  | .nil, c, ys, _ => closeBy c ys
  | .cons x xs, _, .nil, d => closeBy d (.cons x xs)
  | .cons x xs, c, .cons y ys, d => .cons (mergeSlot x c y d) (mergeSlots xs c ys d)
termination_by structural xs => xs
def mergeSlot : Slot → Bool → Slot → Bool → Slot
  | .none, c, y, _ => closeSlot c y
  | .some t v, _, .none, d => closeSlot d (.some t v)
  | .some t v, _, .some t' w, _ => .some (t.min t') (unify v w)
termination_by structural x => x
/-- element-wise unification of two lists; `none` when the lengths differ -/
def zipU : Vals → Vals → Option Vals
  | .nil, .nil => some .nil
  | .nil, .cons _ _ => none
  | .cons _ _, .nil => none
  | .cons x xs, .cons y ys =>
    match zipU xs ys with
    | some r => some (.cons (unify x y) r)
    | none => none
termination_by structural xs => xs
end

/-- CUE's `close()`: one level only -/
def closeV : Val → Val
  | .struct xs _ => .struct xs true
  | v => v

/-! ### the normal-form invariant -/

/-- no trailing `Slot.none` -/
def Slots.isNil : Slots → Bool
  | .nil => true
  | .cons _ _ => false

def Slots.noTrail : Slots → Bool
  | .nil => true
  | .cons s rest => (s.isSome || !rest.isNil) && rest.noTrail

mutual
def Val.wf : Val → Bool
  | .bot => true
  | .top => true
  | .sc s => s.wf
  | .struct xs _ => xs.wf && xs.noTrail && !xs.hasRegBot
  | .list vs => vs.wf && !vs.hasBot
def Slots.wf : Slots → Bool
  | .nil => true
  | .cons s rest => s.wf && rest.wf
def Slot.wf : Slot → Bool
  | .none => true
  | .some _ v => v.wf
def Vals.wf : Vals → Bool
  | .nil => true
  | .cons v rest => v.wf && rest.wf
end

/-- normal form: no trailing `Slot.none`, no bottom regular field (such a struct IS
bottom), no bottom list element (such a list IS bottom), all scalars normalised —
recursively -/
def Val.WF (v : Val) : Prop := v.wf = true

instance (v : Val) : Decidable v.WF := inferInstanceAs (Decidable (v.wf = true))

/-! ### expressions -/

mutual
inductive Expr where
  | bot
  | top
  | lit (s : Sc)
  | and (a b : Expr)
  | struct (ds : Decls)
  | close (e : Expr)
  | list (es : Exprs)
inductive Decls where
  | nil
  | cons (d : Decl) (rest : Decls)
inductive Decl where
  | field (l : Nat) (t : ArcTy) (e : Expr)
  | embed (e : Expr)
inductive Exprs where
  | nil
  | cons (e : Expr) (rest : Exprs)
end

instance : Inhabited Expr := ⟨.bot⟩

deriving instance DecidableEq for Expr, Decls, Decl, Exprs

def Decls.toList : Decls → List Decl
  | .nil => []
  | .cons d rest => d :: rest.toList

def Decls.ofList : List Decl → Decls
  | [] => .nil
  | d :: rest => .cons d (Decls.ofList rest)

/-- a struct literal given by the list of its declarations -/
def Expr.structL (ds : List Decl) : Expr := .struct (Decls.ofList ds)

def Exprs.toList : Exprs → List Expr
  | .nil => []
  | .cons e rest => e :: rest.toList

def Exprs.ofList : List Expr → Exprs
  | [] => .nil
  | e :: rest => .cons e (Exprs.ofList rest)

/-- a list literal given by the list of its elements -/
def Expr.listL (es : List Expr) : Expr := .list (Exprs.ofList es)

/-- the slot list with a single arc at label `l` -/
def single : Nat → Slot → Slots
  | 0, s => .cons s .nil
  | l + 1, s => .cons .none (single l s)

/-- the value of the declaration `l: v` with arc type `t` -/
def fieldV (l : Nat) (t : ArcTy) (v : Val) : Val := normS (single l (.some t v)) false

def litV (s : Sc) : Val :=
  match s.norm with
  | some r => .sc r
  | none => .bot

mutual
def eval : Expr → Val
  | .bot => .bot
  | .top => .top
  | .lit s => litV s
  | .and a b => unify (eval a) (eval b)
  | .struct .nil => .struct .nil false
  | .struct (.cons d ds) => evalDecls (.cons d ds)
  | .close e => closeV (eval e)
  | .list es => normL (evalList es)
/-- the declarations of one struct literal / one file, unified, starting from top -/
def evalDecls : Decls → Val
  | .nil => .top
  | .cons d ds => unify (evalDecl d) (evalDecls ds)
def evalDecl : Decl → Val
  | .field l t e => fieldV l t (eval e)
  | .embed e => eval e
def evalList : Exprs → Vals
  | .nil => .nil
  | .cons e rest => .cons (eval e) (evalList rest)
end

def evalDeclsL (ds : List Decl) : Val := evalDecls (Decls.ofList ds)

/-- a package: every file is evaluated separately, the results are unified -/
def evalFiles (fs : List (List Decl)) : Val :=
  (fs.map evalDeclsL).foldr unify .top

end CueVerif.Core
