/-
Transcription of the value-ordering loop of `nodeContext.finalizeDisjunctions`
(internal/core/adt/disjunct2.go), for programs with a single priority layer:

    a := make([]Value, len(n.disjuncts)); p := 0
    for i, x := range n.disjuncts {
        switch x.defaultMode {
        case isDefault:              a[i] = a[p]; a[p] = x.node; p++
        case notDefault, maybeDefault: a[i] = x.node
        }
    }
    Disjunction{Values: a, NumDefaults: p}

At every step `a[0:i]` is `defs ++ others` with `len defs = p`.  A non-default is appended
to `others`; a default moves the FIRST of the others (the element at `a[p]`) to the end
(`a[i] = a[p]`) and takes its place at the end of `defs` (`a[p] = x`).  So the defaults keep
their relative order and the non-defaults are rotated — `Disjunction.Values` is NOT a stable
partition of `n.disjuncts`; the model reproduces the exact order (checked element by element
against the implementation by the harness op `order`).
Core Lean only.
-/
import CueVerif.Model.Disj
namespace CueVerif.Disj

variable {V : Type}

/-- one iteration of the loop on the pair (`a[0:p]`, `a[p:i]`) -/
def finStep (st : List V × List V) (x : Leaf V) : List V × List V :=
  if x.dm = .isDef then
    (st.1 ++ [x.v], match st.2 with
      | [] => []
      | o :: os => os ++ [o])
  else (st.1, st.2 ++ [x.v])

/-- `finalizeDisjunctions`: (`Disjunction.Values`, `NumDefaults`) -/
def finalizeDisjunctions (ds : List (Leaf V)) : List V × Nat :=
  let st := ds.foldl finStep ([], [])
  (st.1 ++ st.2, st.1.length)

/-- `Disjunction.Values` in the implementation's order and `NumDefaults` of the evaluated
root (a single value has no `Disjunction`) -/
def Out.ordered : Out V → List V × Nat
  | .bottom => ([], 0)
  | .single v => ([v], 0)
  | .disj ds => finalizeDisjunctions ds

end CueVerif.Disj
