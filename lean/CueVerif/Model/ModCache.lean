/-
Model of the module-cache download protocol of /repo/mod/modcache, as a small-step system
over an abstract file system with crashes, an advisory lock and any number of processes and
goroutines.  Core Lean only.

Transcribed Go functions (pinned in Bridge/C16.lean):
  mod/modcache/fetch.go : Cache.Fetch, Cache.FetchFromCache, Cache.downloadZip,
                          Cache.downloadZip1, Cache.ModFile, Cache.fetchModFileData,
                          Cache.downloadModFile1, tempFile, RemoveAll
  mod/modcache/cache.go : Cache.downloadDir, Cache.cachePath, Cache.lockVersion,
                          Cache.readDiskCache, Cache.writeDiskCache
  mod/modzip/zip.go     : Unzip (the extraction loop)
  internal/par/work.go  : ErrCache.Do / Cache.Do (in-process single flight)

One instance of `VSt` is the part of the world that belongs to ONE module version:
  <cache>/mod/extract/<path>@<ver>/            `dir`   (absent | k files written, one being written?, content good?)
  <cache>/mod/download/<path>/@v/<ver>.partial `mark`
  <cache>/mod/download/<path>/@v/<ver>.zip     `zip`   (absent | part | full)
  <cache>/mod/download/<path>/@v/<ver>.zip*.tmp `ztmps`
  <cache>/mod/download/<path>/@v/<ver>.mod     `modf`, `<ver>.mod*.tmp` `mtmps`
  <cache>/mod/download/<path>/@v/<ver>.lock    `lock`  (holder of the flock, if any)
plus, for every thread (process id, goroutine id), its program counter inside
Fetch / ModFile for this version, and per process the two `par.ErrCache` entries for this
version and the number of GetZip / ModuleFile registry calls made.

The file-system artefacts of different versions are disjoint paths (`cachePath`,
`downloadDir` are injective in the escaped path/version) and a call works on one version,
so the whole cache is the product `Ver → VSt` (see `GStep`): a global step is a step of one
component, or the crash of a process, which hits every component at once.

Every transition is one file-system effect (or one in-memory cache / registry action) of
one thread: `next n s t c`, where `c` is what the environment contributes (does the
registry fail now?, which random temp name is tried?, which call does an idle goroutine
start?).  `crash p` kills process p at any point: its threads stop for ever, its flock is
released by the OS, everything it left in the file system stays.

Assumptions about the OS (the contract of this abstract FS; listed in props/C16.json):
 * rename(2) is atomic: the final name holds the old content or the complete new file;
 * O_CREATE|O_EXCL fails on an existing name (a temp file is created under a fresh name);
 * flock is exclusive between open file descriptions and released when its process dies;
 * os.RemoveAll removes entry after entry and finally the directory (no I/O errors);
 * local file-system calls do not fail for external reasons (ENOSPC, EIO, EMFILE …):
   the only injected failures are those of the registry (error or short body, which the
   OCI client turns into an error of io.Copy / io.ReadAll) and crashes.
-/
namespace CueVerif.ModCache

abbrev Pid := Nat
/-- a thread: (process id, goroutine id) -/
abbrev Tid := Nat × Nat

/-- content of a regular file relative to the registry's blob -/
inductive Blob | part | full
  deriving DecidableEq, Repr, Inhabited

/-- the extraction directory: `files` completely written files, `cur` = one more file has
been created (O_EXCL) but its content is not complete yet, `good` = everything written so
far was copied out of a complete zip -/
structure DirSt where
  files : Nat
  cur : Bool
  good : Bool
  deriving DecidableEq, Repr, Inhabited

/-- an entry of `par.ErrCache` -/
inductive CSt | idle | running (g : Nat) | done (ok : Bool)
  deriving DecidableEq, Repr, Inhabited

/-- what a call returned -/
inductive Res | avail | err
  deriving DecidableEq, Repr, Inhabited

/-- observable events of a step -/
inductive Ev
  | none
  /-- Fetch / FetchFromCache hands the extraction directory to its caller -/
  | avail
  /-- ModFile serves the bytes it read from `<ver>.mod` -/
  | modRead
  /-- a call returns an error -/
  | err
  /-- Module.GetZip is called on the registry -/
  | getZip
  deriving DecidableEq, Repr, Inhabited

inductive Pc
  | idle
  -- Fetch: downloadDir (no lock)
  | fStatDir | fStatMark
  -- FetchFromCache: downloadDir only
  | cStatDir | cStatMark
  -- downloadZip / downloadZip1
  | zEnter | zStat1 | zLock | zStat2 | zClean | zCreate
  | zGet (t : Nat) | zCopy (t : Nat) | zRename (t : Nat) | zFail (t : Nat)
  | zUnlock (ok : Bool)
  -- Fetch under the lock
  | lLock | lStatDir | lStatMark | lRmAll | lMark
  -- modzip.Unzip
  | uCheck | uMkdir | uCreate (i : Nat) | uWrite (i : Nat)
  | fUnmark | fReadOnly | fUnlock (r : Res)
  -- Unzip failed
  | eRmAll | eUnmark
  -- ModFile / fetchModFileData / writeDiskCache
  | mEnter | mRead1 | mLock | mRead2 | mGet | mCreate
  | mWrite (t : Nat) | mRename (t : Nat) | mFail (t : Nat) | mUnlock (ok : Bool)
  deriving DecidableEq, Repr, Inhabited

/-- temp files: name ↦ content -/
abbrev Tmps := List (Nat × Blob)

def tget (t : Nat) : Tmps → Option Blob
  | [] => none
  | (k, b) :: r => if k = t then some b else tget t r

def tdel (t : Nat) : Tmps → Tmps
  | [] => []
  | (k, b) :: r => if k = t then tdel t r else (k, b) :: tdel t r

def tset (t : Nat) (b : Blob) (l : Tmps) : Tmps := (t, b) :: tdel t l

/-- a name O_EXCL accepts -/
def fresh (l : Tmps) : Nat := l.foldl (fun m e => max m (e.1 + 1)) 0

def upd {α β} [DecidableEq α] (f : α → β) (a : α) (b : β) : α → β :=
  fun x => if x = a then b else f x

structure VSt where
  dir : Option DirSt
  mark : Bool
  zip : Option Blob
  ztmps : Tmps
  modf : Option Blob
  mtmps : Tmps
  lock : Option Tid
  pc : Tid → Pc
  /-- `downloadZipCache` entry of each process -/
  zc : Pid → CSt
  /-- `modFileCache` entry of each process -/
  mc : Pid → CSt
  /-- GetZip calls made by each process -/
  nget : Pid → Nat
  /-- ModuleFile downloads made by each process -/
  nmod : Pid → Nat
  dead : Pid → Bool

/-- the empty cache, nobody running -/
def VSt.init : VSt :=
  { dir := none, mark := false, zip := none, ztmps := [], modf := none, mtmps := [],
    lock := none, pc := fun _ => .idle, zc := fun _ => .idle, mc := fun _ => .idle,
    nget := fun _ => 0, nmod := fun _ => 0, dead := fun _ => false }

/-- which call an idle goroutine starts -/
inductive Start | none | fetch | fetchFromCache | modFile
  deriving DecidableEq, Repr, Inhabited

/-- the environment's contribution to one step -/
structure Choice where
  /-- the registry fails in this step (error, or a short body detected by the client) -/
  fault : Bool := false
  /-- the random temp-file name tried by `tempFile` -/
  name : Nat := 0
  start : Start := .none
  deriving Repr, Inhabited

structure Out where
  hook : Option String := none
  ev : Ev := .none
  deriving Repr, Inhabited

/-- one entry removed by os.RemoveAll (none: the directory itself is gone) -/
def rmOne : DirSt → Option DirSt
  | ⟨k, true, g⟩ => some ⟨k, false, g⟩
  | ⟨k + 1, false, g⟩ => some ⟨k, false, g⟩
  | ⟨0, false, _⟩ => none

def DirSt.empty (d : DirSt) : Bool := d.files == 0 && !d.cur

def unlock (s : VSt) (t : Tid) : Option Tid := if s.lock = some t then none else s.lock

/-- the next action of thread `t` (none: blocked, dead, or the choice does not apply).
`n` is the number of files in the module's zip. -/
def next (n : Nat) (s : VSt) (t : Tid) (c : Choice) : Option (VSt × Out) :=
  if s.dead t.1 then none else
  let go (pc : Pc) : VSt := { s with pc := upd s.pc t pc }
  match s.pc t with
  | .idle =>
    match c.start with
    | .none => none
    | .fetch => some (go .fStatDir, {})
    | .fetchFromCache => some (go .cStatDir, {})
    | .modFile => some (go .mEnter, {})
  -- downloadDir: os.Stat(dir)
  | .fStatDir =>
    match s.dir with
    | none => some (go .zEnter, {})
    | some _ => some (go .fStatMark, { hook := some "downloaddir.between-stats" })
  -- downloadDir: os.Stat(partial); absent → the directory is reported as available
  | .fStatMark =>
    if s.mark then some (go .zEnter, {}) else some (go .idle, { ev := .avail })
  -- FetchFromCache = downloadDir alone
  | .cStatDir =>
    match s.dir with
    | none => some (go .idle, { ev := .err })
    | some _ => some (go .cStatMark, { hook := some "downloaddir.between-stats" })
  | .cStatMark =>
    if s.mark then some (go .idle, { ev := .err }) else some (go .idle, { ev := .avail })
  -- downloadZipCache.Do
  | .zEnter =>
    match s.zc t.1 with
    | .idle => some ({ s with pc := upd s.pc t .zStat1, zc := upd s.zc t.1 (.running t.2) }, {})
    | .running _ => none
    | .done true => some (go .lLock, { hook := some "fetch.zip-ready" })
    | .done false => some (go .idle, { ev := .err })
  -- downloadZip: os.Stat(zipfile) without the lock
  | .zStat1 =>
    match s.zip with
    | some _ => some ({ s with pc := upd s.pc t .lLock, zc := upd s.zc t.1 (.done true) },
                      { hook := some "fetch.zip-ready" })
    | none => some (go .zLock, {})
  | .zLock =>
    match s.lock with
    | none => some ({ s with pc := upd s.pc t .zStat2, lock := some t }, {})
    | some _ => none
  -- downloadZip1: os.Stat(zipfile) again
  | .zStat2 =>
    match s.zip with
    | some _ => some (go (.zUnlock true), {})
    | none => some (go .zClean, {})
  -- stale *.tmp files, one os.Remove each
  | .zClean =>
    match s.ztmps with
    | [] => some (go .zCreate, {})
    | (k, _) :: _ => some ({ s with ztmps := tdel k s.ztmps }, {})
  -- tempFile: O_CREATE|O_EXCL under a random name
  | .zCreate =>
    if tget c.name s.ztmps = none then
      some ({ s with pc := upd s.pc t (.zGet c.name), ztmps := tset c.name .part s.ztmps },
            { hook := some "zip.tmp-created" })
    else none
  -- GetModule + GetZip
  | .zGet k =>
    some ({ s with pc := upd s.pc t (if c.fault then .zFail k else .zCopy k),
                   nget := upd s.nget t.1 (s.nget t.1 + 1) }, { ev := .getZip })
  -- io.Copy(f, r)
  | .zCopy k =>
    if c.fault then some (go (.zFail k), {})
    else some ({ s with pc := upd s.pc t (.zRename k),
                        ztmps := if (tget k s.ztmps).isSome then tset k .full s.ztmps else s.ztmps },
               { hook := some "zip.copied" })
  -- f.Close + os.Rename(tmp, zipfile)
  | .zRename k =>
    match tget k s.ztmps with
    | some b => some ({ s with pc := upd s.pc t (.zUnlock true), zip := some b, ztmps := tdel k s.ztmps },
                      { hook := some "zip.renamed" })
    | none => some (go (.zFail k), {})
  -- deferred: f.Close; os.Remove(f.Name())
  | .zFail k => some ({ s with pc := upd s.pc t (.zUnlock false), ztmps := tdel k s.ztmps }, {})
  -- deferred unlock; the ErrCache entry is completed
  | .zUnlock ok =>
    some ({ s with pc := upd s.pc t (if ok then .lLock else .idle), lock := unlock s t,
                   zc := upd s.zc t.1 (.done ok) },
          if ok then { hook := some "fetch.zip-ready" } else { ev := .err })
  -- Fetch: lockVersion
  | .lLock =>
    match s.lock with
    | none => some ({ s with pc := upd s.pc t .lStatDir, lock := some t }, { hook := some "fetch.locked" })
    | some _ => none
  -- the re-check under the lock
  | .lStatDir =>
    match s.dir with
    | none => some (go .lMark, { hook := some "fetch.cleaned" })
    | some _ => some (go .lStatMark, { hook := some "downloaddir.between-stats" })
  | .lStatMark =>
    if s.mark then some (go .lRmAll, {}) else some (go (.fUnlock .avail), {})
  -- RemoveAll(dir) of a partially extracted directory
  | .lRmAll =>
    match s.dir with
    | none => some (go .lMark, { hook := some "fetch.cleaned" })
    | some d => some ({ s with dir := rmOne d }, {})
  -- MkdirAll(parent) + WriteFile(partial)
  | .lMark => some ({ s with pc := upd s.pc t .uCheck, mark := true }, { hook := some "fetch.partial-written" })
  -- Unzip: ReadDir(dir) must be empty; open + CheckZip
  | .uCheck =>
    if (match s.dir with | some d => !d.empty | none => false) || s.zip.isNone
    then some (go .eRmAll, {}) else some (go .uMkdir, {})
  -- Unzip: MkdirAll(dir)
  | .uMkdir =>
    some ({ s with pc := upd s.pc t (.uCreate 0),
                   dir := match s.dir with
                     | none => some ⟨0, false, s.zip == some .full⟩
                     | some d => some d },
          { hook := some "unzip.dir-created" })
  -- Unzip: OpenFile(dst, O_WRONLY|O_CREATE|O_EXCL) of file i (MkdirAll of its parent first)
  | .uCreate i =>
    if i < n then
      some ({ s with pc := upd s.pc t (.uWrite i),
                     dir := match s.dir with
                       | none => some ⟨0, true, false⟩
                       | some d => some { d with cur := true } },
            { hook := some "unzip.file-created" })
    else some (go .fUnmark, { hook := some "fetch.unzipped" })
  -- Unzip: io.Copy + Close of file i
  | .uWrite i =>
    some ({ s with pc := upd s.pc t (.uCreate (i + 1)),
                   dir := match s.dir with
                     | none => none
                     | some d => some ⟨d.files + 1, false, d.good⟩ },
          { hook := some "unzip.file-written" })
  -- os.Remove(partial)
  | .fUnmark =>
    if s.mark then some ({ s with pc := upd s.pc t .fReadOnly, mark := false }, { hook := some "fetch.partial-removed" })
    else some (go (.fUnlock .err), {})
  -- makeDirsReadOnly
  | .fReadOnly => some (go (.fUnlock .avail), { hook := some "fetch.done" })
  -- deferred unlock, return
  | .fUnlock r =>
    some ({ s with pc := upd s.pc t .idle, lock := unlock s t },
          { ev := match r with | .avail => .avail | .err => .err })
  -- Unzip failed: RemoveAll(dir), then os.Remove(partial)
  | .eRmAll =>
    match s.dir with
    | none => some (go .eUnmark, {})
    | some d => some ({ s with dir := rmOne d }, {})
  | .eUnmark => some ({ s with pc := upd s.pc t (.fUnlock .err), mark := false }, {})
  -- modFileCache.Do
  | .mEnter =>
    match s.mc t.1 with
    | .idle => some ({ s with pc := upd s.pc t .mRead1, mc := upd s.mc t.1 (.running t.2) }, {})
    | .running _ => none
    | .done true => some (go .idle, {})
    | .done false => some (go .idle, { ev := .err })
  -- readDiskCache without the lock
  | .mRead1 =>
    match s.modf with
    | some _ => some ({ s with pc := upd s.pc t .idle, mc := upd s.mc t.1 (.done true) }, { ev := .modRead })
    | none => some (go .mLock, {})
  | .mLock =>
    match s.lock with
    | none => some ({ s with pc := upd s.pc t .mRead2, lock := some t }, {})
    | some _ => none
  -- readDiskCache under the lock
  | .mRead2 =>
    match s.modf with
    | some _ => some (go (.mUnlock true), { ev := .modRead })
    | none => some (go .mGet, {})
  -- GetModule + ModuleFile (io.ReadAll into memory)
  | .mGet =>
    if c.fault then some (go (.mUnlock false), {})
    else some ({ s with pc := upd s.pc t .mCreate, nmod := upd s.nmod t.1 (s.nmod t.1 + 1) }, {})
  -- writeDiskCache: MkdirAll + tempFile
  | .mCreate =>
    if tget c.name s.mtmps = none then
      some ({ s with pc := upd s.pc t (.mWrite c.name), mtmps := tset c.name .part s.mtmps },
            { hook := some "disk.tmp-created" })
    else none
  -- f.Write + f.Close
  | .mWrite k =>
    some ({ s with pc := upd s.pc t (.mRename k),
                   mtmps := if (tget k s.mtmps).isSome then tset k .full s.mtmps else s.mtmps },
          { hook := some "disk.written" })
  -- robustio.Rename
  | .mRename k =>
    match tget k s.mtmps with
    | some b => some ({ s with pc := upd s.pc t (.mUnlock true), modf := some b, mtmps := tdel k s.mtmps },
                      { hook := some "disk.renamed" })
    | none => some (go (.mFail k), {})
  | .mFail k => some ({ s with pc := upd s.pc t (.mUnlock false), mtmps := tdel k s.mtmps }, {})
  | .mUnlock ok =>
    some ({ s with pc := upd s.pc t .idle, lock := unlock s t, mc := upd s.mc t.1 (.done ok) },
          if ok then {} else { ev := .err })

/-- process `p` is killed: its goroutines stop for ever, the OS releases its flock, its
files stay -/
def crash (s : VSt) (p : Pid) : VSt :=
  { s with pc := fun u => if u.1 = p then .idle else s.pc u,
           dead := upd s.dead p true,
           lock := match s.lock with
             | some h => if h.1 = p then none else some h
             | none => none }

/-- one step of the world of one module version -/
inductive Step (n : Nat) : VSt → VSt → Prop
  | act (s s' : VSt) (t : Tid) (c : Choice) (o : Out) (h : next n s t c = some (s', o)) : Step n s s'
  | crash (s : VSt) (p : Pid) : Step n s (crash s p)

inductive Reachable (n : Nat) : VSt → Prop
  | init : Reachable n VSt.init
  | step {s s'} : Reachable n s → Step n s s' → Reachable n s'

/-! ### the whole cache: one component per module version -/

abbrev Ver := Nat
abbrev GSt := Ver → VSt

inductive GStep (n : Ver → Nat) : GSt → GSt → Prop
  | act (g : GSt) (v : Ver) (s' : VSt) (t : Tid) (c : Choice) (o : Out)
      (h : next (n v) (g v) t c = some (s', o)) : GStep n g (upd g v s')
  | crash (g : GSt) (p : Pid) : GStep n g (fun v => crash (g v) p)

inductive GReachable (n : Ver → Nat) : GSt → Prop
  | init : GReachable n (fun _ => VSt.init)
  | step {g g'} : GReachable n g → GStep n g g' → GReachable n g'

/-! ### a deterministic single-thread run (used for recovery and by the driver) -/

def choiceFor (s : VSt) (t : Tid) (start : Start) (fault : Bool) : Choice :=
  { fault := fault, start := start,
    name := match s.pc t with
      | .mCreate => fresh s.mtmps
      | _ => fresh s.ztmps }

/-- run thread `t` alone until it is idle again (or the fuel is exhausted), collecting the
events; `start` is the call it makes first -/
def runAlone (n : Nat) (t : Tid) : Nat → VSt → List Ev → VSt × List Ev
  | 0, s, evs => (s, evs)
  | fuel + 1, s, evs =>
    match s.pc t with
    | .idle => (s, evs)
    | _ =>
      match next n s t (choiceFor s t .none false) with
      | none => (s, evs)
      | some (s', o) => runAlone n t fuel s' (evs ++ [o.ev])

/-- fuel that is enough for one Fetch or ModFile from state `s` -/
def fuelFor (n : Nat) (s : VSt) : Nat :=
  s.ztmps.length + 2 * n + (match s.dir with | some d => d.files + 2 | none => 0) + 40

/-- a clean fetch by a fresh thread: start `Fetch`, run to completion -/
def cleanFetch (n : Nat) (s : VSt) (t : Tid) : VSt × List Ev :=
  match next n s t { start := .fetch } with
  | none => (s, [])
  | some (s1, _) => runAlone n t (fuelFor n s) s1 []

/-! ### the Go calls the program points stand for

The lists below are the watched calls (file-system effects, lock operations, registry calls,
single-flight entries) and hook points of each transcribed function IN SOURCE ORDER, written
next to the program points that model them.  `Bridge/C16.lean` proves that the lists
regenerated from /repo on every run are equal to these. -/

def goFetch : List String :=
  [ "c.downloadDir",                    -- fStatDir, fStatMark
    "c.downloadZip",                    -- zEnter … zUnlock
    "hook:fetch.zip-ready",
    "c.lockVersion",                    -- lLock
    "hook:fetch.locked",
    "defer unlock",                     -- fUnlock
    "c.downloadDir",                    -- lStatDir, lStatMark (the re-check)
    "os.ReadDir", "RemoveAll",          -- legacy `.tmp-` directories (nothing creates them; not modelled)
    "RemoveAll",                        -- lRmAll
    "hook:fetch.cleaned",
    "os.MkdirAll", "robustio.WriteFile", -- lMark
    "hook:fetch.partial-written",
    "modzip.Unzip",                     -- uCheck, uMkdir, uCreate i, uWrite i
    "RemoveAll", "os.Remove",           -- eRmAll, eUnmark (Unzip failed)
    "hook:fetch.unzipped",
    "os.Remove",                        -- fUnmark
    "hook:fetch.partial-removed",
    "makeDirsReadOnly",                 -- fReadOnly
    "hook:fetch.done" ]

def goFetchFromCache : List String := ["c.downloadDir"]   -- cStatDir, cStatMark
def goDownloadDir : List String :=
  [ "os.Stat(dir)",                     -- fStatDir / cStatDir / lStatDir: the directory first …
    "hook:downloaddir.between-stats",   -- (only reached when the directory exists)
    "os.Stat(partialPath)" ]            -- fStatMark / cStatMark / lStatMark: … then the marker

def goDownloadZip : List String :=
  [ "c.downloadZipCache.Do",            -- zEnter
    "os.Stat(zipfile)",                 -- zStat1
    "c.lockVersion",                    -- zLock
    "defer unlock",                     -- zUnlock
    "c.downloadZip1" ]

def goDownloadZip1 : List String :=
  [ "os.Stat(zipfile)",                 -- zStat2
    "os.MkdirAll",
    "filepath.Glob", "os.Remove",       -- zClean
    "tempFile",                         -- zCreate
    "hook:zip.tmp-created",
    "f.Close", "os.Remove",             -- zFail (deferred, on error)
    "c.reg.GetModule", "m.GetZip",      -- zGet
    "io.Copy",                          -- zCopy
    "hook:zip.copied",
    "f.Close", "os.Rename",             -- zRename
    "hook:zip.renamed" ]

def goUnzip : List String :=
  [ "os.ReadDir", "os.Open", "defer f.Close", "CheckZip",   -- uCheck
    "os.MkdirAll",                      -- uMkdir
    "hook:unzip.dir-created",
    "os.MkdirAll", "os.OpenFile",       -- uCreate i
    "hook:unzip.file-created",
    "zf.Open", "w.Close", "io.Copy", "w.Close", "w.Close",   -- uWrite i
    "hook:unzip.file-written" ]

def goModFile : List String := ["c.modFileCache.Do", "c.fetchModFileData"]   -- mEnter
def goFetchModFileData : List String :=
  [ "c.readDiskModFile",                -- mRead1
    "c.lockVersion",                    -- mLock
    "defer unlock",                     -- mUnlock
    "c.readDiskModFile",                -- mRead2
    "c.downloadModFile1" ]
def goDownloadModFile1 : List String :=
  [ "c.reg.GetModule", "m.ModuleFile",  -- mGet
    "c.writeDiskModFile" ]
def goReadDiskCache : List String := ["robustio.ReadFile"]
def goWriteDiskCache : List String :=
  [ "os.MkdirAll", "tempFile",          -- mCreate
    "hook:disk.tmp-created",
    "f.Close", "os.Remove",             -- mFail (deferred, on error)
    "f.Write", "f.Close",               -- mWrite
    "hook:disk.written",
    "robustio.Rename",                  -- mRename
    "hook:disk.renamed" ]
def goLockVersion : List String := ["os.MkdirAll", "lockedfile.MutexAt(path).Lock"]

/-- hooks fired by thread `t` running alone -/
def hooksAlone (n : Nat) (t : Tid) : Nat → VSt → List String → List String
  | 0, _, hs => hs
  | fuel + 1, s, hs =>
    match s.pc t with
    | .idle => hs
    | _ =>
      match next n s t (choiceFor s t .none false) with
      | none => hs
      | some (s', o) => hooksAlone n t fuel s' (match o.hook with | some h => hs ++ [h] | none => hs)

/-- the hook points of a clean `start` call on the empty cache, in the model's step order -/
def coldHooks (n : Nat) (start : Start) : List String :=
  match next n VSt.init (0, 0) { start := start } with
  | none => []
  | some (s1, _) => hooksAlone n (0, 0) (fuelFor n VSt.init) s1 []

/-- the same sequence assembled from the hook points of downloadZip1 (z), Fetch (f) and
Unzip (u) as they appear in the source: Unzip's two per-file hooks repeat n times -/
def composeHooks (n : Nat) (z f u : List String) : List String :=
  z ++ f.take 4 ++ u.take 1 ++ (List.replicate n (u.drop 1)).flatten ++ f.drop 4

end CueVerif.ModCache
