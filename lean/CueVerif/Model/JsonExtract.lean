/-
Model of the READING direction of CUE's JSON decoder for whole documents (property C10):
encoding/json/json.go `Extract` = `extract` + internal/encoding/json `PatchExpr`.  Core Lean only.

  JSON text --(json.Valid ∧ parser.ParseExpr)--> AST --(PatchExpr)--> CUE data literal

* `extract`: the text must be valid JSON (`json.Valid`, i.e. the RFC 8259 grammar: `parseTree`
  of Spec/JsonTree.lean) AND `parser.ParseExpr` must accept it.  On the JSON subset the CUE
  parser returns the same tree with every literal verbatim (`astOf`): `null`/`true`/`false`,
  `BasicLit{INT|FLOAT}` with the unsigned spelling under a `UnaryExpr{SUB}` for a minus sign,
  `BasicLit{STRING}` with the token text, `ListLit`, `StructLit` of `Field{Label: BasicLit{STRING}}`.
  The only way the CUE scanner refuses an RFC 8259 token is a raw U+FEFF inside a string
  (`scanStringTok`, Props `C10_string_scan`); every number spelling is one clean token
  (`C10_number_embed`).  That the parser builds exactly this shape is an ASSUMPTION of the model
  (the 2,000-line parser has no model), checked by the correspondence op `extract` on every run.
* `PatchExpr` (`patch`): per `*ast.Field` with a STRING label: `u := Unquote(label)`; if
  `!ast.StringLabelNeedsQuoting(u)` the label becomes the identifier `u` and only the value is
  walked; otherwise the label stays and is itself visited as a `BasicLit`.  Per STRING
  `BasicLit`: if `len(Value) > 10 || ContainsRune(Value, '\\')` the literal is replaced by
  `literal.String.WithOptionalTabIndent(len(stack)).WithOptionalHashes().Quote(Unquote(Value))`
  (Model/Quote.lean `quote`, C09), where `len(stack)` = 1 + number of enclosing list/struct
  literals.  Number literals are kept verbatim.  Position/`reflow` bookkeeping is not modelled.
  `ast.StringLabelNeedsQuoting` and strconv's IsPrint/IsGraphic tables are PARAMETERS (`nq`,
  `E`): the theorems hold for every choice; the harness supplies the real values per document.
* `evalData`: the data a data literal denotes — what `ctx.BuildExpr` + evaluation make of it —
  labels by `literal.Unquote` (or the identifier's name), strings by `literal.Unquote`, numbers by
  `decodeNumber` (ParseNum + apd SetString + unary minus).  ASSUMPTION (the evaluator has no
  model): a struct literal whose labels are pairwise distinct strings and whose values are data
  evaluates to the map of those labels in order.  With a repeated label the evaluator unifies
  the values (conflict error if they differ — the known finding duplicate-key-differing-values);
  the model makes no data claim there and answers `none`.  NFC normalisation of labels by the
  compiler (known finding member-name-not-nfc) is not modelled.
-/
import CueVerif.Model.Json
import CueVerif.Spec.JsonTree
namespace CueVerif.Json
open CueVerif.Quote (Bytes Env Form)

inductive CLabel where
  | ident (name : Bytes)            -- *ast.Ident
  | str (lit : Bytes)               -- *ast.BasicLit{STRING}

/-- the `ast.Expr` of a data literal -/
inductive CLit where
  | null
  | bool (b : Bool)
  | num (neg : Bool) (lit : Bytes)  -- [UnaryExpr{SUB}] BasicLit{INT|FLOAT, lit}
  | str (lit : Bytes)               -- BasicLit{STRING, lit}
  | list (es : List CLit)
  | struct (fs : List (CLabel × CLit))

mutual
/-- what `parser.ParseExpr` returns for the JSON text with parse tree `t`; `none` = the CUE
scanner reports an error (raw U+FEFF in a string token) and `extract` answers "invalid JSON" -/
def astOf : JTree → Option CLit
  | .null => some .null
  | .bool b => some (.bool b)
  | .num n => some (.num n.neg n.utext)
  | .str items => if scanStringTok (stringText items) then some (.str (stringText items)) else none
  | .arr es => (astOfList es).map CLit.list
  | .obj ms => (astOfMembers ms).map CLit.struct
def astOfList : List JTree → Option (List CLit)
  | [] => some []
  | e :: es =>
    match astOf e, astOfList es with
    | some a, some as => some (a :: as)
    | _, _ => none
def astOfMembers : List (List JItem × JTree) → Option (List (CLabel × CLit))
  | [] => some []
  | (k, v) :: ms =>
    if scanStringTok (stringText k) then
      match astOf v, astOfMembers ms with
      | some a, some as => some ((CLabel.str (stringText k), a) :: as)
      | _, _ => none
    else none
end

/-- the `case *ast.BasicLit` of PatchExpr's `beforeFn` for a STRING literal, `depth = len(stack)` -/
def patchString (E : Env) (depth : Nat) (lit : Bytes) : Bytes :=
  if decide (lit.length > 10) || lit.contains 0x5C then
    match Quote.unquote lit with
    | .ok s => Quote.quote E ((Quote.stringForm.withOptionalTabIndent depth).withOptionalHashes) s
    | .error _ => lit                         -- "should not happen: implies invalid JSON"
  else lit

/-- the `case *ast.Field` of `beforeFn` followed by the walk into a kept label -/
def patchLabel (E : Env) (nq : Bytes → Bool) (depth : Nat) : CLabel → CLabel
  | .ident n => .ident n                      -- cannot occur for JSON input
  | .str lit =>
    match Quote.unquote lit with
    | .error _ => .str (patchString E depth lit)
    | .ok u => if nq u then .str (patchString E depth lit) else .ident u

mutual
/-- `PatchExpr`; `depth` = `len(stack)` when the node is visited (1 at the root) -/
def patch (E : Env) (nq : Bytes → Bool) : Nat → CLit → CLit
  | _, .null => .null
  | _, .bool b => .bool b
  | _, .num neg lit => .num neg lit
  | depth, .str lit => .str (patchString E depth lit)
  | depth, .list es => .list (patchList E nq (depth + 1) es)
  | depth, .struct fs => .struct (patchFields E nq (depth + 1) fs)
def patchList (E : Env) (nq : Bytes → Bool) : Nat → List CLit → List CLit
  | _, [] => []
  | depth, e :: es => patch E nq depth e :: patchList E nq depth es
def patchFields (E : Env) (nq : Bytes → Bool) : Nat → List (CLabel × CLit) → List (CLabel × CLit)
  | _, [] => []
  | depth, (l, v) :: fs => (patchLabel E nq depth l, patch E nq depth v) :: patchFields E nq depth fs
end

/-- `json.Extract(path, text)`: `none` = an error is returned ("invalid JSON") -/
def extractModel (E : Env) (nq : Bytes → Bool) (text : Bytes) : Option CLit :=
  match parseTree text with
  | none => none
  | some t => (astOf t).map (patch E nq 1)

/-- the name a label compiles to -/
def labelName : CLabel → Option Bytes
  | .ident n => some n
  | .str lit =>
    match Quote.unquote lit with
    | .ok s => some s
    | .error _ => none

def distinctKeys : List (Bytes × JVal) → Bool
  | [] => true
  | (k, _) :: ms => !(ms.any fun m => m.1 == k) && distinctKeys ms

mutual
/-- the data a data literal evaluates to (see the header for the assumption about structs) -/
def evalData : CLit → Option JVal
  | .null => some .null
  | .bool b => some (.bool b)
  | .num neg lit =>
    match decodeNumber ((if neg then [0x2D] else []) ++ lit) with
    | some (_, .finite n c e) => some (.num n c e)
    | _ => none
  | .str lit =>
    match Quote.unquote lit with
    | .ok s => some (.str s)
    | .error _ => none
  | .list es => (evalList es).map JVal.arr
  | .struct fs =>
    match evalFields fs with
    | some ms => if distinctKeys ms then some (.obj ms) else none
    | none => none
def evalList : List CLit → Option (List JVal)
  | [] => some []
  | e :: es =>
    match evalData e, evalList es with
    | some a, some as => some (a :: as)
    | _, _ => none
def evalFields : List (CLabel × CLit) → Option (List (Bytes × JVal))
  | [] => some []
  | (l, v) :: fs =>
    match labelName l, evalData v, evalFields fs with
    | some k, some a, some as => some ((k, a) :: as)
    | _, _, _ => none
end

mutual
/-- CUE has no negative zero for literals: `-0` evaluates to `0` (apd `Neg` of zero) -/
def JVal.normZero : JVal → JVal
  | .num neg c e => .num (neg && c != 0) c e
  | .arr es => .arr (JVal.normZeroList es)
  | .obj ms => .obj (JVal.normZeroMembers ms)
  | v => v
def JVal.normZeroList : List JVal → List JVal
  | [] => []
  | e :: es => e.normZero :: JVal.normZeroList es
def JVal.normZeroMembers : List (Bytes × JVal) → List (Bytes × JVal)
  | [] => []
  | (k, v) :: ms => (k, v.normZero) :: JVal.normZeroMembers ms
end

end CueVerif.Json
