/-
Syntactic fragment for the nested default theorem of C04: ONE disjunction (marked or not, any
width) whose terms — after stripping their marks — are mark-free expressions of ARBITRARY
nesting (`*(1 | 2) | 3 | (4 | (5 | 6) & (6 | 5))`): unmarked disjunctions nested under a
marked one.  Core Lean only.
-/
import CueVerif.Model.Disj
namespace CueVerif.Disj

/-- an `or` chain all of whose terms are (possibly marked) MARK-FREE expressions of any shape -/
def Expr.mfChain {V : Type} : Expr V → Bool
  | .or l r => l.mfChain && r.mfChain
  | .mark e => e.mfChain
  | e => !e.hasAnyMark

/-- the fragment: a disjunction at the root, terms mark-free below their own mark -/
def Expr.NestedChain {V : Type} : Expr V → Bool
  | .or l r => (Expr.or l r).mfChain
  | _ => false

/-- a conjunction (any nesting of `&` and parentheses) of atoms and such chains -/
def Expr.nestedConj {V : Type} : Expr V → Bool
  | .atom _ => true
  | .and l r => l.nestedConj && r.nestedConj
  | .paren e => e.nestedConj
  | .or l r => (Expr.or l r).mfChain
  | .mark _ => false

/-- the fragment with scalars: any number of atoms unified, in any order and bracketing, with
exactly ONE disjunction whose terms are mark-free below their mark, nested to any depth -/
def Expr.NestedSingle {V : Type} (e : Expr V) : Bool := e.nestedConj && decide (e.chains = 1)

/-- the fragment "mark-free conjuncts first, the nested (marked) disjunction last":
`pre & (t1 | … | tn)` where `pre` is ANY mark-free expression (atoms, disjunctions, nested
disjunctions, conjunctions of them, any depth) and the terms `ti` are mark-free below their mark -/
def Expr.PreNested {V : Type} : Expr V → Bool
  | .and pre (.or l r) => !pre.hasAnyMark && (Expr.or l r).mfChain
  | .and pre (.paren (.or l r)) => !pre.hasAnyMark && (Expr.or l r).mfChain
  | _ => false

end CueVerif.Disj
