/-
C19 — a small generic machine for lock-bracketed shared-state protocols.

A *protocol* is the ordered list of lock operations, accesses to named shared
variables, returns and (forward) branches of ONE Go function, as REGENERATED from the
source by /verif/extract/c19.go (`CueVerif.Gen.C19.*`).  Any number of threads, each
running one protocol (= one call), are interleaved one instruction at a time over shared
data `D`; `sync.RWMutex` is modelled by what the threads hold (no separate lock word):

  Lock   is enabled iff no thread (the caller included) holds the mutex in any mode,
  RLock  is enabled iff no thread (the caller included) holds it in write mode,
  Unlock/RUnlock of a mutex the thread does not hold is Go's fatal error: the thread is
  stuck for ever (the static check below proves it cannot happen).

Go's writer-preference (a pending Lock blocks new RLocks) only REMOVES behaviours, so
every real schedule is a run of this machine.  `defer mu.Unlock()` pushes onto the
thread's defer stack; `return` (or falling off the end) unwinds it, one step per
deferred unlock.

The data effect of an access and the outcome of a branch condition are parameters
(`Sem`): the lockset theorem quantifies over all of them, the intern-table model
(Model/Intern.lean) instantiates them.

Core Lean only.  Transcribed Go: none (the protocols are generated); the lock semantics
above is the documented contract of sync.RWMutex.
-/
namespace CueVerif.Lockset

abbrev Lk := String
abbrev Loc := String

/-- kinds of access to a shared variable, as classified by the extractor -/
inductive Acc where
  /-- `m[k]` read -/
  | lookup
  /-- `s[i]` read of a slice element -/
  | index
  /-- `len(x)` -/
  | len
  /-- any other read of the variable -/
  | load
  /-- `m[k] = v` / `s[i] = v` -/
  | store
  /-- `x = append(x, …)` -/
  | append
  /-- `x = v`, `x := v` on the shared variable itself -/
  | assign
  /-- `x++`, `x--`, `x += …` -/
  | incr
  /-- `delete(m, k)`, `clear(m)` -/
  | delete
  /-- a method call on an internally synchronised object (`sync.Map`, `atomic.*`) -/
  | sync
deriving DecidableEq, Repr

def Acc.isWrite : Acc → Bool
  | .store | .append | .assign | .incr | .delete => true
  | _ => false

/-- needs no lock at all -/
def Acc.isSync : Acc → Bool
  | .sync => true
  | _ => false

inductive Instr where
  /-- `l.Lock()` (`w = true`) / `l.RLock()` (`w = false`) -/
  | acq (l : Lk) (w : Bool)
  /-- `l.Unlock()` / `l.RUnlock()` -/
  | rel (l : Lk) (w : Bool)
  /-- `defer l.Unlock()` / `defer l.RUnlock()` -/
  | dfr (l : Lk) (w : Bool)
  /-- an access of kind `k` to the shared variable `x` -/
  | acc (x : Loc) (k : Acc)
  /-- `if c { <next n instructions> }`: falls through when `c` holds, else skips `n` -/
  | br (c : String) (n : Nat)
  /-- unconditional forward jump over `n` instructions (end of a then-block with else) -/
  | jmp (n : Nat)
  /-- `return` -/
  | ret
  /-- a call of another function of the package that has a protocol of its own (that
  callee is checked separately, as a thread of its own) -/
  | call (f : String)
  /-- a statement shape the extractor does not translate (loop, switch, closure …
  containing watched operations) -/
  | bad (why : String)
deriving DecidableEq, Repr

abbrev Prog := List Instr

def Acc.ofString (s : String) : Option Acc :=
  if s = "lookup" then some .lookup else if s = "index" then some .index
  else if s = "len" then some .len else if s = "load" then some .load
  else if s = "store" then some .store else if s = "append" then some .append
  else if s = "assign" then some .assign else if s = "incr" then some .incr
  else if s = "delete" then some .delete else if s = "sync" then some .sync
  else none

/-- decoding of the extractor's instruction tuples `(op, a, b, n)` (extract/c19.go);
anything unknown is `bad` (which no check accepts) -/
def Instr.ofRaw (r : String × String × String × Nat) : Instr :=
  let op := r.1; let a := r.2.1; let b := r.2.2.1; let n := r.2.2.2
  let mode : Option Bool := if b = "w" then some true else if b = "r" then some false else none
  if op = "acq" then (match mode with | some w => .acq a w | none => .bad "mode")
  else if op = "rel" then (match mode with | some w => .rel a w | none => .bad "mode")
  else if op = "dfr" then (match mode with | some w => .dfr a w | none => .bad "mode")
  else if op = "acc" then (match Acc.ofString b with | some k => .acc a k | none => .bad "kind")
  else if op = "br" then .br a n
  else if op = "jmp" then .jmp n
  else if op = "ret" then .ret
  else if op = "call" then .call a
  else .bad a

def Prog.ofRaw (rs : List (String × String × String × Nat)) : Prog := rs.map Instr.ofRaw
abbrev Held := List (Lk × Bool)

inductive Status where
  | run
  /-- returning: running the deferred unlocks -/
  | unwinding
  | done
deriving DecidableEq, Repr

structure Th (L : Type) where
  prog : Prog
  pc : Nat
  held : Held
  dfr : Held
  st : Status
  loc : L

def Th.new {L : Type} (p : Prog) (l : L) : Th L :=
  { prog := p, pc := 0, held := [], dfr := [], st := .run, loc := l }

/-- data semantics of accesses and branch conditions -/
structure Sem (D L : Type) where
  acc : Loc → Acc → D → L → D × L
  cond : String → L → Bool

def holdsAny (h : Held) (l : Lk) : Bool := h.any (fun e => e.1 == l)

/-- may a thread acquire `l` in mode `w`, given what ALL threads hold? -/
def free {L : Type} (ths : List (Th L)) (l : Lk) (w : Bool) : Bool :=
  ths.all fun u => if w then !(holdsAny u.held l) else !(u.held.contains (l, true))

/-- one instruction of one thread; `none` = not enabled (blocked on a lock, finished, or
the fatal "unlock of unlocked mutex") -/
def next {D L : Type} (sem : Sem D L) (fr : Lk → Bool → Bool) (d : D) (t : Th L) :
    Option (D × Th L) :=
  match t.st with
  | .done => none
  | .unwinding =>
    match t.dfr with
    | [] => some (d, { t with st := .done })
    | (l, w) :: r =>
      if t.held.contains (l, w) then some (d, { t with dfr := r, held := t.held.erase (l, w) })
      else none
  | .run =>
    match t.prog[t.pc]? with
    | none => some (d, { t with st := .unwinding })
    | some (.acq l w) =>
      if fr l w then some (d, { t with held := (l, w) :: t.held, pc := t.pc + 1 }) else none
    | some (.rel l w) =>
      if t.held.contains (l, w) then some (d, { t with held := t.held.erase (l, w), pc := t.pc + 1 })
      else none
    | some (.dfr l w) => some (d, { t with dfr := (l, w) :: t.dfr, pc := t.pc + 1 })
    | some (.acc x k) =>
      let r := sem.acc x k d t.loc
      some (r.1, { t with loc := r.2, pc := t.pc + 1 })
    | some (.br c n) =>
      some (d, { t with pc := if sem.cond c t.loc then t.pc + 1 else t.pc + 1 + n })
    | some (.jmp n) => some (d, { t with pc := t.pc + 1 + n })
    | some .ret => some (d, { t with st := .unwinding })
    | some (.call _) => some (d, { t with pc := t.pc + 1 })
    | some (.bad _) => none

structure St (D L : Type) where
  data : D
  ths : List (Th L)

/-- the system: threads are spawned at any time with any of the allowed protocols and any
admissible initial local state; any thread whose next instruction is enabled may step -/
inductive Step {D L : Type} (sem : Sem D L) (progs : List Prog) (initL : L → Prop) :
    St D L → St D L → Prop
  | spawn (s : St D L) (p : Prog) (hp : p ∈ progs) (l0 : L) (hl : initL l0) :
      Step sem progs initL s { s with ths := s.ths ++ [Th.new p l0] }
  | thread (s : St D L) (i : Nat) (t : Th L) (h : s.ths[i]? = some t) (d' : D) (t' : Th L)
      (hn : next sem (free s.ths) s.data t = some (d', t')) :
      Step sem progs initL s { data := d', ths := s.ths.set i t' }

inductive Run {D L : Type} (sem : Sem D L) (progs : List Prog) (initL : L → Prop) (d0 : D) :
    St D L → Prop
  | init : Run sem progs initL d0 { data := d0, ths := [] }
  | step {s t} : Run sem progs initL d0 s → Step sem progs initL s t → Run sem progs initL d0 t

/-- reflexive-transitive closure of `Step`: `t` is reachable from `s` -/
inductive Steps {D L : Type} (sem : Sem D L) (progs : List Prog) (initL : L → Prop) :
    St D L → St D L → Prop
  | refl (s) : Steps sem progs initL s s
  | step {s t u} : Steps sem progs initL s t → Step sem progs initL t u → Steps sem progs initL s u

/-! ### the static lockset check -/

/-- is the access allowed with these locks held?  `g x` is the mutex guarding `x`:
writes need it in write mode, reads in any mode, `sync` accesses need nothing -/
def okAcc (g : Loc → Lk) (held : Held) (x : Loc) (k : Acc) : Bool :=
  if k.isSync then true
  else if k.isWrite then held.contains (g x, true)
  else holdsAny held (g x)

/-- the deferred unlocks must all be of held mutexes, and nothing may stay locked -/
def checkUnwind : Held → Held → Bool
  | [], held => held.isEmpty
  | (l, w) :: r, held => held.contains (l, w) && checkUnwind r (held.erase (l, w))

/-- explores every path of the protocol from `pc` with the lock set `held` and defer stack
`dfr`.  `strict` additionally forbids taking a lock while holding another one and calling
a lock-taking function while holding a lock (⇒ no deadlock).  Jumps only go forward, so
`prog.length + 1` fuel always suffices; running out of fuel counts as failure. -/
def check (g : Loc → Lk) (strict : Bool) (prog : Prog) : Nat → Nat → Held → Held → Bool
  | 0, _, _, _ => false
  | fuel + 1, pc, held, dfr =>
    match prog[pc]? with
    | none => checkUnwind dfr held
    | some .ret => checkUnwind dfr held
    | some (.acq l w) =>
      (if strict then held.isEmpty else !(holdsAny held l)) &&
        check g strict prog fuel (pc + 1) ((l, w) :: held) dfr
    | some (.rel l w) => held.contains (l, w) && check g strict prog fuel (pc + 1) (held.erase (l, w)) dfr
    | some (.dfr l w) => check g strict prog fuel (pc + 1) held ((l, w) :: dfr)
    | some (.acc x k) => okAcc g held x k && check g strict prog fuel (pc + 1) held dfr
    | some (.br _ n) => check g strict prog fuel (pc + 1) held dfr && check g strict prog fuel (pc + 1 + n) held dfr
    | some (.jmp n) => check g strict prog fuel (pc + 1 + n) held dfr
    | some (.call _) => (if strict then held.isEmpty else true) && check g strict prog fuel (pc + 1) held dfr
    | some (.bad _) => false

def wellLocked (g : Loc → Lk) (strict : Bool) (prog : Prog) : Bool :=
  check g strict prog (prog.length + 1) 0 [] []

/-! ### what the theorems talk about -/

/-- thread `t` is about to perform an access to `x`; `w` says whether it is a write.
`sync` accesses are internally synchronised and never count. -/
def Poised {L : Type} (t : Th L) (x : Loc) (w : Bool) : Prop :=
  t.st = .run ∧ ∃ k, t.prog[t.pc]? = some (.acc x k) ∧ k.isSync = false ∧ k.isWrite = w

/-- a data race: two different threads are simultaneously about to access the same
variable and at least one of the accesses is a write -/
def Race {D L : Type} (s : St D L) : Prop :=
  ∃ (i j : Nat) (ti tj : Th L) (x : Loc) (wi wj : Bool), i ≠ j ∧ s.ths[i]? = some ti ∧ s.ths[j]? = some tj ∧
    Poised ti x wi ∧ Poised tj x wj ∧ (wi = true ∨ wj = true)

/-- thread `t` is at an unlock of a mutex it does not hold (Go: fatal error) -/
def FatalUnlock {L : Type} (t : Th L) : Prop :=
  (t.st = .run ∧ ∃ l w, t.prog[t.pc]? = some (.rel l w) ∧ t.held.contains (l, w) = false) ∨
  (t.st = .unwinding ∧ ∃ l w r, t.dfr = (l, w) :: r ∧ t.held.contains (l, w) = false)

def AllDone {D L : Type} (s : St D L) : Prop := ∀ t ∈ s.ths, t.st = .done

/-- no thread can move although some thread has not finished -/
def Deadlock {D L : Type} (sem : Sem D L) (s : St D L) : Prop :=
  ¬ AllDone s ∧ ∀ (i : Nat) (t : Th L), s.ths[i]? = some t → next sem (free s.ths) s.data t = none

/-! ### executable schedule replay (driver) -/

/-- run thread `i` for one instruction if enabled -/
def stepAt {D L : Type} (sem : Sem D L) (s : St D L) (i : Nat) : Option (St D L) :=
  match s.ths[i]? with
  | none => none
  | some t =>
    match next sem (free s.ths) s.data t with
    | none => none
    | some (d', t') => some { data := d', ths := s.ths.set i t' }

/-- replay a schedule (thread indices); disabled entries are skipped -/
def replay {D L : Type} (sem : Sem D L) (s : St D L) : List Nat → St D L
  | [] => s
  | i :: r =>
    match stepAt sem s i with
    | some s' => replay sem s' r
    | none => replay sem s r

/-- finish all threads round-robin with fuel -/
def drain {D L : Type} (sem : Sem D L) : Nat → St D L → St D L
  | 0, s => s
  | f + 1, s => drain sem f (replay sem s (List.range s.ths.length))

end CueVerif.Lockset
