/-
"CueCore" with TOP-LEVEL disjunctions and default marks (C01, phase 3), layered on
Model/Core.lean.  Disjunctions occur only above the struct / list / scalar level: an
expression is built from disjunction-free `Expr` leaves with `&`, `|` and the mark `*`
(fields holding disjunctions are NOT modelled).

A `DVal` is the list of its (non-disjunctive) disjuncts, each with a flag "belongs to the
default set", plus `hm` ("has marks": the value is a pair ⟨v, d⟩ of the CUE specification
rather than a plain ⟨v⟩).  This is the value/default pair semantics of the CUE language
specification:

    U1/U2  ⟨v1, d1⟩ & ⟨v2, d2⟩ = ⟨v1 & v2, d1 & d2⟩     (a plain ⟨v⟩ acts as ⟨v, v⟩)
    D1/D2  ⟨v1, d1⟩ | ⟨v2, d2⟩ = ⟨v1 | v2, d1 | d2⟩     (a plain ⟨v⟩ contributes no default)
    M      *⟨v⟩ = ⟨v, v⟩,  *⟨v, d⟩ = ⟨v, d⟩

`&` distributes over `|`, bottom disjuncts do not count.  The lists are NOT kept canonical
(no order, duplicates and bottoms allowed): two `DVal`s are the same value when they are
`DEquiv` (Spec/CoreDisj.lean) — same set of non-bottom disjuncts, same default set, same
`hm`.  The driver prints a canonical rendering (sorted, duplicate-free, bottoms dropped).
Core Lean only.
-/
import CueVerif.Model.Core
namespace CueVerif.Core

structure DVal where
  /-- the disjuncts with their "is in the default set" flag (only meaningful when `hm`) -/
  items : List (Val × Bool)
  /-- some mark `*` has been applied -/
  hm : Bool
  deriving DecidableEq

/-- the disjuncts with their effective default flag: without marks every disjunct is a
default (⟨v⟩ acts as ⟨v, v⟩ in unification) -/
def DVal.eff (x : DVal) : List (Val × Bool) :=
  if x.hm then x.items else x.items.map (fun p => (p.1, true))

/-- the disjuncts with the defaults they contribute to an enclosing disjunction:
without marks, none -/
def DVal.expl (x : DVal) : List (Val × Bool) :=
  if x.hm then x.items else x.items.map (fun p => (p.1, false))

def DVal.single (v : Val) : DVal := { items := [(v, true)], hm := false }

/-- all combinations of a disjunct of either side -/
def prodU (xs ys : List (Val × Bool)) : List (Val × Bool) :=
  xs.flatMap (fun p => ys.map (fun q => (unify p.1 q.1, p.2 && q.2)))

/-- unification distributes over disjunction; U1/U2 -/
def unifyD (x y : DVal) : DVal :=
  { items := prodU x.eff y.eff, hm := x.hm || y.hm }

/-- D1/D2 -/
def orD (x y : DVal) : DVal :=
  if x.hm || y.hm then { items := x.expl ++ y.expl, hm := true }
  else { items := x.items ++ y.items, hm := false }

/-- M -/
def markD (x : DVal) : DVal := { items := x.eff, hm := true }

inductive DExpr where
  /-- a disjunction-free expression of Model/Core.lean -/
  | leaf (e : Expr)
  | and (a b : DExpr)
  | or (a b : DExpr)
  | mark (a : DExpr)

instance : Inhabited DExpr := ⟨.leaf .bot⟩

def evalD : DExpr → DVal
  | .leaf e => DVal.single (eval e)
  | .and a b => unifyD (evalD a) (evalD b)
  | .or a b => orD (evalD a) (evalD b)
  | .mark a => markD (evalD a)

end CueVerif.Core
