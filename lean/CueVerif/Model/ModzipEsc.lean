/-
mod/module/escape.go, transcribed literally (pinned in Bridge/C15.lean):
  escapeString  : first loop over the runes of `s` (`for _, r := range s`): '!' or a rune
                  ≥ utf8.RuneSelf is an error, an upper-case ASCII letter sets haveUpper;
                  `if !haveUpper { return s }`; second loop appends '!' + lower case for
                  upper-case letters and byte(r) otherwise
  EscapeVersion : semver.IsValid(v) (a parameter: internal/mod/semver is not modelled),
                  checkElem(v, filePath) == nil and no '!' in v, then escapeString
  EscapePath    : CheckPathWithoutVersion(path) (a parameter: the OCI regular expressions are
                  not modelled), then escapeString
`Modzip.escapeString` (the byte-level form the theorems were first proved for) is proved
equal to the literal form in Proofs/ModzipEsc.lean.  Core Lean only.
-/
import CueVerif.Model.Modzip
namespace CueVerif.Modzip

def isUpper (r : Nat) : Bool := decide (65 ≤ r ∧ r ≤ 90)

def escapeStringLit (s : Str) : Option Str :=
  let rs := runes s
  if rs.any (fun r => r == 33 || decide (r ≥ 128)) then none
  else if !(rs.any isUpper) then some s
  else some (rs.flatMap fun r => if 65 ≤ r ∧ r ≤ 90 then [33, r + 32] else [r])

def escapeVersion (U : Uni) (semverValid : Bool) (v : Str) : Option Str :=
  if !semverValid then none
  else if (checkElem U v).isSome || v.contains 33 then none
  else escapeStringLit v

def escapePath (pathOK : Bool) (p : Str) : Option Str :=
  if !pathOK then none else escapeStringLit p

/-- `enc + "@" + encVer`, the last element of the extraction directory of the module cache
(modcache.Cache.downloadDir) -/
def cacheDirName (U : Uni) (pathOK semverValid : Bool) (p v : Str) : Option Str :=
  match escapePath pathOK p, escapeVersion U semverValid v with
  | some ep, some ev => some (ep ++ 64 :: ev)
  | _, _ => none

end CueVerif.Modzip
