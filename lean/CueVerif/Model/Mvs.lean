/-
Model of /repo/internal/mod/mvs (buildList + Graph.Require/Selected) running on the
work set of /repo/internal/par/work.go, as a nondeterministic small-step system:
any number of runners, each between "took an item", "g.Require done under the mutex"
and its individual `work.Add` calls; every interleaving of these is a run.

A node is (module path id, version rank).  Versions are ranks in ℕ (any finite linear
order embeds; rank 0 is the pseudo version "none", never a real node's version).
Core Lean only.
-/
namespace CueVerif.Mvs

abbrev Node := Nat × Nat

/-- the requirement graph: what `Reqs.Required` returns -/
abbrev Graph := Node → List Node

structure St where
  /-- `work.added` -/
  added : List Node
  /-- `work.todo` -/
  todo : List Node
  /-- items a runner has removed from todo and is computing `Required` for -/
  fetched : List Node
  /-- runners past `g.Require(m, reqs)`, with the `work.Add` calls they still owe -/
  adding : List (Node × List Node)
  /-- keys of `g.required` in the order Require was called -/
  required : List Node
  /-- `g.selected`; 0 = "none" -/
  sel : Nat → Nat

/-- `Graph.Require`'s update of `selected` for one dependency -/
def bump (sel : Nat → Nat) (d : Node) : Nat → Nat :=
  fun p => if p = d.1 then (if sel p < d.2 then d.2 else sel p) else sel p

def bumpAll (sel : Nat → Nat) (ds : List Node) : Nat → Nat := ds.foldl bump sel

/-- `NewGraph` + `work.Add(target)` for every target -/
def init (roots : List Node) : St :=
  { added := roots.eraseDups, todo := roots.eraseDups, fetched := [], adding := [],
    required := [], sel := bumpAll (fun _ => 0) roots }

inductive Step (g : Graph) : St → St → Prop
  /-- a runner removes any item from todo (the code picks a random index) -/
  | take (s : St) (m : Node) (h : m ∈ s.todo) :
      Step g s { s with todo := s.todo.erase m, fetched := m :: s.fetched }
  /-- under the mutex: `g.Require(m, required)` -/
  | require (s : St) (m : Node) (h : m ∈ s.fetched) :
      Step g s { s with fetched := s.fetched.erase m, required := m :: s.required,
                        sel := bumpAll s.sel (g m), adding := (m, g m) :: s.adding }
  /-- one `work.Add(r)` of a runner, r not yet added -/
  | addNew (s : St) (m r : Node) (rs : List Node) (h : (m, r :: rs) ∈ s.adding)
      (hn : r ∉ s.added) :
      Step g s { s with adding := (m, rs) :: s.adding.erase (m, r :: rs),
                        added := r :: s.added, todo := r :: s.todo }
  /-- one `work.Add(r)` of a runner, r already added -/
  | addOld (s : St) (m r : Node) (rs : List Node) (h : (m, r :: rs) ∈ s.adding)
      (hn : r ∈ s.added) :
      Step g s { s with adding := (m, rs) :: s.adding.erase (m, r :: rs) }
  /-- the runner has made all its Add calls and goes back for more work -/
  | finish (s : St) (m : Node) (h : (m, []) ∈ s.adding) :
      Step g s { s with adding := s.adding.erase (m, []) }

inductive Run (g : Graph) (roots : List Node) : St → Prop
  | init : Run g roots (init roots)
  | step {s t} : Run g roots s → Step g s t → Run g roots t

/-- `Work.Do` returns: nothing to do and no runner busy -/
def Terminal (s : St) : Prop := s.todo = [] ∧ s.fetched = [] ∧ s.adding = []

/-- reachability in the requirement graph (the specification side) -/
inductive Reach (g : Graph) (roots : List Node) : Node → Prop
  | root {n} : n ∈ roots → Reach g roots n
  | dep {m n} : Reach g roots m → n ∈ g m → Reach g roots n

/-- executable deterministic schedule (FIFO, one runner) used by the driver -/
def runFifo (g : Graph) : Nat → St → St
  | 0, s => s
  | fuel + 1, s =>
    match s.todo with
    | [] => s
    | m :: rest =>
      let ds := g m
      let new := (ds.eraseDups).filter (fun r => !(s.added.contains r))
      runFifo g fuel
        { s with todo := rest ++ new, added := s.added ++ new, required := m :: s.required,
                 sel := bumpAll s.sel ds }

end CueVerif.Mvs
