/-
Model of the remaining operations of /repo/internal/mod/mvs/mvs.go over the requirement-graph
model of Model/Mvs.lean:

  * `buildList` with an `upgrade` callback  (the third argument of the Go `buildList`):
    `upGraph`;  `UpgradeAll` = `upgradeAllGraph`, `Upgrade` = `upgradeGraph` (incl. the
    `override` requirement set and the `upgradeTo` map);
  * `Req` (Algorithm R): `walk` (postorder DFS with `reqCache`), `mark` (the second `walk`
    closure: the `have` set), `reqBase`, `reqLoop`, `sortByPath`, `req`;
  * `Downgrade`: `exclude` (= `mark` over the `rdeps` map), `add`, `addLoop`, `dgPrev`
    (the `for excluded[r]` loop), `dgList`, `downgrade`.

Nodes are (path id, version rank) as in Model/Mvs.lean; rank 0 is the version "none".
`reqs.Max(a, b) != a` is `a < b` on ranks.  Recursive closures of the Go code become
functions with explicit fuel (recursion depth) that return `none` when the fuel runs out:
every theorem is stated for the runs that return `some`.  Error returns of `Required`,
`Upgrade`, `Previous` are not modelled (the graph is a total function).
Core Lean only.
-/
import CueVerif.Model.Mvs
namespace CueVerif.Mvs

/-- left fold with early exit on `none` (the `for … { if err … return }` loops) -/
def foldOpt {σ α : Type} (f : σ → α → Option σ) : σ → List α → Option σ
  | s, [] => some s
  | s, a :: as =>
    match f s a with
    | none => none
    | some s' => foldOpt f s' as

/-! ### buildList with an upgrade callback; Upgrade, UpgradeAll -/

/-- what the closure passed to `work.Do` hands to `g.Require(m, required)`:
`Required(m)` unless `Version(m) == "none"`, with `u = upgrade(m)` put in front when
`u != m` -/
def upGraph (g : Graph) (up : Node → Node) : Graph :=
  fun m =>
    let required := if m.2 = 0 then [] else g m
    if up m ≠ m then up m :: required else required

/-- `override.Required` -/
def override (g : Graph) (target : Node) (list : List Node) : Graph :=
  fun m => if m = target then list else g m

/-- the callback of `UpgradeAll`; `latest` is `reqs.Upgrade` -/
def upgradeAllFn (target : Node) (latest : Node → Node) : Node → Node :=
  fun m => if m.1 = target.1 then target else latest m

def upgradeAllGraph (g : Graph) (target : Node) (latest : Node → Node) : Graph :=
  upGraph g (upgradeAllFn target latest)

/-- the `upgradeTo` map of `Upgrade` after its loop: `Max` of the requested versions -/
def upgradeTo : List Node → Nat → Option Nat
  | [], _ => none
  | u :: us, p =>
    -- the Go loop runs front to back; folding from the back gives the same maximum
    match upgradeTo us p with
    | none => if u.1 = p then some u.2 else none
    | some v => if u.1 = p then some (if v < u.2 then u.2 else v) else some v

/-- the requirement list `Upgrade` gives the target: its own list plus `path@none` for every
requested path that is not in it -/
def upgradeList (g : Graph) (target : Node) (ups : List Node) : List Node :=
  g target ++ (ups.filter fun u => !(g target).any (fun m => m.1 == u.1)).map fun u => (u.1, 0)

def upgradeFn (ups : List Node) : Node → Node :=
  fun m => match upgradeTo ups m.1 with
    | some v => (m.1, v)
    | none => m

def upgradeGraph (g : Graph) (target : Node) (ups : List Node) : Graph :=
  upGraph (override g target (upgradeList g target ups)) (upgradeFn ups)

/-! ### Graph.BuildList of a finished traversal (one root) -/

def insertByPath (x : Node) : List Node → List Node
  | [] => [x]
  | y :: ys => if x.1 ≤ y.1 then x :: y :: ys else y :: insertByPath x ys

/-- `slices.SortFunc(min, cmp.Compare(Path(a), Path(b)))` (paths are distinct where it is used) -/
def sortByPath (l : List Node) : List Node := l.foldr insertByPath []

/-! ### Graph.BuildList (graph.go): order of the result

`g.selected` is a Go map: `for path, version := range g.selected` visits its entries in an
unspecified order.  `entries` below is that iteration order — any list holding every entry of
the map once. -/

/-- the first loop of `Graph.BuildList`: one entry per distinct root path, in root order,
skipping paths whose selected version is "none"; returns (list, seenRoot) -/
def rootPart (sel : Nat → Nat) : List Node → List Nat → List Node
  | [], _ => []
  | r :: rs, seen =>
    if seen.contains r.1 then rootPart sel rs seen
    else if sel r.1 ≠ 0 then (r.1, sel r.1) :: rootPart sel rs (r.1 :: seen)
    else rootPart sel rs (r.1 :: seen)

/-- `Graph.BuildList`: root part, then the remaining map entries sorted by path
(`sortVersions`; paths are unique in a map, so the version comparison never decides) -/
def graphBuildList (roots : List Node) (sel : Nat → Nat) (entries : List Node) : List Node :=
  rootPart sel roots [] ++
    sortByPath (entries.filter fun e => !(roots.any fun r => r.1 == e.1))

/-- the Go `buildList(targets, reqs, upgrade)` for one target, where `g` is the graph the
closure hands to `Graph.Require` (`upGraph …`): the FIFO schedule of the traversal model, then
`Graph.BuildList`: the root first, then every other path with a selected version, by path -/
def buildListUp (g : Graph) (fuel : Nat) (target : Node) : Option (List Node) :=
  let s := runFifo g fuel (init [target])
  if s.todo.isEmpty then
    -- the entries of `g.selected`, in some iteration order
    let paths := (s.added.map (·.1)).eraseDups.filter fun p => s.sel p != 0
    some (graphBuildList [target] s.sel (paths.map fun p => (p, s.sel p)))
  else none

/-- `BuildList([]V{target}, reqs)`: `upgrade == nil`; no `Required` call for version "none" -/
def buildList (g : Graph) (fuel : Nat) (target : Node) : Option (List Node) :=
  buildListUp (upGraph g fun m => m) fuel target

/-- the `max` map built from a build list (`0` = absent) -/
def listVersion (list : List Node) (p : Nat) : Nat :=
  match list.find? (fun n => n.1 == p) with
  | some n => n.2
  | none => 0

/-! ### Req -/

structure DfsSt where
  /-- keys of `reqCache`, most recent first -/
  cache : List Node
  /-- `postorder` -/
  post : List Node
deriving Repr

/-- the requirement graph as `Req` sees it: `reqCache[mainModule] = nil` -/
def cut (g : Graph) (main : Node) : Graph := fun n => if n = main then [] else g n

/-- the first `walk` closure of `Req` -/
def walk (g : Graph) : Nat → Node → DfsSt → Option DfsSt
  | 0, _, _ => none
  | f + 1, m, s =>
    if s.cache.contains m then some s
    else
      match foldOpt (fun s m1 => walk g f m1 s) { s with cache := m :: s.cache } (g m) with
      | none => none
      | some s' => some { s' with post := s'.post ++ [m] }

/-- the second `walk` closure of `Req` (`have`); also `exclude` of `Downgrade` -/
def mark (g : Graph) : Nat → Node → List Node → Option (List Node)
  | 0, _, _ => none
  | f + 1, m, hv =>
    if hv.contains m then some hv
    else foldOpt (fun hv m1 => mark g f m1 hv) (m :: hv) (g m)

structure ReqSt where
  hv : List Node
  /-- `min`, in append order -/
  min : List Node
deriving Repr

/-- "First walk the base modules that must be listed." -/
def reqBase (g : Graph) (fuel : Nat) (sel : Nat → Nat) :
    List Nat → List Nat → ReqSt → Option ReqSt
  | [], _, s => some s
  | p :: ps, haveBase, s =>
    if haveBase.contains p then reqBase g fuel sel ps haveBase s
    else
      match mark g fuel (p, sel p) s.hv with
      | none => none
      | some hv => reqBase g fuel sel ps (p :: haveBase) { hv := hv, min := s.min ++ [(p, sel p)] }

/-- "Now the reverse postorder to bring in anything else." (`ms` is the reversed postorder) -/
def reqLoop (g : Graph) (fuel : Nat) (sel : Nat → Nat) : List Node → ReqSt → Option ReqSt
  | [], s => some s
  | m :: ms, s =>
    -- `max[Path(m)] != Version(m)` ("Older version."); a "none" node never equals a map entry
    if m.2 = 0 ∨ sel m.1 ≠ m.2 then reqLoop g fuel sel ms s
    else if s.hv.contains m then reqLoop g fuel sel ms s
    else
      match mark g fuel m s.hv with
      | none => none
      | some hv => reqLoop g fuel sel ms { hv := hv, min := s.min ++ [m] }

/-- `Req` after its call of `BuildList` (whose result is `list`, main module first):
returns `min` before the final sort -/
def reqCore (g : Graph) (fuel : Nat) (main : Node) (base : List Nat) (list : List Node) :
    Option (List Node) :=
  let gc := cut g main
  let sel := listVersion list
  match foldOpt (fun s m => walk gc fuel m s) { cache := [main], post := [] } list with
  | none => none
  | some d =>
    match reqBase gc fuel sel base [] { hv := [], min := [] } with
    | none => none
    | some s0 =>
      match reqLoop gc fuel sel d.post.reverse s0 with
      | none => none
      | some s1 => some s1.min

def req (g : Graph) (fuel : Nat) (main : Node) (base : List Nat) : Option (List Node) :=
  match buildList g fuel main with
  | none => none
  | some list => (reqCore g fuel main base list).map sortByPath

/-! ### Downgrade -/

structure DgSt where
  added : List Node
  /-- `rdeps`: pairs (r, m) meaning `rdeps[r]` contains m, in append order -/
  rdeps : List (Node × Node)
  excluded : List Node
deriving Repr

def rdepsOf (rd : List (Node × Node)) : Graph :=
  fun r => (rd.filter fun e => e.1 == r).map (·.2)

/-- `exclude(m)` -/
def doExclude (fuel : Nat) (m : Node) (s : DgSt) : Option DgSt :=
  (mark (rdepsOf s.rdeps) fuel m s.excluded).map fun ex => { s with excluded := ex }

/-- the `for _, r := range list` loop inside `add(m)`; `rec` is the recursive `add` -/
def addLoop (rec : Node → DgSt → Option DgSt) (fuel : Nat) (m : Node) :
    List Node → DgSt → Option DgSt
  | [], s => some s
  | r :: rs, s =>
    match rec r s with
    | none => none
    | some s' =>
      if s'.excluded.contains r then doExclude fuel m s'
      else addLoop rec fuel m rs { s' with rdeps := s'.rdeps ++ [(r, m)] }

/-- `add(m)`; `maxv p = some v` iff `max[p] = v` is present; `fuelX` is the fuel of `exclude` -/
def add (g : Graph) (maxv : Nat → Option Nat) (fuelX : Nat) : Nat → Node → DgSt → Option DgSt
  | 0, _, _ => none
  | f + 1, m, s =>
    if s.added.contains m then some s
    else
      let s := { s with added := m :: s.added }
      let upgrades := match maxv m.1 with
        | some v => decide (v < m.2)
        | none => false
      if upgrades then doExclude fuelX m s
      else addLoop (add g maxv fuelX f) fuelX m (g m) s

/-- `reqs.Previous` over the known versions `avail` of the graph: the highest known version
of the path below `m`, or "none" -/
def previous (avail : List Node) (m : Node) : Node :=
  (m.1, (avail.filter fun a => a.1 == m.1 && decide (a.2 < m.2)).foldl (fun b a => if b < a.2 then a.2 else b) 0)

/-- one iteration of the `for excluded[r]` loop: `reqs.Previous(r)`, replaced by the requested
version `max[path]` when that lies between -/
def dgNext (maxv : Nat → Option Nat) (avail : List Node) (r : Node) : Node :=
  let p := previous avail r
  let v := (maxv r.1).getD 0    -- r's path is always a key of `max` here
  if v < r.2 ∧ p.2 < v then (p.1, v) else p

/-- the `for excluded[r] { … }` loop for one build-list entry: `some (some r)` = append r,
`some none` = `continue List` -/
def dgPrev (g : Graph) (maxv : Nat → Option Nat) (avail : List Node) (fuel : Nat) :
    Nat → Node → DgSt → Option (Option Node × DgSt)
  | 0, _, _ => none
  | k + 1, r, s =>
    if !s.excluded.contains r then some (some r, s)
    else
      if (dgNext maxv avail r).2 = 0 then some (none, s)
      else
        match add g maxv fuel fuel (dgNext maxv avail r) s with
        | none => none
        | some s' => dgPrev g maxv avail fuel k (dgNext maxv avail r) s'

/-- the `List:` loop -/
def dgList (g : Graph) (maxv : Nat → Option Nat) (avail : List Node) (fuel : Nat) :
    List Node → DgSt → List Node → Option (List Node)
  | [], _, acc => some acc
  | r :: rs, s, acc =>
    match add g maxv fuel fuel r s with
    | none => none
    | some s1 =>
      match dgPrev g maxv avail fuel fuel r s1 with
      | none => none
      | some (none, s2) => dgList g maxv avail fuel rs s2 acc
      | some (some r', s2) => dgList g maxv avail fuel rs s2 (acc ++ [r'])

/-- the `max` map of `Downgrade`: build-list versions lowered by the requested downgrades -/
def dgMax (list : List Node) (downs : List Node) : Nat → Option Nat :=
  downs.foldl
    (fun mx d => match mx d.1 with
      | some v => if d.2 < v then (fun p => if p = d.1 then some d.2 else mx p) else mx
      | none => fun p => if p = d.1 then some d.2 else mx p)
    (fun p => (list.find? fun n => n.1 == p).map (·.2))

def downgrade (g : Graph) (avail : List Node) (fuel : Nat) (target : Node) (downs : List Node) :
    Option (List Node) :=
  match buildList g fuel target with
  | none => none
  | some full =>
    let list := full.tail
    let maxv := dgMax list downs
    match dgList g maxv avail fuel list { added := [], rdeps := [], excluded := [] } [target] with
    | none => none
    | some downgraded =>
      match buildList (override g target downgraded) fuel target with
      | none => none
      | some actual =>
        let downgraded' := list.filterMap fun m =>
          (actual.find? fun a => a.1 == m.1).map fun a => (m.1, a.2)
        buildList (override g target downgraded') fuel target

end CueVerif.Mvs
