/-
Model of CUE's numeric operators (property C06).  Core Lean only.

Go code transcribed (all in /repo):
* internal/core/adt/decimal.go — `numOp` (kind rule `k := x.Kind() & y.Kind(); 0 ↦ float`, the
  error mapping), `OpContext.Add/Sub/Mul/Quo`, `intDivOp` (`IntDiv/IntMod/IntQuo/IntRem`:
  zero test, `RoundToIntegralValue`, sign handling, `big.Int.Div/Mod/Quo/Rem`);
* internal/core/adt/binop.go — the number / string / bytes cells of `BinOp` for
  `+ - * /` and `== != < <= > >=`, `cmpTonode`;
* internal/core/compile/builtin.go — `div mod quo rem` builtins (`intParam` argument check);
* internal/internal.go — `BaseContext` (precision 34, default rounder = half up),
  `Context.Quo` + `reduceKeepingFloats`.

NOT transcribed: cockroachdb/apd.  Its operations are replaced by their CONTRACT, implemented
directly on exact integers:
* `round p d` — "the nearest `p`-significant-digit decimal, ties away from zero; flag = digits
  were lost" (`apd.Rounder.Round` with `RoundHalfUp`, incl. the 99…9 → 10…0 carry which keeps
  the coefficient at `p` digits);
* `quoRound p a b` — "the quotient rounded the same way" (`apd.Context.Quo`);
* the exponent window of `apd.BaseContext` (`MaxExponent = 100000`, `MinExponent = -100000`,
  trapped `Overflow/Underflow/Subnormal`; `upscale` refuses exponent differences > 100000).
  Results outside the window are errors (`failed arithmetic`); the clamping of ZERO results with
  out-of-window exponents is not modelled (`inWindow` accepts every zero).

Negative zero is not modelled (apd keeps a sign on zero; `0 * -1` prints `-0`): it denotes 0.
-/
import CueVerif.Model.Dec
import CueVerif.Model.NumLit
namespace CueVerif.Arith
open CueVerif

abbrev Kind := NumLit.Kind

/-- `adt.Num`: a decimal with its kind (`IntKind` / `FloatKind`) -/
structure Num where
  k : Kind
  d : Dec
deriving DecidableEq, Repr, Inhabited

/-! ### rounding to `p` significant digits (contract of `apd.Rounder.Round`, half up) -/

def sgnMul (neg : Bool) (m : Nat) : Int := if neg then -(m : Int) else (m : Int)

/-- `round p d = (r, inexact)`.  For `p = 0` this is what `quantize` uses ("round even if the
precision is 0"): every digit is discarded and the result is 0 or ±1·10^k. -/
def round (p : Nat) (d : Dec) : Dec × Bool :=
  let m := d.coeff.natAbs
  let nd := Dec.numDigits m
  if nd ≤ p then (d, false) else
  let k := nd - p
  let q := m / 10 ^ k
  let r := m % 10 ^ k
  let up := decide (10 ^ k ≤ 2 * r)
  let q1 := if up then q + 1 else q
  -- `roundAddOne`: 99…9 + 1 gains a digit; drop the new trailing zero instead
  let carry := up && decide (Dec.numDigits q < Dec.numDigits q1)
  let q2 := if carry then q1 / 10 else q1
  let k2 := if carry then k + 1 else k
  (⟨sgnMul (decide (d.coeff < 0)) q2, d.exp + k2⟩, r != 0)

/-- precision of `internal.BaseContext` (regenerated and compared in Bridge/C06) -/
def prec : Nat := 34

def round34 (d : Dec) : Dec × Bool := round prec d

/-- `apd.MaxExponent` = -`apd.MinExponent` -/
def maxExp : Int := 100000

/-- adjusted exponent: exponent + number of digits - 1 -/
def adjExp (d : Dec) : Int := d.exp + (Dec.numDigits d.coeff.natAbs : Int) - 1

/-- the value lies in the exponent window of `apd.BaseContext` (zero always does: clamping of
zero is not modelled) -/
def inWindow (d : Dec) : Bool :=
  d.coeff == 0 || (decide (-maxExp ≤ adjExp d) && decide (adjExp d ≤ maxExp))

/-! ### results -/

inductive Err where
  | divZero     -- "division by zero" / "division undefined"
  | failed      -- "failed arithmetic: …" (overflow, underflow, exponent out of range)
  | operands    -- "invalid operands … to 'op'"
  | argKind     -- a non-integer argument to div/mod/quo/rem
deriving DecidableEq, Repr, Inhabited

inductive Res where
  | num (n : Num)
  | bool (b : Bool)
  | err (e : Err)
deriving DecidableEq, Repr, Inhabited

/-- `k := x.Kind() & y.Kind(); if k == 0 { k = FloatKind }` -/
def kindAnd (a b : Kind) : Kind :=
  match a, b with
  | .int, .int => .int
  | _, _ => .float

inductive AOp where
  | add | sub | mul
deriving DecidableEq, Repr, Inhabited

/-- the mathematically exact result (`Dec.add/sub/mul` are exact) -/
def exact (op : AOp) (a b : Dec) : Dec :=
  match op with
  | .add => Dec.add a b
  | .sub => Dec.sub a b
  | .mul => Dec.mul a b

/-- `upscale`'s guard (only `Add/Sub` align exponents) -/
def alignOk (op : AOp) (a b : Dec) : Bool :=
  match op with
  | .mul => true
  | _ => decide (a.exp - b.exp ≤ maxExp) && decide (b.exp - a.exp ≤ maxExp)

/-- `numOp(c, internal.BaseContext.{Add,Sub,Mul}, x, y)` -/
def numOp (op : AOp) (x y : Num) : Res :=
  if !alignOk op x.d y.d then .err .failed else
  let r := (round34 (exact op x.d y.d)).1
  if !inWindow r then .err .failed else
  .num ⟨kindAnd x.k y.k, r⟩

/-! ### `/` : the correctly rounded quotient -/

/-- `quoRound p a b` for `b.coeff ≠ 0`, `a.coeff ≠ 0`: the quotient rounded half up to `p`
significant digits and whether it is inexact.  The integer quotient `q` of the scaled
magnitudes has at least `p` digits; its discarded part is `(q % 10^k + rem/nb) / 10^k`. -/
def quoRound (p : Nat) (a b : Dec) : Dec × Bool :=
  let na := a.coeff.natAbs
  let nb := b.coeff.natAbs
  let s := p + Dec.numDigits nb
  let n := na * 10 ^ s
  let q := n / nb
  let rem := n % nb
  let nd := Dec.numDigits q
  let k := nd - p
  let q0 := q / 10 ^ k
  let r1 := q % 10 ^ k
  let up := decide (10 ^ k * nb ≤ 2 * (r1 * nb + rem))
  let q1 := if up then q0 + 1 else q0
  let neg := decide (a.coeff < 0) != decide (b.coeff < 0)
  (⟨sgnMul neg q1, a.exp - b.exp - (s : Int) + (k : Int)⟩, r1 != 0 || rem != 0)

/-- `reduceKeepingFloats`: strip all trailing zeros (`Decimal.Reduce`), but keep one decimal
place when the unreduced exponent was negative and the reduced one is not (`3.000` ↦ `3.0`). -/
def reduceKeepingFloats (d : Dec) : Dec :=
  let r := Dec.normalize d      -- zero ↦ 0e0, as `Decimal.Reduce`
  if decide (d.exp < 0) && decide (0 ≤ r.exp) then ⟨r.coeff * 10, r.exp - 1⟩ else r

/-- `OpContext.Quo` -/
def quoOp (x y : Num) : Res :=
  if y.d.coeff == 0 then .err .divZero
  else if x.d.coeff == 0 then
    -- `d.Set(decimalZero)`, exponent = x.exp - y.exp (window checked), then reduceKeepingFloats
    if decide (-maxExp ≤ x.d.exp - y.d.exp) && decide (x.d.exp - y.d.exp ≤ maxExp)
    then .num ⟨.float, reduceKeepingFloats ⟨0, x.d.exp - y.d.exp⟩⟩ else .err .failed
  else
    let r := (quoRound prec x.d y.d).1
    if !inWindow r then .err .failed else
    .num ⟨.float, reduceKeepingFloats r⟩

/-! ### div mod quo rem -/

inductive IOp where
  | div | mod | quo | rem
deriving DecidableEq, Repr, Inhabited

/-- `RoundToIntegralValue` followed by folding the sign into the coefficient: the integer the
operand denotes.  For an operand with a negative exponent (cannot be produced for `IntKind`
values by literals or `+ - *`) apd rounds half up. -/
def toIntegral (d : Dec) : Int :=
  if 0 ≤ d.exp then d.coeff * 10 ^ d.exp.toNat
  else
    let m := d.coeff.natAbs
    let nd := Dec.numDigits m
    let diff := (-d.exp).toNat
    if nd < diff then 0
    else
      let r := (round (nd - diff) ⟨d.coeff, 0⟩).1
      r.coeff * 10 ^ r.exp.toNat / 10 ^ diff

/-- Go's `big.Int` `Div`/`Mod` (Euclidean) and `Quo`/`Rem` (truncated) -/
def intFn (op : IOp) (x y : Int) : Int :=
  match op with
  | .div => Int.ediv x y
  | .mod => Int.emod x y
  | .quo => Int.tdiv x y
  | .rem => Int.tmod x y

/-- the builtin (`intParam` check) + `adt.intDivOp` -/
def intDivOp (op : IOp) (a b : Num) : Res :=
  if a.k != .int || b.k != .int then .err .argKind
  else if b.d.coeff == 0 then .err .divZero
  else .num ⟨.int, Dec.ofInt (intFn op (toIntegral a.d) (toIntegral b.d))⟩

/-! ### comparison -/

inductive COp where
  | eq | ne | lt | le | gt | ge
deriving DecidableEq, Repr, Inhabited

/-- `cmpTonode` (regenerated table compared in Bridge/C06) -/
def cmpTonode (op : COp) (r : Ordering) : Bool :=
  match op with
  | .lt => r == .lt
  | .le => r != .gt
  | .eq => r == .eq
  | .ne => r != .eq
  | .ge => r != .lt
  | .gt => r == .gt

/-- `strings.Compare` / `bytes.Compare`: lexicographic on bytes -/
def bytesCmp : List Nat → List Nat → Ordering
  | [], [] => .eq
  | [], _ :: _ => .lt
  | _ :: _, [] => .gt
  | a :: as, b :: bs => if a < b then .lt else if b < a then .gt else bytesCmp as bs

/-- operands of the modelled cells of `BinOp` -/
inductive Val where
  | num (n : Num)
  | str (s : List Nat)
  | bytes (s : List Nat)
deriving DecidableEq, Repr, Inhabited

/-- the comparison cells of `BinOp` (struct-comparison experiment on, as in the default
evaluator: `==`/`!=` across kinds are false/true; ordering across kinds is an error) -/
def cmpOp (op : COp) (x y : Val) : Res :=
  match x, y with
  | .num a, .num b => .bool (cmpTonode op (Dec.cmp a.d b.d))
  | .str a, .str b => .bool (cmpTonode op (bytesCmp a b))
  | .bytes a, .bytes b => .bool (cmpTonode op (bytesCmp a b))
  | _, _ =>
    match op with
    | .eq => .bool false
    | .ne => .bool true
    | _ => .err .operands

/-! ### unary minus (`UnaryExpr.evaluate`, `SubtractOp` on a `*Num`) -/

def negNum (n : Num) : Num := ⟨n.k, Dec.neg n.d⟩

end CueVerif.Arith
