/-
Model of /repo/internal/mod/semver/semver.go (parse, Compare, comparePrerelease,
compareInt).  Go strings are byte strings: `List Nat` (every element is a byte value;
the model is total on arbitrary naturals).  Core Lean only.
-/
namespace CueVerif.Semver

abbrev Str := List Nat

def isDigit (c : Nat) : Bool := 48 ≤ c && c ≤ 57

/-- `isIdentChar` of semver.go -/
def isIdentChar (c : Nat) : Bool :=
  (65 ≤ c && c ≤ 90) || (97 ≤ c && c ≤ 122) || (48 ≤ c && c ≤ 57) || c == 45

/-- `parseInt`: a maximal run of digits, no leading zero unless the run is "0". -/
def parseInt (v : Str) : Option (Str × Str) :=
  match v with
  | [] => none
  | c :: rest =>
    if !isDigit c then none
    else
      let ds := rest.takeWhile isDigit
      let r := rest.dropWhile isDigit
      if c == 48 && !ds.isEmpty then none else some (c :: ds, r)

/-- split on '.' (byte 46); `splitDot [] = [[]]` like strings.Split -/
def splitDot : Str → List Str
  | [] => [[]]
  | c :: cs =>
    if c == 46 then [] :: splitDot cs
    else match splitDot cs with
      | [] => [[c]]            -- unreachable: splitDot is never empty
      | h :: t => (c :: h) :: t

def allDigits (s : Str) : Bool := s.all isDigit

/-- `isBadNum`: all digits, length > 1, leading zero -/
def isBadNum (s : Str) : Bool :=
  allDigits s && decide (1 < s.length) && (s.head? == some 48)

/-- `isNum` -/
def isNum (s : Str) : Bool := allDigits s

/-- `parsePrerelease`: `v` starts with '-'; returns (prerelease incl. '-', rest). -/
def parsePrerelease (v : Str) : Option (Str × Str) :=
  match v with
  | [] => none
  | c :: rest =>
    if c != 45 then none
    else
      let body := rest.takeWhile (· != 43)
      let r := rest.dropWhile (· != 43)
      if !(body.all fun c => isIdentChar c || c == 46) then none
      else if (splitDot body).any (fun id => id.isEmpty || isBadNum id) then none
      else some (c :: body, r)

/-- `parseBuild`: `v` starts with '+'; consumes everything. -/
def parseBuild (v : Str) : Option (Str × Str) :=
  match v with
  | [] => none
  | c :: rest =>
    if c != 43 then none
    else if !(rest.all fun c => isIdentChar c || c == 46) then none
    else if (splitDot rest).any (fun id => id.isEmpty) then none
    else some (c :: rest, [])

structure Parsed where
  major : Str
  minor : Str
  patch : Str
  short : Str
  prerelease : Str
  build : Str
deriving Repr, DecidableEq

/-- after MAJOR.MINOR.PATCH: optional prerelease, optional build, then end of input -/
def parseTail (maj min pat : Str) (v : Str) : Option Parsed :=
  let afterPre : Option (Str × Str) :=
    match v with
    | 45 :: _ => parsePrerelease v
    | _ => some ([], v)
  match afterPre with
  | none => none
  | some (pre, v1) =>
    let afterBuild : Option (Str × Str) :=
      match v1 with
      | 43 :: _ => parseBuild v1
      | _ => some ([], v1)
    match afterBuild with
    | none => none
    | some (bld, v2) =>
      if v2.isEmpty then some ⟨maj, min, pat, [], pre, bld⟩ else none

/-- `parse` -/
def parse (v : Str) : Option Parsed :=
  match v with
  | 118 :: v0 =>            -- 'v'
    match parseInt v0 with
    | none => none
    | some (maj, v1) =>
      match v1 with
      | [] => some ⟨maj, [48], [48], [46,48,46,48], [], []⟩
      | 46 :: v1' =>
        match parseInt v1' with
        | none => none
        | some (min, v2) =>
          match v2 with
          | [] => some ⟨maj, min, [48], [46,48], [], []⟩
          | 46 :: v2' =>
            match parseInt v2' with
            | none => none
            | some (pat, v3) => parseTail maj min pat v3
          | _ => none
      | _ => none
  | _ => none

/-- bytewise lexicographic comparison: Go's `cmp.Compare` on strings -/
def lexCmp : Str → Str → Ordering
  | [], [] => .eq
  | [], _ :: _ => .lt
  | _ :: _, [] => .gt
  | a :: as, b :: bs => (compare a b).then (lexCmp as bs)

/-- `compareInt`: by length, then bytewise -/
def compareInt (x y : Str) : Ordering :=
  (compare x.length y.length).then (lexCmp x y)

/-- one step of the loop of `comparePrerelease` on two differing identifiers -/
def cmpIdentDiff (dx dy : Str) : Ordering :=
  let ix := isNum dx
  let iy := isNum dy
  if ix != iy then (if ix then .lt else .gt)
  else if ix then (compare dx.length dy.length).then (lexCmp dx dy)
  else lexCmp dx dy

/-- the loop of `comparePrerelease` over the dot-separated identifier lists -/
def cmpIdents : List Str → List Str → Ordering
  | [], _ => .lt            -- x == "" after the loop
  | _ :: _, [] => .gt
  | dx :: xs, dy :: ys => if dx != dy then cmpIdentDiff dx dy else cmpIdents xs ys

/-- `comparePrerelease` (arguments include the leading '-', or are empty) -/
def comparePrerelease (x y : Str) : Ordering :=
  if x == y then .eq
  else if x.isEmpty then .gt
  else if y.isEmpty then .lt
  else cmpIdents (splitDot x.tail) (splitDot y.tail)

/-- `Compare` -/
def compare' (v w : Str) : Ordering :=
  match parse v, parse w with
  | none, none => .eq
  | none, some _ => .lt
  | some _, none => .gt
  | some pv, some pw =>
    (compareInt pv.major pw.major).then <|
    (compareInt pv.minor pw.minor).then <|
    (compareInt pv.patch pw.patch).then <|
    comparePrerelease pv.prerelease pw.prerelease

def isValid (v : Str) : Bool := (parse v).isSome

/-- `Canonical` -/
def canonical (v : Str) : Str :=
  match parse v with
  | none => []
  | some p =>
    if !p.build.isEmpty then v.take (v.length - p.build.length)
    else if !p.short.isEmpty then v ++ p.short
    else v

end CueVerif.Semver
