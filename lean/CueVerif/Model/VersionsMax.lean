/-
Model of /repo/mod/module/versions.go `Versions.Max` and of the comparison that
`mvs.buildList` derives from `reqs.Max` (the closure `cmp` at the top of buildList, mvs.go).
Byte strings as in Model/Semver.lean.  Core Lean only.
-/
import CueVerif.Model.Semver
namespace CueVerif.Semver

/-- the string "none" -/
def noneStr : Str := [110, 111, 110, 101]

/-- `module.Versions.Max` -/
def versionsMax (v1 v2 : Str) : Str :=
  if v1 == noneStr || v2.isEmpty then v2
  else if v2 == noneStr || v1.isEmpty then v1
  else if compare' v1 v2 == .gt then v1
  else v2

/-- the closure `cmp` of `mvs.buildList`: -1 / 1 / 0 from two calls of `reqs.Max` -/
def mvsCmp (v1 v2 : Str) : Ordering :=
  if versionsMax v1 v2 != v1 then .lt
  else if versionsMax v2 v1 != v2 then .gt
  else .eq

end CueVerif.Semver
