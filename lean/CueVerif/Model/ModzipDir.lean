/-
Model of the directory walk and of Create's sort (cue-lang/cue, mod/modzip/zip.go).

Transcribed (by hand, pinned in Bridge/C15.lean):
  listFilesInDir : the callback of filepath.WalkDir — vendored entries are reported and NOT
                   pruned (`return nil`), the root is never skipped, directories named
                   .bzr/.git/.hg/.svn and directories that have an entry named "cue.mod"
                   (os.Lstat succeeds, whatever its kind) are reported and pruned
                   (filepath.SkipDir), irregular files are reported, regular files are listed
  CheckDir       : listFilesInDir, then CheckFiles on the listed files, the walk's omissions
                   appended (the rewriting of paths with filepath.Join(dir, ·) is not modelled:
                   paths stay relative)
  Create         : slices.SortFunc with the comparator as written (it counts the separators
                   of `ap` twice), then checkFiles, then one entry per valid file
  CreateFromDir  : listFilesInDir, then Create

A directory tree is what os.ReadDir presents: per directory the entries in the order ReadDir
returns them (sorted by name), each a regular file (with its Lstat size), an irregular file
(symlink, device, pipe, socket) or a directory.  Errors of the walk itself (unreadable
directories) are not modelled.  Core Lean only.
-/
import CueVerif.Model.Modzip
namespace CueVerif.Modzip

mutual
inductive DTree where
  | file (size : Int)
  | irregular
  | dir (children : DList)
inductive DList where
  | nil
  | cons (name : Str) (t : DTree) (rest : DList)
end

inductive DirWhy where
  | vendored | vcs | submoduleDir | notRegular
deriving Repr, DecidableEq

/-- what listFilesInDir returns: `files` (slash path, Lstat size) and `omitted` -/
structure Listing where
  files : List FEnt := []
  omitted : List (Str × DirWhy) := []
deriving Repr, DecidableEq

def Listing.append (a b : Listing) : Listing := ⟨a.files ++ b.files, a.omitted ++ b.omitted⟩

/-- ".bzr", ".git", ".hg", ".svn" -/
def vcsNames : List Str := [[46,98,122,114], [46,103,105,116], [46,104,103], [46,115,118,110]]

/-- `os.Lstat(filepath.Join(filePath, "cue.mod"))` succeeds: the directory has an entry of
that exact name (of any kind) -/
def hasCueMod : DList → Bool
  | .nil => false
  | .cons n _ rest => n == sCueMod || hasCueMod rest

mutual
/-- the WalkDir callback on a non-root entry with slash path `rel` and base name `name`,
followed by the walk of what is beneath it unless pruned -/
def walkEntry (rel name : Str) : DTree → Listing
  | .file size =>
    if isVendoredPackage rel then ⟨[], [(rel, .vendored)]⟩
    else ⟨[⟨rel, .regular, size⟩], []⟩
  | .irregular =>
    if isVendoredPackage rel then ⟨[], [(rel, .vendored)]⟩
    else ⟨[], [(rel, .notRegular)]⟩
  | .dir ch =>
    if isVendoredPackage rel then
      Listing.append ⟨[], [(rel, .vendored)]⟩ (walkList (rel ++ [47]) ch)   -- `return nil`: not pruned
    else if vcsNames.contains name then ⟨[], [(rel, .vcs)]⟩                  -- SkipDir
    else if hasCueMod ch then ⟨[], [(rel, .submoduleDir)]⟩                   -- SkipDir
    else walkList (rel ++ [47]) ch
/-- the entries of one directory in ReadDir order; `pre` is "" for the root, else `rel/` -/
def walkList (pre : Str) : DList → Listing
  | .nil => {}
  | .cons n t rest => Listing.append (walkEntry (pre ++ n) n t) (walkList pre rest)
end

/-- listFilesInDir(dir) for a root directory with the given entries (the root itself is
never skipped: `filePath == dir`) -/
def listFilesInDir (root : DList) : Listing := walkList [] root

/-- CheckDir: the report of checkFiles on the listed files, the walk's omissions appended
(counted only: the harness compares the paths) -/
def checkDir (U : Uni) (root : DList) : Checked × List (Str × DirWhy) :=
  ((checkFiles U (listFilesInDir root).files).1, (listFilesInDir root).omitted)

mutual
/-- every regular file of a tree, in walk order, nothing skipped -/
def allFilesEntry (rel : Str) : DTree → List FEnt
  | .file size => [⟨rel, .regular, size⟩]
  | .irregular => []
  | .dir ch => allFilesList (rel ++ [47]) ch
def allFilesList (pre : Str) : DList → List FEnt
  | .nil => []
  | .cons n t rest => allFilesEntry (pre ++ n) t ++ allFilesList pre rest
end

mutual
/-- a tree without the things the directory walk treats specially: no irregular file, no
vendored path, no VCS directory, no directory (other than the root) with a `cue.mod` entry -/
def plainEntry (rel name : Str) : DTree → Bool
  | .file _ => !isVendoredPackage rel
  | .irregular => false
  | .dir ch => !isVendoredPackage rel && !vcsNames.contains name && !hasCueMod ch &&
      plainList (rel ++ [47]) ch
def plainList (pre : Str) : DList → Bool
  | .nil => true
  | .cons n t rest => plainEntry (pre ++ n) n t && plainList pre rest
end

/-! ### Create's sort -/

/-- lexicographic `<` on byte strings (Go string comparison) -/
def strLt : Str → Str → Bool
  | [], [] => false
  | [], _ :: _ => true
  | _ :: _, [] => false
  | a :: as, b :: bs => if a < b then true else if b < a then false else strLt as bs

/-- the comparator handed to slices.SortFunc, as written: `ca` and `cb` both count the
separators of `ap`; result as -1 / 0 / +1 -/
def createCmp (ap bp : Str) : Int :=
  let ca := ap.count 47
  let cb := ap.count 47
  if ca < cb then -1 else if cb < ca then 1
  else if strLt ap bp then -1 else if strLt bp ap then 1 else 0

def insertBy (lt : α → α → Bool) (x : α) : List α → List α
  | [] => [x]
  | y :: ys => if lt x y then x :: y :: ys else y :: insertBy lt x ys

/-- a sort by the comparator: insertion sort exactly as slices.SortFunc performs it on up to 12
elements (`insertionSortCmpFunc`: each element, left to right, moves left past the strictly
greater ones — stable).  Longer inputs go through pdqsort, which is not stable; the order of
entries with EQUAL paths matters to checkFiles (a later report for a path already reported is
dropped), so for such inputs the theorems are to be read with `C15_roundtrip`, which holds for
every ordering. -/
def sortFiles (files : List SrcFile) : List SrcFile :=
  files.foldl (fun acc x => insertBy (fun a b => decide (createCmp a.ent.path b.ent.path < 0)) x acc) []

/-- Create as a whole: clone, sort, check, write -/
def createFull (U : Uni) (files : List SrcFile) : Option (List ZEnt) := create U (sortFiles files)

end CueVerif.Modzip
