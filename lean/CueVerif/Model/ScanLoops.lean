/-
C02 — loop / progress structure of the CUE scanner (core Lean only).

Transcribed from /repo/cue/scanner/scanner.go (mode: ScanComments set, DontInsertCommas not set):

  next, Init (the BOM skip)            → `Env.ch`, `Env.next`, `initPos`
  isLetter, isDigit, digitVal          → `isLetter`, `isDigit`, `digitVal`
  scanIdentifier, scanFieldIdentifier  → `scanIdentifier`, `scanFieldIdentifier`
  scanComment                          → `scanComment`
  skipWhitespace                       → `skipWhitespace`
  recoverParen                         → `recoverParen`
  consumeQuotes, scanHashes            → `consumeQuotes`, `scanHashes`       (counted loops)
  consumeStringClose                   → `consumeStringClose` / `closeLoop` (counted loop)
  scanEscape                           → `scanEscape` / `escHashes` / `escDigits` (counted loops)
  scanString                           → `scanString`
  popInterpolation, ResumeInterpolation→ `popQuote`, `resume`
  scanAttribute, scanAttributeTokens   → inside `scan` (the `.attr` step) / `scanAttrTokens`
  switch2 and the whole dispatch of Scan → `scanStep` (+ `stringStart`, `scanDefault`), `scan`
  the parser's use of the scanner (parser.next / parseInterpolation: count parentheses after an
  INTERPOLATION token, call ResumeInterpolation after the closing RPAREN)  → `scanAll`

NOT transcribed (owned by C09): scanNumber / scanMantissa.  The extent of a number is the oracle
`Env.numEnd : start position → end position`; the model checks `start < end ≤ length` and answers
`badOracle` otherwise.  `unicode.IsLetter` / `unicode.IsDigit` for runes ≥ 0x80 are the oracles
`Env.uniLetter` / `Env.uniDigit`.

Level: RUNES.  The input is the list of runes exactly as `Scanner.next` delivers them in `s.ch`
(invalid byte → 0xFFFD, NUL → 0); positions are rune indices; EOF is position = length, where
`s.ch = -1`.  Dropped because they cannot influence positions: literal texts, error messages,
`hasCR`/`stripCR`, `minLineWS`, `linesSinceLast`/`spacesSinceLast`, `nextHasComma`, the `ok` result
and the `x > max` test of scanEscape (scanString ignores `ok`).

Every unbounded Go `for` loop is a function with explicit fuel; loops that Go itself bounds by a
counter (`for range n`, `for i < n`, `for n > 0 {… n--}`) recurse structurally on that counter.
Results: `ok … | fuel | badOracle | panic` (`panic` = popInterpolation on an empty quote stack,
which is an index-out-of-range panic in Go).
-/
namespace CueVerif.ScanLoops

open Lean in
/-- `rn%'x'` is the numeral literal of the code point (so that `omega`/`decide` see numbers). -/
macro "rn%" c:char : term => pure ⟨Syntax.mkNumLit (toString c.getChar.toNat)⟩

inductive Res (α : Type) where
  | ok (a : α)
  | fuel
  | badOracle
  | panic
  deriving Repr, DecidableEq

namespace Res
@[inline] def bind {α β} (x : Res α) (g : α → Res β) : Res β :=
  match x with
  | ok a => g a
  | fuel => fuel
  | badOracle => badOracle
  | panic => panic
instance : Monad Res where
  pure := ok
  bind := bind
end Res

structure Env where
  src : List Nat
  /-- `unicode.IsLetter` on runes ≥ 0x80 (oracle) -/
  uniLetter : Nat → Bool
  /-- `unicode.IsDigit` on runes ≥ 0x80 (oracle) -/
  uniDigit : Nat → Bool
  /-- end of the number literal that starts at the given position (oracle for scanNumber) -/
  numEnd : Nat → Option Nat

namespace Env
def len (e : Env) : Nat := e.src.length
/-- `s.ch` when `s.offset = p` -/
def ch (e : Env) (p : Nat) : Int :=
  match e.src[p]? with
  | some r => (r : Int)
  | none => -1
/-- `s.next()` on the position -/
def next (e : Env) (p : Nat) : Nat := if p < e.len then p + 1 else p
end Env

/-- Init: skip one leading BOM -/
def initPos (e : Env) : Nat := if e.ch 0 = 0xFEFF then e.next 0 else 0

def isLetter (e : Env) (c : Int) : Bool :=
  (decide (rn%'a' ≤ c) && decide (c ≤ rn%'z')) || (decide (rn%'A' ≤ c) && decide (c ≤ rn%'Z')) ||
    (decide (128 ≤ c) && e.uniLetter c.toNat)

def isDigit (e : Env) (c : Int) : Bool :=
  (decide (rn%'0' ≤ c) && decide (c ≤ rn%'9')) || (decide (128 ≤ c) && e.uniDigit c.toNat)

def identPart (e : Env) (c : Int) : Bool :=
  isLetter e c || isDigit e c || decide (c = rn%'_') || decide (c = rn%'$')

def digitVal (c : Int) : Int :=
  if rn%'0' ≤ c ∧ c ≤ rn%'9' then c - rn%'0'
  else if c = rn%'_' then 0
  else if rn%'a' ≤ c ∧ c ≤ rn%'f' then c - rn%'a' + 10
  else if rn%'A' ≤ c ∧ c ≤ rn%'F' then c - rn%'A' + 10
  else 16

/-- `for pred(s.ch) { s.next() }` -/
def whileCh (e : Env) (pred : Int → Bool) : Nat → Nat → Res Nat
  | 0, _ => .fuel
  | f + 1, p => if pred (e.ch p) then whileCh e pred f (e.next p) else .ok p

def scanIdentifier (e : Env) (f p : Nat) : Res Nat := whileCh e (identPart e) f p

def scanFieldIdentifier (e : Env) (f p : Nat) : Res Nat :=
  if e.ch p = rn%'#' then
    let p1 := e.next p
    if isDigit e (e.ch p1) then .ok p1 else whileCh e (identPart e) f p1
  else whileCh e (identPart e) f p

/-- `for s.ch != '\n' && s.ch >= 0` -/
def commentBody (c : Int) : Bool := decide (c ≠ rn%'\n') && decide (c ≥ 0)

/-- scanComment: the first '/' is consumed, `p` is at the second one -/
def scanComment (e : Env) (f p : Nat) : Res Nat :=
  if e.ch p = rn%'/' then whileCh e commentBody f (e.next p) else .ok p

def wsPred (eol : Bool) (c : Int) : Bool :=
  decide (c = rn%' ') || decide (c = rn%'\t') || (decide (c = rn%'\n') && !eol) || decide (c = rn%'\r')

def skipWhitespace (e : Env) (eol : Bool) (f p : Nat) : Res Nat := whileCh e (wsPred eol) f p

def recoverParen (e : Env) : Nat → Int → Nat → Res Nat
  | 0, _, _ => .fuel
  | f + 1, opn, p =>
    let c := e.ch p
    if c = rn%'\n' ∨ c = -1 then .ok p
    else if c = rn%'(' then recoverParen e f (opn + 1) (e.next p)
    else if c = rn%')' then
      if opn - 1 = 0 then .ok p else recoverParen e f (opn - 1) (e.next p)
    else recoverParen e f opn (e.next p)

/-- consumeQuotes(quote, max): `(position, n)` -/
def consumeQuotes (e : Env) (q : Int) : Nat → Nat → Nat → Nat × Nat
  | 0, p, n => (p, n)
  | m + 1, p, n => if e.ch p ≠ q then (p, n) else consumeQuotes e q m (e.next p) (n + 1)

/-- scanHashes(maxHash): `(position, n)` -/
def scanHashes (e : Env) : Nat → Nat → Nat → Nat × Nat
  | 0, p, n => (p, n)
  | m + 1, p, n => if e.ch p ≠ rn%'#' then (p, n) else scanHashes e m (e.next p) (n + 1)

structure Quote where
  char : Int
  numChar : Nat
  numHash : Nat
  deriving Repr, DecidableEq

/-- the loop of consumeStringClose: `k` iterations left, loop variable `i`, current `want` -/
def closeLoop (e : Env) (numChar : Nat) : Nat → Nat → Int → Nat → Nat × Bool
  | 0, _, _, p => (p, true)
  | k + 1, i, want, p =>
    let want := if i = numChar then rn%'#' else want
    if want ≠ e.ch p then (p, false) else closeLoop e numChar k (i + 1) want (e.next p)

/-- consumeStringClose(ch, quote) with the scanner at `p`: `(position, atEnd)` -/
def consumeStringClose (e : Env) (c : Int) (q : Quote) (p : Nat) : Nat × Bool :=
  if q.char ≠ c then (p, false)
  else closeLoop e q.numChar (q.numChar + q.numHash - 1) 1 q.char p

/-- `for range quote.numHash { if s.ch != '#' { return true, false }; s.next() }`:
`(position, loop ran to completion)` -/
def escHashes (e : Env) : Nat → Nat → Nat × Bool
  | 0, p => (p, true)
  | k + 1, p => if e.ch p ≠ rn%'#' then (p, false) else escHashes e k (e.next p)

/-- `for n > 0 { … s.next(); n-- }` -/
def escDigits (e : Env) (base : Int) : Nat → Nat → Nat
  | 0, p => p
  | n + 1, p =>
    let c := e.ch p
    if c = rn%'_' ∨ digitVal c ≥ base then p else escDigits e base n (e.next p)

/-- scanEscape(quote): `(position, interpolation)` -/
def scanEscape (e : Env) (q : Quote) (p : Nat) : Nat × Bool :=
  match escHashes e q.numHash p with
  | (p, false) => (p, false)
  | (p, true) =>
    let c := e.ch p
    if c = rn%'(' then (p, true)
    else if c = rn%'a' ∨ c = rn%'b' ∨ c = rn%'f' ∨ c = rn%'n' ∨ c = rn%'r' ∨ c = rn%'t' ∨ c = rn%'v' ∨
        c = rn%'\\' ∨ c = rn%'/' ∨ c = q.char then (e.next p, false)
    else if rn%'0' ≤ c ∧ c ≤ rn%'7' then
      if q.char = rn%'"' then (p, false) else (escDigits e 8 3 p, false)
    else if c = rn%'x' then
      if q.char = rn%'"' then (p, false) else (escDigits e 16 2 (e.next p), false)
    else if c = rn%'u' then (escDigits e 16 4 (e.next p), false)
    else if c = rn%'U' then (escDigits e 16 8 (e.next p), false)
    else (p, false)

/-- the `for {}` of scanString; state: closeAllowed. Result `(position, tok = INTERPOLATION)` -/
def scanStringLoop (e : Env) (q : Quote) : Nat → Bool → Nat → Res (Nat × Bool)
  | 0, _, _ => .fuel
  | f + 1, ca, p =>
    let c := e.ch p
    if (q.numChar ≠ 3 ∧ c = rn%'\n') ∨ c < 0 then .ok (p, false)
    else
      let p1 := e.next p
      let r := if q.numChar ≠ 3 ∨ ca = true then consumeStringClose e c q p1 else (p1, false)
      if r.2 = true then .ok (r.1, false)
      else if c = rn%'\r' ∧ q.numChar = 3 then scanStringLoop e q f ca r.1
      else
        let ca' : Bool :=
          if c = rn%'\n' then true
          else if q.numChar = 3 ∧ ca = true ∧ (c = rn%' ' ∨ c = rn%'\t') then ca
          else false
        if c = rn%'\\' then
          let r2 := scanEscape e q r.1
          if r2.2 = true then .ok (r2.1, true) else scanStringLoop e q f ca' r2.1
        else scanStringLoop e q f ca' r.1

def scanString (e : Env) (q : Quote) (continuation : Bool) (f p : Nat) : Res (Nat × Bool) :=
  scanStringLoop e q f (!continuation && q.numChar == 3) p

/-- coarse token classes -/
inductive Cls where
  | EOF | COMMA | COMMA_ELIDED | IDENT | BOTTOM | NUM | STRING | INTERP | ATTR | COMMENT | ILLEGAL
  | COLON | SEMI | OPTION | TILDE | ELLIPSIS | PERIOD
  | LPAREN | RPAREN | LBRACK | RBRACK | LBRACE | RBRACE
  | ADD | SUB | MUL | QUO | ARROW | LSS | LEQ | GTR | GEQ | MAT | BIND | EQL | NMAT | NOT | NEQ
  | LAND | AND | LOR | OR
  /-- trace classes of a ResumeInterpolation call: literal does not / does end in "(" -/
  | RESUME | RESUME_OPEN
  deriving Repr, DecidableEq

/-- scanner state: `s.offset`, `s.insertEOL`, `s.quoteStack` (top = head) -/
structure St where
  pos : Nat
  eol : Bool
  stack : List Quote
  deriving Repr, DecidableEq

/-- what one pass through the body of Scan does besides returning a token -/
inductive Step where
  /-- return the token -/
  | done (st : St) (cls : Cls)
  /-- `return s.Scan()` (elided comma before ',' / ':') -/
  | again (st : St)
  /-- '@' and the identifier are consumed: the rest of scanAttribute calls Scan -/
  | attr (st : St)
  deriving Repr, DecidableEq

/-- number via the oracle (`start` = position of the first digit, or of the '.') -/
def scanNumber (e : Env) (st : St) (start : Nat) : Res Step :=
  match e.numEnd start with
  | some q => if start < q ∧ q ≤ e.len then .ok (.done { st with pos := q, eol := true } .NUM)
              else .badOracle
  | none => .badOracle

def strTok (st : St) (q : Quote) (r : Nat × Bool) : Step :=
  if r.2 = true then .done { pos := r.1, eol := true, stack := q :: st.stack } .INTERP
  else .done { st with pos := r.1, eol := true } .STRING

/-- `case '"', '\''` of Scan: the first quote is consumed, scanner at `p` -/
def stringStart (e : Env) (f : Nat) (st : St) (numHash : Nat) (c : Int) (p : Nat) : Res Step :=
  let q1 : Quote := { char := c, numChar := 1, numHash := numHash }
  let q3 : Quote := { char := c, numChar := 3, numHash := numHash }
  let cq := consumeQuotes e c 2 p 0
  let p2 := cq.1
  if cq.2 = 0 then
    (scanString e q1 false f p2).bind fun r => .ok (strTok st q1 r)
  else if cq.2 = 1 then
    let h := scanHashes e numHash p2 0
    if h.2 = numHash then .ok (.done { st with pos := h.1, eol := true } .STRING)
    else (scanString e q1 false f h.1).bind fun r => .ok (strTok st q1 r)
  else
    let h := if numHash > 0 then scanHashes e numHash p2 0 else (p2, 0)
    if numHash > 0 ∧ h.2 = numHash then .ok (.done { st with pos := h.1, eol := true } .STRING)
    else
      let p3 := h.1
      if e.ch p3 = rn%'\n' then
        (scanString e q3 false f (e.next p3)).bind fun r => .ok (strTok st q3 r)
      else if e.ch p3 = rn%'\r' then
        let p4 := e.next p3
        if e.ch p4 = rn%'\n' then
          (scanString e q3 false f (e.next p4)).bind fun r => .ok (strTok st q3 r)
        else .ok (.done { st with pos := p4, eol := true } .STRING)
      else .ok (.done { st with pos := p3, eol := true } .STRING)

/-- `tok0`/`tok1` of switch2 -/
def switch2 (e : Env) (st : St) (p : Nat) (t0 t1 : Cls) : Step :=
  if e.ch p = rn%'=' then .done { st with pos := e.next p, eol := false } t1
  else .done { st with pos := p, eol := false } t0

/-- return a token: `s.offset = pos`, `s.insertEOL = eol` -/
def tk (st : St) (pos : Nat) (eol : Bool) (cls : Cls) : Res Step :=
  .ok (.done { st with pos := pos, eol := eol } cls)

/-- `case '_'` (the '_' is consumed, scanner at `p1`) -/
def scanUnderscore (e : Env) (f : Nat) (st : St) (p1 : Nat) : Res Step :=
  if e.ch p1 = rn%'|' ∧ e.ch (p1 + 1) = rn%'_' then tk st (e.next (e.next p1)) true .BOTTOM
  else
    (scanFieldIdentifier e f p1).bind fun p2 =>
      -- lit == "__": scanFieldIdentifier returned exactly "_"
      if (p2 = p1 + 1 ∧ e.ch p1 = rn%'_') ∧ e.ch p2 = rn%'#' then
        (scanIdentifier e f (e.next p2)).bind fun p3 => tk st p3 true .ILLEGAL
      else tk st p2 true .IDENT

/-- `case '\n'` (only reached with insertEOL set; the newline is consumed) -/
def scanNewline (e : Env) (f : Nat) (st : St) (p1 : Nat) : Res Step :=
  (skipWhitespace e false f p1).bind fun p2 =>
    if e.ch p2 = rn%',' ∨ e.ch p2 = rn%':' then .ok (.again { st with pos := p2, eol := false })
    else tk st p2 false .COMMA_ELIDED

/-- `case '#'` of the inner switch (`for quote.numHash++; s.ch == '#'; quote.numHash++ { s.next() }`) -/
def scanHashStr (e : Env) (f : Nat) (st : St) (numHash : Nat) (p1 : Nat) : Res Step :=
  (whileCh e (fun c => decide (c = rn%'#')) f p1).bind fun p2 =>
    let numHash := numHash + 1 + (p2 - p1)
    let c' := e.ch p2
    if c' ≠ rn%'\'' ∧ c' ≠ rn%'"' then tk st p2 false .ILLEGAL   -- tok stays 0 = ILLEGAL
    else stringStart e f st numHash c' (e.next p2)

/-- `case '@'`: the identifier of scanAttribute; the rest needs Scan (see `scan`) -/
def scanAt (e : Env) (f : Nat) (st : St) (p1 : Nat) : Res Step :=
  (scanIdentifier e f p1).bind fun p2 => .ok (.attr { st with pos := p2 })

/-- `case '.'` -/
def scanDot (e : Env) (st : St) (offset p1 : Nat) : Res Step :=
  if rn%'0' ≤ e.ch p1 ∧ e.ch p1 ≤ rn%'9' then scanNumber e st offset
  else if e.ch p1 = rn%'.' then
    let p2 := e.next p1
    if e.ch p2 = rn%'.' then tk st (e.next p2) true .ELLIPSIS
    else tk st p2 false .ILLEGAL   -- error "illegal token '..'", tok stays 0 = ILLEGAL
  else tk st p1 false .PERIOD

/-- `case '/'` -/
def scanSlash (e : Env) (f : Nat) (st : St) (offset p1 : Nat) : Res Step :=
  if e.ch p1 = rn%'/' then
    if st.eol = true then
      -- reset position to the beginning of the comment; insertEOL = false
      tk st offset false .COMMA_ELIDED
    else (scanComment e f p1).bind fun p2 => tk st p2 false .COMMENT
  else tk st p1 false .QUO

/-- the `default:` arm of Scan's outer switch (also reached by `fallthrough` from the identifier
arm with `numHash = 1`).  `offset` = token start, the scanner is at `p` with `c = s.ch`. -/
def scanDefault (e : Env) (f : Nat) (st : St) (offset : Nat) (numHash : Nat) (c : Int) (p : Nat) :
    Res Step :=
  let p1 := e.next p   -- always make progress
  if c = -1 then
    if st.eol = true then tk st p1 false .COMMA_ELIDED else tk st p1 false .EOF
  else if c = rn%'_' then scanUnderscore e f st p1
  else if c = rn%'\n' then scanNewline e f st p1
  else if c = rn%'#' then scanHashStr e f st numHash p1
  else if c = rn%'"' ∨ c = rn%'\'' then stringStart e f st numHash c p1
  else if c = rn%'@' then scanAt e f st p1
  else if c = rn%':' then tk st p1 false .COLON
  else if c = rn%';' then tk st p1 true .SEMI
  else if c = rn%'?' then tk st p1 true .OPTION
  else if c = rn%'~' then tk st p1 false .TILDE
  else if c = rn%'.' then scanDot e st offset p1
  else if c = rn%',' then tk st p1 false .COMMA
  else if c = rn%'(' then tk st p1 false .LPAREN
  else if c = rn%')' then tk st p1 true .RPAREN
  else if c = rn%'[' then tk st p1 false .LBRACK
  else if c = rn%']' then tk st p1 true .RBRACK
  else if c = rn%'{' then tk st p1 false .LBRACE
  else if c = rn%'}' then tk st p1 true .RBRACE
  else if c = rn%'+' then tk st p1 false .ADD
  else if c = rn%'-' then tk st p1 false .SUB
  else if c = rn%'*' then tk st p1 false .MUL
  else if c = rn%'/' then scanSlash e f st offset p1
  else if c = rn%'<' then
    if e.ch p1 = rn%'-' then tk st (e.next p1) false .ARROW else .ok (switch2 e st p1 .LSS .LEQ)
  else if c = rn%'>' then .ok (switch2 e st p1 .GTR .GEQ)
  else if c = rn%'=' then
    if e.ch p1 = rn%'~' then tk st (e.next p1) false .MAT else .ok (switch2 e st p1 .BIND .EQL)
  else if c = rn%'!' then
    if e.ch p1 = rn%'~' then tk st (e.next p1) false .NMAT else .ok (switch2 e st p1 .NOT .NEQ)
  else if c = rn%'&' then
    if e.ch p1 = rn%'&' then tk st (e.next p1) false .LAND else tk st p1 false .AND
  else if c = rn%'|' then
    if e.ch p1 = rn%'|' then tk st (e.next p1) false .LOR else tk st p1 false .OR
  else tk st p1 st.eol .ILLEGAL   -- insertEOL = s.insertEOL

/-- the body of Scan after skipWhitespace, scanner at `offset` -/
def scanStep (e : Env) (f : Nat) (st : St) (offset : Nat) : Res Step :=
  let c := e.ch offset
  if rn%'0' ≤ c ∧ c ≤ rn%'9' then scanNumber e st offset
  else if isLetter e c = true ∨ c = rn%'$' ∨ c = rn%'#' then
    (scanFieldIdentifier e f offset).bind fun p1 =>
      -- Go: len(lit) > 1 in BYTES; a single non-ASCII letter has ch ≠ '#', so both arms give IDENT
      if p1 - offset > 1 then .ok (.done { st with pos := p1, eol := true } .IDENT)
      else if c ≠ rn%'#' ∨ (e.ch p1 ≠ rn%'\'' ∧ e.ch p1 ≠ rn%'"' ∧ e.ch p1 ≠ rn%'#') then
        .ok (.done { st with pos := p1, eol := true } .IDENT)
      else scanDefault e f st offset 1 (e.ch p1) p1
  else scanDefault e f st offset 0 c offset

def popQuote (st : St) : Res (Quote × St) :=
  match st.stack with
  | q :: rest => .ok (q, { st with stack := rest })
  | [] => .panic

inductive Close where | paren | brack | brace
  deriving Repr, DecidableEq

def Close.cls : Close → Cls
  | .paren => .RPAREN | .brack => .RBRACK | .brace => .RBRACE

mutual
/-- Scan: `(state after, token start, class)` -/
def scan (e : Env) : Nat → St → Res (St × Nat × Cls)
  | 0, _ => .fuel
  | f + 1, st =>
    (skipWhitespace e st.eol f st.pos).bind fun offset =>
    (scanStep e f st offset).bind fun step =>
      match step with
      | .done st' cls => .ok (st', offset, cls)
      | .again st' => scan e f st'
      | .attr st1 =>
        -- scanAttribute: `if _, tok, _ := s.Scan(); tok == token.LPAREN { scanAttributeTokens }`
        (scan e f st1).bind fun r =>
          if r.2.2 = .LPAREN then
            (scanAttrTokens e f .paren r.1).bind fun st3 => .ok ({ st3 with eol := true }, offset, .ATTR)
          else .ok ({ r.1 with eol := true }, offset, .ATTR)
/-- scanAttributeTokens(close) -/
def scanAttrTokens (e : Env) : Nat → Close → St → Res St
  | 0, _, _ => .fuel
  | f + 1, close, st =>
    (scan e f st).bind fun r =>
      let st1 := r.1
      let tok := r.2.2
      if tok = close.cls then .ok st1
      else if tok = .EOF then .ok st1
      else if tok = .INTERP then
        (popQuote st1).bind fun qs =>
        (recoverParen e f 1 qs.2.pos).bind fun p =>
          scanAttrTokens e f close { qs.2 with pos := p }
      else if tok = .LPAREN then
        (scanAttrTokens e f .paren st1).bind fun st2 => scanAttrTokens e f close st2
      else if tok = .LBRACE then
        (scanAttrTokens e f .brace st1).bind fun st2 => scanAttrTokens e f close st2
      else if tok = .LBRACK then
        (scanAttrTokens e f .brack st1).bind fun st2 => scanAttrTokens e f close st2
      else scanAttrTokens e f close st1
end

/-- ResumeInterpolation: `(state after, position before the call, STRING / INTERP)` -/
def resume (e : Env) (f : Nat) (st : St) : Res (St × Nat × Cls) :=
  (popQuote st).bind fun qs =>
  (scanString e qs.1 true f qs.2.pos).bind fun r =>
    if r.2 = true then .ok ({ qs.2 with pos := r.1, stack := qs.1 :: qs.2.stack }, st.pos, .INTERP)
    else .ok ({ qs.2 with pos := r.1 }, st.pos, .STRING)

abbrev Trace := List (Nat × Nat × Cls)

/-- `strings.HasSuffix(lit, "(")` for the literal returned by ResumeInterpolation: an
INTERPOLATION literal ends in the '(' (extra = 1); a STRING literal is `src[offs:s.offset]`
(non-empty: it starts at the ')' before the call). -/
def resumeEndsInParen (e : Env) (r : St × Nat × Cls) : Bool :=
  decide (r.2.2 = .INTERP) || decide (0 < r.1.pos ∧ e.ch (r.1.pos - 1) = rn%'(')

/-- The client: Scan until EOF with the parser's interpolation bookkeeping.  `depth` = one
parenthesis counter per open interpolation (innermost first).  Trace entries are in REVERSE
order in `acc`. -/
def scanAllLoop (e : Env) : Nat → St → List Nat → Trace → Res Trace
  | 0, _, _, _ => .fuel
  | f + 1, st, depth, acc =>
    (scan e f st).bind fun r =>
      let st1 := r.1
      let cls := r.2.2
      let acc := (r.2.1, st1.pos, cls) :: acc
      if cls = .EOF then .ok acc.reverse
      else if cls = .INTERP then scanAllLoop e f st1 (0 :: depth) acc
      else match depth with
        | [] => scanAllLoop e f st1 [] acc
        | d :: rest =>
          if cls = .LPAREN then scanAllLoop e f st1 ((d + 1) :: rest) acc
          else if cls = .RPAREN then
            if d ≤ 1 then
              (resume e f st1).bind fun r2 =>
                if resumeEndsInParen e r2 = true then
                  scanAllLoop e f r2.1 (0 :: rest) ((r2.2.1, r2.1.pos, .RESUME_OPEN) :: acc)
                else scanAllLoop e f r2.1 rest ((r2.2.1, r2.1.pos, .RESUME) :: acc)
            else scanAllLoop e f st1 ((d - 1) :: rest) acc
          else scanAllLoop e f st1 depth acc

def initSt (e : Env) : St := { pos := initPos e, eol := false, stack := [] }

/-- fuel that provably suffices (Proofs/ScanLoops.lean: `scanAll_total`) -/
def scanAllFuel (e : Env) : Nat := 2 * e.len + 4

def scanAll (e : Env) : Res Trace := scanAllLoop e (scanAllFuel e) (initSt e) [] []

end CueVerif.ScanLoops
