/-
C03 — executable model of how the evaluator unifies atoms, basic types and bounds.

Transcribed Go (all in internal/core/adt unless noted; fingerprints in Bridge/C03.lean):
  * `SimplifyBounds`, `opInfo`, `errIncompatibleBounds`            (simplify.go)
  * `nodeContext.insertValueConjunct` — the `*BasicType`, `*BoundValue`, scalar `Value`
    and `*Bottom` cases and the lower/upper re-check at the end       (conjunct.go)
  * `nodeContext.updateNodeType`                                       (eval.go)
  * `nodeContext.validateValue` (bounds against the scalar), the validation of `n.checks`
    in `Vertex.unify`, `nodeContext.getValidators` (residual, `!=` pruning)   (eval.go, unify.go)
  * `BoundValue.Kind`, `BoundValue.validate`, `BoundExpr.evaluate` (operand kind check)  (expr.go)
  * `BinOp`/`BinOpBool`/`cmpTonode` restricted to comparison and match operators on atoms (binop.go)
  * `predefinedRanges`, `mkIntRange`, `mkFloatRange`, `mkUint`        (compile/predeclared.go)

Pointer mutation of the nodeContext is state passing (`SNode`).  The scheduler is not
modelled: its only assumed effect is that each conjunct is inserted once, left to right
(the theorems hold for every order).  Regular-expression matching is the parameter `re`
(`re pattern subject`).  Strings and bytes are lists of byte values; Go compares them
bytewise (`strings.Compare`, `bytes.Compare`), which is `compare` on `List Nat`.
-/
import CueVerif.Model.Dec
namespace CueVerif.Scalar
open CueVerif

abbrev Bytes := List Nat

inductive Atom
  | null
  | bool (b : Bool)
  | int (z : Int)
  | float (d : Dec)
  | str (s : Bytes)
  | bytes (s : Bytes)
deriving DecidableEq, Repr, Inhabited

/-- adt.Kind as the bit set of kind.go (only the six scalar bits matter for atoms). -/
abbrev Kind := Nat

namespace Kind
def null : Kind := 1
def bool : Kind := 2
def int : Kind := 4
def float : Kind := 8
def string : Kind := 16
def bytes : Kind := 32
def number : Kind := 12
def top : Kind := 511
def bottom : Kind := 0
/-- `TopKind &^ NullKind` -/
def nonNull : Kind := 510
end Kind

/-- bit index of an atom's kind -/
def Atom.kindBit : Atom → Nat
  | .null => 0 | .bool _ => 1 | .int _ => 2 | .float _ => 3 | .str _ => 4 | .bytes _ => 5

/-- `Value.Kind()` of a literal -/
def Atom.kind (a : Atom) : Kind := 2 ^ a.kindBit

/-- the atom's kind is allowed by the mask -/
def Kind.has (k : Kind) (a : Atom) : Bool := k.testBit a.kindBit

/-- `k & FloatKind != 0` -/
def Kind.hasFloat (k : Kind) : Bool := k.testBit 3

inductive Op | lt | le | gt | ge | ne | mat | nmat
deriving DecidableEq, Repr, Inhabited

structure Bound where
  op : Op
  val : Atom
deriving DecidableEq, Repr, Inhabited

/-- predeclared numeric ranges of compile/predeclared.go -/
inductive Range
  | rune | int8 | int16 | int32 | int64 | int128
  | uint | uint8 | uint16 | uint32 | uint64 | uint128
  | float32 | float64
deriving DecidableEq, Repr, Inhabited

/-- the basic types CUE source can name (`null` is the atom; `_` is top) -/
inductive BType | bool | int | float | number | string | bytes | top
deriving DecidableEq, Repr, Inhabited

/-- `BasicType.K` -/
def BType.kind : BType → Kind
  | .bool => Kind.bool | .int => Kind.int | .float => Kind.float | .number => Kind.number
  | .string => Kind.string | .bytes => Kind.bytes | .top => Kind.top

inductive Constraint
  | atom (a : Atom)
  | type (t : BType)
  | bound (b : Bound)
  | range (r : Range)
deriving DecidableEq, Repr, Inhabited

/-! ### comparison of atoms (BinOp on concrete scalars) -/

/-- the number an int/float atom denotes -/
def Atom.num? : Atom → Option Dec
  | .int z => some (Dec.ofInt z)
  | .float d => some d
  | _ => none

/-- three-way comparison where `BinOp` defines `<`: number/number, string/string, bytes/bytes -/
def ordCmp : Atom → Atom → Option Ordering
  | .str a, .str b => some (compare a b)
  | .bytes a, .bytes b => some (compare a b)
  | a, b => match a.num?, b.num? with
    | some x, some y => some (Dec.cmp x y)
    | _, _ => none

/-- `cmpTonode`: the truth of `v op b` given `cmp v b` -/
def opHolds : Op → Ordering → Bool
  | .lt, o => o == .lt
  | .le, o => o != .gt
  | .gt, o => o == .gt
  | .ge, o => o != .lt
  | .ne, o => o != .eq
  | _, _ => false

/-- `BinOp(EqualOp, a, b)` as a Bool on atoms: numbers by value, otherwise same kind and equal -/
def Atom.eqv : Atom → Atom → Bool
  | .null, .null => true
  | .bool a, .bool b => a == b
  | .str a, .str b => a == b
  | .bytes a, .bytes b => a == b
  | a, b => match a.num?, b.num? with
    | some x, some y => Dec.cmp x y == .eq
    | _, _ => false

def Atom.isStr : Atom → Bool
  | .str _ => true
  | _ => false

def Atom.strVal : Atom → Bytes
  | .str s => s
  | _ => []

/-- `BinOpBool(ctx, nil, op, l, r)` for the comparison and match operators on atoms.
Mismatched operands make `BinOp` return an error value, hence `false`; `!=` between
different non-number kinds is `true` (struct-comparison experiment / null rule). -/
def binOpBool (re : Bytes → Bytes → Bool) (op : Op) (l r : Atom) : Bool :=
  match op with
  | .ne => !(l.eqv r)
  | .mat => l.isStr && r.isStr && re r.strVal l.strVal
  | .nmat => l.isStr && r.isStr && !(re r.strVal l.strVal)
  | op => match ordCmp l r with
    | some o => opHolds op o
    | none => false

/-- `BinOpBool(ctx, nil, EqualOp, l, r)` -/
def binOpEq (l r : Atom) : Bool := l.eqv r

/-! ### bounds -/

/-- `BoundValue.Kind` -/
def Bound.kind (b : Bound) : Kind :=
  match b.val with
  | .int _ | .float _ => Kind.number
  | .null => if b.op == .ne then Kind.nonNull else Kind.null
  | v => v.kind

/-- `BoundExpr.evaluate`: operand kinds a bound operator accepts (others are an error) -/
def Bound.wellTyped (b : Bound) : Bool :=
  match b.val with
  | .null | .bool _ => b.op == .ne
  | _ => true

/-- `opInfo`: (comparison used to pick the tighter of two same-direction bounds, category) -/
def opInfo : Op → Op × Int
  | .gt => (.ge, 1)
  | .ge => (.gt, 1)
  | .lt => (.le, -1)
  | .le => (.lt, -1)
  | .ne => (.ne, 0)
  | .mat => (.mat, 2)
  | .nmat => (.nmat, 3)

inductive Outcome | keepX | keepY | both | err
deriving DecidableEq, Repr, Inhabited

/-- "Readjust bounds for integers": `>=3.4 ⇒ >=4`, `>3.4 ⇒ >3` (only when `k&FloatKind == 0`
and the operand has a negative exponent); `none` = `Ceil/Floor` reported Inexact → `break` -/
def adjLo (k : Kind) (xop : Op) (a : Dec) : Option Dec :=
  if !k.hasFloat && a.exp < 0 then (if xop == .ge then Dec.ceil34? a else Dec.floor34? a) else some a

/-- `<=2.3 ⇒ <=2`, `<2.3 ⇒ <3` -/
def adjHi (k : Kind) (yop : Op) (b : Dec) : Option Dec :=
  if !k.hasFloat && b.exp < 0 then (if yop == .le then Dec.floor34? b else Dec.ceil34? b) else some b

/-- the comparison of the (adjusted) ends: fast path, `Sub` with the Inexact escape, the sign
and the values 0 and 1 of the difference (`d.Int64()`; the value 2 never changes the result) -/
def numOppCore (k : Kind) (xop yop : Op) (lo hi : Dec) : Outcome :=
  -- fast path: minimum ≤ 0 and a maximum of at least two digits
  if hi.sign > 0 && lo.sign ≤ 0 && decide (0 ≤ hi.exp) && decide (10 ≤ hi.coeff.natAbs) then .both else
  match Dec.sub34 hi lo with
  | none => .both
  | some d =>
    if d.coeff < 0 then .err else
    match d.intVal? with
    | none => .both
    | some z =>
      if z == 1 then
        (if !k.hasFloat && xop == Op.gt && yop == Op.lt then .err else .both)
      else if z == 0 then
        (if xop == Op.ge && yop == Op.le then .both else .err)
      else .both

/-- the numeric opposite-direction cell (`xCat == -yCat`, operands `*Num`), after the swap that
makes `x` the lower and `y` the upper bound -/
def simplifyNumOpp (k : Kind) (xop yop : Op) (a b : Dec) : Outcome :=
  match adjLo k xop a, adjHi k yop b with
  | some lo, some hi => numOppCore k xop yop lo hi
  | _, _ => .both

/-- the string / bytes opposite-direction cells, after the swap -/
def simplifyStrOpp (xop yop : Op) (c : Ordering) : Outcome :=
  match c with
  | .lt => .both
  | .eq => if xop == .ge && yop == .le then .both else .err
  | .gt => .err

/-- `xCat == yCat` -/
def simplifySame (re : Bytes → Bytes → Bool) (x y : Bound) : Outcome :=
  match x.op with
  | .ne | .mat | .nmat => if binOpEq x.val y.val then .keepX else .both
  | _ => if binOpBool re (opInfo x.op).1 x.val y.val then .keepX else .keepY

/-- `xCat == -yCat`, after the swap that makes `lo` the lower and `hi` the upper bound -/
def simplifyOpp (k : Kind) (lo hi : Bound) : Outcome :=
  if k == Kind.string then
    match lo.val, hi.val with
    | .str a, .str b => simplifyStrOpp lo.op hi.op (compare a b)
    | _, _ => .both
  else if k == Kind.bytes then
    match lo.val, hi.val with
    | .bytes a, .bytes b => simplifyStrOpp lo.op hi.op (compare a b)
    | _, _ => .both
  else
    match lo.val.num?, hi.val.num? with
    | some a, some b => simplifyNumOpp k lo.op hi.op a b
    | _, _ => .both

/-- the last four cases: one side is `!=` -/
def simplifyNe (re : Bytes → Bytes → Bool) (x y : Bound) : Outcome :=
  if x.op == .ne then
    if !(binOpBool re y.op x.val y.val) then .keepY else .both
  else if y.op == .ne then
    if !(binOpBool re x.op y.val x.val) then .keepX else .both
  else .both

/-- `SimplifyBounds(ctx, k, x, y)`: `keepX`/`keepY` = returns `x`/`y`, `both` = returns nil,
`err` = returns a `*Bottom`. -/
def simplifyBounds (re : Bytes → Bytes → Bool) (k : Kind) (x y : Bound) : Outcome :=
  let xCat := (opInfo x.op).2
  let yCat := (opInfo y.op).2
  if xCat == yCat then simplifySame re x y
  else if xCat == -yCat then
    (if xCat == -1 then simplifyOpp k y x else simplifyOpp k x y)
  else simplifyNe re x y

/-! ### the node state and conjunct insertion -/

structure SNode where
  kind : Kind := Kind.top
  scalar : Option Atom := none
  lower : Option Bound := none     -- `>` / `>=`
  upper : Option Bound := none     -- `<` / `<=`
  checks : List Bound := []        -- `!=`, `=~`, `!~`
  err : Bool := false
deriving DecidableEq, Repr, Inhabited

def SNode.top : SNode := {}

/-- the re-check at the end of `insertValueConjunct` -/
def recheck (re : Bytes → Bytes → Bool) (n : SNode) : SNode :=
  match n.lower, n.upper with
  | some l, some u =>
    match simplifyBounds re n.kind l u with
    | .err => { n with lower := none, upper := none, err := true }
    | _ => n   -- `both`; keepX/keepY cannot come out of a lower/upper pair
  | _, _ => n

/-- `updateNodeType`: intersect the kind; `none` when the caller must stop (kind already or
now bottom — in the latter case an error has been recorded) -/
def updateKind (n : SNode) (k : Kind) : SNode × Bool :=
  if n.kind == Kind.bottom || k == Kind.bottom then (n, false)
  else
    let kind := n.kind &&& k
    if kind == Kind.bottom then ({ n with kind := kind, err := true }, false)
    else ({ n with kind := kind }, true)

/-- the `!=`/`=~`/`!~` branch: `slices.DeleteFunc` over `n.checks` with `match` accumulation -/
def insertCheck (re : Bytes → Bytes → Bool) (k : Kind) (x : Bound) :
    List Bound → List Bound × Bool
  | [] => ([], false)
  | y :: ys =>
    let (rest, m) := insertCheck re k x ys
    match simplifyBounds re k x y with
    | .keepY => (y :: rest, true)
    | .keepX => (rest, m)
    | _ => (y :: rest, m)

/-- a new `>`/`>=` bound against the stored lower bound: `SimplifyBounds` returns the tighter one,
which is then stored (the recursion of the Go code re-enters with an empty slot) -/
def slotLower (re : Bytes → Bytes → Bool) (n : SNode) (x : Bound) : SNode :=
  match n.lower with
  | some y => if simplifyBounds re n.kind x y == .keepY then n else { n with lower := some x }
  | none => { n with lower := some x }

def slotUpper (re : Bytes → Bytes → Bool) (n : SNode) (x : Bound) : SNode :=
  match n.upper with
  | some y => if simplifyBounds re n.kind x y == .keepY then n else { n with upper := some x }
  | none => { n with upper := some x }

def addCheck (re : Bytes → Bytes → Bool) (n : SNode) (x : Bound) : SNode :=
  let (cs, m) := insertCheck re n.kind x n.checks
  { n with checks := if m then cs else cs ++ [x] }

/-- what happens to a bound after `updateNodeType` succeeded -/
def placeBound (re : Bytes → Bytes → Bool) (n : SNode) (x : Bound) : SNode :=
  match x.op with
  | .gt | .ge => recheck re (slotLower re n x)
  | .lt | .le => recheck re (slotUpper re n x)
  | _ => addCheck re n x          -- returns before the re-check

def insertBound (re : Bytes → Bytes → Bool) (n0 : SNode) (x : Bound) : SNode :=
  if !x.wellTyped then { n0 with err := true } else   -- BoundExpr.evaluate fails
  let r := updateKind n0 x.kind
  if !r.2 then r.1 else placeBound re r.1 x

/-- a scalar against the stored scalar -/
def placeAtom (re : Bytes → Bytes → Bool) (n : SNode) (a : Atom) : SNode :=
  let n := match n.scalar with
    | some y => if binOpEq a y then n else { n with err := true }
    | none => { n with scalar := some a }
  recheck re n

def insertAtom (re : Bytes → Bytes → Bool) (n0 : SNode) (a : Atom) : SNode :=
  let r := updateKind n0 a.kind
  if !r.2 then r.1 else placeAtom re r.1 a

def insertType (re : Bytes → Bytes → Bool) (n0 : SNode) (k : Kind) : SNode :=
  let r := updateKind n0 k
  if !r.2 then r.1 else recheck re r.1

/-- predeclared integer ranges: `(lower, upper)`; `uint` has no upper bound -/
def Range.intSpec : Range → Option (Int × Option Int)
  | .rune => some (0, some 1114111)
  | .int8 => some (-128, some 127)
  | .int16 => some (-32768, some 32767)
  | .int32 => some (-2147483648, some 2147483647)
  | .int64 => some (-9223372036854775808, some 9223372036854775807)
  | .int128 => some (-170141183460469231731687303715884105728, some 170141183460469231731687303715884105727)
  | .uint => some (0, none)
  | .uint8 => some (0, some 255)
  | .uint16 => some (0, some 65535)
  | .uint32 => some (0, some 4294967295)
  | .uint64 => some (0, some 18446744073709551615)
  | .uint128 => some (0, some 340282366920938463463374607431768211455)
  | .float32 => none
  | .float64 => none

/-- 3.40282346638528859811704183484516925440e+38 and 1.797693134862315708145274237317043567981e+308
as apd parses them -/
def float32Max : Dec := ⟨340282346638528859811704183484516925440, 0⟩
def float64Max : Dec := ⟨1797693134862315708145274237317043567981, 269⟩

/-- the conjunction a predeclared range identifier compiles to (`mkIntRange`, `mkUint`,
`mkFloatRange`) -/
def Range.floatMax : Range → Dec
  | .float64 => float64Max
  | _ => float32Max

def Range.expand (r : Range) : List Constraint :=
  match r.intSpec with
  | none => [.bound ⟨.ge, .float r.floatMax.neg⟩, .bound ⟨.le, .float r.floatMax⟩]
  | some (lo, hi) =>
    [.type .int, .bound ⟨.ge, .int lo⟩] ++
      (match hi with | some h => [.bound ⟨.le, .int h⟩] | none => [])

def insertBasic (re : Bytes → Bytes → Bool) (n : SNode) : Constraint → SNode
  | .atom a => insertAtom re n a
  | .type t => insertType re n t.kind
  | .bound b => insertBound re n b
  | .range _ => n

/-- `insertValueConjunct` for one conjunct (`*Conjunction` for the predeclared ranges) -/
def insert (re : Bytes → Bytes → Bool) (n : SNode) : Constraint → SNode
  | .range r => r.expand.foldl (insertBasic re) n
  | c => insertBasic re n c

/-! ### finalisation -/

/-- `BoundValue.validate` against a concrete scalar: `BinOp(op, v, b.val)` is `true` -/
def validate (re : Bytes → Bytes → Bool) (b : Bound) (v : Atom) : Bool :=
  binOpBool re b.op v b.val

def optAll (o : Option Bound) (p : Bound → Bool) : Bool :=
  match o with
  | some b => p b
  | none => true

inductive Result
  | bottom
  | atom (a : Atom)
  | residual (k : Kind) (bs : List Bound)
deriving DecidableEq, Repr, Inhabited

/-- `getValidators`: surviving bounds (a `!=` that another bound already excludes is dropped) -/
def residualBounds (re : Bytes → Bytes → Bool) (n : SNode) : List Bound :=
  n.lower.toList ++ n.upper.toList ++
  n.checks.filter fun c =>
    !(c.op == .ne &&
      ((match n.upper with | some u => simplifyBounds re n.kind u c != .both | none => false) ||
       (match n.lower with | some l => simplifyBounds re n.kind l c != .both | none => false)))

/-- `validateValue` + check validation + `getValidators` -/
def finalize (re : Bytes → Bytes → Bool) (n : SNode) : Result :=
  if n.err then .bottom else
  match n.scalar with
  | some v =>
    if optAll n.lower (validate re · v) && optAll n.upper (validate re · v) &&
       n.checks.all (validate re · v) then .atom v else .bottom
  | none => .residual n.kind (residualBounds re n)

/-- evaluation of `c₁ & … & cₙ` -/
def evalS (re : Bytes → Bytes → Bool) (cs : List Constraint) : Result :=
  finalize re (cs.foldl (insert re) SNode.top)

end CueVerif.Scalar
