/-
C19 — the global label/string intern table of internal/core/runtime/index.go
(`getKey`, `index.IndexToString`, package variables `labelMap`, `labels`, `mutex`) as an
instance of the generic lock machine of Model/Lockset.lean.

* The CONTROL of each function — the ordered lock operations, accesses, branches and
  returns — is `getKeyProg` / `indexToStringProg` below; Bridge/C19.lean proves they are
  equal to the lists REGENERATED from the source (`Gen.C19.proto_getKey`, …).
* The DATA effect of each access kind is transcribed by hand in `sem` (and the source
  text of both functions is pinned in the bridge):
      p, ok := labelMap[s]        acc "labelMap" lookup
      p = len(labels)             acc "labels" len
      labels = append(labels, s)  acc "labels" append
      labelMap[s] = p             acc "labelMap" store
      s := labels[i]              acc "labels" index     (out of range = Go panic: `out := none`)
  The Go map is an association list whose first match wins (a store conses).
* `lin` is a GHOST field (never read by `cond` or by any data effect): it records, at the
  thread's linearization point, the index the abstract insert-once map hands out.

Core Lean only.
-/
import CueVerif.Model.Lockset
import CueVerif.Spec.Intern
namespace CueVerif.Intern
open CueVerif.Lockset

abbrev Key := InternSpec.Key

structure Tab where
  map : List (Key × Nat)
  labels : List Key
deriving Repr

/-- locals of one call: `getKey(s)` uses s, p, ok; `IndexToString(i)` uses i, out -/
structure Loc where
  s : Key
  i : Nat
  p : Nat
  ok : Bool
  out : Option Key
  /-- ghost: result handed out at the linearization point -/
  lin : Option Nat
deriving Repr

def lookup (m : List (Key × Nat)) (k : Key) : Option Nat :=
  match m with
  | [] => none
  | (x, v) :: r => if x = k then some v else lookup r k

def sem : Sem Tab Loc where
  acc := fun x k d l =>
    if x = "labelMap" ∧ k = .lookup then
      match lookup d.map l.s with
      | some v => (d, { l with p := v, ok := true, lin := if l.lin.isNone then some v else l.lin })
      | none => (d, { l with p := 0, ok := false })
    else if x = "labels" ∧ k = .len then (d, { l with p := d.labels.length })
    else if x = "labels" ∧ k = .append then
      ({ d with labels := d.labels ++ [l.s] },
       { l with lin := if l.lin.isNone then some d.labels.length else l.lin })
    else if x = "labelMap" ∧ k = .store then ({ d with map := (l.s, l.p) :: d.map }, l)
    else if x = "labels" ∧ k = .index then (d, { l with out := d.labels[l.i]? })
    else (d, l)
  cond := fun c l => if c = "ok" then l.ok else false

/-- `func getKey(s string) int64` -/
def getKeyProg : Prog :=
  [ .acq "mutex" false,            -- 0  mutex.RLock()
    .acc "labelMap" .lookup,       -- 1  p, ok := labelMap[s]
    .rel "mutex" false,            -- 2  mutex.RUnlock()
    .br "ok" 1,                    -- 3  if ok {
    .ret,                          -- 4      return int64(p) }
    .acq "mutex" true,             -- 5  mutex.Lock()
    .dfr "mutex" true,             -- 6  defer mutex.Unlock()
    .acc "labelMap" .lookup,       -- 7  p, ok = labelMap[s]
    .br "ok" 1,                    -- 8  if ok {
    .ret,                          -- 9      return int64(p) }
    .acc "labels" .len,            -- 10 p = len(labels)
    .acc "labels" .append,         -- 11 labels = append(labels, s)
    .acc "labelMap" .store,        -- 12 labelMap[s] = p
    .ret ]                         -- 13 return int64(p)

/-- `func (x *index) IndexToString(i int64) string` -/
def indexToStringProg : Prog :=
  [ .acq "mutex" false,            -- 0 mutex.RLock()
    .acc "labels" .index,          -- 1 s := labels[i]
    .rel "mutex" false,            -- 2 mutex.RUnlock()
    .ret ]                         -- 3 return s

def progs : List Prog := [getKeyProg, indexToStringProg]

/-- admissible initial locals of a call: nothing computed yet -/
def initL (l : Loc) : Prop := l.ok = false ∧ l.out = none ∧ l.lin = none

/-- which mutex guards which variable (the locking policy the protocols are checked
against): the two package variables of index.go by `mutex`, the fields of
`runtime.index` / `Runtime.loaded` by `index.lock` -/
def guard (x : Lockset.Loc) : Lk :=
  if x = "labelMap" ∨ x = "labels" then "mutex" else "lock"

/-- the table is a consistent insert-once map: `labelMap` is exactly the inverse of
`labels` (hence `labels` has no duplicates) -/
def Consistent (d : Tab) : Prop :=
  ∀ k i, lookup d.map k = some i ↔ d.labels[i]? = some k

abbrev State := St Tab Loc
abbrev IStep := Step sem progs initL
abbrev IRun (d0 : Tab) := Run sem progs initL d0

/-! ### driver helpers -/

def mkLoc (s : Key) (i : Nat) : Loc := { s := s, i := i, p := 0, ok := false, out := none, lin := none }

/-- table with `base` placeholder entries (cf. `InternSpec.baseTable`) -/
def baseTab (base : Nat) : Tab :=
  let ls := InternSpec.baseTable base
  { map := (List.range base).map (fun i => ([256 + i], i)), labels := ls }

end CueVerif.Intern
