/-
Model of `token.File`'s position table (property C09, "every reported position lies within
the input").  Transcribes /repo/cue/token/position.go:

  `NewFile`, `(*File).fixOffset`, `(*File).AddLine`, `(*File).SetLines`,
  `(*File).SetLinesForContent`, `toPos`, `Pos.index`, `(*File).Pos`, `(*File).Offset`,
  `Pos.Add`, `searchInts` (the hand-inlined binary search), `(*File).unpack`,
  `(*File).position`, `(*File).PositionFor`, `(*File).Position`.

Representation.
* Go `int` / `index` values are `Int` (no 64-bit overflow is modelled: file sizes are far
  below 2^57, the largest offset that survives `<< relShift`).
* A `File` is its `size` and its `lines` table (`[]index`, in order).  The mutex, the name,
  the content, the experiments/layer fields are irrelevant to positions and dropped.
* `f.infos` (alternative `//line` information) is EMPTY in the model: `AddLineInfo` has no
  caller in the tree outside cue/token's own tests (regenerated fact
  `Gen.C09.addLineInfoCallSites = 0`, see Bridge/C09.lean), so the `adjusted && len(f.infos) > 0`
  branch of `unpack` is dead and `PositionFor(p, true) = PositionFor(p, false)`.
* A `Pos` of a given file is its packed integer `p.offset` (`(1+offset) << relShift | rel
  bits`); `p.file` is implicit.  A `Pos` returned by `f.Pos` always has `p.file != nil`, so
  `p.IsValid()` / `p.HasAbsPos()` hold and `PositionFor` takes its `f.position` branch.
* `x << relShift` is `x * 64`, `x >> relShift` (arithmetic) is floor division `x / 64`
  (`Int./` is floor division for a positive divisor); `relShift = 6` is regenerated.
* Slice indexing can panic in Go.  `searchInts` / `unpack` return `Res`: `.oob` is the
  index-out-of-range panic, `.fuel` the (never reached, proved) exhaustion of the loop fuel.

Core Lean only.
-/
namespace CueVerif.TokenFile

/-- `relShift` -/
def relShift : Nat := 6
/-- `1 << relShift` -/
def relUnit : Int := 64

structure File where
  size : Int
  lines : List Int
deriving Repr, DecidableEq

/-- `NewFile(name, base, size)` -/
def newFile (size : Int) : File := { size := size, lines := [0] }

/-- `(*File).fixOffset` -/
def fixOffset (f : File) (offset : Int) : Int :=
  if offset < 0 then 0 else if offset > f.size then f.size else offset

/-- `i == 0 || f.lines[i-1] < x` with `i = len(f.lines)` -/
def lastLt (lines : List Int) (x : Int) : Bool :=
  match lines.getLast? with
  | none => true
  | some l => decide (l < x)

/-- `(*File).AddLine`:
`if i := len(f.lines); (i == 0 || f.lines[i-1] < x) && x < f.size { append }` -/
def addLine (f : File) (offset : Int) : File :=
  if lastLt f.lines offset && decide (offset < f.size) then { f with lines := f.lines ++ [offset] } else f

/-- a sequence of `AddLine` calls -/
def addLines (f : File) (offsets : List Int) : File := offsets.foldl addLine f

/-- the validity loop of `(*File).SetLines`:
`if i > 0 && offset <= lines[i-1] || size <= index(offset) { return false }` -/
def setLinesOk (size : Int) (prev : Option Int) : List Int → Bool
  | [] => true
  | o :: rest =>
    let bad := (match prev with
      | some p => decide (o ≤ p)
      | none => false) || decide (size ≤ o)
    if bad then false else setLinesOk size (some o) rest

/-- `(*File).SetLines`: the new file and the boolean result -/
def setLines (f : File) (lines : List Int) : File × Bool :=
  if setLinesOk f.size none lines then ({ f with lines := lines }, true) else (f, false)

/-- the loop of `(*File).SetLinesForContent`; `line` is the local variable (−1 = none pending),
`off` the loop index -/
def linesForContentLoop : List Nat → Int → Int → List Int
  | [], _, _ => []
  | b :: rest, line, off =>
    let emit := if line ≥ 0 then [line] else []
    let line' := if b == 10 then off + 1 else -1
    emit ++ linesForContentLoop rest line' (off + 1)

/-- `(*File).SetLinesForContent` -/
def setLinesForContent (f : File) (content : List Nat) : File :=
  { f with lines := linesForContentLoop content 0 0 }

/-- `toPos` -/
def toPos (x : Int) : Int := x * relUnit
/-- `Pos.index` -/
def index (p : Int) : Int := p / relUnit

/-- `(*File).Pos(offset, rel)`: the packed position -/
def pos (f : File) (offset : Int) (rel : Int) : Int := toPos (1 + fixOffset f offset) + rel

/-- `(*File).Offset(p)` -/
def offset (f : File) (p : Int) : Int := fixOffset f (index p - 1)

/-- `Pos.Add(n)` on a position with a file -/
def add (p : Int) (n : Int) : Int := p + toPos n

/-- `Pos.RelPos`: `p.offset & relMask` (relMask = 15; the packed value is ≥ 0) -/
def relPos (p : Int) : Int := p % 16
/-- `Pos.HasComma`: `p.offset & commaBit != 0` (commaBit = 16) -/
def hasComma (p : Int) : Bool := p / 16 % 2 == 1
/-- `Pos.Scanned`: `p.offset & scannedBit != 0` (scannedBit = 32) -/
def scanned (p : Int) : Bool := p / 32 % 2 == 1

inductive Res (α : Type) where
  | ok (a : α)
  | oob
  | fuel
deriving Repr, DecidableEq

/-- the loop of `searchInts`: `for i < j { h := i + (j-i)/2; if a[h] <= x { i = h+1 } else { j = h } }` -/
def searchLoop (a : List Int) (x : Int) : Nat → Nat → Nat → Res Nat
  | 0, _, _ => .fuel
  | fuel + 1, i, j =>
    if i < j then
      let h := i + (j - i) / 2
      match a[h]? with
      | none => .oob
      | some v => if v ≤ x then searchLoop a x fuel (h + 1) j else searchLoop a x fuel i h
    else .ok i

/-- `searchInts(a, x)`: `i - 1` -/
def searchInts (a : List Int) (x : Int) : Res Int :=
  match searchLoop a x (a.length + 1) 0 a.length with
  | .ok i => .ok ((i : Int) - 1)
  | .oob => .oob
  | .fuel => .fuel

/-- `(*File).unpack(offset, adjusted)` with `f.infos` empty: (line, column) -/
def unpack (f : File) (off : Int) : Res (Int × Int) :=
  match searchInts f.lines off with
  | .ok i =>
    if i ≥ 0 then
      match f.lines[i.toNat]? with
      | some l => .ok (i + 1, off - l + 1)
      | none => .oob
    else .ok (0, 0)
  | .oob => .oob
  | .fuel => .fuel

structure Position where
  offset : Int
  line : Int
  column : Int
deriving Repr, DecidableEq

/-- `(*File).position` = `PositionFor` = `Position` for a valid `Pos` of this file -/
def position (f : File) (p : Int) : Res Position :=
  let o := offset f p
  match unpack f o with
  | .ok (l, c) => .ok ⟨o, l, c⟩
  | .oob => .oob
  | .fuel => .fuel

/-- the table the scanner builds: `(*Scanner).next` calls `AddLine(s.offset)` whenever the
previous character was '\n' (also at end of input, where `AddLine` ignores it) -/
def newlineOffsets : List Nat → Int → List Int
  | [], _ => []
  | b :: rest, off => (if b == 10 then [off + 1] else []) ++ newlineOffsets rest (off + 1)

/-- `NewFile` followed by the scanner's `AddLine` calls over `content` -/
def scannedFile (content : List Nat) : File :=
  addLines (newFile content.length) (newlineOffsets content 0)

end CueVerif.TokenFile
