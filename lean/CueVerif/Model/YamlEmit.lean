/-
C11 (extension) — the TEXT the in-repo encoder writes for a string scalar, next to the
`Decision` of Model/Yaml.lean (core Lean only).

Transcribed from internal/encoding/yaml/goccy/encode.go:
  singleQuoted, quoteScalar (as text: `'…'`, `strconv.Quote(s)` or "" = "no quoting needed");
and, for the reading side, the YAML 1.2 §7.3.2 single-quoted scalar on one line (`''` ↦ `'`).
`strconv.Quote` stays a PARAMETER (`goQuote`): C09's model owns Go quoting.

`singleQuoted`, `quoteScalar`, `numberKind` are tied by TRANSLATION (extract/lib_loops.go →
Gen/C11.lean, bridge theorems in Bridge/C11.lean), not by pins.
-/
import CueVerif.Model.Yaml
namespace CueVerif.Yaml
open CueVerif.Quote (Bytes)

/-- `singleQuoted`: `"'" + strings.ReplaceAll(s, "'", "''") + "'"` -/
def sqEsc (c : Nat) : Bytes := if c == 39 then [39, 39] else [c]
def singleQuoted (s : Bytes) : Bytes := [39] ++ s.flatMap sqEsc ++ [39]

/-- what a YAML reader makes of the inside of a single-quoted scalar on one line: `''` is a
quote, a lone `'` would have ended the scalar (`none`); `pending` = the previous byte was an
unpaired quote -/
def unquoteSingleAux (pending : Bool) : Bytes → Option Bytes
  | [] => if pending then none else some []
  | c :: t =>
    if pending then (if c == 39 then (unquoteSingleAux false t).map (39 :: ·) else none)
    else if c == 39 then unquoteSingleAux true t
    else (unquoteSingleAux false t).map (c :: ·)
def unquoteSingleBody (s : Bytes) : Option Bytes := unquoteSingleAux false s

/-- reading `'…'` (one line, the closing quote is the last byte) -/
def unquoteSingle (t : Bytes) : Option Bytes :=
  match t with
  | 39 :: rest =>
    match rest.reverse with
    | 39 :: body => unquoteSingleBody body.reverse
    | _ => none
  | _ => none

/-- the text `quoteScalar` returns for a `Decision` (`[]` = Go's "": hand the string to the
library unquoted) -/
def Decision.text (goQuote : Bytes → Bytes) (s : Bytes) : Decision → Bytes
  | .single => singleQuoted s
  | .double => goQuote s
  | .block => []
  | .lib => []

/-- `token.ILLEGAL/INT/FLOAT` as numbered in cue/token (regenerated: Gen.C11.token_*) -/
def NumKind.code : NumKind → Nat
  | .illegal => 0
  | .int => 6
  | .float => 7

end CueVerif.Yaml
