/-
Model of the VALUE of a CUE number literal and of number printing (property C06).
Core Lean only.  Acceptance and int/float kind of a spelling are C09's `NumLit.parseNum`
(imported, not modified); this file adds what the accepted spelling DENOTES in the
implementation, and how a number is printed.

Go code transcribed (/repo):
* cue/literal/num.go — the `p.buf` / `p.base` / `p.mul` side effects of `ParseNum`, `next`,
  `scanMantissa`, `scanNumber` (what ends up in the buffer for an accepted spelling: the digits
  without `_`, a leading `0` before a leading `.`, `e` + sign + digits), `NumInfo.decimal`
  (`Coeff.SetString(buf, base)` for bases 2/8/16; `UnmarshalText(buf)` whose error is RETURNED
  since /repo commit 1674508 — before it was ignored;
  `apd.BaseContext.Mul` by `mulToRat[p.mul]` (exact since /repo 06ced89), `RoundToIntegralExact`,
  Inexact ↦ "number cannot be represented as int"), `mulToRat` (1000^i, 1024^i);
* internal/core/compile/compile.go `compiler.parse` (INT/FLOAT cell: kind from `IsInt`, value
  from `Decimal`);
* internal/core/export/value.go `exporter.num` + cue/format/printer.go (INT/FLOAT cells of
  `printer.Print`): the text `Value.Syntax` + `format.Node` give for a computed number;
* cue/types.go `appendJSON` number cell (`apd.Decimal.Append(b, 'G')`).

apd is not transcribed; modelled by contract:
* `Decimal.setString` on a well-formed buffer: coefficient = the digits, exponent = written
  exponent − number of fraction digits; it FAILS (apd `setExponent` reports Overflow/Underflow,
  trapped by `BaseContext`) when the written exponent, the fraction length or the adjusted
  exponent is outside ±100000, when the written exponent does not fit int32
  (`strconv.ParseInt`), and when the buffer has no mantissa digits ("parse mantissa": only
  possible on the signed API route, see `parseNumValue`; for "0K" `scanNumber` supplies the
  skipped "0" itself since /repo 726bce5).  See `litExp`.
* `Decimal.Append(_, 'G')` (`fmtG`): `to-scientific-string` of the General Decimal Arithmetic
  spec with apd's zero padding rule.
-/
import CueVerif.Model.DecArith
namespace CueVerif.NumVal
open CueVerif CueVerif.Arith

abbrev Str := List Nat

/-! ### reading an accepted spelling -/

/-- consume digits and `_` (what `scanMantissa(10)` does on an accepted spelling); returns the
digits without separators and the rest -/
def takeDigits : Str → Str × Str
  | [] => ([], [])
  | c :: cs =>
    if NumLit.isDec c then
      let (d, r) := takeDigits cs
      (c :: d, r)
    else if c == 95 then takeDigits cs
    else ([], c :: cs)

/-- `big.Int.SetString(digits, base)` on valid digits: Horner -/
def horner (base : Nat) (ds : Str) : Nat :=
  ds.foldl (fun acc c => acc * base + NumLit.digitVal c) 0

/-- 'K' 'M' 'G' 'T' 'P' ↦ 1..5 (`charToMul`) -/
def mulIndex (c : Nat) : Nat :=
  if c == 75 then 1 else if c == 77 then 2 else if c == 71 then 3
  else if c == 84 then 4 else if c == 80 then 5 else 0

/-- `mulToRat[mulDec|i]` = 1000^i, `mulToRat[mulBin|i]` = 1024^i -/
def mulValue (i : Nat) (bin : Bool) : Nat := if bin then 1024 ^ i else 1000 ^ i

/-- the pieces of a base-10 spelling -/
structure Parts where
  intDs : Str := []        -- digits before the point
  fracDs : Str := []       -- digits after the point
  hasExp : Bool := false
  expNeg : Bool := false
  expDs : Str := []
  mul : Option (Nat × Bool) := none   -- (1..5, binary)
deriving Repr, Inhabited, DecidableEq

def readParts (s : Str) : Parts :=
  let (ip, r1) := takeDigits s
  let (fp, r2) :=
    match r1 with
    | 46 :: t => takeDigits t
    | _ => ([], r1)
  match r2 with
  | [] => { intDs := ip, fracDs := fp }
  | c :: t =>
    if c == 101 || c == 69 then
      let (neg, t') :=
        match t with
        | 45 :: u => (true, u)
        | 43 :: u => (false, u)
        | _ => (false, t)
      { intDs := ip, fracDs := fp, hasExp := true, expNeg := neg, expDs := (takeDigits t').1 }
    else if NumLit.isMul c then
      { intDs := ip, fracDs := fp, mul := some (mulIndex c, t == [105]) }
    else { intDs := ip, fracDs := fp }

inductive LitRes where
  | ok (n : Num)
  | err            -- rejected
deriving Repr, Inhabited, DecidableEq

/-- the exponent `setString` computes; `none` = `UnmarshalText` returns an error (written
exponent outside int32, or written exponent / fraction length / adjusted exponent outside
apd's window ±100000), which `NumInfo.decimal` reports as "invalid number" -/
def litExp (coeff : Nat) (hasExp : Bool) (e : Int) (fracLen : Nat) : Option Int :=
  if hasExp && (decide (e < -2147483648) || decide (2147483647 < e)) then none
  else
    let e := if hasExp then e else 0
    let f : Int := -(fracLen : Int)
    if decide (maxExp < e) || decide (e < -maxExp) || decide (f < -maxExp) then none
    else
      let adj := e + f + (Dec.numDigits coeff : Int) - 1
      if decide (maxExp < adj) || decide (adj < -maxExp) then none else some (e + f)

/-- `RoundToIntegralExact` to an integer: `none` = Inexact -/
def toIntegralExact (d : Dec) : Option Int :=
  if 0 ≤ d.exp then some (d.coeff * 10 ^ d.exp.toNat)
  else
    let m : Int := 10 ^ (-d.exp).toNat
    if d.coeff % m == 0 then some (d.coeff / m) else none

/-- the value of a base-10 spelling (`NumInfo.decimal`, base 10) -/
def decValue (k : Kind) (p : Parts) : LitRes :=
  let coeff := horner 10 (p.intDs ++ p.fracDs)
  let e : Int := if p.expNeg then -(horner 10 p.expDs : Int) else (horner 10 p.expDs : Int)
  match litExp coeff p.hasExp e p.fracDs.length with
  | none => .err
  | some x =>
    let v : Dec := ⟨coeff, x⟩
    match p.mul with
    | none => .ok ⟨k, v⟩
    | some (i, bin) =>
      -- apd.BaseContext.Mul (unlimited precision: exact, since /repo 06ced89; before: the
      -- literal package's precision-34 context, silently rounding), then RoundToIntegralExact
      let prod := Dec.mul v ⟨mulValue i bin, 0⟩
      match toIntegralExact prod with
      | some z => .ok ⟨.int, ⟨z, 0⟩⟩
      | none => .err

/-- value of an (unsigned) spelling accepted by `ParseNum` with kind `k` -/
def readValue (k : Kind) (s : Str) : LitRes :=
  match s with
  | 48 :: 120 :: ds => .ok ⟨.int, ⟨horner 16 (ds.filter (· != 95)), 0⟩⟩
  | 48 :: 88 :: ds => .ok ⟨.int, ⟨horner 16 (ds.filter (· != 95)), 0⟩⟩
  | 48 :: 98 :: ds => .ok ⟨.int, ⟨horner 2 (ds.filter (· != 95)), 0⟩⟩
  | 48 :: 111 :: ds => .ok ⟨.int, ⟨horner 8 (ds.filter (· != 95)), 0⟩⟩
  | _ => decValue k (readParts s)

/-- `compiler.parse` on an INT/FLOAT token with text `s` (no sign: CUE source has none) -/
def litValue (s : Str) : LitRes :=
  match NumLit.parseNumUnsigned s with
  | none => .err
  | some k => readValue k s

/-- `literal.ParseNum` + `NumInfo.Decimal` on an arbitrary string: unlike CUE source, `ParseNum`
itself accepts a leading sign (`n.neg`, the `-` goes into the buffer) -/
def parseNumValue (s : Str) : LitRes :=
  -- the automaton after the optional sign is the unsigned one (a second sign is no number start);
  -- what a sign changes is only the buffer, handled below
  let gate : Option Kind := match s with
    | 45 :: t => NumLit.parseNumUnsigned t
    | 43 :: t => NumLit.parseNumUnsigned t
    | _ => NumLit.parseNum s
  match gate with
  | none => .err
  | some k =>
    match s with
    | 45 :: t =>
      -- With a `-` in the buffer the `len(p.buf) == 0` tests of `next`/`scanNumber`/`ParseNum`
      -- never fire, so the leading "0" of a literal (skipped by `scanNumber`) is never supplied:
      -- "-0", "-0e5", "-0.", "-0.P" leave "-", "-e5", "-.", "-." in the buffer and
      -- `UnmarshalText` fails on a mantissa without digits ("invalid number").  Only for a
      -- multiplier directly after the zero ("-0K") `scanNumber` supplies it (/repo 9d21395).
      -- (Not reachable from CUE source, where the sign is a unary operator.)
      let noMantissa := match t with
        | [48] => true
        | 48 :: c :: _ =>
          if c == 120 || c == 88 || c == 98 || c == 111 || NumLit.isMul c then false
          else (((readParts t).intDs.drop 1) ++ (readParts t).fracDs).isEmpty
        | _ => false
      if noMantissa then .err else
      match readValue k t with
      | .ok n => .ok (negNum n)
      | r => r
    | 43 :: t => readValue k t
    | _ => readValue k s

/-! ### printing -/

/-- decimal digits of `n` as ASCII bytes, most significant first (`fuel` ≥ number of digits) -/
def digitsAux : Nat → Nat → Str → Str
  | 0, _, acc => acc
  | fuel + 1, n, acc =>
    if n < 10 then (48 + n) :: acc else digitsAux fuel (n / 10) ((48 + n % 10) :: acc)

def digitsOf (n : Nat) : Str := digitsAux (n + 1) n []

def zeros (n : Nat) : Str := List.replicate n 48

/-- `%f` for an exponent ≤ 0 -/
def fmtF (digits : Str) (exp : Int) : Str :=
  if exp < 0 then
    let n := (-exp).toNat
    if digits.length ≤ n then [48, 46] ++ zeros (n - digits.length) ++ digits
    else digits.take (digits.length - n) ++ [46] ++ digits.drop (digits.length - n)
  else digits ++ zeros exp.toNat

/-- `%e` / `%E`: `d.ddddE±x`; `e` is the byte of the exponent marker -/
def fmtE (e : Nat) (digits : Str) (exp : Int) : Str :=
  let adj : Int := exp + (digits.length : Int) - 1
  let mant := match digits with
    | [] => []
    | [d] => [d]
    | d :: ds => d :: 46 :: ds
  mant ++ [e] ++ (if adj < 0 then [45] else [43]) ++ digitsOf adj.natAbs

/-- `apd.Decimal.Append(_, 'G')` with exponent marker `e` ('E' = 69 for JSON) -/
def fmtG (e : Nat) (d : Dec) : Str :=
  let digits := digitsOf d.coeff.natAbs
  let digitLen : Int :=
    if d.coeff == 0 && decide (-2000 ≤ d.exp) && decide (d.exp < 0) then (digits.length : Int) - d.exp
    else digits.length
  let adj := d.exp + (digitLen - 1)
  let body := if decide (d.exp ≤ 0) && decide (-6 ≤ adj) then fmtF digits d.exp else fmtE e digits d.exp
  if d.coeff < 0 then 45 :: body else body

/-- the JSON text of a number (`Value.MarshalJSON`) -/
def jsonNum (n : Num) : Str := fmtG 69 n.d

def hasFloatMark (s : Str) : Bool := s.any fun c => c == 101 || c == 69 || c == 46

/-- `Value.Syntax` (exporter.num) followed by `format.Node`: the CUE text of a computed number -/
def printNum (n : Num) : Str :=
  let s := fmtG 101 n.d
  match n.k with
  | .int => s
  | .float => if hasFloatMark s then s else s ++ [46, 48]

/-- reading a printed number back: an optional `-` (a unary minus in CUE source) and a literal -/
def readBack (s : Str) : LitRes :=
  match s with
  | 45 :: t =>
    match litValue t with
    | .ok n => .ok (negNum n)
    | r => r
  | _ => litValue s

end CueVerif.NumVal
