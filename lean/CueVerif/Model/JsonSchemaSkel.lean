/-
C13 — model of the importer's KIND SKELETON and COMBINATOR ENCODINGS.

Transcribed from /repo/encoding/jsonschema (hand transcription, pinned in Bridge/C13):
* decode.go: `coreType`, `coreToCUE`, `allTypes`, `state.finalize` (the assembly of
  `null | bool | number | string | [...] | {...}` with per-type constraints from
  `allowedTypes` / `knownTypes` / `types[t].constraints` / `all.constraints`,
  `needsTypeDisjunction`, excluded types, the `_` fallback) — `finalize` below;
  NOT transcribed there: `finalizeObject` (the model's state is the one after it ran),
  the purely cosmetic stable sort, `nullable` (OpenAPI only), definitions and `$id` wrapping.
* constraints_combinator.go: `constraintAllOf/AnyOf/OneOf/Not/IfThenElse` — `encAllOf`,
  `encAnyOf`, `encOneOf`, `encNot`, `encIf` below, including the filtering of members
  without constraints / without allowed types, the single-member shortcut, `oneOf`'s
  `needsConstraint` optimisation and the update of `allowedTypes`.
* internal/core/compile/validator.go: `matchN` (count the list members that unify with
  the value and validate; compare with the bound) and `matchIf` — `accepts` below.
* constraints_generic.go: the mask arithmetic of `constraintType/Enum/Const` — `applyType`,
  `applyEnum`.

CUE values are modelled by what they ACCEPT among concrete JSON data (`accepts v j` =
"`j & v` validates as concrete"): for concrete data and validators without defaults,
`&` is conjunction and `|` is disjunction of acceptance.  The ~3,000 lines of per-keyword
builders are NOT transcribed: a per-type constraint is an arbitrary predicate on values of
that type (`leaf t p`), an `all`-constraint an arbitrary value.

Core Lean only.
-/
import CueVerif.Spec.JsonSchema
namespace CueVerif.Skel
open CueVerif.JS

/-- the `cue.Kind` bits the importer works with (`allTypes`; NumberKind = int|float) -/
inductive CKind where
  | null | bool | int | float | string | list | struct
deriving DecidableEq, Repr, Inhabited

def CKind.all : List CKind := [.null, .bool, .int, .float, .string, .list, .struct]

/-- a set of kinds (`cue.Kind` used as a bit set) -/
abbrev KSet := CKind → Bool

def KSet.empty : KSet := fun _ => false
def KSet.full : KSet := fun _ => true
def KSet.inter (a b : KSet) : KSet := fun k => a k && b k
def KSet.union (a b : KSet) : KSet := fun k => a k || b k
def KSet.isEmpty (a : KSet) : Bool := CKind.all.all fun k => !a k
def KSet.beq (a b : KSet) : Bool := CKind.all.all fun k => a k == b k
def KSet.overlaps (a b : KSet) : Bool := CKind.all.any fun k => a k && b k

/-- `coreType` of decode.go, in `iota` order = the order of the disjunction -/
inductive CoreType where
  | null | bool | num | string | array | object
deriving DecidableEq, Repr, Inhabited

def CoreType.all : List CoreType := [.null, .bool, .num, .string, .array, .object]

/-- `coreToCUE` -/
def coreToCUE : CoreType → List CKind
  | .null => [.null] | .bool => [.bool] | .num => [.int, .float]
  | .string => [.string] | .array => [.list] | .object => [.struct]

/-- `s&coreToCUE[t] != 0` -/
def hasCore (s : KSet) (t : CoreType) : Bool := (coreToCUE t).any s

/-- the core type of a JSON instance -/
def coreOf : Json → CoreType
  | .null => .null | .bool _ => .bool | .num _ => .num
  | .str _ => .string | .arr _ => .array | .obj _ => .object

/-- first argument of `matchN` as the importer writes it: `n` or `>=n` -/
inductive Bound where
  | eq (n : Nat) | ge (n : Nat)
deriving Repr, DecidableEq

def Bound.ok : Bound → Nat → Bool
  | .eq n, c => c == n
  | .ge n, c => decide (n ≤ c)

/-- the CUE values the skeleton is made of -/
inductive CVal where
  | top                                       -- `_`
  | disallowed                                -- `error("disallowed")`
  | kind (t : CoreType)                       -- kindToAST: null, bool, number, string, [...], {...}
  | leaf (t : CoreType) (p : Json → Bool)     -- one type-specific constraint of core type `t`
  | opaque (p : Json → Bool)                  -- any other value (enum/const literals, references, …)
  | and (a b : CVal)
  | or (a b : CVal)
  | matchN (b : Bound) (vs : List CVal)
  | matchIf (i t e : CVal)

instance : Inhabited CVal := ⟨.top⟩

mutual
/-- `accepts v j`: concrete datum `j` unified with `v` validates -/
def accepts : CVal → Json → Bool
  | .top, _ => true
  | .disallowed, _ => false
  | .kind t, j => coreOf j == t
  | .leaf t p, j => coreOf j == t && p j
  | .opaque p, j => p j
  | .and a b, j => accepts a j && accepts b j
  | .or a b, j => accepts a j || accepts b j
  | .matchN b vs, j => b.ok (countAcc vs j)       -- validator.go matchNBuiltin
  | .matchIf i t e, j => if accepts i j then accepts t j else accepts e j   -- matchIfBuiltin
def countAcc : List CVal → Json → Nat
  | [], _ => 0
  | v :: vs, j => (if accepts v j then 1 else 0) + countAcc vs j
end

/-- `ast.NewBinExpr(token.AND, x, xs...)` (left-nested) -/
def foldAnd : CVal → List CVal → CVal
  | a, [] => a
  | a, b :: r => foldAnd (.and a b) r
/-- `ast.NewBinExpr(token.OR, x, xs...)` -/
def foldOr : CVal → List CVal → CVal
  | a, [] => a
  | a, b :: r => foldOr (.or a b) r

/-! ## `state.finalize` -/

/-- the part of `state` that `finalize` reads (after `finalizeObject`) -/
structure St where
  allowed : KSet                          -- allowedTypes
  known : KSet                            -- knownTypes
  types : CoreType → List (Json → Bool)   -- types[t].constraints, each a constraint of kind t
  all : List CVal                         -- all.constraints

def St.leaves (st : St) (t : CoreType) : List CVal := (st.types t).map (CVal.leaf t)

/-- body of the loop over `s.types`: the disjunct contributed by core type `t`, if any -/
def disjunctFor (st : St) (t : CoreType) : Option CVal :=
  match st.leaves t with
  | c :: r => if hasCore st.allowed t then some (foldAnd c r) else none   -- else: excluded
  | [] => if hasCore st.allowed t && hasCore st.known t then some (.kind t) else none

def needsTypeDisjunction (st : St) : Bool :=
  !(st.allowed.beq st.known) ||
  CoreType.all.any fun t => !(st.types t).isEmpty && hasCore st.allowed t

def disjuncts (st : St) : List CVal :=
  if needsTypeDisjunction st then CoreType.all.filterMap (disjunctFor st) else []

def finalize (st : St) : CVal :=
  if st.allowed.isEmpty then .disallowed else
  let conjuncts := st.all ++ (match disjuncts st with | [] => [] | d :: ds => [foldOr d ds])
  match conjuncts with
  | [] => .top
  | c :: cs => foldAnd c cs

/-! ## `constraintType`, `constraintEnum`/`constraintConst`: the mask arithmetic -/

def kindsOfTypeName : TypeName → KSet
  | .null => fun k => k == .null
  | .boolean => fun k => k == .bool
  | .number => fun k => k == .int || k == .float
  | .integer => fun k => k == .int
  | .string => fun k => k == .string
  | .array => fun k => k == .list
  | .object => fun k => k == .struct

/-- `constraintType`: `allowedTypes &= types`; "integer" also adds the `int` constraint to
`types[numType]` (passed as `isIntLit`, the CUE-side notion "written without fraction or
exponent") -/
def applyType (isIntLit : Json → Bool) (ts : List TypeName) (st : St) : St :=
  { st with
    allowed := st.allowed.inter (fun k => ts.any fun t => kindsOfTypeName t k)
    types := fun t => if t == .num && ts.contains .integer
      then st.types t ++ (ts.filter (· == .integer)).map (fun _ => isIntLit) else st.types t }

/-- `constraintEnum` (and `constraintConst` = one value): `kinds` = the union of the CUE kinds of
the values that survive the `allowedTypes` filter, `v` = their disjunction -/
def applyEnum (kinds : KSet) (v : Option CVal) (st : St) : St :=
  { st with
    allowed := st.allowed.inter kinds
    known := st.known.inter kinds
    all := match v with | some e => st.all ++ [e] | none => st.all }

/-! ## the combinators -/

/-- what `schemaState` returns for a member: its expression and `schemaInfo` -/
structure Sub where
  expr : CVal
  allowed : KSet
  known : KSet
  hasConstraints : Bool

def unionAllowed (subs : List Sub) : KSet := fun k => subs.any (·.allowed k)
def interAllowed (subs : List Sub) : KSet := fun k => subs.all (·.allowed k)

/-- `constraintAllOf`: members without constraints are dropped from the list, but the count
stays `len(items)` -/
def encAllOf (subs : List Sub) : Option CVal :=
  match (subs.filter (·.hasConstraints)).map (·.expr) with
  | [] => none
  | [x] => some x
  | a => some (.matchN (.eq subs.length) a)

/-- the new `allowedTypes` after allOf -/
def allowedAllOf (allowed : KSet) (subs : List Sub) : KSet := allowed.inter (interAllowed subs)

/-- `constraintAnyOf`: members with no allowed type are dropped; returns the added constraint
(if any) and the new `allowedTypes` -/
def encAnyOf (allowed : KSet) (subs : List Sub) : Option CVal × KSet :=
  let a := subs.filter (!·.allowed.isEmpty)
  match a.map (·.expr) with
  | [] => (none, KSet.empty)
  | [x] => (some x, allowed)
  | es => (some (.matchN (.ge 1) es), allowed.inter (unionAllowed a))

/-- `needsConstraint` of `constraintOneOf`: some kept member has constraints, or two kept
members without constraints overlap in their allowed types -/
def oneOfNeeds : KSet → List Sub → Bool
  | _, [] => false
  | seen, s :: r => s.hasConstraints || seen.overlaps s.allowed || oneOfNeeds (seen.union s.allowed) r

/-- `constraintOneOf` -/
def encOneOf (allowed : KSet) (subs : List Sub) : Option CVal × KSet :=
  let a := subs.filter (!·.allowed.isEmpty)
  let allowed' := allowed.inter (unionAllowed a)
  if oneOfNeeds KSet.empty a then
    match a.map (·.expr) with
    | [] => (none, allowed')
    | [x] => (some x, allowed')
    | es => (some (.matchN (.eq 1) es), allowed')
  else (none, allowed')

/-- `constraintNot` -/
def encNot (v : CVal) : CVal := .matchN (.eq 0) [v]

/-- `constraintIfThenElse`: nothing unless `if` and one of `then`/`else` are present; a missing
branch is `_` -/
def encIf (i : Option CVal) (t e : Option CVal) : Option CVal :=
  match i, t, e with
  | none, _, _ => none
  | some _, none, none => none
  | some i, t, e => some (.matchIf i (t.getD .top) (e.getD .top))

/-! ## shapes, for the internal correspondence with the real `finalize` -/

def coreName : CoreType → String
  | .null => "null" | .bool => "bool" | .num => "number" | .string => "string"
  | .array => "[...]" | .object => "{...}"

/-- canonical text of a skeleton: kind atoms by name, per-type constraints as `C:<type>`,
all-constraints as `A`, `&`/`|` flattened -/
def shapeStr : CVal → String
  | .top => "_"
  | .disallowed => "!"
  | .kind t => coreName t
  | .leaf t _ => "C:" ++ coreName t
  | .opaque _ => "A"
  | .and a b => shapeStr a ++ "&" ++ shapeStr b
  | .or a b => shapeStr a ++ "|" ++ shapeStr b
  | .matchN _ _ => "A"
  | .matchIf _ _ _ => "A"

def maskSet (m : Nat) : KSet := fun k =>
  match k with
  | .null => m % 2 == 1 | .bool => m / 2 % 2 == 1 | .int => m / 4 % 2 == 1
  | .float => m / 8 % 2 == 1 | .string => m / 16 % 2 == 1 | .list => m / 32 % 2 == 1
  | .struct => m / 64 % 2 == 1

def coreIdx : CoreType → Nat
  | .null => 0 | .bool => 1 | .num => 2 | .string => 3 | .array => 4 | .object => 5

/-- `finalize` on the state with the given masks, `cnt t` constraints for core type `t`
(`presence` = 6 base-4 digits) and `nAll` all-constraints -/
def finalizeShape (allowed known presence nAll : Nat) : CVal :=
  finalize {
    allowed := maskSet allowed, known := maskSet known,
    types := fun t => List.replicate (presence / 4 ^ coreIdx t % 4) (fun _ => true),
    all := List.replicate nAll (.opaque fun _ => true) }

/-- the disjunction is parenthesised when it is a conjunct next to all-constraints -/
def finalizeShapeStr (allowed known presence nAll : Nat) : String :=
  let st : St := {
    allowed := maskSet allowed, known := maskSet known,
    types := fun t => List.replicate (presence / 4 ^ coreIdx t % 4) (fun _ => true),
    all := List.replicate nAll (.opaque fun _ => true) }
  if st.allowed.isEmpty then "!" else
  let d := match disjuncts st with | [] => [] | d :: ds => ["(" ++ shapeStr (foldOr d ds) ++ ")"]
  match (st.all.map shapeStr) ++ d with
  | [] => "_"
  | cs => "&".intercalate cs

end CueVerif.Skel
