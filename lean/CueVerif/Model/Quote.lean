/-
Model of /repo/cue/literal/quote.go and /repo/cue/literal/string.go (core Lean only).

Transcribed Go functions
  quote.go : Form.WithTabIndent / WithOptionalTabIndent / WithOptionalHashes / WithASCIIOnly /
             WithGraphicOnly, Form.Append (= Quote), appendEscaped, appendEscapedRune,
             appendEscape, isPrint, singleLineHashCount, requiredHashCount
  string.go: Unquote, ParseQuotes (called as ParseQuotes(s, s)), QuoteInfo.Unquote,
             hasClosingDelimPrefix, skipWhitespaceAfterNewline, isSimple, unquoteChar, unhex
  unicode/utf8 (external, transcribed): DecodeRuneInString, DecodeLastRuneInString, AppendRune
  unicode.IsSpace (external, transcribed as a table, used only by ParseQuotes' backward scan)

Go strings are byte strings: `List Nat`, every element a byte value (`IsBytes`); the model is
total on arbitrary naturals.  `strconv.IsPrint` / `strconv.IsGraphic` are PARAMETERS (`Env`);
the contract the proofs need is stated in `Env.Ok` (Proofs/Quote.lean): NUL, LF and CR are
not printable / graphic.  Nothing else about these two predicates is assumed.

The only field of `literal.Form` not present here is `hashCount`: no exported constructor sets
it, `Append` overwrites it for multi-line and autoHash forms and it is 0 otherwise; the model
computes it inside `quote`.  `tripleQuote` is always three copies of `quote` for the forms the
library exports (String, Label, Bytes) and is derived.
-/
namespace CueVerif.Quote

abbrev Bytes := List Nat

/-- every element is a byte -/
def IsBytes (s : Bytes) : Prop := ∀ b ∈ s, b < 256

structure Env where
  isPrint : Nat → Bool     -- strconv.IsPrint
  isGraphic : Nat → Bool   -- strconv.IsGraphic

/-! ### unicode/utf8 -/

def runeError : Nat := 0xFFFD
def maxRune : Nat := 0x10FFFF

def isCont (b : Nat) : Bool := decide (0x80 ≤ b) && decide (b ≤ 0xBF)

/-- `utf8.DecodeRuneInString`: (rune, width); `(RuneError, 1)` for an invalid or truncated
encoding, `(RuneError, 0)` for the empty string. -/
def decodeRune : Bytes → Nat × Nat
  | [] => (0xFFFD, 0)
  | b0 :: rest =>
    if b0 < 0x80 then (b0, 1)
    else if b0 < 0xC2 then (0xFFFD, 1)
    else if b0 < 0xE0 then
      match rest with
      | b1 :: _ =>
        if isCont b1 then ((b0 - 0xC0) * 64 + (b1 - 0x80), 2) else (0xFFFD, 1)
      | [] => (0xFFFD, 1)
    else if b0 < 0xF0 then
      match rest with
      | b1 :: b2 :: _ =>
        if decide ((if b0 = 0xE0 then 0xA0 else 0x80) ≤ b1) &&
           decide (b1 ≤ (if b0 = 0xED then 0x9F else 0xBF)) && isCont b2 then
          ((b0 - 0xE0) * 4096 + (b1 - 0x80) * 64 + (b2 - 0x80), 3)
        else (0xFFFD, 1)
      | _ => (0xFFFD, 1)
    else if b0 < 0xF5 then
      match rest with
      | b1 :: b2 :: b3 :: _ =>
        if decide ((if b0 = 0xF0 then 0x90 else 0x80) ≤ b1) &&
           decide (b1 ≤ (if b0 = 0xF4 then 0x8F else 0xBF)) && isCont b2 && isCont b3 then
          ((b0 - 0xF0) * 262144 + (b1 - 0x80) * 4096 + (b2 - 0x80) * 64 + (b3 - 0x80), 4)
        else (0xFFFD, 1)
      | _ => (0xFFFD, 1)
    else (0xFFFD, 1)

/-- `utf8.AppendRune(nil, r)`; surrogates and values above MaxRune encode U+FFFD. -/
def encodeRune (r : Nat) : Bytes :=
  if r < 0x80 then [r]
  else if r < 0x800 then [0xC0 + r / 64, 0x80 + r % 64]
  else if (decide (0xD800 ≤ r) && decide (r < 0xE000)) || decide (0x10FFFF < r) then [0xEF, 0xBF, 0xBD]
  else if r < 0x10000 then [0xE0 + r / 4096, 0x80 + r / 64 % 64, 0x80 + r % 64]
  else [0xF0 + r / 262144, 0x80 + r / 4096 % 64, 0x80 + r / 64 % 64, 0x80 + r % 64]

/-- what the Go loops do: `r := rune(s[0]); width = 1; if r >= RuneSelf { r, width = Decode… }`;
only called on non-empty input -/
def decodeFirst (b0 : Nat) (rest : Bytes) : Nat × Nat :=
  if b0 < 0x80 then (b0, 1) else decodeRune (b0 :: rest)

def runeStart (b : Nat) : Bool := b / 64 % 4 != 2

/-- `utf8.DecodeLastRuneInString`.  Go scans back at most UTFMax-1 bytes for a rune start
byte, decodes from there and demands that the decoded rune ends exactly at the end; every
other path yields (RuneError, 1). -/
def decodeLastRune (p : Bytes) : Nat × Nat :=
  match p.reverse with
  | [] => (0xFFFD, 0)
  | last :: before =>
    if last < 0x80 then (last, 1)
    else
      match (before.take 3).findIdx? runeStart with
      | none => (0xFFFD, 1)
      | some j =>
        let cand := (before.take (j + 1)).reverse ++ [last]
        let (r, size) := decodeRune cand
        if size == j + 2 then (r, size) else (0xFFFD, 1)

/-- `utf8.ValidString`: no decoding step yields (RuneError, 1) on a non-ASCII byte -/
def validUTF8 : Bytes → Bool
  | [] => true
  | b0 :: rest =>
    let rw := decodeFirst b0 rest
    if decide (0x80 ≤ b0) && rw.2 == 1 then false
    else validUTF8 (rest.drop (rw.2 - 1))
termination_by s => s.length
decreasing_by all_goals simp_wf <;> omega

/-- `unicode.IsSpace` -/
def isSpace (r : Nat) : Bool :=
  r == 9 || r == 10 || r == 11 || r == 12 || r == 13 || r == 0x20 || r == 0x85 || r == 0xA0 ||
  r == 0x1680 || (decide (0x2000 ≤ r) && decide (r ≤ 0x200A)) || r == 0x2028 || r == 0x2029 ||
  r == 0x202F || r == 0x205F || r == 0x3000

/-! ### quote.go -/

structure Form where
  quote : Nat            -- '"' (0x22) or '\'' (0x27)
  exact : Bool           -- bytes form
  multiline : Bool := false
  auto : Bool := false
  autoHash : Bool := false
  asciiOnly : Bool := false
  graphicOnly : Bool := false
  indent : Nat := 0      -- number of tabs
  deriving Repr, DecidableEq

def stringForm : Form := { quote := 0x22, exact := false }
def bytesForm : Form := { quote := 0x27, exact := true }

def Form.withTabIndent (f : Form) (n : Nat) : Form := { f with indent := n, multiline := true }
def Form.withOptionalTabIndent (f : Form) (n : Nat) : Form := { f with indent := n, auto := true }
def Form.withOptionalHashes (f : Form) : Form := { f with autoHash := true }
def Form.withASCIIOnly (f : Form) : Form := { f with asciiOnly := true }
def Form.withGraphicOnly (f : Form) : Form := { f with graphicOnly := true }

def hashes (n : Nat) : Bytes := List.replicate n 0x23
def tabs (n : Nat) : Bytes := List.replicate n 0x09
def Form.triple (f : Form) : Bytes := [f.quote, f.quote, f.quote]

/-- `lowerhex[d]` -/
def hexDigit (d : Nat) : Nat := if d < 10 then 48 + d else 87 + d

/-- `Form.isPrint` -/
def Form.isPrint (E : Env) (f : Form) (r : Nat) : Bool :=
  if f.asciiOnly then decide (r < 0x80) && E.isPrint r
  else E.isPrint r || (f.graphicOnly && E.isGraphic r)

/-- `appendEscape`: backslash followed by hashCount '#' -/
def appendEscape (h : Nat) : Bytes := 0x5C :: hashes h

/-- the letter/number part of an escape for a rune that is not printed raw -/
def escapeBody (exact : Bool) (r : Nat) : Bytes :=
  if r == 7 then [0x61]        -- \a
  else if r == 8 then [0x62]   -- \b
  else if r == 12 then [0x66]  -- \f
  else if r == 10 then [0x6E]  -- \n
  else if r == 13 then [0x72]  -- \r
  else if r == 9 then [0x74]   -- \t
  else if r == 11 then [0x76]  -- \v
  else if decide (r < 0x20) && exact then
    [0x78, hexDigit (r % 256 / 16), hexDigit (r % 16)]
  else if 0x10FFFF < r then
    [0x75, hexDigit 15, hexDigit 15, hexDigit 15, hexDigit 13]
  else if r < 0x10000 then
    [0x75, hexDigit (r / 4096 % 16), hexDigit (r / 256 % 16), hexDigit (r / 16 % 16), hexDigit (r % 16)]
  else
    [0x55, hexDigit (r / 268435456 % 16), hexDigit (r / 16777216 % 16), hexDigit (r / 1048576 % 16),
     hexDigit (r / 65536 % 16), hexDigit (r / 4096 % 16), hexDigit (r / 256 % 16),
     hexDigit (r / 16 % 16), hexDigit (r % 16)]

/-- `appendEscapedRune` (ml = effective multiline, h = hashCount) -/
def appendEscapedRune (E : Env) (f : Form) (ml : Bool) (h : Nat) (r : Nat) : Bytes :=
  if (!ml && r == f.quote) || r == 0x5C then appendEscape h ++ [r]
  else if f.isPrint E r then encodeRune r
  else appendEscape h ++ escapeBody f.exact r

/-- the loop of `appendEscaped` (the raw-copy shortcut is in `appendEscaped` below) -/
def escapeLoop (E : Env) (f : Form) (ml : Bool) (h : Nat) : Bytes → Bytes
  | [] => []
  | b0 :: rest =>
    let rw := decodeFirst b0 rest
    if f.exact && rw.2 == 1 && rw.1 == 0xFFFD then
      appendEscape h ++ [0x78, hexDigit (b0 / 16 % 16), hexDigit (b0 % 16)] ++ escapeLoop E f ml h rest
    else if ml && rw.1 == 10 then
      10 :: ((match rest with
              | [] => []
              | b1 :: _ => if b1 != 10 then tabs f.indent else []) ++ escapeLoop E f ml h rest)
    else
      appendEscapedRune E f ml h rw.1 ++ escapeLoop E f ml h (rest.drop (rw.2 - 1))
termination_by s => s.length
decreasing_by all_goals simp_wf <;> omega

/-- `Form.appendEscaped` -/
def appendEscaped (E : Env) (f : Form) (ml : Bool) (h : Nat) (s : Bytes) : Bytes :=
  if !ml && h > 0 then s else escapeLoop E f ml h s

/-- length of the leading run of '#' -/
def hashRun : Bytes → Nat
  | 0x23 :: t => hashRun t + 1
  | _ => 0

/-- the loop of `singleLineHashCount`; `none` stands for an early `return 0` -/
def slhcLoop (E : Env) (f : Form) : Bytes → Nat → Option Nat
  | [], acc => some acc
  | b0 :: rest, acc =>
    let rw := decodeFirst b0 rest
    if decide (0x80 ≤ b0) && rw.2 == 1 then none
    else if !f.isPrint E rw.1 then none
    else
      let rest' := rest.drop (rw.2 - 1)
      if rw.1 == f.quote || rw.1 == 0x5C then slhcLoop E f rest' (max acc (hashRun rest' + 1))
      else slhcLoop E f rest' acc
termination_by s => s.length
decreasing_by all_goals simp_wf <;> omega

/-- `len(s) >= 2 && s[0] == f.quote && s[1] == f.quote` -/
def startsWithTwo (q : Nat) (s : Bytes) : Bool :=
  match s with
  | a :: b :: _ => a == q && b == q
  | _ => false

/-- `singleLineHashCount` as it is in the tree (since /repo a2b8800): after the `ContainsAny`
test, a string that starts with two quote characters falls back to escaping (return 0),
because `#"""x"#` would read as a multi-line opener in `ParseQuotes` and `##"""#"##` is
rejected by the scanner. -/
def singleLineHashCount (E : Env) (f : Form) (s : Bytes) : Nat :=
  if !(s.any fun b => b == 0x5C || b == f.quote) then 0
  else if startsWithTwo f.quote s then 0
  else match slhcLoop E f s 1 with
    | some n => n
    | none => 0

/-- OLD variant: `singleLineHashCount` as it was BEFORE /repo a2b8800 (no test of the first
two bytes).  Kept only so that the defect it had stays a checked statement
(`C09_roundtrip_hashes_old_false`); it is not tied to the tree any more. -/
def singleLineHashCountOld (E : Env) (f : Form) (s : Bytes) : Nat :=
  if !(s.any fun b => b == 0x5C || b == f.quote) then 0
  else match slhcLoop E f s 1 with
    | some n => n
    | none => 0

/-- `requiredHashCount` -/
def rhcLoop (q : Nat) : Bytes → Nat → Nat
  | [], acc => acc
  | b :: rest, acc =>
    if [q, q, q].isPrefixOf (b :: rest) then
      let t := (rest.drop 2).dropWhile (· == q)
      let n := hashRun t
      rhcLoop q (t.drop n) (max acc (n + 1))
    else rhcLoop q rest acc
termination_by s => s.length
decreasing_by
  · simp_wf
    have h1 := (List.dropWhile_sublist (l := List.drop 2 rest) (· == q)).length_le
    simp only [List.length_drop] at h1
    omega
  · simp_wf

def requiredHashCount (f : Form) (s : Bytes) : Nat := rhcLoop f.quote s 0

/-- the hash count `Append` settles on; `slhc` is the single-line counter in use -/
def hashCountWith (slhc : Env → Form → Bytes → Nat) (E : Env) (f : Form) (ml : Bool) (s : Bytes) : Nat :=
  if ml then requiredHashCount f s else if f.autoHash then slhc E f s else 0

def Form.effMultiline (f : Form) (s : Bytes) : Bool := f.multiline || (f.auto && s.contains 10)

/-- `Form.Append(nil, s)` = `Form.Quote(s)`, parametric in the single-line hash counter -/
def quoteWith (slhc : Env → Form → Bytes → Nat) (E : Env) (f : Form) (s : Bytes) : Bytes :=
  let ml := f.effMultiline s
  let h := hashCountWith slhc E f ml s
  if ml then
    if s.isEmpty then hashes h ++ f.triple ++ [10] ++ tabs f.indent ++ f.triple
    else
      hashes h ++ f.triple ++ [10] ++ (if s.head? != some 10 then tabs f.indent else []) ++
        appendEscaped E f ml h s ++ [10] ++ tabs f.indent ++ f.triple ++ hashes h
  else
    hashes h ++ [f.quote] ++ appendEscaped E f ml h s ++ [f.quote] ++ hashes h

/-- the code as it is -/
def quote (E : Env) (f : Form) (s : Bytes) : Bytes := quoteWith singleLineHashCount E f s
/-- OLD variant (before /repo a2b8800), see `singleLineHashCountOld` -/
def quoteOld (E : Env) (f : Form) (s : Bytes) : Bytes := quoteWith singleLineHashCountOld E f s

/-! ### string.go -/

inductive Err where
  | syntax | missingOpeningNewline | missingClosingNewline | unmatchedQuote
  | surrogate | invalidUTF8 | escapedLastNewline | whitespace
  | panic      -- the Go code would panic (index out of range / "unreachable")
  | fuel       -- model artefact, never produced when fuel ≥ length + 1
  deriving Repr, DecidableEq

structure QuoteInfo where
  char : Nat
  numHash : Nat
  multiline : Bool
  whitespace : Bytes
  deriving Repr, DecidableEq

def QuoteInfo.numChar (q : QuoteInfo) : Nat := if q.multiline then 3 else 1

/-- the closing delimiter: numChar quote characters followed by numHash '#' -/
def QuoteInfo.closing (q : QuoteInfo) : Bytes := List.replicate q.numChar q.char ++ hashes q.numHash

/-- the backward scan of `ParseQuotes` over trailing white space: returns (i, hasNewline) -/
def scanBackWS : Nat → Bytes → Nat × Bool
  | 0, e => (e.length, false)
  | fuel + 1, e =>
    if e.isEmpty then (0, false)
    else
      let (r, size) := decodeLastRune e
      if r == 10 || !isSpace r then (e.length, r == 10)
      else scanBackWS fuel (e.take (e.length - size))

/-- `ParseQuotes(s, s)`: the quote info and nStart -/
def parseQuotes (s : Bytes) : Except Err (QuoteInfo × Nat) :=
  let numHash := hashRun s
  let t := s.drop numHash
  match t with
  | [] => .error .syntax
  | c :: _ =>
    if c != 0x22 && c != 0x27 then .error .syntax
    else
      -- multi-line opener?
      let isMulti := decide (t.length > 3) && t[1]? == some c && t[2]? == some c && t[3]? != some 0x23
      let opener : Except Err (Bool × Nat) :=      -- (multiline, len(q.quote))
        if isMulti then
          if t[3]? == some 10 then .ok (true, 3 + numHash)
          else if t[3]? == some 13 && decide (t.length > 4) && t[4]? == some 10 then .ok (true, 4 + numHash)
          else .error .missingOpeningNewline
        else .ok (false, 1 + numHash)
      match opener with
      | .error e => .error e
      | .ok (ml, qlen) =>
        let numChar := if ml then 3 else 1
        let nStart := if ml then qlen + 1 else qlen
        let qd := s.take (numChar + numHash)
        if !(qd.isPrefixOf s.reverse) then .error .unmatchedQuote
        else if !ml then .ok ({ char := c, numHash := numHash, multiline := false, whitespace := [] }, nStart)
        else
          let body := s.take (s.length - qd.length)
          let (i, hasNL) := scanBackWS (body.length + 1) body
          if !hasNL then .error .missingClosingNewline
          else
            let ws := body.drop i
            let q : QuoteInfo := { char := c, numHash := numHash, multiline := true, whitespace := ws }
            if decide (s.length > nStart) && s[nStart]? != some 10 then
              if !(ws.isPrefixOf (s.drop nStart)) then .error .whitespace
              else .ok (q, nStart + ws.length)
            else .ok (q, nStart)

/-- `isSimple` -/
def isSimple (quote : Nat) : Bytes → Bool
  | [] => true
  | b0 :: rest =>
    let rw := decodeRune (b0 :: rest)
    if rw.1 == quote || rw.1 == 0x5C || rw.1 == 0 || rw.1 == 0xFFFD then false
    else if decide (0xD800 ≤ rw.1) && decide (rw.1 < 0xE000) then false
    else isSimple quote (rest.drop (rw.2 - 1))
termination_by s => s.length
decreasing_by all_goals simp_wf <;> omega

def hasClosingDelimPrefix (s : Bytes) (q : QuoteInfo) : Bool := q.closing.isPrefixOf s

/-- `skipWhitespaceAfterNewline` -/
def skipWS (s : Bytes) (q : QuoteInfo) : Except Err Bytes :=
  if !q.multiline then .error .whitespace
  else if q.whitespace.isPrefixOf s then .ok (s.drop q.whitespace.length)
  else if [10].isPrefixOf s then .ok s
  else if [13, 10].isPrefixOf s then .ok s
  else .error .whitespace

/-- `unhex` -/
def unhexByte (c : Nat) : Option Nat :=
  if 48 ≤ c ∧ c ≤ 57 then some (c - 48)
  else if 97 ≤ c ∧ c ≤ 102 then some (c - 97 + 10)
  else if 65 ≤ c ∧ c ≤ 70 then some (c - 65 + 10)
  else none

/-- fold of `v = v<<4 | x` over hex digits; none if one is not a hex digit -/
def hexVal : Bytes → Nat → Option Nat
  | [], v => some v
  | c :: cs, v => match unhexByte c with
    | some x => hexVal cs (v * 16 + x)
    | none => none

/-- what `unquoteChar` can yield -/
inductive UC where
  | char (v : Nat) (multibyte : Bool)
  | termQuote | termExpr | escNewline
  deriving Repr, DecidableEq

/-- the escape switch of `unquoteChar`: `e` is the character after the backslash and the
hashes, `t` what follows it.  `v` of `\U` escapes is a Go `rune` (int32): eight hex digits
with the top bit set wrap to a negative number; since /repo 4627158 the test is
`v < 0 || v > utf8.MaxRune`, so these are syntax errors (before, they collided with the
sentinels -1, -2, -3 or hit `panic("unreachable")`). -/
def unquoteEscape (q : QuoteInfo) (e : Nat) (t : Bytes) : Except Err (UC × Bytes) :=
  if e == 0x61 then .ok (.char 7 false, t)
  else if e == 0x62 then .ok (.char 8 false, t)
  else if e == 0x66 then .ok (.char 12 false, t)
  else if e == 0x6E then .ok (.char 10 false, t)
  else if e == 0x72 then .ok (.char 13 false, t)
  else if e == 0x74 then .ok (.char 9 false, t)
  else if e == 0x76 then .ok (.char 11 false, t)
  else if e == 0x2F then .ok (.char 0x2F false, t)
  else if e == 0x78 || e == 0x75 || e == 0x55 then
    let n := if e == 0x78 then 2 else if e == 0x75 then 4 else 8
    if t.length < n then .error .syntax
    else match hexVal (t.take n) 0 with
      | none => .error .syntax
      | some v =>
        let t' := t.drop n
        if e == 0x78 then
          if q.char == 0x22 then .error .syntax else .ok (.char v false, t')
        else if decide (v ≥ 2147483648) || decide (v > 0x10FFFF) then .error .syntax   -- `v < 0 || v > utf8.MaxRune`
        else .ok (.char v true, t')
  else if 0x30 ≤ e && e ≤ 0x37 then
    if q.char == 0x22 then .error .syntax
    else match t with
      | d1 :: d2 :: t' =>
        if 0x30 ≤ d1 && d1 ≤ 0x37 && 0x30 ≤ d2 && d2 ≤ 0x37 then
          let v := ((e - 0x30) * 8 + (d1 - 0x30)) * 8 + (d2 - 0x30)
          if v > 255 then .error .syntax else .ok (.char v false, t')
        else .error .syntax
      | _ => .error .syntax
  else if e == 0x5C then .ok (.char 0x5C false, t)
  else if e == 0x27 || e == 0x22 then
    if e != q.char then .error .syntax else .ok (.char e false, t)
  else if e == 0x28 then
    if !t.isEmpty then .error .syntax else .ok (.termExpr, t)
  else if e == 0x0D then
    match t with
    | 10 :: t' => .ok (.escNewline, t')
    | _ => .error .syntax
  else if e == 0x0A then .ok (.escNewline, t)
  else .error .syntax

/-- `unquoteChar`: value and tail. -/
def unquoteChar (s : Bytes) (q : QuoteInfo) : Except Err (UC × Bytes) :=
  match s with
  | [] => .error .panic
  | c :: rest =>
    if c == q.char && q.char != 0 then
      if !(q.closing.isPrefixOf s) then .ok (.char q.char false, rest)
      else if s.length != q.closing.length then
        if q.multiline then .ok (.char q.char false, rest) else .error .syntax
      else .ok (.termQuote, [])
    else if 0x80 ≤ c then
      let rw := decodeRune s
      if rw.1 == 0xFFFD && rw.2 == 1 then .error .invalidUTF8
      else .ok (.char rw.1 true, s.drop rw.2)
    else if c != 0x5C then
      if c == 0 then .error .syntax else .ok (.char c false, rest)
    else if s.length ≤ 1 + q.numHash then .ok (.char 0x5C false, rest)
    else if !((hashes q.numHash).isPrefixOf rest) then .ok (.char 0x5C false, rest)
    else
      match s.drop (1 + q.numHash) with
      | [] => .error .panic   -- unreachable: length > 1 + numHash
      | e :: t => unquoteEscape q e t

/-- append a decoded character to the buffer -/
def pushChar (buf : Bytes) (v : Nat) (multibyte : Bool) : Bytes :=
  if multibyte then buf ++ encodeRune v else buf ++ [v % 256]

/-- one step of the main loop up to and including the surrogate-pair handling: the first
`unquoteChar`, and when it yields a high surrogate the second one (a failure or a special
value of the second call is `errSurrogate`; an empty rest would index out of range) -/
def unquoteCharSur (s : Bytes) (q : QuoteInfo) : Except Err (UC × Bytes) :=
  match unquoteChar s q with
  | .error e => .error e
  | .ok (.char v mb, ss) =>
    if 0xD800 ≤ v && v < 0xE000 then
      if v ≥ 0xDC00 then .error .surrogate
      else match ss with
        | [] => .error .panic
        | _ :: _ =>
          match unquoteChar ss q with
          | .ok (.char lo _, ss') =>
            if lo < 0xDC00 || 0xE000 ≤ lo then .error .surrogate
            else .ok (.char (0x10000 + (v - 0xD800) * 0x400 + (lo - 0xDC00)) mb, ss')
          | _ => .error .surrogate
    else .ok (.char v mb, ss)
  | .ok r => .ok r

/-- the main loop of `QuoteInfo.Unquote` -/
def unquoteLoop (q : QuoteInfo) : Nat → Bytes → Bytes → Bool → Bool → Except Err Bytes
  | 0, _, _, _, _ => .error .fuel
  | _ + 1, [], _, _, _ => .error .unmatchedQuote
  | fuel + 1, c :: rest, buf, stripNL, wasEsc =>
    if c == 13 then unquoteLoop q fuel rest buf stripNL false
    else if c == 10 then
      match skipWS rest q with
      | .error e => .error e
      | .ok s' =>
        if q.multiline && hasClosingDelimPrefix s' q && decide (s'.length > q.closing.length) then .error .syntax
        else unquoteLoop q fuel s' (buf ++ [10]) true false
    else
      match unquoteCharSur (c :: rest) q with
      | .error e => .error e
      | .ok (.escNewline, ss) =>
        match skipWS ss q with
        | .error e => .error e
        | .ok s' => unquoteLoop q fuel s' buf stripNL true
      | .ok (.termQuote, _) =>
        if wasEsc then .error .escapedLastNewline
        else if stripNL then .ok buf.dropLast else .ok buf
      | .ok (.termExpr, _) => .ok buf
      | .ok (.char v mb, ss) => unquoteLoop q fuel ss (pushChar buf v mb) false false

/-- `QuoteInfo.Unquote` -/
def QuoteInfo.unquote (q : QuoteInfo) (s : Bytes) : Except Err Bytes :=
  if !s.isEmpty && !q.multiline && s.contains 10 then .error .syntax
  else if !s.isEmpty && !q.multiline && s.getLast? == some q.char && q.numHash == 0 &&
      isSimple q.char s.dropLast then .ok s.dropLast
  else if q.multiline && hasClosingDelimPrefix s q && decide (s.length > q.closing.length) then .error .syntax
  else unquoteLoop q (s.length + 1) s [] false false

/-- `literal.Unquote` -/
def unquote (s : Bytes) : Except Err Bytes :=
  match parseQuotes s with
  | .error e => .error e
  | .ok (q, nStart) => q.unquote (s.drop nStart)

end CueVerif.Quote
