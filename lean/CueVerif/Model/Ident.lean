/-
Model of identifier validity vs identifier lexing (property C09, "identifier spellings
agree").

  /repo/cue/ast/ident.go          `isLetter`, `isDigit`, `IsValidIdent`
  /repo/cue/scanner/scanner.go    `isLetter`, `isDigit`, `(*Scanner).next` (its three `errf`s),
                                  `Init` (BOM skip), `skipWhitespace`, `scanFieldIdentifier`,
                                  `scanIdentifier`, and of `Scan` the cases
                                  `isLetter(ch), ch == '$', ch == '#'` and `'_'`
                                  (every other first character yields a token that is not an
                                  identifier or keyword).

Strings are lists of CODE POINTS (`List Nat`): the caller decodes UTF-8 the way Go does;
every invalid byte arrives as one code point 0xFFFD.  `unicode.IsLetter` / `unicode.IsDigit`
on runes >= 0x80 are the parameters `isLetterU` / `isDigitU`.

Reading position: a list `cur` whose head is the current character `s.ch`; `[]` is end of
input (`s.ch = -1`, which is no letter, no digit and equal to no character).

Scope notes.
* `token.Lookup` is not modelled: it returns IDENT or a keyword token, and keywords count as
  identifier-shaped for the observable, so both branches that produce an identifier
  (`tok = token.Lookup(lit)` and `tok = token.IDENT`) yield "identifier-shaped".
* `len(lit) > 1` is a BYTE length in Go; it is modelled by `byteLen`.  (An invalid byte has
  width 1 but is modelled with the width 3 of U+FFFD; this cannot matter, as a one-rune
  literal that is not "#" takes the `ch != '#'` branch to IDENT either way.)
* `s.src[s.rdOffset] == '_'` in the `_|_` test inspects a byte; the byte 0x5F occurs in
  UTF-8 only as the character '_', and an invalid byte is one code point, so "the next code
  point is 95" is the same test.
* Error flag: `next()` reports "illegal character NUL", "illegal UTF-8 encoding" (rune
  U+FFFD of width 1) and "illegal byte order mark" (U+FEFF at offset > 0).  At the level of
  code points a correctly encoded U+FFFD cannot be told from an invalid byte, so the model
  flags EVERY U+FFFD that is read (an over-approximation of the error flag, documented here;
  the no-error observable `scanIdent` does not use the flag at all).
* The `__#` branch calls `scanIdentifier` and reports "illegal token"; only the fact that the
  token is ILLEGAL is kept.

Core Lean only.
-/
namespace CueVerif.Ident

abbrev Str := List Nat

/-- `isLetter` (identical in ast/ident.go and scanner.go) -/
def isLetter (isLetterU : Nat → Bool) (c : Nat) : Bool :=
  (97 ≤ c && c ≤ 122) || (65 ≤ c && c ≤ 90) || (128 ≤ c && isLetterU c)

/-- `isDigit` (identical in ast/ident.go and scanner.go) -/
def isDigit (isDigitU : Nat → Bool) (c : Nat) : Bool :=
  (48 ≤ c && c ≤ 57) || (128 ≤ c && isDigitU c)

/-- the loop condition `isLetter(r) || isDigit(r) || r == '_' || r == '$'` used by
`IsValidIdent`, `scanFieldIdentifier` and `scanIdentifier` -/
def identPart (isLetterU isDigitU : Nat → Bool) (c : Nat) : Bool :=
  isLetter isLetterU c || isDigit isDigitU c || c == 95 || c == 36

/-! ### `ast.IsValidIdent` -/

/-- `utf8.DecodeRuneInString`: U+FFFD (RuneError) on the empty string -/
def firstRune (s : Str) : Nat :=
  match s with
  | [] => 0xFFFD
  | c :: _ => c

/-- `strings.CutPrefix(s, string(c))` -/
def cutPrefix (c : Nat) (s : Str) : Str × Bool :=
  match s with
  | d :: r => if d == c then (r, true) else (s, false)
  | [] => (s, false)

/-- `ast.IsValidIdent` -/
def isValidIdent (isLetterU isDigitU : Nat → Bool) (s : Str) : Bool :=
  if s.isEmpty then false
  else
    let (ident, consumed) := cutPrefix 95 s
    if ident.isEmpty then true                      -- "_" is a valid identifier
    else
      let (ident, consumedHash) := cutPrefix 35 ident
      let consumed := if consumedHash then false else consumed
      if !consumed && isDigit isDigitU (firstRune ident) then false
      else ident.all (identPart isLetterU isDigitU)

/-! ### the scanner -/

/-- width of the UTF-8 encoding of a code point -/
def byteLen (c : Nat) : Nat :=
  if c < 0x80 then 1 else if c < 0x800 then 2 else if c < 0x10000 then 3 else 4

def byteLenStr (s : Str) : Nat := s.foldl (fun n c => n + byteLen c) 0

/-- the `errf`s of `next()` when the head of `cur` becomes the current character at an
offset > 0 -/
def nextErr (cur : Str) : Bool :=
  match cur with
  | c :: _ => c == 0 || c == 0xFFFD || c == 0xFEFF
  | [] => false

/-- `Init`: `s.next(); if s.ch == bom { s.next() }`.  Returns (position, error reported). -/
def init (s : Str) : Str × Bool :=
  match s with
  | [] => ([], false)
  | c :: cs =>
    let e0 := c == 0 || c == 0xFFFD          -- a BOM at offset 0 is not an error
    if c == 0xFEFF then (cs, e0 || nextErr cs) else (s, e0)

/-- `skipWhitespace` on the first call of `Scan` (`s.insertEOL` is false) -/
def skipWs : Str → Str × Bool
  | [] => ([], false)
  | c :: cs =>
    if c == 32 || c == 9 || c == 10 || c == 13 then
      let (r, e) := skipWs cs
      (r, e || nextErr cs)
    else (c :: cs, false)

/-- `for isLetter(s.ch) || isDigit(s.ch) || s.ch == '_' || s.ch == '$' { s.next() }`:
(characters consumed, position after, error reported) -/
def identLoop (isLetterU isDigitU : Nat → Bool) : Str → Str × Str × Bool
  | [] => ([], [], false)
  | c :: cs =>
    if identPart isLetterU isDigitU c then
      let (l, r, e) := identLoop isLetterU isDigitU cs
      (c :: l, r, e || nextErr cs)
    else ([], c :: cs, false)

/-- `scanIdentifier` -/
def scanIdentifier (isLetterU isDigitU : Nat → Bool) (cur : Str) : Str × Str × Bool :=
  identLoop isLetterU isDigitU cur

/-- a test `p(s.ch)` on the current character; false at end of input (`s.ch = -1`) -/
def headIs (p : Nat → Bool) (cur : Str) : Bool :=
  match cur with
  | c :: _ => p c
  | [] => false

/-- `scanFieldIdentifier`: (literal, position after, error reported) -/
def scanFieldIdentifier (isLetterU isDigitU : Nat → Bool) (cur : Str) : Str × Str × Bool :=
  match cur with
  | 35 :: cs =>
    -- s.next(); if isDigit(s.ch) { return "#" }
    let e := nextErr cs
    if headIs (isDigit isDigitU) cs then ([35], cs, e)
    else
      let (l, r, e2) := identLoop isLetterU isDigitU cs
      (35 :: l, r, e || e2)
  | _ => identLoop isLetterU isDigitU cur

/-- outcome of the first `Scan` as far as identifiers are concerned -/
structure Tok where
  /-- the token is IDENT or a keyword -/
  identShaped : Bool
  lit : Str
  /-- `ErrorCount > 0` -/
  err : Bool
deriving Repr, DecidableEq

def notIdent (err : Bool) : Tok := ⟨false, [], err⟩

/-- The token-value switch of `Scan` at position `cur` (after `skipWhitespace`), restricted to
what is needed to decide whether the token is identifier-shaped and what its literal is.
`err`: errors reported so far.  For tokens that are not identifier-shaped the literal and the
error flag are not tracked further. -/
def scanAt (isLetterU isDigitU : Nat → Bool) (cur : Str) (err : Bool) : Tok :=
  match cur with
  | [] => notIdent err                                   -- EOF
  | ch :: cs =>
    if 48 ≤ ch && ch ≤ 57 then notIdent err              -- number
    else if isLetter isLetterU ch || ch == 36 || ch == 35 then
      let (lit, r, e) := scanFieldIdentifier isLetterU isDigitU cur
      if byteLenStr lit > 1 then ⟨true, lit, err || e⟩   -- tok = token.Lookup(lit)
      else
        let quoteOrHash := headIs (fun c => c == 39 || c == 34 || c == 35) r
        if ch != 35 || !quoteOrHash then ⟨true, lit, err || e⟩   -- tok = token.IDENT
        else notIdent (err || e)                         -- fallthrough: a #-string
    else if ch == 95 then
      -- default: s.next(); case '_'
      let e2 := nextErr cs
      let bottom :=
        match cs with
        | 124 :: 95 :: _ => true
        | _ => false
      if bottom then notIdent (err || e2)                -- BOTTOM
      else
        let (l, r, e) := scanFieldIdentifier isLetterU isDigitU cs
        let lit := 95 :: l
        let hashNext := headIs (· == 35) r
        if lit == [95, 95] && hashNext then notIdent (err || e2 || e)   -- ILLEGAL "__#…"
        else ⟨true, lit, err || e2 || e⟩
    else notIdent err                                    -- any other token

/-- `Init` followed by the first `Scan` -/
def scanFirst (isLetterU isDigitU : Nat → Bool) (s : Str) : Tok :=
  let (cur0, e0) := init s
  let (cur, e1) := skipWs cur0
  scanAt isLetterU isDigitU cur (e0 || e1)

/-- the first token is identifier-shaped and its literal is the whole input -/
def scanIdent (isLetterU isDigitU : Nat → Bool) (s : Str) : Bool :=
  let t := scanFirst isLetterU isDigitU s
  t.identShaped && t.lit == s

/-- ... and the scanner reported no error -/
def scanIdentClean (isLetterU isDigitU : Nat → Bool) (s : Str) : Bool :=
  let t := scanFirst isLetterU isDigitU s
  t.identShaped && t.lit == s && !t.err

end CueVerif.Ident
