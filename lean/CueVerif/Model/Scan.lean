/-
Model of the CUE scanner as a total function on byte strings (property C09, extension round).

Transcribes /repo/cue/scanner/scanner.go at TOKEN granularity:
  `Init` (BOM skip), `next` (rune decoding and its three `errf`s), `skipWhitespace`,
  `Scan` (the whole dispatch: numbers, identifiers/keywords, `_`/`_|_`/`__#`, `#`-strings,
  strings, attributes, punctuation, the operator table with its maximal munch, comments,
  automatic comma insertion through `insertEOL`, the ILLEGAL default), `scanComment`,
  `scanFieldIdentifier`, `scanIdentifier`, `scanString` (incl. `closeAllowed`, the
  `minLineWS` bookkeeping of multi-line strings, interpolation start, CR stripping),
  `scanEscape`, `consumeQuotes`, `consumeStringClose`, `scanHashes`, `stripCR`,
  `scanAttribute`, `scanAttributeTokens`, `recoverParen`, `switch2`, `popInterpolation`,
  `ResumeInterpolation`; and `token.Lookup` (keyword table, regenerated).
The number automaton is the existing `NumLit.sScanNumber` (scanNumber/scanMantissa).

Representation.
* The source is a byte list; the scanner state keeps `cur = src[s.offset:]` (so `s.ch` is the
  rune decoded at the head of `cur`, `[]` is end of input, `s.ch = -1`), `s.insertEOL` and
  `s.quoteStack`.  Token offsets are `n - cur.length` for `n = len(src)`.
* Loops over runes are written as structural recursion over BYTES with a `skip` counter for
  the bytes of material that was already processed (continuation bytes of a multi-byte rune,
  the bytes of an escape sequence, partially matched closing delimiters).  Every stopping
  condition of those loops is a comparison with an ASCII character, which no continuation
  byte equals.
* `unicode.IsLetter` / `unicode.IsDigit` on runes ≥ 0x80 are the parameters `U`.
* Errors: `Tok.err` says whether `ErrorCount` grew during the `Scan` call.  The explicit
  `s.errf` calls of the scanning functions are transcribed one by one.  The three `errf`s of
  `next()` ("illegal character NUL", "illegal UTF-8 encoding", "illegal byte order mark")
  fire when a rune BECOMES current; during one `Scan` call the runes that become current
  are exactly those starting at offsets in (entry offset, final offset] — `nextErrs`.
* NOT modelled: error positions and messages, `linesSinceLast`/`spacesSinceLast` (the RelPos
  of the token), `nextHasComma` (the HasComma bit), the line table side effect of `next`
  (modelled separately: `TokenFile.scannedFile`), `quoteInfo.startOffset` (only used in an
  error position).
* `scanAll` is the loop a CLIENT runs: `Scan` until EOF, and — like `parser.parseInterpolation`
  — `ResumeInterpolation` after the `)` that closes an interpolation (a segment counts as
  "another interpolation follows" iff its text ends in `(`, the parser's own rule).

Core Lean only.
-/
import CueVerif.Model.Quote
import CueVerif.Model.NumLit
namespace CueVerif.Scan
open CueVerif.Quote (decodeRune encodeRune)

abbrev Str := List Nat

inductive Kind where
  | ILLEGAL | EOF | COMMENT | ATTRIBUTE | IDENT | KEYWORD | INT | FLOAT | STRING | INTERPOLATION
  | BOTTOM | ADD | SUB | MUL | QUO | AND | OR | LAND | LOR | BIND | EQL | LSS | GTR | NOT | ARROW
  | NEQ | LEQ | GEQ | MAT | NMAT | LPAREN | LBRACK | LBRACE | COMMA | PERIOD | ELLIPSIS | RPAREN
  | RBRACK | RBRACE | SEMICOLON | COLON | OPTION | TILDE
  /-- not a token: `ResumeInterpolation` called with an empty quote stack (index out of range) -/
  | PANIC
  /-- not a token: the model ran out of fuel (proved impossible) -/
  | FUEL
deriving DecidableEq, Repr, Inhabited

structure Mode where
  scanComments : Bool
  dontInsertCommas : Bool

structure Uni where
  isLetter : Nat → Bool
  isDigit : Nat → Bool

/-- `quoteInfo` (without `startOffset`) -/
structure QI where
  char : Nat
  numChar : Nat
  numHash : Nat
  minLineWS : Option Str
deriving Repr, DecidableEq, Inhabited

structure St where
  cur : Str
  insertEOL : Bool
  stack : List QI
deriving Repr

structure Tok where
  kind : Kind
  /-- offset of the token (`pos.Offset()`) -/
  off : Nat
  /-- `s.Offset()` after the call -/
  fin : Nat
  lit : Str
  err : Bool
deriving Repr, DecidableEq

/-! ### runes -/

/-- width of the rune at the head of `cur` (0 at end of input) -/
def width (cur : Str) : Nat := (decodeRune cur).2
def rune (cur : Str) : Nat := (decodeRune cur).1

/-- the `errf`s of `next()` for the rune at the head of `cur` when it becomes current at an
offset > 0 -/
def runeErr (cur : Str) : Bool :=
  match cur with
  | [] => false
  | b :: _ =>
    if b == 0 then true
    else if b < 0x80 then false
    else (rune cur == 0xFFFD && width cur == 1) || rune cur == 0xFEFF

/-- the `next()` errors of one `Scan` call: runes starting at offsets in (entry, final];
`finLen` = number of bytes from the final offset to the end -/
def nextErrs (finLen : Nat) : Nat → Bool → Str → Bool
  | _, _, [] => false
  | skip + 1, _, _ :: rest => nextErrs finLen skip false rest
  | 0, first, b :: rest =>
    if (b :: rest).length < finLen then false
    else (!first && runeErr (b :: rest)) || nextErrs finLen (width (b :: rest) - 1) false rest

def isLetterAt (U : Uni) (cur : Str) : Bool :=
  match cur with
  | [] => false
  | b :: _ => if b < 0x80 then (97 ≤ b && b ≤ 122) || (65 ≤ b && b ≤ 90) else U.isLetter (rune cur)

def isDigitAt (U : Uni) (cur : Str) : Bool :=
  match cur with
  | [] => false
  | b :: _ => if b < 0x80 then (48 ≤ b && b ≤ 57) else U.isDigit (rune cur)

def identPartAt (U : Uni) (cur : Str) : Bool :=
  isLetterAt U cur || isDigitAt U cur ||
    (match cur with
     | b :: _ => b == 95 || b == 36
     | [] => false)

/-- `for isLetter(s.ch) || isDigit(s.ch) || s.ch == '_' || s.ch == '$' { s.next() }` -/
def identLoop (U : Uni) : Nat → Str → Str
  | _, [] => []
  | skip + 1, _ :: rest => identLoop U skip rest
  | 0, b :: rest =>
    if identPartAt U (b :: rest) then identLoop U (width (b :: rest) - 1) rest else b :: rest

/-- `scanFieldIdentifier`: position after the identifier -/
def scanFieldIdent (U : Uni) (cur : Str) : Str :=
  match cur with
  | 35 :: rest => if isDigitAt U rest then rest else identLoop U 0 rest
  | _ => identLoop U 0 cur

/-- the keywords (`token.Lookup`): if else for in let try fallback otherwise func true false null -/
def keywords : List Str :=
  [[105, 102], [101, 108, 115, 101], [102, 111, 114], [105, 110], [108, 101, 116], [116, 114, 121],
   [102, 97, 108, 108, 98, 97, 99, 107], [111, 116, 104, 101, 114, 119, 105, 115, 101],
   [102, 117, 110, 99], [116, 114, 117, 101], [102, 97, 108, 115, 101], [110, 117, 108, 108]]

def lookup (lit : Str) : Kind := if keywords.contains lit then .KEYWORD else .IDENT

/-- the bytes between two positions of the same source: `src[a:b]` given `cur_a`, `|cur_b|` -/
def between (a : Str) (bLen : Nat) : Str := a.take (a.length - bLen)

/-- `stripCR` -/
def stripCR (b : Str) : Str := b.filter (· != 13)

/-! ### white space and comments -/

/-- `skipWhitespace` -/
def skipWs (insertEOL : Bool) : Str → Str
  | [] => []
  | b :: rest =>
    if b == 32 || b == 9 || b == 13 then skipWs insertEOL rest
    else if b == 10 then (if insertEOL then b :: rest else skipWs insertEOL rest)
    else b :: rest

/-- the loop of `scanComment`: `for s.ch != '\n' && s.ch >= 0 { s.next() }`; (position, hasCR) -/
def skipLine : Str → Str × Bool
  | [] => ([], false)
  | b :: rest =>
    if b == 10 then (b :: rest, false)
    else
      let r := skipLine rest
      (r.1, r.2 || b == 13)

/-! ### strings -/

/-- `scanHashes(max)` / `consumeQuotes(c, max)`: consume up to `max` characters `c` -/
def consumeN (c : Nat) : Nat → Str → Nat × Str
  | 0, cur => (0, cur)
  | _ + 1, [] => (0, [])
  | n + 1, b :: rest =>
    if b == c then
      let r := consumeN c n rest
      (r.1 + 1, r.2)
    else (0, b :: rest)

/-- the loop of `consumeStringClose`; `m` iterations left, `i` the Go loop variable -/
def closeLoop (q : QI) : Nat → Nat → Str → Bool × Str
  | 0, _, cur => (true, cur)
  | _ + 1, _, [] => (false, [])
  | m + 1, i, b :: rest =>
    let want := if i ≥ q.numChar then 35 else q.char
    if b == want then closeLoop q m (i + 1) rest else (false, b :: rest)

/-- `consumeStringClose(ch, quote)` with `rest` the position after `ch` -/
def consumeStringClose (q : QI) (ch : Nat) (rest : Str) : Bool × Str :=
  if q.char != ch then (false, rest) else closeLoop q (q.numChar + q.numHash - 1) 1 rest

/-- the digit loop of `scanEscape`: (position, error reported, value) -/
def escDigits (base : Nat) : Nat → Str → Nat → Str × Bool × Nat
  | 0, cur, x => (cur, false, x)
  | _ + 1, [], x => ([], true, x)
  | n + 1, b :: rest, x =>
    let d := NumLit.digitVal b
    if b == 95 || d ≥ base then (b :: rest, true, x) else escDigits base n rest (x * base + d)

def escFinish (r : Str × Bool × Nat) (max : Nat) : Str × Bool × Bool :=
  (r.1, r.2.1 || (!r.2.1 && decide (r.2.2 > max)), false)

/-- `scanEscape(quote)`: (position, an error was reported, interpolation) -/
def scanEscape (q : QI) (cur : Str) : Str × Bool × Bool :=
  let h := consumeN 35 q.numHash cur
  if h.1 < q.numHash then (h.2, false, false)
  else
    match h.2 with
    | [] => ([], true, false)
    | b :: rest =>
      if b == 40 then (b :: rest, false, true)
      else if b == 97 || b == 98 || b == 102 || b == 110 || b == 114 || b == 116 || b == 118 ||
              b == 92 || b == 47 || b == q.char then (rest, false, false)
      else if 48 ≤ b && b ≤ 55 then
        if q.char == 34 then (b :: rest, true, false) else escFinish (escDigits 8 3 (b :: rest) 0) 255
      else if b == 120 then
        if q.char == 34 then (b :: rest, true, false) else escFinish (escDigits 16 2 rest 0) 255
      else if b == 117 then escFinish (escDigits 16 4 rest 0) 0x10FFFF
      else if b == 85 then escFinish (escDigits 16 8 rest 0) 0x10FFFF
      else (b :: rest, true, false)

def commonPrefix : Str → Str → Str
  | a :: as, b :: bs => if a == b then a :: commonPrefix as bs else []
  | _, _ => []

def isPrefixOf : Str → Str → Bool
  | [], _ => true
  | _ :: _, [] => false
  | a :: as, b :: bs => a == b && isPrefixOf as bs

structure StrRes where
  kind : Kind
  rest : Str
  err : Bool
  hasCR : Bool
  extra : Nat
  q : QI
deriving Repr

/-- outcome of one iteration of the loop of `scanString` -/
inductive StrNext where
  /-- `break` / `return` -/
  | stop (r : StrRes)
  /-- next iteration: new quote info, closeAllowed, whether `lineStart` was reset, hasCR, error
  flag, and the number of further bytes this iteration consumed -/
  | cont (q : QI) (ca : Bool) (resetLp : Bool) (hasCR : Bool) (err : Bool) (skip : Nat)

/-- one iteration of the loop of `scanString` at the character `b` (a rune of `w` bytes at the
head of `b :: rest`), after `s.next()` (position `r1`) and the attempt to read the closing
delimiter (`cl`: matched?, position after) -/
def strStep (q : QI) (ca : Bool) (lp : Str) (hasCR : Bool) (err : Bool) (b : Nat) (rest : Str)
    (w : Nat) (r1 : Str) (cl : Bool × Str) : StrNext :=
  if cl.1 then
    -- closing delimiter: the `minLineWS` check against closingWS = src[lineStart:…]
    let bad := match q.minLineWS with
      | some m => !isPrefixOf lp.reverse m
      | none => false
    .stop ⟨.STRING, cl.2, err || bad, hasCR, 0, q⟩
  else
    let k := r1.length - cl.2.length
    if b == 13 && q.numChar == 3 then .cont q ca false true err (w + k - 1)
    else
      let q1 : QI :=
        if ca && b != 32 && b != 9 then
          let ws := lp.reverse ++ (b :: rest).take (w + k - 1)
          if b != 10 || ws.length > 0 then
            { q with minLineWS := some (match q.minLineWS with
                                        | none => ws
                                        | some m => commonPrefix m ws) }
          else q
        else q
      let ca1 := if b == 10 then true
                 else if q.numChar == 3 && ca && (b == 32 || b == 9) then ca else false
      if b == 10 then .cont q1 ca1 true hasCR err 0
      else if b == 92 then
        let e := scanEscape q1 cl.2
        if e.2.2 then .stop ⟨.INTERPOLATION, e.1, err || e.2.1, hasCR, 1, q1⟩
        else .cont q1 ca1 false hasCR (err || e.2.1) (rest.length - e.1.length)
      else .cont q1 ca1 false hasCR err (w + k - 1)

/-- the loop of `scanString`.  `ca` = closeAllowed, `lp` = the bytes since `lineStart`
(reversed), `skip` = bytes of already processed material still to be passed over. -/
def strLoop (q : QI) (ca : Bool) (lp : Str) (hasCR : Bool) (err : Bool) : Nat → Str → StrRes
  | _, [] => ⟨.STRING, [], true, hasCR, 0, q⟩
  | skip + 1, b :: rest => strLoop q ca (b :: lp) hasCR err skip rest
  | 0, b :: rest =>
    if q.numChar != 3 && b == 10 then ⟨.STRING, b :: rest, true, hasCR, 0, q⟩
    else
      let w := width (b :: rest)
      let r1 := (b :: rest).drop w
      match strStep q ca lp hasCR err b rest w r1
          (if q.numChar != 3 || ca then consumeStringClose q b r1 else (false, r1)) with
      | .stop r => r
      | .cont q' ca' reset hasCR' err' skip =>
        strLoop q' ca' (if reset then [] else b :: lp) hasCR' err' skip rest

structure LitRes where
  kind : Kind
  rest : Str
  err : Bool
  hasCR : Bool
  extra : Nat
  push : Option QI

def ofStr (r : StrRes) : LitRes :=
  ⟨r.kind, r.rest, r.err, r.hasCR, r.extra, if r.kind == .INTERPOLATION then some r.q else none⟩

/-- `case '"', '\''` of `Scan`: `cur` is the position after the first quote character `ch` -/
def scanQuoted (numHash : Nat) (ch : Nat) (cur : Str) : LitRes :=
  let q1 : QI := ⟨ch, 1, numHash, none⟩
  let q3 : QI := ⟨ch, 3, numHash, none⟩
  let c := consumeN ch 2 cur
  match c.1 with
  | 0 => ofStr (strLoop q1 false [] false false 0 c.2)
  | 1 =>
    let h := consumeN 35 numHash c.2
    if h.1 == numHash then ⟨.STRING, h.2, false, false, 0, none⟩
    else ofStr (strLoop q1 false [] false false 0 h.2)
  | _ =>
    let h := if numHash > 0 then consumeN 35 numHash c.2 else (0, c.2)
    if numHash > 0 && h.1 == numHash then ⟨.STRING, h.2, false, false, 0, none⟩
    else
      match h.2 with
      | 10 :: r => ofStr (strLoop q3 true [] false false 0 r)
      | 13 :: 10 :: r => ofStr (strLoop q3 true [] false false 0 r)
      | 13 :: r => ⟨.STRING, r, true, false, 0, none⟩
      | r => ⟨.STRING, r, true, false, 0, none⟩

/-- `recoverParen(open)` -/
def recoverParen : Nat → Str → Str
  | _, [] => []
  | open_, b :: rest =>
    if b == 10 then b :: rest
    else if b == 40 then recoverParen (open_ + 1) rest
    else if b == 41 then (if open_ - 1 == 0 then b :: rest else recoverParen (open_ - 1) rest)
    else recoverParen open_ rest

/-! ### `Scan` -/

/-- the tokens after which `Scan` sets `insertEOL` (the local variable at the end of the
token switch; ILLEGAL preserves the previous value and is handled separately) -/
def insertsComma : Kind → Bool
  | .IDENT | .KEYWORD | .BOTTOM | .INT | .FLOAT | .STRING | .INTERPOLATION
  | .RPAREN | .RBRACK | .RBRACE | .OPTION | .ELLIPSIS => true
  | .SEMICOLON | .ATTRIBUTE => true
  | _ => false

/-- the closing token an opening bracket token asks for -/
def closerOf : Kind → Option Kind
  | .LPAREN => some .RPAREN
  | .LBRACE => some .RBRACE
  | .LBRACK => some .RBRACK
  | _ => none

def isCloser : Kind → Bool
  | .RPAREN | .RBRACK | .RBRACE => true
  | _ => false

/-- `scanAttributeTokens(close)`; `scan` is `Scan`.  Returns the state and whether an error
was reported.  (The Go `switch` tests `close` first, then EOF, INTERPOLATION, the three opening
brackets, and reports "unexpected" for the three closing ones.) -/
def attrTokens (scan : St → Option (Tok × St)) : Nat → Kind → St → Bool → Option (St × Bool)
  | 0, _, _, _ => none
  | f + 1, close, st, e =>
    match scan st with
    | none => none
    | some (t, st1) =>
      let e := e || t.err
      if t.kind == close then some (st1, e)
      else if t.kind == .EOF then some (st1, true)
      else if t.kind == .INTERPOLATION then
        -- errf; popInterpolation; recoverParen(1)
        attrTokens scan f close { st1 with stack := st1.stack.dropLast, cur := recoverParen 1 st1.cur } true
      else
        match closerOf t.kind with
        | some c =>
          match attrTokens scan f c st1 e with
          | none => none
          | some (st2, e2) => attrTokens scan f close st2 e2
        | none => attrTokens scan f close st1 (e || isCloser t.kind)

/-- an operator of one character, or two when the next character is `c2`: (token, number of
further characters consumed) -/
def op2 (rest : Str) (c2 : Nat) (k1 k2 : Kind) : Kind × Nat :=
  match rest with
  | b :: _ => if b == c2 then (k2, 1) else (k1, 0)
  | [] => (k1, 0)

/-- the operator / punctuation table of `Scan`: first character `b` (already consumed),
`rest` the position after it; (token, number of further characters consumed).  `none`: not an
operator.  Maximal munch: `<-`, `<=`, `>=`, `=~`, `==`, `!~`, `!=`, `&&`, `||` (`...` is
handled with '.'). -/
def operator (b : Nat) (rest : Str) : Option (Kind × Nat) :=
  if b == 58 then some (.COLON, 0)
  else if b == 59 then some (.SEMICOLON, 0)
  else if b == 63 then some (.OPTION, 0)
  else if b == 126 then some (.TILDE, 0)
  else if b == 44 then some (.COMMA, 0)
  else if b == 40 then some (.LPAREN, 0)
  else if b == 41 then some (.RPAREN, 0)
  else if b == 91 then some (.LBRACK, 0)
  else if b == 93 then some (.RBRACK, 0)
  else if b == 123 then some (.LBRACE, 0)
  else if b == 125 then some (.RBRACE, 0)
  else if b == 43 then some (.ADD, 0)
  else if b == 45 then some (.SUB, 0)
  else if b == 42 then some (.MUL, 0)
  else if b == 60 then
    match rest with
    | 45 :: _ => some (.ARROW, 1)
    | _ => some (op2 rest 61 .LSS .LEQ)
  else if b == 62 then some (op2 rest 61 .GTR .GEQ)
  else if b == 61 then
    match rest with
    | 126 :: _ => some (.MAT, 1)
    | _ => some (op2 rest 61 .BIND .EQL)
  else if b == 33 then
    match rest with
    | 126 :: _ => some (.NMAT, 1)
    | _ => some (op2 rest 61 .NOT .NEQ)
  else if b == 38 then some (op2 rest 38 .AND .LAND)
  else if b == 124 then some (op2 rest 124 .OR .LOR)
  else none

def kindOfNum : NumLit.Kind → Kind
  | .int => .INT
  | .float => .FLOAT

/-- what one pass through the token switch of `Scan` does -/
inductive Act where
  /-- the normal exit at the end of `Scan` -/
  | done (kind : Kind) (lit : Str) (rest : Str) (ins : Bool) (err : Bool) (push : Option QI)
  /-- the early `return …, token.COMMA, "\n"`: position `rest`, `s.insertEOL = false` -/
  | autoComma (rest : Str)
  /-- `goto scanAgain` / `return s.Scan()` from position `start` with `s.insertEOL = false` -/
  | again (start : Str)
  /-- `scanAttribute` after `scanIdentifier` (position `c1`): the nested `Scan` calls follow -/
  | attr (c1 : Str)

/-- `case '"', '\''` after the first quote character; `cur` is the token start -/
def quotedAct (cur : Str) (numHash : Nat) (ch : Nat) (after : Str) : Act :=
  let r := scanQuoted numHash ch after
  let l := between cur (r.rest.length - r.extra)
  .done r.kind (if r.hasCR then stripCR l else l) r.rest true r.err r.push

/-- `s.src[offs:s.offset]` for a token starting at `cur` and ending at `rest` -/
def litOf (cur rest : Str) : Str := between cur rest.length

/-- a test on the current character `s.ch` (false at end of input) -/
def headIs (p : Nat → Bool) (r : Str) : Bool :=
  match r with
  | c :: _ => p c
  | [] => false

/-- `s.ch == '\'' || s.ch == '"' || s.ch == '#'` -/
def isQuoteOrHash (r : Str) : Bool :=
  match r with
  | c :: _ => c == 39 || c == 34 || c == 35
  | [] => false

/-- `case '#'` (reached by fall-through with `quote.numHash = 1`, the second '#' consumed,
position `r2`): count the hashes; a quote must follow, else the token is ILLEGAL (no error
is reported) with the literal `l` = "#" -/
def hashString (cur l r2 : Str) : Act :=
  let h := consumeN 35 r2.length r2
  match h.2 with
  | c :: r3 =>
    if c == 39 || c == 34 then quotedAct cur (2 + h.1) c r3
    else .done .ILLEGAL l h.2 false false none
  | [] => .done .ILLEGAL l h.2 false false none

/-- `case isLetter(ch), ch == '$', ch == '#'` of `Scan` (incl. the fall-through into the
`#`-string cases); `cur = b :: …` is the token start -/
def classIdent (U : Uni) (cur : Str) (b : Nat) : Act :=
  let r := scanFieldIdent U cur
  let l := litOf cur r
  if l.length > 1 then .done (lookup l) l r true false none
  else if b != 35 || !isQuoteOrHash r then .done .IDENT l r true false none
  else
    -- quote.numHash = 1; ch = s.ch; fallthrough: s.next(); switch ch
    match r with
    | 35 :: r2 => hashString cur l r2
    | c :: r2 => quotedAct cur 1 c r2
    | [] => .done .IDENT l r true false none

/-- `case '_'` (after `s.next()`: `rest`) -/
def classUnderscore (U : Uni) (cur rest : Str) : Act :=
  match rest with
  | 124 :: 95 :: r => .done .BOTTOM [95, 124, 95] r true false none
  | _ =>
    let r := scanFieldIdent U rest
    let l := litOf cur r
    if l == [95, 95] && headIs (· == 35) r then
      let r2 := identLoop U 0 (r.drop 1)
      .done .ILLEGAL (litOf cur r2) r2 true true none
    else .done .IDENT l r true false none

/-- `case '\n'`: only reached when insertEOL was set — the automatic comma -/
def classNewline (rest : Str) : Act :=
  let c2 := skipWs false rest
  if headIs (fun c => c == 44 || c == 58) c2 then .again c2 else .autoComma c2

/-- `case '.'` -/
def classDot (cur rest : Str) : Act :=
  match rest with
  | 46 :: 46 :: r => .done .ELLIPSIS [] r true false none
  | 46 :: r => .done .ILLEGAL [] r false true none
  | _ =>
    if isDigitAt ⟨fun _ => false, fun _ => false⟩ rest then
      let r := NumLit.sScanNumber true rest
      .done (kindOfNum r.1) (litOf cur r.2.1) r.2.1 true r.2.2 none
    else .done .PERIOD [] rest false false none

/-- `case '/'` -/
def classSlash (M : Mode) (insertEOL : Bool) (cur rest : Str) : Act :=
  match rest with
  | 47 :: r =>
    if insertEOL then .autoComma cur   -- reset to the beginning of the comment
    else
      let sl := skipLine r
      if !M.scanComments then .again sl.1
      else
        let l := litOf cur sl.1
        .done .COMMENT (if sl.2 then stripCR l else l) sl.1 false false none
  | _ => .done .QUO [] rest false false none

/-- the operators and the ILLEGAL default -/
def classOther (insertEOL : Bool) (cur : Str) (b : Nat) (rest : Str) : Act :=
  match operator b rest with
  | some (k, x) => .done k (if k == .COMMA then [44] else []) (rest.drop x) (insertsComma k) false none
  | none =>
    -- default: ILLEGAL; `next` reported an unexpected BOM already
    .done .ILLEGAL (encodeRune (rune cur)) (cur.drop (width cur)) insertEOL (rune cur != 0xFEFF) none

/-- the token switch of `Scan` at position `cur` (after `skipWhitespace`); `insertEOL` is
`s.insertEOL` on entry -/
def classify (M : Mode) (U : Uni) (insertEOL : Bool) (cur : Str) : Act :=
  match cur with
  | [] => if insertEOL then .autoComma [] else .done .EOF [] [] false false none
  | b :: rest =>
    if 48 ≤ b && b ≤ 57 then
      let r := NumLit.sScanNumber false cur
      .done (kindOfNum r.1) (litOf cur r.2.1) r.2.1 true r.2.2 none
    else if isLetterAt U cur || b == 36 || b == 35 then classIdent U cur b
    -- default: s.next() ("always make progress"); switch ch
    else if b == 95 then classUnderscore U cur rest
    else if b == 10 then classNewline rest
    else if b == 34 || b == 39 then quotedAct cur 0 b rest
    else if b == 64 then .attr (identLoop U 0 rest)
    else if b == 46 then classDot cur rest
    else if b == 47 then classSlash M insertEOL cur rest
    else classOther insertEOL cur b rest

/-- `Scan`.  `n` = `len(src)`.  `none` = out of fuel. -/
def scanTok (M : Mode) (U : Uni) (n : Nat) : Nat → St → Option (Tok × St)
  | 0, _ => none
  | fuel + 1, st =>
    let entry := st.cur
    let cur := skipWs st.insertEOL st.cur
    let off := n - cur.length
    -- the common exit: `if s.mode&DontInsertCommas == 0 { s.insertEOL = insertEOL }`
    let fin (kind : Kind) (lit : Str) (rest : Str) (ins : Bool) (err : Bool) (stack : List QI) :
        Option (Tok × St) :=
      some (⟨kind, off, n - rest.length, lit, err || nextErrs rest.length 0 true entry⟩,
            { cur := rest, insertEOL := if M.dontInsertCommas then st.insertEOL else ins, stack := stack })
    match classify M U st.insertEOL cur with
    | .done k l rest ins e push =>
      fin k l rest ins e (match push with
                          | some q => st.stack ++ [q]
                          | none => st.stack)
    | .autoComma rest =>
      some (⟨.COMMA, off, n - rest.length, [10], nextErrs rest.length 0 true entry⟩,
            { st with cur := rest, insertEOL := false })
    | .again start =>
      -- the `next()` errors of the part already passed belong to this call
      match scanTok M U n fuel { st with cur := start, insertEOL := false } with
      | none => none
      | some (t, s') => some ({ t with err := t.err || nextErrs start.length 0 true entry }, s')
    | .attr c1 =>
      -- `if _, tok, _ := s.Scan(); tok == token.LPAREN { s.scanAttributeTokens(token.RPAREN) } else { errf }`
      match scanTok M U n fuel { st with cur := c1 } with
      | none => none
      | some (t, st1) =>
        if t.kind == .LPAREN then
          match attrTokens (scanTok M U n fuel) fuel .RPAREN st1 t.err with
          | none => none
          | some (st2, e) => fin .ATTRIBUTE (between cur st2.cur.length) st2.cur true e st2.stack
        else fin .ATTRIBUTE (between cur st1.cur.length) st1.cur true true st1.stack

/-- `ResumeInterpolation` (as a token): `none` = empty quote stack (Go panics) -/
def resume (n : Nat) (st : St) : Option (Tok × St) :=
  match st.stack.getLast? with
  | none => none
  | some q =>
    let r := strLoop q false [] false false 0 st.cur
    -- the literal starts one byte before the current offset (the closing parenthesis)
    let l := 41 :: between st.cur (r.rest.length - r.extra)
    let l := if r.hasCR then stripCR l else l
    let stack := st.stack.dropLast ++ (if r.kind == .INTERPOLATION then [r.q] else [])
    some (⟨r.kind, n - st.cur.length - 1, n - r.rest.length, l,
           r.err || nextErrs r.rest.length 0 true st.cur⟩, { st with cur := r.rest, stack := stack })

/-- `Init`: (state, an error was reported) -/
def init (src : Str) : St × Bool :=
  let e0 := match src with
    | b :: _ => b == 0 || (b ≥ 0x80 && rune src == 0xFFFD && width src == 1)
    | [] => false
  if rune src == 0xFEFF && width src == 3 then
    (⟨src.drop 3, false, []⟩, e0 || runeErr (src.drop 3))
  else (⟨src, false, []⟩, e0)

def endsWithParen (l : Str) : Bool := l.getLast? == some 40

/-- the client loop: `Scan` until EOF, `ResumeInterpolation` after the `)` closing an
interpolation.  `ds` = stack of parenthesis depths of the open interpolations. -/
def scanLoop (M : Mode) (U : Uni) (n : Nat) : Nat → St → List Nat → List Tok
  | 0, _, _ => [⟨.FUEL, 0, 0, [], false⟩]
  | fuel + 1, st, ds =>
    match scanTok M U n (2 * st.cur.length + 3) st with
    | none => [⟨.FUEL, 0, 0, [], false⟩]
    | some (t, st1) =>
      if t.kind == .EOF then [t]
      else
        match ds with
        | [] => t :: scanLoop M U n fuel st1 (if t.kind == .INTERPOLATION then [0] else [])
        | d :: ds' =>
          if t.kind == .INTERPOLATION then t :: scanLoop M U n fuel st1 (0 :: d :: ds')
          else if t.kind == .LPAREN then t :: scanLoop M U n fuel st1 ((d + 1) :: ds')
          else if t.kind == .RPAREN then
            if d ≤ 1 then
              match resume n st1 with
              | none => [t, ⟨.PANIC, 0, 0, [], false⟩]
              | some (t2, st2) =>
                t :: t2 :: scanLoop M U n fuel st2 (if endsWithParen t2.lit then 0 :: ds' else ds')
            else t :: scanLoop M U n fuel st1 ((d - 1) :: ds')
          else t :: scanLoop M U n fuel st1 ds

/-- the whole token stream of a source text and `Init`'s error flag -/
def scan (M : Mode) (U : Uni) (src : Str) : List Tok × Bool :=
  let i := init src
  (scanLoop M U src.length (3 * src.length + 4) i.1 [], i.2)

end CueVerif.Scan
