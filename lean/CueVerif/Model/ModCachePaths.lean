/-
C16 — which names the cleanup in `Cache.Fetch` may remove (mod/modcache/fetch.go).

The whole-cache model (`Model/ModCache.lean`) is a PRODUCT of per-version components: a step
for version v does not touch the component of w ≠ v.  On disk that rests on two facts:
 (1) `cachePath` / `downloadDir` give different versions different names (escaping is
     injective) — every file-system effect other than the cleanup names its target exactly;
 (2) the cleanup before the extraction removes, in the parent of the extraction directory
     (`<cache>/mod/extract/<escaped path minus last element>/`), the entry `base` itself
     (`RemoveAll(dir)`, only when the directory is partial) and every entry whose name starts
     with `base ++ ".tmp-"` (`strings.HasPrefix(entry.Name(), tmpPrefix)`), where
     `base = filepath.Base(dir) = <last path element>@<version>`.
This file models (2); byte strings are `List Nat` as in `Model/Semver.lean`.
-/
import CueVerif.Model.Semver
namespace CueVerif.ModCache

abbrev Name := List Nat

/-- ".tmp-" (regenerated from the source as `Gen.C16.cleanup_tmp_suffix`) -/
def tmpSuffix : Name := [46, 116, 109, 112, 45]

def tmpSuffixText : String := ".tmp-"

/-- `strings.HasPrefix(name, pre)` -/
def hasPrefix (pre : Name) : Name → Bool := fun name => pre.isPrefixOf name

/-- the entries of the parent directory that the cleanup for the version whose extraction
directory is called `base` removes -/
def cleanupRemoves (base name : Name) : Bool :=
  name == base || hasPrefix (base ++ tmpSuffix) name

/-- `filepath.Base(dir)` for module path element `elem` and version `ver`: elem ++ "@" ++ ver -/
def dirBase (elem ver : Name) : Name := elem ++ [64] ++ ver

/-- the watched removals of Fetch with their guards, in source order (see Bridge/C16) -/
def goFetchRemoves : List String :=
  [ "RemoveAll(filepath.Join(parentDir, entry.Name())) if strings.HasPrefix(entry.Name(), tmpPrefix)",
    "RemoveAll(dir) if dirExists",          -- lRmAll
    "RemoveAll(dir) if err != nil" ]        -- eRmAll (Unzip failed)

def goFetchDefs : List String :=
  [ "_, dirExists := dirErr.(*downloadDirPartialError)",
    "parentDir := filepath.Dir(dir)",
    "tmpPrefix := filepath.Base(dir) + \".tmp-\"",
    "entries, _ := os.ReadDir(parentDir)" ]

end CueVerif.ModCache
