/-
C16 — which names the cleanup in `Cache.Fetch` may remove (mod/modcache/fetch.go).

The whole-cache model (`Model/ModCache.lean`) is a PRODUCT of per-version components: a step
for version v does not touch the component of w ≠ v.  On disk that rests on two facts:
 (1) `cachePath` / `downloadDir` give different versions different names (escaping is
     injective) — every file-system effect other than the cleanup names its target exactly;
 (2) the cleanup before the extraction removes, in the parent of the extraction directory
     (`<cache>/mod/extract/<escaped path minus last element>/`), the entry `base` itself
     (`RemoveAll(dir)`, only when the directory is partial) and every entry whose name is
     `base ++ ".tmp-"` followed by decimal digits (`strings.CutPrefix(entry.Name(), tmpPrefix)`
     + `isAllDigits`) and that is not itself named `<elem>@<valid version>` (`isVersionDir`,
     01b58aa; before f81b1df: every name with that prefix), where
     `base = filepath.Base(dir) = <last path element>@<version>`.
This file models (2); byte strings are `List Nat` as in `Model/Semver.lean`.
-/
import CueVerif.Model.Semver
namespace CueVerif.ModCache

abbrev Name := List Nat

/-- ".tmp-" (regenerated from the source as `Gen.C16.cleanup_tmp_suffix`) -/
def tmpSuffix : Name := [46, 116, 109, 112, 45]

def tmpSuffixText : String := ".tmp-"

/-- `strings.HasPrefix(name, pre)` -/
def hasPrefix (pre : Name) : Name → Bool := fun name => pre.isPrefixOf name

/-- `isAllDigits` of fetch.go: a non-empty string of decimal digits -/
def isAllDigits (s : Name) : Bool := !s.isEmpty && s.all fun c => decide (48 ≤ c) && decide (c ≤ 57)

/-- `strings.CutPrefix(name, pre)` -/
def cutPrefix (pre name : Name) : Option Name :=
  if pre.isPrefixOf name then some (name.drop pre.length) else none

/-- `strings.Cut(name, "@")`: the part after the first '@' (64), if there is one -/
def afterAt : Name → Option Name
  | [] => none
  | c :: r => if c = 64 then some r else afterAt r

/-- `strings.ReplaceAll(s, "!", "")` -/
def stripBang (s : Name) : Name := s.filter (· != 33)

/-- `isVersionDir` of fetch.go: the entry is named `<module path element>@<version>` (in an
escaped version an upper-case letter is "!" + the lower-case letter; irrelevant for validity) -/
def isVersionDir (name : Name) : Bool :=
  match afterAt name with
  | some escVers => Semver.isValid (stripBang escVers)
  | none => false

/-- the entries of the parent directory that the cleanup for the version whose extraction
directory is called `base` removes (since 01b58aa): `base` itself, and `base.tmp-<digits>`
unless that entry is itself named after a version -/
def cleanupRemoves (base name : Name) : Bool :=
  name == base ||
  (match cutPrefix (base ++ tmpSuffix) name with
   | some suffix => isAllDigits suffix && !isVersionDir name
   | none => false)

/-- the match of f81b1df (between the two repairs): `base.tmp-<digits>` -/
def cleanupRemovesDigits (base name : Name) : Bool :=
  name == base ||
  (match cutPrefix (base ++ tmpSuffix) name with
   | some suffix => isAllDigits suffix
   | none => false)

/-- the match BEFORE f81b1df: every name with the prefix `base.tmp-` -/
def cleanupRemovesOld (base name : Name) : Bool :=
  name == base || hasPrefix (base ++ tmpSuffix) name

/-- `filepath.Base(dir)` for module path element `elem` and version `ver`: elem ++ "@" ++ ver -/
def dirBase (elem ver : Name) : Name := elem ++ [64] ++ ver

/-- the watched removals of Fetch with their guards, in source order (see Bridge/C16) -/
def goFetchRemoves : List String :=
  [ "RemoveAll(filepath.Join(parentDir, entry.Name())) if ok && isAllDigits(suffix) && !isVersionDir(entry.Name())",
    "RemoveAll(dir) if dirExists",          -- lRmAll
    "RemoveAll(dir) if err != nil" ]        -- eRmAll (Unzip failed)

def goFetchDefs : List String :=
  [ "_, dirExists := dirErr.(*downloadDirPartialError)",
    "parentDir := filepath.Dir(dir)",
    "tmpPrefix := filepath.Base(dir) + \".tmp-\"",
    "entries, _ := os.ReadDir(parentDir)",
    "suffix, ok := strings.CutPrefix(entry.Name(), tmpPrefix)" ]

end CueVerif.ModCache
