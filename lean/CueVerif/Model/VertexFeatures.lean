/-
C02 — model of the graph construction of `toposort.VertexFeatures`
(internal/core/toposort/vertex.go): which nodes and precedence edges a list of struct
literals (each a field-order list) induces.  Core Lean only.

Transcribed Go functions
  vertexFeatures.compareStructMeta  → `cmpRoot`      (without the hasDynamic tie-break: see below)
  structMetaBatch.isExplicit        → `batchExplicit`
  structMetaBatches.appendBatch     → `appendBatch`
  VertexFeatures                    → `vertexFeatures`: the sort of the roots, the `addRoot`
                                      batching loop (`batchRoots`), the loop over the batches with
                                      `previous`/`next` (`runBatches`), `builder.Build().Sort(ctx)`
  vertexFeatures.addEdges           → `addEdges` (per decl: `addDecl`)
  GraphBuilder.EnsureNode / AddEdge → `ensureNode` / `addEdge` (edgesSet = no edge twice)
  analyseStructs                    → only its effect on the builder (`EnsureNode(arc.Label)` for
                                      every arc) and its OUTPUT (per struct literal: position,
                                      `isExplicit`) — the latter is the INPUT of this model

What a root is.  `analyseStructs` returns one `structMeta` per `adt.StructInfo` of the vertex:
its position (`pos`), whether it takes part in an explicit unification (`explicit`), and its
declarations; here `labels` = the labels of its `*adt.Field` declarations in source order.

Not modelled (the inputs of the correspondence stream avoid them): dynamic fields
(`hasDynamic`, `dynFieldsMap`), comprehension runs (`CompID`) and `Repeats`; how
`analyseStructs` derives positions and explicitness from conjuncts and references.

The only place where Go map iteration order enters is `GraphBuilder.Build`
(`maps.Values(nodesByFeature)`): the node list of the graph is an ARBITRARY permutation of the
builder's key set.  `nodesByFeature` is modelled as an association list with distinct keys
(`B.nodes`); `presentations` of the built graph are all `Graph`s whose node list is a
permutation of these keys.  `Node.Outgoing` is in `AddEdge` order (deterministic).
-/
import CueVerif.Model.Toposort
namespace CueVerif.Toposort
open CueVerif.Sanitize (Bytes Pos insertionSort)

/-- one `structMeta` as `VertexFeatures` sees it after `analyseStructs` -/
structure Root where
  id : Nat                 -- identity of the `*structMeta` pointer
  pos : Pos                -- `sMeta.pos`
  explicit : Bool          -- `sMeta.isExplicit` as set by `analyseStructs`
  labels : List Label      -- labels of the Field decls of the struct literal, in order
deriving Repr

/-- `node.structMeta`: nil, or (identity, file name of its position) -/
abbrev Meta := Option (Nat × Bytes)

/-- the `GraphBuilder`: `nodesByFeature` (key → node.structMeta) and the edges in `AddEdge`
order -/
structure B where
  nodes : List (Label × Meta) := []
  edges : List (Label × Label) := []

def B.keys (b : B) : List Label := b.nodes.map (·.1)

def B.find (b : B) (l : Label) : Option Meta := (b.nodes.find? (fun e => e.1 == l)).map (·.2)

/-- `EnsureNode` -/
def ensureNode (b : B) (l : Label) : B :=
  if b.keys.contains l then b else { b with nodes := b.nodes ++ [(l, none)] }

/-- `node.structMeta = sMeta` -/
def setMeta (b : B) (l : Label) (m : Nat × Bytes) : B :=
  { b with nodes := b.nodes.map (fun e => if e.1 == l then (e.1, some m) else e) }

/-- `AddEdge` (allowEdges = true) -/
def addEdge (b : B) (u v : Label) : B :=
  if b.edges.contains (u, v) then b
  else
    let b := ensureNode (ensureNode { b with edges := b.edges ++ [(u, v)] } u) v
    b

/-- one declaration with label `l` of root `r` in `addEdges`: returns the builder and the new
`previous` -/
def addDecl (r : Root) (explicit : Bool) (st : B × List Label) (l : Label) : B × List Label :=
  let (b, previous) := st
  let add : B × List Label :=
    let b := setMeta (ensureNode b l) l (r.id, r.pos.filename)
    (previous.foldl (fun b p => addEdge b p l) b, [l])
  match b.find l with
  | some (some (id, file)) =>
    if id = r.id then (b, previous)                                              -- "skipping 1"
    else if !explicit && r.pos.isValid && file = r.pos.filename then (b, previous) -- "skipping 2"
    else add
  | _ => add

/-- `addEdges(previous, sMeta)` with `sMeta.isExplicit = explicit` -/
def addEdges (b : B) (previous : List Label) (r : Root) (explicit : Bool) : B × List Label :=
  r.labels.foldl (addDecl r explicit) (b, previous)

/-- `structMetaBatch.isExplicit` -/
def batchExplicit (batch : List Root) : Bool :=
  match batch with
  | [] => false
  | [r] => r.explicit
  | _ => true

/-- `structMetaBatches.appendBatch` -/
def appendBatch (batches : List (List Root)) (batch : List Root) : List (List Root) :=
  match batch with
  | [] => batches
  | r :: _ =>
    match batches.getLast? with
    | none => [batch]
    | some prev =>
      match prev with
      | [] => batches ++ [batch]
      | p :: _ =>
        if batchExplicit batch && batchExplicit prev && r.pos.filename = p.pos.filename
        then batches.dropLast ++ [prev ++ batch]
        else batches ++ [batch]

/-- the `addRoot` loop (no dynamic fields, no comprehension runs) followed by the final
`appendBatch` -/
def batchRoots (roots : List Root) : List (List Root) :=
  let (batches, batch) := roots.foldl (fun (st : List (List Root) × List Root) root =>
    let (batches, batch) := st
    match batch with
    | [] => (batches, [root])
    | b0 :: _ => if b0.pos = root.pos then (batches, batch ++ [root])
                 else (appendBatch batches batch, [root])) ([], [])
  appendBatch batches batch

structure BS where
  b : B
  previous : List Label := []
  prevBatch : List Root := []

/-- `for _, root := range batch { next = append(next, vf.addEdges(previous, root)...) }` -/
def runBatch (b : B) (previous : List Label) (explicit : Bool) (batch : List Root) : B × List Label :=
  batch.foldl (fun (acc : B × List Label) root =>
    let r := addEdges acc.1 previous root explicit
    (r.1, acc.2 ++ r.2)) (b, [])

/-- one iteration of the loop `for _, batch := range batches` -/
def stepBatch (st : BS) (batch : List Root) : BS :=
  let previous :=
    match st.prevBatch, batch with
    | p :: _, r :: _ => if p.pos.filename != r.pos.filename then [] else st.previous
    | _, _ => st.previous
  let r := runBatch st.b previous (batchExplicit batch) batch
  { b := r.1, previous := r.2, prevBatch := batch }

/-- the loop `for _, batch := range batches` of `VertexFeatures` -/
def runBatches (b : B) (batches : List (List Root)) : B :=
  (batches.foldl stepBatch { b := b }).b

/-- `compareStructMeta` when no root has a dynamic field -/
def cmpRoot (a b : Root) : Ordering := Pos.compare a.pos b.pos

/-- the builder at the end of `VertexFeatures`: every arc's label is a node, then the edges of
the batches -/
def buildVF (S : SortFn) (arcs : List Label) (roots : List Root) : B :=
  let b := arcs.foldl ensureNode {}
  runBatches b (batchRoots (S.sort cmpRoot roots))

/-- successors in `AddEdge` order -/
def B.out (b : B) (u : Label) : List Label := (b.edges.filter (fun e => e.1 == u)).map (·.2)

/-- the presentation in which `Build` lists the nodes in the order `ns` -/
def B.graph (b : B) (ns : List Label) : Graph := ⟨ns, b.out⟩

/-- `VertexFeatures` end to end, for the presentation in insertion order -/
def vertexFeatures (S : SortFn) (arcs : List Label) (roots : List Root) : Res :=
  let b := buildVF S arcs roots
  sortG true S (b.graph b.keys)

end CueVerif.Toposort
