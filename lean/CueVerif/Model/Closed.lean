/-
C05 — executable model of struct unification with closedness (core Lean only).

This is a SEMANTIC model of what cue-lang/cue's evaluator decides for the fragment
  regular / optional `?` / required `!` fields, pattern constraints `[p]: v`, `...`,
  `close()`, definition references (closing recursively), embeddings, `&`,
  a tiny scalar lattice (int, string, literals, `_`, `_|_`).
It is NOT a transcription of internal/core/adt/typocheck.go (defIDs, replace sets,
evidence).  That code is held to this model by correspondence only (harness/c05.go).
What is transcribed from the Go code:
  * `Kind` and `Kind.merge`      ← adt.ArcType (ArcMember < ArcRequired < ArcOptional) and
                                   the merge of `Vertex.updateArcType` ("keep the smaller");
  * `closeV` / `closeRec`        ← ClosedNonRecursive (compile/builtin.go closeBuiltin) versus
                                   ClosedRecursive (definition references; unify.go);
  * `validate`                   ← adt/validate.go: required-field check, concreteness, no
                                   descent for concreteness/required below hidden/definition
                                   fields; optional arcs are skipped;
  * `Val.allows`                 ← the intent of cue.Value.Allows / Vertex.Accept.

Normal form.  A struct value is a total function on ALL labels:
  `kind l`  = which arc (if any) exists at `l` and its ArcType,
  `val l`   = the constraint on label `l` (declared value & values of every matching
              pattern; `top` when nothing speaks about `l`),
so unification is pointwise.  Closedness is a list of *closers* (one predicate on labels
per closing conjunct).  A struct literal under construction keeps the closers that come
from embeddings apart (`soft`) because "embeddings widen the enclosing struct": when the
literal is complete (`sealV`) each soft closer is widened by everything the literal
declares or any of its embeddings admits (`wide`).
-/
namespace CueVerif.Closed

/-! ### scalars -/

/-- tiny scalar lattice: two basic types and their literals -/
inductive Sc where
  | int | str
  | i (n : Nat)
  | s (n : Nat)
  deriving DecidableEq, Repr

def Sc.meet : Sc → Sc → Option Sc
  | .int, .int => some .int
  | .int, .i n => some (.i n)
  | .i n, .int => some (.i n)
  | .i n, .i m => if n = m then some (.i n) else none
  | .str, .str => some .str
  | .str, .s n => some (.s n)
  | .s n, .str => some (.s n)
  | .s n, .s m => if n = m then some (.s n) else none
  | _, _ => none

def Sc.concrete : Sc → Bool
  | .i _ | .s _ => true
  | _ => false

/-! ### labels, patterns, arc types -/

inductive LClass where
  | reg | hid | dfn
  deriving DecidableEq, Repr

/-- a label: regular `a`, hidden `_h`, definition `#D`; the name is a byte string -/
structure Label where
  cls : LClass
  name : List Nat
  deriving DecidableEq, Repr

def Label.isReg (l : Label) : Bool := l.cls == .reg

/-- the small pattern language: `[string]`, `[=~"^p"]`, `[=~"p$"]`, `[!="p"]` -/
inductive Pat where
  | any
  | pre (p : List Nat)
  | suf (p : List Nat)
  | ne (p : List Nat)
  deriving DecidableEq, Repr

/-- pattern constraints only ever match regular (string) labels -/
def Pat.matches (p : Pat) (l : Label) : Bool :=
  l.isReg && (match p with
    | .any => true
    | .pre q => q.isPrefixOf l.name
    | .suf q => q.isSuffixOf l.name
    | .ne q => l.name != q)

/-- adt.ArcType, in the order of the Go constants -/
inductive Kind where
  | member | required | optional
  deriving DecidableEq, Repr

def Kind.rank : Kind → Nat
  | .member => 0 | .required => 1 | .optional => 2

/-- `Vertex.updateArcType(t)`: `if t >= v.ArcType { return }; v.ArcType = t` -/
def Kind.merge (cur t : Kind) : Kind := if t.rank ≥ cur.rank then cur else t

def mergeK : Option Kind → Option Kind → Option Kind
  | none, b => b
  | a, none => a
  | some a, some b => some (a.merge b)

/-! ### syntax of the fragment

A struct literal is a spine `field … (pat … (emb … nil))`.  `own` and the terminator `top`
do not occur in source programs: they make the syntax closed under projection to a field
(`Spec.sub`): `{#S, a: #T}.a` is the group with the *direct* conjunct `#T` (`own`) and the
embedded conjunct `#S.a`.  Anything else in spine position is read as an embedding. -/
inductive Expr where
  | top                                            -- `_` (also: "nothing said here")
  | bot                                            -- `_|_`
  | sc (s : Sc)
  | nil                                            -- `{}` / end of a literal
  | field (l : Label) (k : Kind) (v : Expr) (rest : Expr)
  | pat (p : Pat) (v : Expr) (rest : Expr)
  | ell (rest : Expr)                              -- `...`
  | emb (e : Expr) (rest : Expr)                   -- embedding
  | own (e : Expr) (rest : Expr)                   -- direct conjunct of the literal's node
  | close (e : Expr)                               -- `close(e)`
  | defn (e : Expr)                                -- reference to a definition with body `e`
  | and (a b : Expr)
  deriving Repr

abbrev Pred := Label → Bool

/-! ### values -/

inductive Val where
  | bot
  | top
  | sc (s : Sc)
  /-- `rec`: the value is recursively closed (if it is embedded, the enclosing struct becomes
  recursively closed as well); `erec`: some EMBEDDED part of the struct literal under
  construction is recursively closed -/
  | st (labels : List Label) (kind : Label → Option Kind) (val : Label → Val)
       (hard soft : List Pred) (names wide : Pred) (rec erec : Bool)

def allP (ps : List Pred) (l : Label) : Bool := ps.all (· l)

/-- what a (sealed) struct admits when it is embedded: its closers if it is closed,
the labels it declares otherwise -/
def dOf (hard : List Pred) (names : Pred) : Pred :=
  fun l => if hard.isEmpty then names l else allP hard l

def noKind : Label → Option Kind := fun _ => none
def noVal : Label → Val := fun _ => .top
def noP : Pred := fun _ => false

def emptySt : Val := .st [] noKind noVal [] [] noP noP false false

def single (l : Label) (k : Kind) (v : Val) : Val :=
  .st [l] (fun x => if x = l then some k else none) (fun x => if x = l then v else .top)
    [] [] (fun x => x == l) (fun x => x == l) false false

def patV (p : Pat) (v : Val) : Val :=
  .st [] noKind (fun x => if p.matches x then v else .top) [] [] p.matches p.matches false false

def ellV : Val := .st [] noKind noVal [] [] Label.isReg Label.isReg false false

/-- unification: scalars by the lattice, structs pointwise -/
def unify : Val → Val → Val
  | .bot, _ => .bot
  | .top, b => b
  | .sc _, .bot => .bot
  | .sc s, .top => .sc s
  | .sc s, .sc t => match s.meet t with
    | some r => .sc r
    | none => .bot
  | .sc _, .st .. => .bot
  | .st .., .bot => .bot
  | .st l k v h s n w r e, .top => .st l k v h s n w r e
  | .st .., .sc _ => .bot
  | .st l1 k1 v1 h1 s1 n1 w1 r1 e1, .st l2 k2 v2 h2 s2 n2 w2 r2 e2 =>
    .st (l1 ++ l2) (fun x => mergeK (k1 x) (k2 x)) (fun x => unify (v1 x) (v2 x))
      (h1 ++ h2) (s1 ++ s2) (fun x => n1 x || n2 x) (fun x => w1 x || w2 x) (r1 || r2) (e1 || e2)

/-- referencing a definition: close at every depth (ClosedRecursive); only structs the
definition actually defines are closed (`top` children stay `top`) -/
def closeRec : Val → Val
  | .st l k v h s n _ _ e => .st l k (fun x => closeRec (v x)) (h ++ [dOf h n]) s n (dOf h n) true e
  | v => v

/-- a struct literal is complete: closers that came in through embeddings are widened by
everything the literal declares / its embeddings admit; recursively for the children
(the conjuncts a literal and its embeddings contribute to a field stay in that relation).
If an embedded part is recursively closed, so are all children of the literal. -/
def sealV : Val → Val
  | .st l k v h s n w r e =>
    .st l k (fun x => if e then closeRec (sealV (v x)) else sealV (v x))
      (h ++ s.map (fun r x => r x || w x)) [] n
      (dOf (h ++ s.map (fun r x => r x || w x)) n) r false
  | v => v

/-- use a (sealed) value as an embedding: its closers become soft, at every depth -/
def asEmb : Val → Val
  | .st l k v h _ n _ r _ => .st l k (fun x => asEmb (v x)) [] h n (dOf h n) r r
  | v => v

/-- use a (sealed) value as a direct conjunct of a literal under construction (a field
value, at every depth): its closers stay as they are; towards the embeddings of that
literal it counts with what it names -/
def asOwn : Val → Val
  | .st l k v h s n _ r _ => .st l k (fun x => asOwn (v x)) h s n n r false
  | v => v

/-- `close(v)`: one more closer at this level only (ClosedNonRecursive) -/
def closeV : Val → Val
  | .st l k v h s n _ r e => .st l k v (h ++ [dOf h n]) s n (dOf h n) r e
  | v => v

mutual
/-- evaluation in value position -/
def ev : Expr → Val
  | .top => .top
  | .bot => .bot
  | .sc s => .sc s
  | .nil => sealV emptySt
  | .field l k v rest => sealV (unify (single l k (asOwn (ev v))) (evS rest))
  | .pat p v rest => sealV (unify (patV p (asOwn (ev v))) (evS rest))
  | .ell rest => sealV (unify ellV (evS rest))
  | .emb e rest => sealV (unify (asEmb (ev e)) (evS rest))
  | .own e rest => sealV (unify (asOwn (ev e)) (evS rest))
  | .close e => closeV (ev e)
  | .defn e => closeRec (ev e)
  | .and a b => unify (ev a) (ev b)
/-- evaluation in spine position: the struct literal under construction (unsealed) -/
def evS : Expr → Val
  | .top => .top
  | .nil => emptySt
  | .field l k v rest => unify (single l k (asOwn (ev v))) (evS rest)
  | .pat p v rest => unify (patV p (asOwn (ev v))) (evS rest)
  | .ell rest => unify ellV (evS rest)
  | .emb e rest => unify (asEmb (ev e)) (evS rest)
  | .own e rest => unify (asOwn (ev e)) (evS rest)
  | .bot => .bot
  | .sc s => .sc s
  | .close e => asEmb (closeV (ev e))
  | .defn e => asEmb (closeRec (ev e))
  | .and a b => asEmb (unify (ev a) (ev b))
end

/-! ### validation (`Validate(cue.Concrete(true))`) -/

/-- `full = true`: regular context (concreteness and required fields are checked);
`full = false`: below a hidden or definition field only evaluation errors count. -/
def validate (full : Bool) : Val → Bool
  | .bot => false
  | .top => !full
  | .sc s => s.concrete || !full
  | .st labels kind val hard _ _ _ _ _ =>
    labels.all fun l =>
      match kind l with
      | none => true
      | some .optional => true
      | some .required => !full
      | some .member =>
        (!l.isReg || allP hard l) && validate (full && l.isReg) (val l)

/-- could a field `l` be added (cue.Value.Allows): every closer admits it -/
def Val.allows : Val → Label → Bool
  | .st _ _ _ hard _ _ _ _ _, l => !l.isReg || allP hard l
  | _, _ => false

/-! ### concrete data -/

/-- a concrete data value; structs are spines `cons l v (… nil)` -/
inductive Data where
  | atom (s : Sc)
  | nil
  | cons (l : Label) (v : Data) (rest : Data)
  deriving Repr

def Data.toExpr : Data → Expr
  | .atom s => .sc s
  | .nil => .nil
  | .cons l v rest => .field l .member v.toExpr rest.toExpr

/-- the model's verdict for `schema & data` after `Validate(Concrete(true))` -/
def accepts (s : Expr) (d : Data) : Bool :=
  validate true (unify (ev s) (ev d.toExpr))

end CueVerif.Closed
