/-
Model of the workflow controller of /repo/tools/flow (flow.go, run.go, tasks.go, cycle.go).

Transcribed Go functions (all pinned in Bridge/C18.lean):
  Task.done, Task.isReady                     → `doneRank`, `TState.done`, `isReady`
  Controller.markReady                        → `markReady`
  Controller.updateValue                      → `updateValue`
  Controller.updateTaskValue                  → `updateTaskValue`
  Controller.updateTaskResults                → `updateTaskResults`
  Task.addDep (the plain, non-service branch) → `addDep`
  Controller.initTasks (as far as the run loop is concerned: tasks appended in state
    Waiting, dependencies only ever added, checkCycle at the end)  → `initTasks`
  checkCycle / cycleChecker.isCyclic          → `checkCycle`, `isCyclic`
  Controller.runLoop                          → `start`, `loopHead`, `dispatchLoop`,
                                                `dispatchOne`, `onComplete`
  Controller.New / Controller.Run             → `new`, `start`

The state is the controller's state at the points where `runLoop` blocks in its `select`
(or has returned).  What the Go scheduler decides — which running task's result arrives
next on `taskCh`, with what outcome, and what `initTasks` discovers in the updated
configuration — is the label of a `Step`; every sequence of labels is a run.

Abstractions (stated, not hidden):
  * the configuration value is abstracted to the list of task results that were unified
    into it (`conj` = c.conjuncts beyond the initial ones, `inst` = what c.inst was
    evaluated from, `seen` = what a task's t.v was looked up from).  That unification
    itself is commutative/associative/idempotent is property C01's business.
  * reference analysis (internal/core/dep, markTaskDependencies, findImpliedTask) is the
    *environment*: each re-initialisation may add any number of tasks and any dependency
    edges between registered tasks (`Growth`).  Edges are never removed, tasks never
    re-indexed — as in the code.
  * service tasks, deferred tasks, RunInferredTasks and the `!t.v.Exists()` skip are not
    modelled (generated workflows have none).
Fields marked "ghost" do not exist in the Go code; they record history (logical clock)
so that the property can be stated about it.
Core Lean only.
-/
namespace CueVerif.Flow

/-- `flow.State` -/
inductive TState where
  | waiting | ready | running | terminated
  deriving DecidableEq, Repr, Inhabited

/-- the iota values of the `State` constants (bridged to the regenerated constants) -/
def TState.rank : TState → Nat
  | .waiting => 0 | .ready => 1 | .running => 2 | .terminated => 3

/-- `Task.done` on the numeric state: `t.state > Running` (bridged to the regenerated
comparison) -/
def doneRank (state : Nat) : Bool := decide (state > 2)

def TState.done (s : TState) : Bool := doneRank s.rank

structure Task where
  state : TState := .waiting
  /-- `t.depTasks` (indices) -/
  deps : List Nat := []
  /-- `t.conjunctSeq` -/
  conjSeq : Nat := 0
  /-- `t.valueSeq`; `none` is the initial -1 -/
  valueSeq : Option Nat := none
  /-- abstraction of `t.v`: the results contained in the configuration it was looked up from -/
  seen : List Nat := []
  /-- the task's result conjunct was appended to the configuration -/
  filled : Bool := false
  /-- `t.err != nil` -/
  failed : Bool := false
  /-- ghost: number of times the runner goroutine was started -/
  runs : Nat := 0
  /-- ghost: clock value at dispatch -/
  startAt : Option Nat := none
  /-- ghost: clock value when the completion was received -/
  endAt : Option Nat := none
  /-- ghost: `depTasks` at dispatch -/
  startDeps : List Nat := []
  /-- ghost: `seen` at dispatch (the input handed to the runner) -/
  startSeen : List Nat := []

structure Ctl where
  /-- `len(c.tasks)` -/
  n : Nat := 0
  tasks : Nat → Task := fun _ => {}
  /-- results appended to `c.conjuncts`, most recent first -/
  conj : List Nat := []
  /-- `c.conjunctSeq` -/
  conjSeq : Nat := 0
  /-- results contained in `c.inst` -/
  inst : List Nat := []
  /-- `c.valueSeqNum` -/
  valueSeq : Nat := 0
  /-- `c.errs != nil` -/
  errs : Bool := false
  /-- `runLoop` has returned -/
  stopped : Bool := false
  /-- ghost: the "deadlock" branch of runLoop was taken -/
  deadlock : Bool := false
  /-- ghost: the context was cancelled -/
  cancelled : Bool := false
  /-- ghost: logical clock, one tick per dispatch and per received completion -/
  clock : Nat := 0

/-- pointwise update of the task table -/
def Ctl.setTask (s : Ctl) (i : Nat) (t : Task) : Ctl :=
  { s with tasks := fun j => if j = i then t else s.tasks j }

/-- `Task.isReady` -/
def isReady (s : Ctl) (i : Nat) : Bool :=
  (s.tasks i).deps.all fun d => (s.tasks d).state.done

/-- the state loop of `Controller.markReady`.  The Go loop is sequential; marking a task
Ready never changes any `done()` (Ready < Running), so it equals this pointwise form. -/
def markReady (s : Ctl) : Ctl :=
  { s with tasks := fun i =>
      if i < s.n ∧ (s.tasks i).state = .waiting ∧ isReady s i = true
      then { s.tasks i with state := .ready } else s.tasks i }

/-- `Controller.updateValue`: re-evaluate the configuration from all conjuncts when it is
out of date; reports whether it did. -/
def updateValue (s : Ctl) : Ctl × Bool :=
  if s.valueSeq = s.conjSeq then (s, false)
  else ({ s with inst := s.conj, valueSeq := s.conjSeq }, true)

def maxSeq (s : Ctl) (ds : List Nat) (init : Nat) : Nat :=
  ds.foldl (fun r d => if (s.tasks d).conjSeq > r then (s.tasks d).conjSeq else r) init

/-- `Controller.updateTaskValue` -/
def updateTaskValue (s : Ctl) (i : Nat) : Ctl :=
  let t := s.tasks i
  let required := maxSeq s t.deps t.conjSeq
  if t.valueSeq = some required then s
  else
    let s1 := if s.valueSeq < required then (updateValue s).1 else s
    s1.setTask i { s1.tasks i with seen := s1.inst, valueSeq := some required }

/-- `Controller.updateTaskResults` (`fill` = the runner called `Fill`, t.update ≠ nil) -/
def updateTaskResults (s : Ctl) (i : Nat) (fill : Bool) : Ctl :=
  if fill then
    let s1 := { s with conj := i :: s.conj, conjSeq := s.conjSeq + 1 }
    s1.setTask i { s1.tasks i with conjSeq := s.conjSeq + 1, filled := true }
  else s

/-- `Task.addDep` (plain tasks).  `i < n ∧ d < n`: a `*Task` always is a registered task. -/
def addDep (s : Ctl) (e : Nat × Nat) : Ctl :=
  let (i, d) := e
  if i < s.n ∧ d < s.n ∧ d ≠ i ∧ d ∉ (s.tasks i).deps then
    s.setTask i { s.tasks i with deps := (s.tasks i).deps ++ [d] }
  else s

/-- `cycleChecker.isCyclic`: depth-first search; `stack` are the tasks whose `visited`
mark is set (= the current path).  The Go recursion terminates because the path cannot
repeat a task; here that is `fuel` (n+1 suffices, `Proofs/FlowCycle`). -/
def isCyclic (deps : Nat → List Nat) : Nat → List Nat → Nat → Bool
  | 0, _, _ => false
  | fuel + 1, stack, t =>
    (deps t).any fun d =>
      if d ∈ t :: stack then true else isCyclic deps fuel (t :: stack) d

/-- `checkCycle`: an error is reported iff `isCyclic` holds for some task -/
def checkCycle (n : Nat) (deps : Nat → List Nat) : Bool :=
  (List.range n).any fun t => isCyclic deps (n + 1) [] t

/-- what a (re-)initialisation discovers in the current configuration -/
structure Growth where
  newTasks : Nat := 0
  newDeps : List (Nat × Nat) := []

/-- `Controller.initTasks`: append the new tasks (state Waiting), add the dependencies,
check for cycles. -/
def initTasks (s : Ctl) (g : Growth) : Ctl :=
  let s1 := { s with n := s.n + g.newTasks,
                     tasks := fun i => if i < s.n then s.tasks i else {} }
  let s2 := g.newDeps.foldl addDep s1
  if checkCycle s2.n (fun i => (s2.tasks i).deps) then { s2 with errs := true } else s2

/-- the `case Ready:` arm of runLoop: Running, refresh the task's value, start the goroutine -/
def dispatchOne (s : Ctl) (i : Nat) : Ctl :=
  let s1 := s.setTask i { s.tasks i with state := .running }
  let s2 := updateTaskValue s1 i
  let t := s2.tasks i
  { s2 with clock := s2.clock + 1 }.setTask i
    { t with runs := t.runs + 1, startAt := some s2.clock, startDeps := t.deps, startSeen := t.seen }

/-- `for _, t := range c.tasks { switch t.state … }`: visits indices i, i+1, …, i+k-1 -/
def dispatchLoop : Nat → Nat → Ctl → Ctl
  | 0, _, s => s
  | k + 1, i, s =>
    dispatchLoop k (i + 1) (if (s.tasks i).state = .ready then dispatchOne s i else s)

def anyState (s : Ctl) (st : TState) : Bool :=
  (List.range s.n).any fun i => (s.tasks i).state = st

/-- one pass through the head of the `for c.errs == nil` loop, up to the `select` -/
def loopHead (s : Ctl) : Ctl :=
  if s.errs then { s with stopped := true }
  else
    let s1 := dispatchLoop s.n 0 s
    if anyState s1 .running then s1
    else if anyState s1 .waiting then
      { s1 with errs := true, deadlock := true, stopped := true }
    else { s1 with stopped := true }

/-- `flow.New`: initTasks on the initial configuration -/
def new (g : Growth) : Ctl := initTasks {} g

/-- `Controller.Run` up to the first `select`: markReady(nil), loop head -/
def start (s : Ctl) : Ctl := loopHead (markReady s)

/-- the `case t := <-c.taskCh:` arm, followed by the next loop head -/
def onComplete (s : Ctl) (i : Nat) (ok fill : Bool) (g : Growth) : Ctl :=
  let t := s.tasks i
  let s1 := { s with clock := s.clock + 1 }.setTask i
              { t with state := .terminated, endAt := some s.clock, failed := !ok }
  if !ok then { s1 with errs := true, stopped := true }
  else
    let s2 := updateTaskResults s1 i fill
    let (s3, changed) := updateValue s2
    let s4 := if changed then initTasks s3 g else s3
    let s5 := updateTaskValue s4 i
    loopHead (markReady s5)

/-- One step of the controller.  `complete`: the result of ANY running task arrives next,
successful or not, having filled something or not, and the re-initialisation discovers
anything.  `cancel`: the context is done. -/
inductive Step : Ctl → Ctl → Prop
  | complete (s : Ctl) (i : Nat) (ok fill : Bool) (g : Growth)
      (hs : s.stopped = false) (hi : i < s.n) (hr : (s.tasks i).state = .running) :
      Step s (onComplete s i ok fill g)
  | cancel (s : Ctl) (hs : s.stopped = false) :
      Step s { s with stopped := true, cancelled := true }

/-- every state of every run of the workflow whose initial analysis yields `g0` -/
inductive Reachable (g0 : Growth) : Ctl → Prop
  | init : Reachable g0 (start (new g0))
  | step {s s'} : Reachable g0 s → Step s s' → Reachable g0 s'

/-- executable schedule: a list of completions, applied when legal -/
structure Completion where
  task : Nat
  ok : Bool := true
  fill : Bool := true
  grow : Growth := {}

def runSchedule (s : Ctl) : List Completion → Ctl
  | [] => s
  | c :: cs =>
    if s.stopped = false ∧ c.task < s.n ∧ (s.tasks c.task).state = .running
    then runSchedule (onComplete s c.task c.ok c.fill c.grow) cs
    else runSchedule s cs

end CueVerif.Flow
