/-
Model of the disjunction / default-mode algebra of the evaluator
(/repo/internal/core/adt), parametric in the underlying value meet-semilattice
`V` (`meet : V → V → Option V`, `none` = bottom, `top` = the empty base value of a node).

Transcribed Go functions
  * disjunct.go   : `defaultMode` constants (maybeDefault < isDefault < notDefault),
                    `mode`, `combineDefault`
  * disjunct2.go  : `combineDefault2`, `nodeContext.processDisjunctions` (the loop over the
                    node's disjunctions and the 0 / 1 / many survivors switch),
                    `nodeContext.crossProduct` (leftDropsDefault / rightDropsDefault, the
                    `len(r.disjuncts)` switch with nested unrolling, the `hasNonMaybe`
                    demotion), `nodeContext.doDisjunct` (clone of p, defaultMode /
                    origDefaultMode bookkeeping, `DerefDisjunct` collapse of a single
                    nested survivor), `appendDisjunct` (duplicate elimination that upgrades
                    the kept disjunct to isDefault), `finalizeDisjunctions` (NumDefaults)
  * default.go    : `Disjunction.Default` / `Vertex.Default` (0, 1, many defaults)
  * compile.go    : `addDisjunctionElem` (syntactically consecutive `|` form one
                    disjunction, a mark propagates to the terms below it, parentheses stop
                    the flattening), conjunct.go: `&` operands are scheduled on the same
                    node left to right, scalars are unified into the node before the
                    disjunction task runs.

Not modelled: priority layers (`Pos.Priority`; all generated programs have one layer),
cyclic default elimination (`defaultAttemptInCycle`), structure sharing, partial-node
equality (`equalPartialNode`; values are compared with `=` on `V`).
Pointer mutation (`r.defaultMode = …`, `xn.defaultMode = isDefault`) is state passing.
Core Lean only.
-/
namespace CueVerif.Disj

/-- `defaultMode` of disjunct.go, in the numeric order of the Go constants. -/
inductive Mode where
  | maybe   -- maybeDefault = 0
  | isDef   -- isDefault    = 1
  | notDef  -- notDefault   = 2
  deriving DecidableEq, Repr, Inhabited

def Mode.toNat : Mode → Nat
  | .maybe => 0 | .isDef => 1 | .notDef => 2

/-- disjunct.go `mode(hasDefault, marked)` -/
def mode (hasDefault marked : Bool) : Mode :=
  if !hasDefault then .maybe else if marked then .isDef else .notDef

/-- disjunct.go `combineDefault`: the larger constant wins. -/
def combineDefault (a b : Mode) : Mode :=
  if a.toNat > b.toNat then a else b

/-- disjunct2.go `combineDefault2` -/
def combineDefault2 (a b : Mode) (dropsDefaultA dropsDefaultB : Bool) : Mode :=
  combineDefault (if dropsDefaultA then .maybe else a) (if dropsDefaultB then .maybe else b)

/-- The value semilattice the model is parametric in. -/
structure Sl (V : Type) where
  meet : V → V → Option V
  top : V

/-- Expression syntax: what the parser hands to `compile.go`.
`or` chains are flattened into one disjunction by `terms` below, `paren` stops that,
`mark` is the unary `*`. -/
inductive Expr (V : Type) where
  | atom (v : V)
  | and (l r : Expr V)
  | or (l r : Expr V)
  | mark (e : Expr V)
  | paren (e : Expr V)
  deriving Repr

/-- A (partially) evaluated disjunct: `nodeContext` restricted to what the default
algebra reads: the value, `defaultMode`, `origDefaultMode`. -/
structure Leaf (V : Type) where
  v : V
  dm : Mode
  odm : Mode
  deriving Repr, DecidableEq

/-- What `doDisjunct` returns for a surviving disjunct: a node without nested disjuncts
(`len(r.disjuncts) == 0`; also the collapsed single survivor of a nested disjunction), or a
node with `r.disjuncts` (≥ 2 of them), its own `defaultMode` and `origDefaultMode`. -/
inductive R (V : Type) where
  | leaf (l : Leaf V)
  | multi (dm odm : Mode) (ds : List (Leaf V))
  deriving Repr

def R.odm {V : Type} : R V → Mode
  | .leaf l => l.odm
  | .multi _ odm _ => odm

section
variable {V : Type} [DecidableEq V]

/-- `appendDisjunct`: append unless an equal value is present; a duplicate only upgrades
the kept disjunct to isDefault. -/
def appendDisjunct : List (Leaf V) → Leaf V → List (Leaf V)
  | [], x => [x]
  | xn :: rest, x =>
    if xn.v = x.v then
      (if x.dm = .isDef then { xn with dm := .isDef } else xn) :: rest
    else xn :: appendDisjunct rest x

/-- the unrolling loop over `r.disjuncts` in `crossProduct` -/
def unroll (rdm rodm : Mode) (leftDrops : Bool) :
    List (Leaf V) → List (Leaf V) × Bool → List (Leaf V) × Bool
  | [], acc => acc
  | x :: xs, (dst, hnm) =>
    let m := combineDefault rodm x.dm
    let dm := combineDefault2 rdm m leftDrops false
    unroll rdm rodm leftDrops xs (appendDisjunct dst { x with dm := dm }, hnm || dm != .maybe)

/-- one iteration of the second loop of `crossProduct` (`for _, r := range tmp`) -/
def place (leftDrops rightDrops : Bool) (acc : List (Leaf V) × Bool) (r : R V) :
    List (Leaf V) × Bool :=
  match r with
  | .leaf l =>
    (appendDisjunct acc.1 { l with dm := combineDefault2 l.dm l.odm leftDrops rightDrops }, acc.2)
  | .multi dm odm ds => unroll dm odm leftDrops ds acc

/-- `crossProduct(dst = [], cross, dn, mode)`; `terms p` = the surviving results of
`p.doDisjunct` for the disjuncts of `dn`, in order. -/
def crossProduct (cross : List (Leaf V)) (terms : Leaf V → List (R V)) : List (Leaf V) :=
  let tmp := cross.map fun p => (p, terms p)
  let leftDrops := !(tmp.any fun pr => !pr.2.isEmpty && (pr.1.dm == .isDef || pr.1.odm == .isDef))
  let rightDrops := !(tmp.any fun pr => pr.2.any fun r => r.odm == .isDef)
  let res := (tmp.flatMap fun pr => pr.2).foldl (place leftDrops rightDrops) ([], false)
  if res.2 then res.1.map fun r => if r.dm = .maybe then { r with dm := .notDef } else r
  else res.1

/-- `doDisjunct` for a disjunct whose scalar conjuncts are `scalar` and whose disjunction
conjuncts are processed by `conj` (`processDisjunctions` of the clone): `[]` when the
disjunct fails. -/
def doDisj (scalar : Option V → Option V) (conj : List (Leaf V) → List (Leaf V))
    (p : Leaf V) (m : Mode) : List (R V) :=
  match scalar (some p.v) with
  | none => []
  | some v =>
    match conj [{ v := v, dm := p.dm, odm := m }] with
    | [] => []
    | [x] => [.leaf { x with odm := m }]
    | xs => [.multi p.dm m xs]

/-- Denotation of an expression: its contribution to a node as a conjunct
(`scalar`, `conj`) and as a (chain of) disjunct(s) of an enclosing disjunction (`terms`). -/
structure Sem (V : Type) where
  /-- unify the scalar conjuncts into the node's base value (none = conflict) -/
  scalar : Option V → Option V
  /-- `processDisjunctions`: fold `crossProduct` over the disjunction conjuncts in order -/
  conj : List (Leaf V) → List (Leaf V)
  /-- as terms of a disjunction with `HasDefaults = hd`, under an inherited mark `mk` -/
  terms : Bool → Bool → Leaf V → List (R V)
  /-- `DisjunctionExpr.HasDefaults` contribution -/
  hasMark : Bool

def sem (S : Sl V) : Expr V → Sem V
  | .atom a =>
    let sc : Option V → Option V := fun b => b.bind (fun x => S.meet x a)
    { scalar := sc, conj := id, terms := fun hd mk p => doDisj sc id p (mode hd mk), hasMark := false }
  | .and l r =>
    let sl := sem S l
    let sr := sem S r
    let sc : Option V → Option V := fun b => sr.scalar (sl.scalar b)
    let cj : List (Leaf V) → List (Leaf V) := fun c => sr.conj (sl.conj c)
    { scalar := sc, conj := cj, terms := fun hd mk p => doDisj sc cj p (mode hd mk), hasMark := false }
  | .paren e =>
    let s := sem S e
    { scalar := s.scalar, conj := s.conj,
      terms := fun hd mk p => doDisj s.scalar s.conj p (mode hd mk), hasMark := false }
  | .mark e =>
    let s := sem S e
    -- a mark outside a disjunction is a compile error ("preference mark not allowed")
    { scalar := fun _ => none, conj := fun _ => [],
      terms := fun hd _ p => s.terms hd true p, hasMark := true }
  | .or l r =>
    let sl := sem S l
    let sr := sem S r
    let hm := sl.hasMark || sr.hasMark
    { scalar := id,
      conj := fun cross => crossProduct cross (fun p => sl.terms hm false p ++ sr.terms hm false p),
      terms := fun hd mk p => sl.terms hd mk p ++ sr.terms hd mk p,
      hasMark := hm }

/-- The evaluated root vertex: bottom, a single value, or a `Disjunction` whose disjuncts
carry their final modes (`finalizeDisjunctions` puts the isDefault ones first and counts
them in `NumDefaults`). -/
inductive Out (V : Type) where
  | bottom
  | single (v : V)
  | disj (ds : List (Leaf V))
  deriving Repr

/-- evaluate a whole expression at a fresh root node -/
def eval (S : Sl V) (e : Expr V) : Out V :=
  let s := sem S e
  match doDisj s.scalar s.conj { v := S.top, dm := .maybe, odm := .maybe } .maybe with
  | [] => .bottom
  | .leaf l :: _ => .single l.v
  | .multi _ _ ds :: _ => .disj ds

/-- all disjunct values of the result -/
def Out.values : Out V → List V
  | .bottom => []
  | .single v => [v]
  | .disj ds => ds.map (·.v)

/-- `Disjunction.Values[:NumDefaults]` -/
def Out.defaults : Out V → List V
  | .disj ds => (ds.filter (·.dm = .isDef)).map (·.v)
  | _ => []

/-- `Value.Default()`'s second result: the value is a disjunction with NumDefaults > 0 -/
def Out.hasDefault (o : Out V) : Bool := !o.defaults.isEmpty

/-- the disjuncts `Default()` returns: the defaults if there are any, else everything -/
def Out.defaultSet (o : Out V) : List V :=
  if o.defaults.isEmpty then o.values else o.defaults

/-- What a use that needs a concrete value sees. -/
inductive Res (V : Type) where
  | bottom
  | value (v : V)
  | ambiguous
  deriving Repr, DecidableEq

/-- `Default()` then "is it a single value": 0 survivors = error, one default or one
survivor = that value, otherwise incomplete ("ambiguous"). -/
def Out.resolve (o : Out V) : Res V :=
  match o.values with
  | [] => .bottom
  | _ =>
    match o.defaultSet with
    | [x] => .value x
    | _ => .ambiguous

end

/-! ### syntactic classes used by the theorems -/

/-- `e` contains a `mark` anywhere -/
def Expr.hasAnyMark {V : Type} : Expr V → Bool
  | .atom _ => false
  | .and l r => l.hasAnyMark || r.hasAnyMark
  | .or l r => l.hasAnyMark || r.hasAnyMark
  | .mark _ => true
  | .paren e => e.hasAnyMark

/-- `e` contains a disjunction anywhere -/
def Expr.hasOr {V : Type} : Expr V → Bool
  | .atom _ => false
  | .and l r => l.hasOr || r.hasOr
  | .or _ _ => true
  | .mark e => e.hasOr
  | .paren e => e.hasOr

/-- the marks of an `or` chain (what `addDisjunctionElem` sees): does the chain have a
marked term -/
def Expr.chainMarked {V : Type} : Expr V → Bool
  | .or l r => l.chainMarked || r.chainMarked
  | .mark _ => true
  | _ => false

/-- Well-formed (compiles): `mark` only occurs as a (possibly repeated) prefix of a term of
an `or` chain.  `wfT` is for term position, `wfE` for expression position. -/
def Expr.wf {V : Type} : Expr V → Bool → Bool
  | .atom _, _ => true
  | .and l r, _ => l.wf false && r.wf false
  | .or l r, _ => l.wf true && r.wf true
  | .mark e, inTerm => inTerm && (match e with | .or _ _ => false | _ => true) && e.wf true
  | .paren e, _ => e.wf false

/-- "default marks are not nested inside other marked disjunctions": under a marked `or`
chain no term contains a marked chain of its own. `im` = we are inside a term of a marked
chain; `chain` = we are walking an `or` chain whose head has already been inspected. -/
def Expr.noNested {V : Type} : Expr V → Bool → Bool → Bool
  | .atom _, _, _ => true
  | .and l r, im, _ => l.noNested im false && r.noNested im false
  | .paren e, im, _ => e.noNested im false
  | .mark e, im, chain => e.noNested im chain
  | .or l r, im, true => l.noNested im true && r.noNested im true
  | .or l r, im, false =>
    let m := (Expr.or l r).chainMarked
    (!(im && m)) && l.noNested (im || m) true && r.noNested (im || m) true

/-- the property's side condition on a whole expression -/
def Expr.NoNestedMarks {V : Type} (e : Expr V) : Bool := e.noNested false false

/-- well-formed whole expression -/
def Expr.WF {V : Type} (e : Expr V) : Bool := e.wf false

/-! ### the flat fragment: one node, any number of conjuncts, any widths -/

/-- no disjunction and no mark inside: a conjunction of atoms -/
def Expr.scalarOnly {V : Type} : Expr V → Bool
  | .atom _ => true
  | .and l r => l.scalarOnly && r.scalarOnly
  | .paren e => e.scalarOnly
  | _ => false

/-- an `or` chain all of whose terms are (possibly marked) scalar expressions -/
def Expr.flatChain {V : Type} : Expr V → Bool
  | .or l r => l.flatChain && r.flatChain
  | .mark e => e.flatChain
  | e => e.scalarOnly

/-- a conjunction (any nesting of `&` and parentheses) of atoms and flat disjunctions -/
def Expr.flatConj {V : Type} : Expr V → Bool
  | .atom _ => true
  | .and l r => l.flatConj && r.flatConj
  | .paren e => e.flatConj
  | .or l r => (Expr.or l r).flatChain
  | .mark _ => false

/-- number of marked disjunctions among the conjuncts of the node -/
def Expr.markedChains {V : Type} : Expr V → Nat
  | .and l r => l.markedChains + r.markedChains
  | .paren e => e.markedChains
  | .or l r => if (Expr.or l r).chainMarked then 1 else 0
  | _ => 0

/-- number of disjunctions among the conjuncts of the node -/
def Expr.chains {V : Type} : Expr V → Nat
  | .and l r => l.chains + r.chains
  | .paren e => e.chains
  | .or _ _ => 1
  | _ => 0

/-- The fragment on which the transcribed algorithm provably follows the spec's rules:
a single node whose conjuncts (any number, any `&` nesting) are atoms and flat disjunctions
of any width, at most one of them marked.  (With two marked disjunctions at one node the
transcribed algorithm is already order dependent, see Props/C04.) -/
def Expr.Flat {V : Type} (e : Expr V) : Bool := e.flatConj && decide (e.markedChains ≤ 1)

/-- the meet-semilattice laws assumed of `V` (bottom = none) -/
structure Laws {V : Type} (S : Sl V) : Prop where
  comm : ∀ a b, S.meet a b = S.meet b a
  assoc : ∀ a b c, (S.meet a b).bind (fun x => S.meet x c) = (S.meet b c).bind (fun y => S.meet a y)
  idem : ∀ a, S.meet a a = some a
  top : ∀ a, S.meet S.top a = some a

end CueVerif.Disj
