/-
Model of /repo/internal/par/queue.go (NewQueue, Queue.Add, Queue.Idle): the queue state lives
in a 1-buffered channel, so every receive…send pair on `q.st` is one atomic step.  Items are
identified by naturals.  Steps:

  * `addQueue` / `addStart` — `Add(f)`: backlog append when `active == maxActive`, otherwise
    (`idle = nil` when `active == 0`) `active++` and a new worker goroutine runs `f`;
  * `finishLast` / `finishNext` — a worker's critical section after `f()` returned: with an
    empty backlog `active--` and `close(idle)` when that reaches 0 and `idle != nil`;
    otherwise it takes the head of the backlog and runs it;
  * `idleCall` — `Idle()`: creates the channel if nil, closed at once when `active == 0`.

Any interleaving of these steps (any number of callers of Add/Idle, any worker finishing at
any time) is a run.  `close` of an already closed channel would panic in Go: the model
records that in `panic` instead of hiding it.  Core Lean only.
-/
namespace CueVerif.Queue

structure St where
  /-- `st.active` -/
  active : Nat
  /-- `st.backlog` -/
  backlog : List Nat
  /-- items whose `f()` is executing (one per worker goroutine) -/
  running : List Nat
  /-- items whose `f()` has returned -/
  done : List Nat
  /-- `st.idle`: `none` = nil, `some false` = open channel, `some true` = closed channel -/
  idle : Option Bool
  /-- ghost: every item passed to `Add`, in order -/
  added : List Nat
  /-- a closed channel was closed again -/
  panic : Bool
deriving Repr

def init : St :=
  { active := 0, backlog := [], running := [], done := [], idle := none, added := [], panic := false }

inductive Step (max : Nat) : St → St → Prop
  | addQueue (s : St) (i : Nat) (h : s.active = max) :
      Step max s { s with backlog := s.backlog ++ [i], added := s.added ++ [i] }
  | addStart (s : St) (i : Nat) (h : s.active ≠ max) :
      Step max s { s with idle := if s.active = 0 then none else s.idle,
                          active := s.active + 1, running := i :: s.running,
                          added := s.added ++ [i] }
  | finishLast (s : St) (i : Nat) (h : i ∈ s.running) (hb : s.backlog = []) :
      Step max s { s with active := s.active - 1, running := s.running.erase i,
                          done := i :: s.done,
                          idle := if s.active - 1 = 0 ∧ s.idle ≠ none then some true else s.idle,
                          panic := s.panic || (decide (s.active - 1 = 0) && s.idle == some true) }
  | finishNext (s : St) (i j : Nat) (rest : List Nat) (h : i ∈ s.running)
      (hb : s.backlog = j :: rest) :
      Step max s { s with backlog := rest, running := j :: s.running.erase i,
                          done := i :: s.done }
  | idleCall (s : St) :
      Step max s { s with idle := if s.idle = none then some (decide (s.active = 0)) else s.idle }

inductive Run (max : Nat) : St → Prop
  | init : Run max init
  | step {s t} : Run max s → Step max s t → Run max t

/-- executable replay of a recorded event sequence (for the harness): `add i` and `end i`
events in log order; returns the final state or `none` if an `end` names an item that is not
running in the model -/
inductive Ev where
  | add (i : Nat)
  | fin (i : Nat)
  | idle
deriving Repr

def apply (max : Nat) (s : St) : Ev → Option St
  | .add i =>
    if s.active = max then some { s with backlog := s.backlog ++ [i], added := s.added ++ [i] }
    else some { s with idle := if s.active = 0 then none else s.idle,
                       active := s.active + 1, running := i :: s.running,
                       added := s.added ++ [i] }
  | .fin i =>
    if !s.running.contains i then none
    else match s.backlog with
      | [] => some { s with active := s.active - 1, running := s.running.erase i,
                            done := i :: s.done,
                            idle := if s.active - 1 = 0 ∧ s.idle ≠ none then some true else s.idle,
                            panic := s.panic || (decide (s.active - 1 = 0) && s.idle == some true) }
      | j :: rest => some { s with backlog := rest, running := j :: s.running.erase i,
                                   done := i :: s.done }
  | .idle => some { s with idle := if s.idle = none then some (decide (s.active = 0)) else s.idle }

end CueVerif.Queue
