/-
C05 — pattern constraints: executable model of `matchPattern` / `matchPatternValue`
(internal/core/adt/constraints.go) for STRING labels and of `BoundValue.validateStr`
(internal/core/adt/expr.go), over the scalar vocabulary of C03 (Model/Scalar.lean: `Atom`,
`Bound`, `BType`, `Kind`, `binOpBool`; imported, not modified).  Core Lean only.

Transcribed: the guard `pattern == nil || !f.IsRegular()`, the kind pre-check
`k.IsAnyOf(pattern.Kind())` with `k = StringKind`, and the fast-track cases
  *Bottom → false, *Top → true, *BasicType → `x.K&k == k`, *BoundValue (string kind →
  validateStr; any other kind that passes the pre-check → the slow track, which for a bound
  and a concrete string is `BinOpBool(op, label, value)`), *Num → false for a string label,
  *String → equality, *Conjunction → all, *Disjunction → any.
The regular-expression matcher is the opaque parameter `re pattern subject` (as in C03).
Not transcribed: integer labels (lists), the cyclic-pattern error report, the general slow
track (struct-valued / reference patterns).
-/
import CueVerif.Model.Scalar
namespace CueVerif.PatMatch
open CueVerif CueVerif.Scalar

/-- the (evaluated) pattern values the fast track distinguishes; n-ary conjunctions and
disjunctions are nested binary ones -/
inductive PatV where
  | bot
  | top
  | basic (t : BType)
  | bound (b : Bound)
  | str (s : Bytes)
  | num (z : Int)
  | conj (a b : PatV)
  | disj (a b : PatV)
  deriving Repr, Inhabited

/-- `pattern.Kind()` -/
def PatV.kind : PatV → Kind
  | .bot => Kind.bottom
  | .top => Kind.top
  | .basic t => t.kind
  | .bound b => b.kind
  | .str _ => Kind.string
  | .num _ => Kind.int
  | .conj a b => a.kind &&& b.kind
  | .disj a b => a.kind ||| b.kind

/-- `BoundValue.validateStr(c, a)` -/
def validateStr (re : Bytes → Bytes → Bool) (b : Bound) (a : Bytes) : Bool :=
  match b.val with
  | .str p =>
    match b.op with
    | .le => compare a p != .gt
    | .lt => compare a p == .lt
    | .ge => compare a p != .lt
    | .gt => compare a p == .gt
    | .ne => a != p
    | .mat => re p a
    | .nmat => !(re p a)
  | _ => binOpBool re b.op (.str a) b.val      -- `x.validate(c, &String{Str: a}) == nil`

/-- `matchPatternValue(ctx, pattern, f)` for a regular string label with text `l` -/
def matchValue (re : Bytes → Bytes → Bool) (p : PatV) (l : Bytes) : Bool :=
  (Kind.string &&& p.kind != 0) &&
  match p with
  | .bot => false
  | .top => true
  | .basic t => t.kind &&& Kind.string == Kind.string
  | .bound b => if b.kind == Kind.string then validateStr re b l else binOpBool re b.op (.str l) b.val
  | .num _ => false
  | .str s => s == l
  | .conj a b => matchValue re a l && matchValue re b l
  | .disj a b => matchValue re a l || matchValue re b l

/-- `matchPattern(ctx, pattern, f)`: `none` = nil pattern; `regular` = `f.IsRegular()` -/
def matchPattern (re : Bytes → Bytes → Bool) (p : Option PatV) (regular : Bool) (l : Bytes) : Bool :=
  match p with
  | none => false
  | some p => regular && matchValue re p l

end CueVerif.PatMatch
