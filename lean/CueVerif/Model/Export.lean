/-
C07 — executable model of the export PRIMITIVES that decide what a printed value means.

NOT transcribed: the conjunct-based exporter of internal/core/export (~3,500 lines: expr.go,
adt.go, self.go, extract.go, toposort, let hoisting, import inlining, self-contained output).  It
is tied by translation validation in harness/c07*.go (print, re-evaluate, compare canonical
forms).  What IS transcribed, by hand, from the Go source (fingerprints in Bridge/C07.lean):

 (1) LABELS      internal/core/export/label.go  `exporter.stringLabel` (default arm)
                 cue/ast/ast.go                 `NewStringLabel`, `NewString` (= `literal.String.Quote`)
                 cue/ast/ident.go               `StringLabelNeedsQuoting` (`IsValidIdent` is
                                                Model/Ident.lean, the quoter Model/Quote.lean)
                 reading side: internal/core/compile/label.go `compiler.label` (the `*ast.Ident`
                 and `*ast.BasicLit`/STRING arms) and adt/feature.go `MakeIdentLabel`.
                 NOT modelled: the parser.  Assumed of it (tied in the harness): an
                 identifier-shaped token — keywords `if for in let true false null …` included —
                 in label position becomes an `*ast.Ident` / keyword label with that name, a
                 STRING token becomes a `*ast.BasicLit`.  `HiddenKey`'s package suffix is not
                 modelled either (hidden labels only matter here as "not a string label").
 (2) RANGES      internal/core/adt/builtinrange.go `intBuiltinRanges`, `floatBuiltinRanges`,
                 `MatchBuiltinRange`
     BOUNDS      internal/core/export/bounds.go   `boundSimplifier.add`, `.expr`, `wrapBin`
                 internal/core/export/value.go    the `*adt.Conjunction` arm of `exporter.value`
                 (with `cfg.Simplify`): `exportConj`
 (3) PARENS      value.go, `*adt.Disjunction` / `*adt.Conjunction` arms: `ast.NewBinExpr(token.OR, …)`
                 with `&ast.UnaryExpr{Op: token.MUL}` on defaults, `wrapBin(…, adt.AndOp)` chains;
                 no `ParenExpr` is ever built: `mkDisj`, `mkConj` on C08's expression trees.
 (4) VALUES      `exportV`, `exportFinal` are REFERENCE exporters on C01's CueCore values
                 (Model/Core.lean), not transcriptions: value-based export of a normal form, the
                 second one with `structComposite`'s treatment of optional fields (skipped when
                 `!ShowOptional`) and never emitting `close`.

Strings are byte lists.  Core Lean only.
-/
import CueVerif.Model.Scalar
import CueVerif.Model.Ident
import CueVerif.Model.Quote
import CueVerif.Model.Core
import CueVerif.Model.Fmt
namespace CueVerif.Export
open CueVerif

/-! ## (1) labels -/

abbrev Bytes := List Nat

/-- the code points `for _, r := range s` yields (U+FFFD for every invalid byte); every step
consumes at least one byte, so `s.length` steps suffice -/
def runesAux : Nat → Bytes → List Nat
  | 0, _ => []
  | _, [] => []
  | fuel + 1, b :: rest =>
    let rw := Quote.decodeRune (b :: rest)
    rw.1 :: runesAux fuel (rest.drop (rw.2 - 1))

def runes (s : Bytes) : List Nat := runesAux s.length s

/-- `strings.HasPrefix(s, string(c))` for an ASCII character -/
def hasPrefixByte (c : Nat) (s : Bytes) : Bool := s.head? == some c

/-- `ast.StringLabelNeedsQuoting` (`lU`/`dU` = `unicode.IsLetter`/`IsDigit` above 0x7F) -/
def needsQuoting (lU dU : Nat → Bool) (s : Bytes) : Bool :=
  hasPrefixByte 35 s || hasPrefixByte 95 s || !Ident.isValidIdent lU dU (runes s)

/-- what the exporter hands to the formatter as a field label -/
inductive LabelSyntax
  | ident (name : Bytes)      -- *ast.Ident
  | lit (text : Bytes)        -- *ast.BasicLit{Kind: token.STRING}, text incl. the quotes
deriving DecidableEq, Repr

/-- `ast.NewStringLabel(name)` -/
def printLabel (E : Quote.Env) (lU dU : Nat → Bool) (s : Bytes) : LabelSyntax :=
  if needsQuoting lU dU s then .lit (Quote.quote E Quote.stringForm s) else .ident s

/-- the names `package` and `import`: at the top level of a file the parser reads them as the
start of a package clause / import declaration, not as a field label -/
def isFileKeyword (s : Bytes) : Bool :=
  s == [112, 97, 99, 107, 97, 103, 101] || s == [105, 109, 112, 111, 114, 116]

/-- `exporter.stringLabel`, default arm (since /repo 6c9a0c0): `package` and `import` are always
quoted (`ast.NewString`), every other name goes through `ast.NewStringLabel` -/
def exportLabel (E : Quote.Env) (lU dU : Nat → Bool) (s : Bytes) : LabelSyntax :=
  if isFileKeyword s then .lit (Quote.quote E Quote.stringForm s) else printLabel E lU dU s

/-- `adt.Feature` as far as its type and name are concerned -/
inductive Feature
  | str (s : Bytes)
  | def_ (s : Bytes)
  | hidden (s : Bytes)
  | hiddenDef (s : Bytes)
deriving DecidableEq, Repr

/-- `compiler.label` on an `*ast.Ident` (`"_"` → InvalidLabel) followed by `adt.MakeIdentLabel` -/
def identFeature (n : Bytes) : Option Feature :=
  if n == [95] then none
  else if [95, 35].isPrefixOf n then some (.hiddenDef n)
  else if hasPrefixByte 35 n then some (.def_ n)
  else if hasPrefixByte 95 n then some (.hidden n)
  else some (.str n)

/-- `compiler.label`; `none` = `adt.InvalidLabel`.  `nfc` = `norm.NFC.String`, which the compiler
applies to the unquoted text of a STRING label (and NOT to an identifier). -/
def parseLabel (nfc : Bytes → Bytes) : LabelSyntax → Option Feature
  | .ident n => identFeature n
  | .lit text =>
    match Quote.unquote text with
    | .ok s => some (.str (nfc s))
    | .error _ => none

/-! ## (2a) predeclared ranges: `adt.MatchBuiltinRange` -/

open Scalar

structure BuiltinRange where
  name : String
  lo : Dec
  hi : Dec
deriving DecidableEq, Repr

/-- `intBuiltinRanges` (source order; `mustDec` of an integer literal has exponent 0) -/
def intBuiltinRanges : List BuiltinRange :=
  [⟨"int8", ⟨-128, 0⟩, ⟨127, 0⟩⟩,
   ⟨"int16", ⟨-32768, 0⟩, ⟨32767, 0⟩⟩,
   ⟨"int32", ⟨-2147483648, 0⟩, ⟨2147483647, 0⟩⟩,
   ⟨"int64", ⟨-9223372036854775808, 0⟩, ⟨9223372036854775807, 0⟩⟩,
   ⟨"int128", ⟨-170141183460469231731687303715884105728, 0⟩,
              ⟨170141183460469231731687303715884105727, 0⟩⟩,
   ⟨"uint8", ⟨0, 0⟩, ⟨255, 0⟩⟩,
   ⟨"uint16", ⟨0, 0⟩, ⟨65535, 0⟩⟩,
   ⟨"uint32", ⟨0, 0⟩, ⟨4294967295, 0⟩⟩,
   ⟨"uint64", ⟨0, 0⟩, ⟨18446744073709551615, 0⟩⟩,
   ⟨"uint128", ⟨0, 0⟩, ⟨340282366920938463463374607431768211455, 0⟩⟩]

/-- `floatBuiltinRanges`: `±3.40282346638528859811704183484516925440e+38` and
`±1.797693134862315708145274237317043567981e+308` as `apd.NewFromString` holds them -/
def floatBuiltinRanges : List BuiltinRange :=
  [⟨"float32", ⟨-340282346638528859811704183484516925440, 0⟩,
               ⟨340282346638528859811704183484516925440, 0⟩⟩,
   ⟨"float64", ⟨-1797693134862315708145274237317043567981, 269⟩,
               ⟨1797693134862315708145274237317043567981, 269⟩⟩]

/-- the loop state of `MatchBuiltinRange` -/
structure MState where
  hasInt : Bool := false
  lo : Option Dec := none
  hi : Option Dec := none
deriving DecidableEq, Repr

/-- the `for _, v := range c.Values` loop; `none` = an early `return ""` -/
def matchScan : MState → List Constraint → Option MState
  | s, [] => some s
  | s, .type t :: cs =>
    -- `if x.K != IntKind || hasInt { return "" }`
    if t.kind != Kind.int || s.hasInt then none else matchScan { s with hasInt := true } cs
  | s, .bound b :: cs =>
    match b.val.num? with            -- `n, ok := x.Value.(*Num)`
    | none => none
    | some n =>
      match b.op with
      | .ge => if s.lo.isSome then none else matchScan { s with lo := some n } cs
      | .le => if s.hi.isSome then none else matchScan { s with hi := some n } cs
      | _ => none
  | _, _ :: _ => none               -- `default: return ""`

/-- `lo.X.Cmp(r.lo) == 0 && hi.X.Cmp(r.hi) == 0` -/
def rowMatches (lo hi : Dec) (r : BuiltinRange) : Bool :=
  Dec.cmp lo r.lo == .eq && Dec.cmp hi r.hi == .eq

/-- `adt.MatchBuiltinRange`: the predeclared identifier, `""` for none -/
def matchBuiltinName (cs : List Constraint) : String :=
  match matchScan {} cs with
  | none => ""
  | some s =>
    match s.lo, s.hi with
    | some lo, none => if s.hasInt && lo.coeff == 0 then "uint" else ""
    | some lo, some hi =>
      let ranges := if s.hasInt then intBuiltinRanges else floatBuiltinRanges
      match ranges.find? (rowMatches lo hi) with
      | some r => r.name
      | none => ""
    | none, _ => ""

/-- the spelling of a predeclared range identifier -/
def Range.name : Range → String
  | .rune => "rune" | .int8 => "int8" | .int16 => "int16" | .int32 => "int32" | .int64 => "int64"
  | .int128 => "int128" | .uint => "uint" | .uint8 => "uint8" | .uint16 => "uint16"
  | .uint32 => "uint32" | .uint64 => "uint64" | .uint128 => "uint128"
  | .float32 => "float32" | .float64 => "float64"

def allRanges : List Range :=
  [.rune, .int8, .int16, .int32, .int64, .int128, .uint, .uint8, .uint16, .uint32, .uint64,
   .uint128, .float32, .float64]

/-- how the compiler resolves a predeclared range identifier (compile/predeclared.go) -/
def Range.ofName? (s : String) : Option Range := allRanges.find? (fun r => Range.name r == s)

/-- the range the printed identifier denotes when it is read back; `none` = no identifier printed
(or — never, see `C07_range_named` — one the compiler does not know) -/
def matchBuiltinRange (cs : List Constraint) : Option Range :=
  let n := matchBuiltinName cs
  if n == "" then none else Range.ofName? n

/-! ## (2b) `boundSimplifier` -/

/-- `adt.ScalarKinds` = Null|Bool|Int|Float|String|Bytes -/
def scalarKinds : Kind := 63

/-- `min`/`minNum`, `max`/`maxNum` are kept as pairs -/
structure BSimp where
  isInt : Bool := false
  min : Option (Bound × Dec) := none
  max : Option (Bound × Dec) := none
deriving DecidableEq, Repr

/-- `s.min == nil || p(s.minNum.X.Cmp(&n.X))` -/
def replaces (cur : Option (Bound × Dec)) (n : Dec) (p : Ordering → Bool) : Bool :=
  match cur with
  | none => true
  | some (_, m) => p (Dec.cmp m n)

/-- `boundSimplifier.add`: new state and `used`.  (`adt.IsConcrete(x.Value)` is true of every
scalar operand; `x.Kind() == adt.IntKind` is `Bound.kind`, which is never `IntKind`:
`BoundValue.Kind` maps int operands to `NumberKind` — Proofs/ExportBounds `bound_kind_ne_int`.) -/
def BSimp.add (s : BSimp) : Constraint → BSimp × Bool
  | .type t =>
    if (t.kind &&& scalarKinds) == Kind.int then ({ s with isInt := true }, true) else (s, false)
  | .bound b =>
    let s := if b.kind == Kind.int then { s with isInt := true } else s
    match b.val.num? with
    | none => (s, false)
    | some n =>
      match b.op with
      | .gt => (if replaces s.min n (· != .gt) then { s with min := some (b, n) } else s, true)
      | .ge => (if replaces s.min n (· == .lt) then { s with min := some (b, n) } else s, true)
      | .lt => (if replaces s.max n (· != .lt) then { s with max := some (b, n) } else s, true)
      | .le => (if replaces s.max n (· == .gt) then { s with max := some (b, n) } else s, true)
      | _ => (s, false)
  | _ => (s, false)

/-- the loop `for _, v := range x.Values { if !b.add(v) { a = append(a, v) } }`:
final state and the unused values in input order -/
def simpRun (s : BSimp) : List Constraint → BSimp × List Constraint
  | [] => (s, [])
  | c :: cs =>
    let r := s.add c
    let r' := simpRun r.1 cs
    (r'.1, if r.2 then r'.2 else c :: r'.2)

inductive Prefix | none | int | uint
deriving DecidableEq, Repr

/-- what `boundSimplifier.expr` builds, `none` = it returns nil -/
def BSimp.expr (s : BSimp) : Option (Prefix × Option Bound × Option Bound) :=
  match s.min, s.max with
  | some (mn, mnNum), some (mx, _) =>
    if s.isInt then
      if mnNum.sign == -1 then some (.int, some mn, some mx)
      else if mnNum.sign == 0 && mn.op == .ge then some (.uint, none, some mx)
      else some (.uint, some mn, some mx)
    else some (.none, some mn, some mx)
  | _, _ => none

structure Simplified where
  pre : Prefix
  min : Option Bound
  max : Option Bound
  rest : List Constraint
deriving DecidableEq, Repr

/-- the simplifier on a whole conjunction; `none` = `expr` returned nil and ALL values are kept -/
def simplify (cs : List Constraint) : Option Simplified :=
  let r := simpRun {} cs
  match r.1.expr with
  | some (p, mn, mx) => some ⟨p, mn, mx, r.2⟩
  | none => none

def Prefix.conjuncts : Prefix → List Constraint
  | .none => []
  | .int => [.type .int]
  | .uint => [.range .uint]

def optBound : Option Bound → List Constraint
  | some b => [.bound b]
  | none => []

/-- the conjuncts of the printed expression `prefix & min & max & rest…` -/
def Simplified.conjuncts (r : Simplified) : List Constraint :=
  r.pre.conjuncts ++ optBound r.min ++ optBound r.max ++ r.rest

/-- the conjuncts that are printed for `cs` by the simplifier -/
def simplifyBounds (cs : List Constraint) : List Constraint :=
  match simplify cs with
  | some r => r.conjuncts
  | none => cs

/-- the `*adt.Conjunction` arm with `cfg.Simplify`: fewer than two values are printed as they are;
a recognised predeclared range as its identifier (`none` = an identifier the compiler does not
know, which never happens: `C07_conj_export`); otherwise the simplifier. -/
def exportConj (cs : List Constraint) : Option (List Constraint) :=
  if cs.length < 2 then some cs
  else if matchBuiltinName cs == "" then some (simplifyBounds cs)
  else (Range.ofName? (matchBuiltinName cs)).map fun r => [.range r]

/-! ## (3) disjunctions and conjunctions are built without parentheses -/

/-- `ast.NewBinExpr(op, operands...)`: left-nested chain, `none` for no operand (nil) -/
def newBinExpr (o : Fmt.OpTok) : List Fmt.Expr → Option Fmt.Expr
  | [] => none
  | e :: es => some (es.foldl (fun acc x => .bin o acc x) e)

/-- a default disjunct is `&ast.UnaryExpr{Op: token.MUL, X: expr}` -/
def markDisjunct (d : Bool × Fmt.Expr) : Fmt.Expr := if d.1 then .un .mul d.2 else d.2

/-- the `*adt.Disjunction` arm -/
def mkDisj (ds : List (Bool × Fmt.Expr)) : Option Fmt.Expr := newBinExpr .or (ds.map markDisjunct)

/-- the `wrapBin(result, x, adt.AndOp)` loop of the `*adt.Conjunction` arm -/
def mkConj (es : List Fmt.Expr) : Option Fmt.Expr := newBinExpr .and es

/-! ## (4) reference exporters on CueCore values -/

open Core in
mutual
/-- value-based export: the expression that denotes the normal form `v` -/
def exportV : Core.Val → Core.Expr
  | .bot => .bot
  | .top => .top
  | .sc s => .lit s
  | .struct xs c => if c then .close (.struct (exportSlots 0 xs)) else .struct (exportSlots 0 xs)
  | .list vs => .list (exportVals vs)
/-- one field declaration per present slot; label = slot index; the arc type is kept -/
def exportSlots : Nat → Core.Slots → Core.Decls
  | _, .nil => .nil
  | i, .cons s rest =>
    match exportSlot i s with
    | some d => .cons d (exportSlots (i + 1) rest)
    | none => exportSlots (i + 1) rest
def exportSlot : Nat → Core.Slot → Option Core.Decl
  | _, .none => none
  | i, .some t v => some (.field i t (exportV v))
def exportVals : Core.Vals → Core.Exprs
  | .nil => .nil
  | .cons v rest => .cons (exportV v) (exportVals rest)
end

open Core in
mutual
/-- export under `cue.Final()`: as `structComposite` with `!ShowOptional` — an arc with
`ArcType == ArcOptional` is skipped — and no `close` is ever emitted -/
def exportFinal : Core.Val → Core.Expr
  | .bot => .bot
  | .top => .top
  | .sc s => .lit s
  | .struct xs _ => .struct (exportFinalSlots 0 xs)
  | .list vs => .list (exportFinalVals vs)
def exportFinalSlots : Nat → Core.Slots → Core.Decls
  | _, .nil => .nil
  | i, .cons s rest =>
    match exportFinalSlot i s with
    | some d => .cons d (exportFinalSlots (i + 1) rest)
    | none => exportFinalSlots (i + 1) rest
def exportFinalSlot : Nat → Core.Slot → Option Core.Decl
  | _, .none => none
  | _, .some .optional _ => none
  | i, .some t v => some (.field i t (exportFinal v))
def exportFinalVals : Core.Vals → Core.Exprs
  | .nil => .nil
  | .cons v rest => .cons (exportFinal v) (exportFinalVals rest)
end

end CueVerif.Export
