/-
Model of the two number automata of cue-lang/cue (property C09, "number spellings agree").

Scanner side, /repo/cue/scanner/scanner.go:
  the number dispatch of `Scan` (`'0' <= ch && ch <= '9'` → `scanNumber(false)`;
  `case '.'` with `'0' <= s.ch && s.ch <= '9'` → `scanNumber(true)`), `scanNumber`,
  `scanMantissa`, `digitVal`, the `..` look-ahead (`s.src[p] == '.'`), every `s.errf` of
  these functions and the "illegal character NUL" `s.errf` of `next()`.
Literal side, /repo/cue/literal/num.go:
  `ParseNum`, `(*NumInfo).next`, `digitVal`, `scanMantissa`, `scanNumber` (all gotos).

Go strings are byte strings: `List Nat`.  Both automata are modelled on the same
representation of the reading position: a list `cur` whose head is the current character
(`s.ch` / `p.ch`) and which is `[]` at end of input (the scanner then has `s.ch = -1`, the
literal parser has `p.ch = 0`; `digitVal` is 16 for both, and every comparison of the
current character with a concrete byte is false for the scanner and — except for the
comparisons with 0, which are modelled explicitly through `chL` — for the literal parser).

Scope notes.
* The scanner reads runes, not bytes.  Every byte >= 0x80 starts a rune >= 0x80 (or
  U+FFFD), which has `digitVal` 16 and equals none of the ASCII characters the number
  automaton looks for, so such a rune always ENDS the number and is never part of the
  literal; bytes therefore suffice.  The `errf`s that `next()` issues while decoding such a
  look-ahead rune ("illegal UTF-8 encoding", "illegal byte order mark") are not modelled in
  the error flag of `scanNumber`; they cannot influence `scannerAccepts`, which requires the
  number to extend to the end of the input.
* `scanNumber` models the dispatch of `Scan` at offset 0 with no preceding white space or
  byte order mark (with either, the token's literal cannot be the whole input).
* EXCLUDED on the literal side: the value check of `p.decimal(&v)` in the multiplier branch
  ("number cannot be represented as int", e.g. `1.0005K`): a check on the VALUE, not on the
  spelling.  Since /repo 1674508 `p.decimal` also reports apd's parse error of `p.buf`; in
  `ParseNum` this can only happen for the mantissa "-.", see `negZeroMul` (`-0.K`; signed
  spellings only).  An exponent beyond apd's range (`1e100001`) is NOT rejected by `ParseNum`
  (no multiplier → `p.decimal` is not called); it is rejected later by `NumInfo.Decimal`.
* The `p.buf` side effects of the literal parser are not modelled: `p.buf` (and the
  `len(p.buf) == 0` tests in `next`, `scanNumber`, `ParseNum`) only ever influence `p.buf`
  itself and, through `p.decimal`, the excluded semantic check; no branch of the automaton
  depends on them.  Likewise `p.mul`, `p.base`, `p.neg`, `p.UseSep`.
* `scanMantissa` is only ever called with base 2, 8, 10 or 16, so it stops at end of input
  (`digitVal` = 16); the `[]` case of the loops below relies on that.

* Known genuine divergence of the two Go automata (confirmed on the real code): spellings
  beginning with "0_" such as "0_1.5", "0_0.", "0_1e0", "0_1.K" are accepted by
  `literal.ParseNum` (its "0 or float" branch runs `scanMantissa(10)` unconditionally and jumps
  to `fraction:` before the "illegal integer number" check), whereas the scanner only enters
  `scanMantissa` there when `s.ch` is '0'..'9' and so lexes INT "0" followed by an identifier.
  `zeroUnderscore` names that region; see Proofs/NumLit.lean.

Core Lean only.
-/
namespace CueVerif.NumLit

abbrev Str := List Nat

/-- `token.INT` / `token.FLOAT` on the scanner side, `!p.isFloat` / `p.isFloat` on the
literal side -/
inductive Kind where
  | int
  | float
deriving DecidableEq, Repr, Inhabited

/-- `digitVal` (identical in scanner.go and num.go; the `p.UseSep` side effect is dropped) -/
def digitVal (c : Nat) : Nat :=
  if 48 ≤ c ∧ c ≤ 57 then c - 48
  else if c = 95 then 0
  else if 97 ≤ c ∧ c ≤ 102 then c - 97 + 10
  else if 65 ≤ c ∧ c ≤ 70 then c - 65 + 10
  else 16

/-- the "illegal character NUL" error of both `next` functions, raised when the head of
`cur` becomes the current character -/
def nulErr (cur : Str) : Bool :=
  match cur with
  | 0 :: _ => true
  | _ => false

/-- 'K', 'M', 'G', 'T', 'P' -/
def isMul (c : Nat) : Bool := c == 75 || c == 77 || c == 71 || c == 84 || c == 80

def isDec (c : Nat) : Bool := 48 ≤ c && c ≤ 57

/-! ### scanner side -/

/-- `(*Scanner).scanMantissa(base)`; `last` is the local variable (initially 0).
Returns (position after the loop, an error was reported). -/
def sMant (base last : Nat) : Str → Str × Bool
  | [] => ([], last == 95)
  | c :: cs =>
    if digitVal c < base then
      let (r, e) := sMant base c cs
      (r, e || (last == 95 && c == 95) || nulErr cs)
    else (c :: cs, last == 95)

/-- `if s.ch == '-' || s.ch == '+' { s.next() }`: (new position, error reported) -/
def sSign (cs : Str) : Str × Bool :=
  match cs with
  | 45 :: cs' => (cs', nulErr cs')
  | 43 :: cs' => (cs', nulErr cs')
  | _ => (cs, false)

/-- the digits of an exponent:
`if digitVal(s.ch) >= 10 { errf "illegal exponent in number" }; s.scanMantissa(10)` -/
def sExpDigits (cur : Str) (err : Bool) : Kind × Str × Bool :=
  let e3 :=
    match cur with
    | [] => true                          -- digitVal(-1) = 16
    | d :: _ => decide (10 ≤ digitVal d)
  let (r, e4) := sMant 10 0 cur
  (.float, r, err || e3 || e4)

/-- label `exponent:` of `(*Scanner).scanNumber` up to `exit:`.
Returns (tok, final position, error reported). -/
def sExponent (tok : Kind) (cur : Str) (err : Bool) : Kind × Str × Bool :=
  match cur with
  | [] => (tok, [], err)
  | c :: cs =>
    if isMul c then
      -- tok = INT; s.next(); if s.ch == 'i' { s.next() }; goto exit
      match cs with
      | 105 :: cs' => (.int, cs', err || nulErr cs')
      | _ => (.int, cs, err || nulErr cs)
    else if c == 101 || c == 69 then
      -- tok = FLOAT; s.next(); optional sign; digits
      let (cur2, e2) := sSign cs
      sExpDigits cur2 (err || nulErr cs || e2)
    else (tok, cur, err)

/-- label `fraction:` of `(*Scanner).scanNumber` -/
def sFraction (tok : Kind) (cur : Str) (err : Bool) : Kind × Str × Bool :=
  match cur with
  | 46 :: 46 :: _ => (tok, cur, err)          -- dot is part of a range: goto exit
  | 46 :: cs =>
    let (r, e) := sMant 10 0 cs
    sExponent .float r (err || nulErr cs || e)
  | _ => sExponent tok cur err

/-- the three prefixed-integer branches: `s.next(); s.scanMantissa(base);
if s.offset-offs <= 2 { errf }`.  `n0` is the number of bytes from the '0' to the end of
input, so `n0 - r.length` is `s.offset - offs`. -/
def sPrefixed (base : Nat) (n0 : Nat) (cs' : Str) (err : Bool) : Kind × Str × Bool :=
  let (r, e) := sMant base 0 cs'
  (.int, r, err || nulErr cs' || e || decide (n0 - r.length ≤ 2))

/-- the "0 or float" branch of `(*Scanner).scanNumber` after the optional digits: the `..`
look-ahead, `goto fraction`, the "illegal integer number" error, `goto exponent`.
`r` is the position, `seenDigits` the local variable. -/
def sZeroTail (r : Str) (seenDigits : Bool) (err : Bool) : Kind × Str × Bool :=
  match r with
  | 46 :: 46 :: _ => (.int, r, err || seenDigits)     -- range: errf if seenDigits; goto exit
  | _ =>
    let isFrac :=
      match r with
      | c :: _ => c == 46 || c == 101 || c == 69
      | [] => false
    if isFrac then sFraction .int r err
    else sExponent .int r (err || seenDigits)

/-- `(*Scanner).scanNumber(seenDecimalPoint)`; `cur` starts at `s.ch`.
Returns (tok, final position, error reported). -/
def sScanNumber (seen : Bool) (cur : Str) : Kind × Str × Bool :=
  if seen then
    let (r, e) := sMant 10 0 cur
    sExponent .float r e
  else
    match cur with
    | 48 :: cs =>
      let e0 := nulErr cs
      match cs with
      | 120 :: cs' => sPrefixed 16 cur.length cs' e0
      | 88 :: cs' => sPrefixed 16 cur.length cs' e0
      | 98 :: cs' => sPrefixed 2 cur.length cs' e0
      | 111 :: cs' => sPrefixed 8 cur.length cs' e0
      | _ =>
        -- 0 or float: `if s.ch >= '0' && s.ch <= '9' { seenDigits = true; s.scanMantissa(10) }`
        let (r, seenDigits, e) :=
          match cs with
          | d :: _ => if isDec d then
                        let (r, e) := sMant 10 0 cs
                        (r, true, e)
                      else (cs, false, false)
          | [] => (cs, false, false)
        sZeroTail r seenDigits (e0 || e)
    | _ =>
      let (r, e) := sMant 10 0 cur
      sFraction .int r e

/-- the dispatch condition of `Scan` for number tokens -/
def startsNumber (s : Str) : Bool :=
  match s with
  | c :: rest =>
    isDec c ||
      (c == 46 && match rest with
                  | d :: _ => isDec d
                  | [] => false)
  | [] => false

/-- spellings beginning with "0_" (the region where the two automata genuinely differ) -/
def zeroUnderscore (s : Str) : Bool :=
  match s with
  | 48 :: 95 :: _ => true
  | _ => false

/-- The number token `Scan` produces at the start of `s`: `none` if the dispatch condition
does not hold, else (token, number of bytes of the literal, an error was reported).
The NUL check of the very first character (`Init`'s `next`) is vacuous: it is a digit or '.'. -/
def scanNumber (s : Str) : Option (Kind × Nat × Bool) :=
  match s with
  | [] => none
  | c :: rest =>
    if isDec c then
      let (k, r, e) := sScanNumber false s
      some (k, s.length - r.length, e)
    else if c == 46 then
      -- default branch: s.next() ("always make progress"), then case '.'
      match rest with
      | d :: _ =>
        if isDec d then
          let (k, r, e) := sScanNumber true rest
          some (k, s.length - r.length, e || nulErr rest)
        else none
      | [] => none
    else none

/-- the scanner lexes the whole of `s` as one number token without reporting an error -/
def scannerAccepts (s : Str) : Option Kind :=
  match scanNumber s with
  | some (k, n, e) => if n == s.length && !e then some k else none
  | none => none

/-! ### literal side -/

/-- `p.ch`: 0 at end of input -/
def chL (cur : Str) : Nat :=
  match cur with
  | [] => 0
  | c :: _ => c

/-- `(*NumInfo).next()` seen from a position `cur` with `p.ch = chL cur`:
new position and whether the NUL error was set.  At end of input nothing changes. -/
def lNext (cur : Str) : Str × Bool :=
  match cur with
  | [] => ([], false)
  | _ :: cs => (cs, nulErr cs)

/-- `(*NumInfo).scanMantissa(base)`.  Returns (position after the loop, hasDigit,
`p.err` was set). -/
def lMant (base last : Nat) : Str → Str × Bool × Bool
  | [] => ([], false, last == 95)
  | c :: cs =>
    if digitVal c < base then
      let (r, h, e) := lMant base c cs
      (r, h || c != 95, e || (last == 95 && c == 95) || nulErr cs)
    else (c :: cs, false, last == 95)

/-- label `exit:` — `none` is a returned error; otherwise (isFloat, final position, p.err set) -/
def lExit (isFloat : Bool) (cur : Str) (err : Bool) : Option (Bool × Str × Bool) :=
  if chL cur != 0 then none else some (isFloat, cur, err)

/-- `if p.ch == '-' || p.ch == '+' { p.next() }` -/
def lSign (cur : Str) : Str × Bool :=
  if chL cur == 45 || chL cur == 43 then lNext cur else (cur, false)

/-- the digits of an exponent: `if !p.scanMantissa(10) { return "illegal exponent" }`,
then `exit:` -/
def lExpDigits (cur : Str) (err : Bool) : Option (Bool × Str × Bool) :=
  let (r, h, e3) := lMant 10 0 cur
  if !h then none else lExit true r (err || e3)

/-- label `exponent:` -/
def lExponent (isFloat : Bool) (cur : Str) (err : Bool) : Option (Bool × Str × Bool) :=
  let c := chL cur
  if isMul c then
    let (cur1, e1) := lNext cur
    let (cur2, e2) := if chL cur1 == 105 then lNext cur1 else (cur1, false)
    if chL cur2 != 0 then none           -- "illegal trailing characters in number"
    else some (false, cur2, err || e1 || e2)   -- p.isFloat = false; p.decimal(&v) assumed nil
  else if c == 101 || c == 69 then
    -- p.isFloat = true; p.next(); optional sign; digits
    let (cur1, e1) := lNext cur
    let (cur2, e2) := lSign cur1
    lExpDigits cur2 (err || e1 || e2)
  else lExit isFloat cur err

/-- label `fraction:` -/
def lFraction (isFloat : Bool) (cur : Str) (err : Bool) : Option (Bool × Str × Bool) :=
  if chL cur == 46 then
    let (cur1, e1) := lNext cur
    let (r, _, e2) := lMant 10 0 cur1
    lExponent true r (err || e1 || e2)
  else lExponent isFloat cur err

/-- the three prefixed-integer branches -/
def lPrefixed (base : Nat) (cur : Str) (err : Bool) : Option (Bool × Str × Bool) :=
  let (cur1, e1) := lNext cur
  let (r, h, e2) := lMant base 0 cur1
  if !h then none else lExit false r (err || e1 || e2)

/-- the `default:` ("0 or float") branch of `(*NumInfo).scanNumber` after
`seenDigits := p.scanMantissa(10)` -/
def lZeroTail (r : Str) (seenDigits : Bool) (err : Bool) : Option (Bool × Str × Bool) :=
  let c := chL r
  if c == 101 || c == 69 || c == 46 then lFraction false r err
  else if seenDigits then none          -- "illegal integer number"
  else if c != 0 then
    if isMul c then lExponent false r err
    else none                           -- "illegal number"
  else lExit false r err

/-- `(*NumInfo).scanNumber(seenDecimalPoint)` -/
def lScanNumber (seen : Bool) (cur : Str) (err : Bool) : Option (Bool × Str × Bool) :=
  if seen then
    let (r, h, e) := lMant 10 0 cur
    if !h then none                       -- "illegal fraction"
    else lExponent true r (err || e)
  else if chL cur == 48 then
    let (cur1, e1) := lNext cur
    let err := err || e1
    let c := chL cur1
    if c == 120 || c == 88 then lPrefixed 16 cur1 err
    else if c == 98 then lPrefixed 2 cur1 err
    else if c == 111 then lPrefixed 8 cur1 err
    else
      let (r, seenDigits, e) := lMant 10 0 cur1
      lZeroTail r seenDigits (err || e)
  else
    let (r, h, e) := lMant 10 0 cur
    if !h then none                       -- "illegal number start"
    else lFraction false r (err || e)

def kindOf (isFloat : Bool) : Kind := if isFloat then .float else .int

/-- `ParseNum` after the optional sign has been handled: `cur` is the position with
`p.ch = chL cur`, `err` the state of `p.err`. -/
def parseNumFrom (cur : Str) (err : Bool) : Option Kind :=
  let (cur1, seen, e1) := if chL cur == 46 then ((lNext cur).1, true, (lNext cur).2)
                          else (cur, false, false)
  match lScanNumber seen cur1 (err || e1) with
  | none => none
  | some (isFloat, fin, e) =>
    if e then none                        -- n.err != nil
    else if fin.length > 1 then none      -- n.p < len(n.src)
    else some (kindOf isFloat)

/-- After a '-' sign: "0." directly followed by a multiplier.  In the multiplier branch
`scanNumber` hands `p.buf` to apd (`p.decimal`), whose parse error is reported since /repo
1674508.  The skipped lone zero is re-added when `p.buf` is empty or just "-" (726bce5,
9d21395), so `0K`, `+0K`, `-0K`, `-0Ki` are accepted; but for `-0.K` / `-0.Ki` the '.' was
appended by `next()` to the non-empty buffer "-" without a leading zero, the mantissa is "-."
and apd rejects it ("invalid number: parse mantissa"), while `0.K`, `+0.K`, `-0.0K`, `-.5K`
are accepted.  This is the only way `p.buf` influences acceptance; every other shape of
`p.buf` in that branch contains a digit and parses. -/
def negZeroMul (cs : Str) : Bool :=
  match cs with
  | 48 :: 46 :: r' =>
    match r' with
    | [m] => isMul m
    | [m, 105] => isMul m
    | _ => false
  | _ => false

/-- `literal.ParseNum` (error → `none`; otherwise int/float) -/
def parseNum (s : Str) : Option Kind :=
  match s with
  | [] => none                            -- !n.next()
  | c :: cs =>
    let e0 := c == 0
    if c == 45 || c == 43 then
      if c == 45 && negZeroMul cs then none
      else parseNumFrom cs (e0 || nulErr cs)
    else parseNumFrom s e0

/-- `ParseNum` restricted to spellings without a sign -/
def parseNumUnsigned (s : Str) : Option Kind :=
  match s with
  | [] => none
  | c :: _ => if c == 45 || c == 43 then none else parseNum s

end CueVerif.NumLit
