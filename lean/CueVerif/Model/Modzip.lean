/-
Model of the module-archive checks and extraction of cue-lang/cue.

Transcribed (by hand, pinned in Bridge/C15.lean) from
  mod/module/path.go    : fileNameOK (also regenerated), checkPath / checkElem for the
                          `filePath` kind, CheckFilePath, badWindowsNames (regenerated)
  mod/module/escape.go  : escapeString
  mod/modzip/zip.go     : CheckedFiles.Err, checkFiles (= CheckFiles, core of CheckDir and
                          Create), CheckZip, Create, Unzip, collisionChecker.check,
                          strToFold, splitCUEMod, isVendoredPackage
  Go std `path`         : Clean, Split, Dir, IsAbs (re-implemented on element lists;
                          tied by correspondence only)

Go strings are byte strings: `List Nat` (every element is a byte value).
Parameters (not modelled, contracts stated where used):
  * `Uni.isLetter`  – unicode.IsLetter on runes ≥ 0x80
  * `Uni.fold`      – strToFold's per-rune result on runes ≥ 0x80 (minimum of the
                      unicode.SimpleFold orbit, then A-Z → a-z); strings.EqualFold s t is
                      modelled as equality of folded rune lists (the contract stated in the
                      comment of strToFold)
  * the zip container (archive/zip): an archive is a list of entries (name, declared
    size, and what the entry's reader delivers: `data`, then EOF or an error)
  * the OS file system: a finite map path ↦ file | dir (no symlinks, no permissions)
Core Lean only.
-/
namespace CueVerif.Modzip

abbrev Str := List Nat

structure Uni where
  isLetter : Nat → Bool
  fold : Nat → Nat

/-! ### constants of modzip -/
def maxZipFile : Nat := 524288000
def maxCUEMod : Nat := 16777216
def maxLICENSE : Nat := 16777216

def sCueMod : Str := [99,117,101,46,109,111,100]                       -- "cue.mod"
def sModuleCue : Str := [109,111,100,117,108,101,46,99,117,101]        -- "module.cue"
def sCueModSlash : Str := sCueMod ++ [47]                              -- "cue.mod/"
def sCueModModule : Str := sCueModSlash ++ sModuleCue                  -- "cue.mod/module.cue"
def sLocalModule : Str :=                                              -- "cue.mod/local-module.cue"
  sCueModSlash ++ [108,111,99,97,108,45] ++ sModuleCue
def sVendorPrefix : Str := sCueModSlash ++ [118,101,110,100,111,114,47] -- "cue.mod/vendor/"
def sLICENSE : Str := [76,73,67,69,78,83,69]                           -- "LICENSE"
def sHgArchival : Str :=                                               -- ".hg_archival.txt"
  [46,104,103,95,97,114,99,104,105,118,97,108,46,116,120,116]

/-! ### UTF-8 (utf8.DecodeRune, utf8.ValidString, `for _, r := range s`) -/

def isCont (b : Nat) : Bool := decide (128 ≤ b) && decide (b ≤ 191)

/-- one step of utf8.DecodeRune; `none` = invalid encoding at the head (RuneError, width 1) -/
def decodeRune : Str → Option (Nat × Str)
  | [] => none
  | b0 :: rest =>
    if b0 < 128 then some (b0, rest)
    else if 194 ≤ b0 ∧ b0 ≤ 223 then
      match rest with
      | b1 :: r => if isCont b1 then some ((b0 - 192) * 64 + (b1 - 128), r) else none
      | _ => none
    else if 224 ≤ b0 ∧ b0 ≤ 239 then
      match rest with
      | b1 :: b2 :: r =>
        let lo := if b0 = 224 then 160 else 128
        let hi := if b0 = 237 then 159 else 191
        if lo ≤ b1 ∧ b1 ≤ hi ∧ isCont b2 = true then
          some ((b0 - 224) * 4096 + (b1 - 128) * 64 + (b2 - 128), r)
        else none
      | _ => none
    else if 240 ≤ b0 ∧ b0 ≤ 244 then
      match rest with
      | b1 :: b2 :: b3 :: r =>
        let lo := if b0 = 240 then 144 else 128
        let hi := if b0 = 244 then 143 else 191
        if lo ≤ b1 ∧ b1 ≤ hi ∧ isCont b2 = true ∧ isCont b3 = true then
          some ((b0 - 240) * 262144 + (b1 - 128) * 4096 + (b2 - 128) * 64 + (b3 - 128), r)
        else none
      | _ => none
    else none

/-- the runes a `range` loop yields (invalid bytes yield U+FFFD one byte at a time) together
with the validity flag of each step; fuel = number of bytes is always enough -/
def runesAux : Nat → Str → List (Nat × Bool)
  | 0, _ => []
  | _, [] => []
  | f + 1, b0 :: rest =>
    match decodeRune (b0 :: rest) with
    | some (r, s') => (r, true) :: runesAux f s'
    | none => (65533, false) :: runesAux f rest

def runes (s : Str) : List Nat := (runesAux s.length s).map (·.1)

def validUTF8 (s : Str) : Bool := (runesAux s.length s).all (·.2)

/-! ### module.fileNameOK -/

def fileNameAllowed : Str := [33,35,36,37,38,40,41,43,44,45,46,61,64,91,93,94,95,123,125,126,32]

def fileNameOK (isLetter : Nat → Bool) (r : Nat) : Bool :=
  if r < 128 then
    if (48 ≤ r ∧ r ≤ 57) ∨ (65 ≤ r ∧ r ≤ 90) ∨ (97 ≤ r ∧ r ≤ 122) then true
    else fileNameAllowed.contains r
  else isLetter r

/-! ### case folding (strToFold, strings.EqualFold) -/

def foldRune (U : Uni) (r : Nat) : Nat :=
  if r < 128 then (if 65 ≤ r ∧ r ≤ 90 then r + 32 else r) else U.fold r

/-- strToFold, as the list of folded runes (UTF-8 encoding is injective) -/
def foldKey (U : Uni) (s : Str) : List Nat := (runes s).map (foldRune U)

/-- strings.EqualFold -/
def equalFold (U : Uni) (s t : Str) : Bool := foldKey U s == foldKey U t

/-! ### byte-string helpers (strings.Split, strings.Cut, path.Split, strings.TrimRight) -/

/-- strings.Split(s, sep) for a one-byte separator -/
def splitOn (sep : Nat) : Str → List Str
  | [] => [[]]
  | c :: cs =>
    if c = sep then [] :: splitOn sep cs
    else match splitOn sep cs with
      | [] => [[c]]            -- unreachable: splitOn is never empty
      | h :: t => (c :: h) :: t

def joinSlash : List Str → Str
  | [] => []
  | [e] => e
  | e :: es => e ++ 47 :: joinSlash es

/-- strings.Cut(s, sep): text before the first sep, text after it -/
def cutAt (sep : Nat) (s : Str) : Str × Str :=
  (s.takeWhile (· != sep), (s.dropWhile (· != sep)).drop 1)

/-- path.Split: (dir including the final slash, file) -/
def pathSplit (s : Str) : Str × Str :=
  let r := s.reverse
  ((r.dropWhile (· != 47)).reverse, (r.takeWhile (· != 47)).reverse)

def trimRightSlash (s : Str) : Str := (s.reverse.dropWhile (· == 47)).reverse

def hasDoubleSlash : Str → Bool
  | [] => false
  | [_] => false
  | a :: b :: cs => (a == 47 && b == 47) || hasDoubleSlash (b :: cs)

def isDotsOnly (e : Str) : Bool := e.all (· == 46)

def sDot : Str := [46]
def sDotDot : Str := [46,46]

/-- the loop of path.Clean on the '/'-separated elements; `st` is the output so far,
reversed -/
def cleanElems (rooted : Bool) : List Str → List Str → List Str
  | [], st => st.reverse
  | e :: es, st =>
    if e.isEmpty || e == sDot then cleanElems rooted es st
    else if e == sDotDot then
      match st with
      | top :: st' =>
        if top == sDotDot then cleanElems rooted es (e :: st) else cleanElems rooted es st'
      | [] => if rooted then cleanElems rooted es [] else cleanElems rooted es [e]
    else cleanElems rooted es (e :: st)

/-- path.Clean -/
def pathClean (p : Str) : Str :=
  if p.isEmpty then sDot
  else
    let rooted := p.head? == some 47
    let body := joinSlash (cleanElems rooted (splitOn 47 p) [])
    if rooted then 47 :: body
    else if body.isEmpty then sDot else body

/-- path.IsAbs -/
def isAbs (p : Str) : Bool := p.head? == some 47

/-- path.Dir -/
def pathDir (p : Str) : Str := pathClean (pathSplit p).1

/-! ### module.CheckFilePath -/

inductive PathErr where
  | invalidUTF8 | empty | doubleSlash | trailingSlash
  | emptyElem | dots | trailingDot | invalidChar | windows
deriving Repr, DecidableEq

def badWindowsNames : List Str :=
  [[67,79,78],[80,82,78],[65,85,88],[78,85,76],
   [67,79,77,49],[67,79,77,50],[67,79,77,51],[67,79,77,52],[67,79,77,53],
   [67,79,77,54],[67,79,77,55],[67,79,77,56],[67,79,77,57],
   [76,80,84,49],[76,80,84,50],[76,80,84,51],[76,80,84,52],[76,80,84,53],
   [76,80,84,54],[76,80,84,55],[76,80,84,56],[76,80,84,57]]

/-- checkElem(elem, filePath) -/
def checkElem (U : Uni) (elem : Str) : Option PathErr :=
  if elem.isEmpty then some .emptyElem
  else if isDotsOnly elem then some .dots
  else if elem.getLast? == some 46 then some .trailingDot
  else if !((runes elem).all (fileNameOK U.isLetter)) then some .invalidChar
  else if badWindowsNames.any (fun bad => equalFold U bad (cutAt 46 elem).1) then some .windows
  else none

def checkElems (U : Uni) : List Str → Option PathErr
  | [] => none
  | e :: es =>
    match checkElem U e with
    | some err => some err
    | none => checkElems U es

/-- checkPath(path, filePath) = CheckFilePath; `none` = nil error -/
def checkFilePath (U : Uni) (p : Str) : Option PathErr :=
  if !validUTF8 p then some .invalidUTF8
  else if p.isEmpty then some .empty
  else if hasDoubleSlash p then some .doubleSlash
  else if p.getLast? == some 47 then some .trailingSlash
  else checkElems U (splitOn 47 p)

/-! ### collisionChecker -/

inductive Why where
  | lstat | notClean | notRelative | vendored | submodule | hgArchival | localModule
  | path (e : PathErr) | cueModCase | cueModuleCase
  | collCase | collFileDir | collDup
  | symlink | notRegular | cueModSize | licenseSize | cueModNotRoot | cueModNotDir
deriving Repr, DecidableEq

/-- the map: folded key ↦ (original path, isDir); first match wins (entries are only added
for absent keys) -/
abbrev CC := List (List Nat × Str × Bool)

def ccLookup (cc : CC) (k : List Nat) : Option (Str × Bool) :=
  match cc with
  | [] => none
  | (k', v) :: rest => if k' = k then some v else ccLookup rest k

/-- collisionChecker.check; the map is updated also when an error is returned (a child is
registered before its parents are checked).  Fuel: the recursion is on path.Dir. -/
def ccCheck (U : Uni) : Nat → CC → Str → Bool → CC × Option Why
  | 0, cc, _, _ => (cc, none)
  | fuel + 1, cc, p, isDir =>
    let k := foldKey U p
    let step : CC × Option Why :=
      match ccLookup cc k with
      | some (op, oDir) =>
        if p ≠ op then (cc, some .collCase)
        else if isDir ≠ oDir then (cc, some .collFileDir)
        else if !isDir then (cc, some .collDup)
        else (cc, none)
      | none => ((k, p, isDir) :: cc, none)
    match step with
    | (cc', some e) => (cc', some e)
    | (cc', none) =>
      let parent := pathDir p
      if parent ≠ sDot then ccCheck U fuel cc' parent true else (cc', none)

def ccCheckTop (U : Uni) (cc : CC) (p : Str) (isDir : Bool) : CC × Option Why :=
  ccCheck U (p.length + 1) cc p isDir

/-! ### splitCUEMod, isVendoredPackage, inSubmodule -/

def splitCUEModAux (U : Uni) (p : Str) : Nat → Str → Str × Str
  | 0, _ => (p, [])
  | fuel + 1, s =>
    let (dir, f) := pathSplit s
    if equalFold U f sCueMod then (p.take dir.length, p.drop dir.length)
    else
      let d := trimRightSlash dir
      if d.isEmpty then (p, []) else splitCUEModAux U p fuel d

def splitCUEMod (U : Uni) (p : Str) : Str × Str := splitCUEModAux U p (p.length + 1) p

def isVendoredPackage (p : Str) : Bool := sVendorPrefix.isPrefixOf p

/-- the closure `inSubmodule` of checkFiles -/
def inSubmoduleAux (have_ : List Str) : Nat → Str → Bool
  | 0, _ => false
  | fuel + 1, p =>
    let dir := (pathSplit p).1
    if dir.isEmpty then false
    else if have_.contains dir then true
    else inSubmoduleAux have_ fuel (dir.take (dir.length - 1))

def inSubmodule (have_ : List Str) (p : Str) : Bool := inSubmoduleAux have_ (p.length + 1) p

/-! ### CheckedFiles -/

structure Checked where
  valid : List Str := []
  omitted : List (Str × Why) := []
  invalid : List (Str × Why) := []
  sizeError : Bool := false
  noMod : Bool := false
deriving Repr, DecidableEq

/-- CheckedFiles.Err() != nil -/
def Checked.isErr (cf : Checked) : Bool := cf.sizeError || !cf.invalid.isEmpty || cf.noMod

/-! ### checkFiles -/

inductive FKind where
  | regular | dir | symlink | other | lstatErr
deriving Repr, DecidableEq

/-- what FileIO reports for one file: Path, Lstat (kind and size) -/
structure FEnt where
  path : Str
  kind : FKind
  size : Int
deriving Repr, DecidableEq

structure CFState where
  cf : Checked := {}
  errPaths : List Str := []
  cc : CC := []
  maxSize : Int := maxZipFile
  found : Bool := false
  validEnts : List FEnt := []

/-- the closure `addError` of checkFiles (one report per path) -/
def CFState.addError (st : CFState) (p : Str) (omitted : Bool) (w : Why) : CFState :=
  if st.errPaths.contains p then st
  else
    let st := { st with errPaths := p :: st.errPaths }
    if omitted then { st with cf := { st.cf with omitted := st.cf.omitted ++ [(p, w)] } }
    else { st with cf := { st.cf with invalid := st.cf.invalid ++ [(p, w)] } }

/-- the cue.mod case rules of checkFiles (the `pkg|usr|gen` switch cuts `topDir`, which is
"cue.mod" at that point, so it can never match: transcribed as the no-op it is) -/
def cueModTopRule (U : Uni) (p : Str) : Option Why :=
  let (topDir, rest) := cutAt 47 p
  if equalFold U topDir sCueMod then
    if topDir ≠ sCueMod then some .cueModCase
    else if equalFold U rest sModuleCue && rest ≠ sModuleCue then some .cueModuleCase
    else none
  else none

/-- one iteration of the main loop of checkFiles -/
def cfStep (U : Uni) (have_ : List Str) (st : CFState) (f : FEnt) : CFState :=
  let p := f.path
  if f.kind = .lstatErr then st.addError p false .lstat
  else if f.kind = .dir then st
  else if p ≠ pathClean p then st.addError p false .notClean
  else if isAbs p then st.addError p false .notRelative
  else if isVendoredPackage p then st.addError p true .vendored
  else if inSubmodule have_ p then st.addError p true .submodule
  else if p = sHgArchival then st.addError p true .hgArchival
  else if p = sLocalModule then st.addError p true .localModule
  else match checkFilePath U p with
  | some e => st.addError p false (.path e)
  | none =>
  match cueModTopRule U p with
  | some w => st.addError p false w
  | none =>
  match ccCheckTop U st.cc p false with
  | (cc', some w) => ({ st with cc := cc' }).addError p false w
  | (cc', none) =>
  let st := { st with cc := cc' }
  if f.kind = .symlink then st.addError p true .symlink
  else if f.kind ≠ .regular then st.addError p true .notRegular
  else
    let size := f.size
    let st : CFState :=
      if 0 ≤ size ∧ size ≤ st.maxSize then { st with maxSize := st.maxSize - size }
      else { st with cf := { st.cf with sizeError := true } }
    if p = sCueModModule ∧ size > maxCUEMod then st.addError p false .cueModSize
    else
      let st := if p = sCueModModule then { st with found := true } else st
      if p = sLICENSE ∧ size > maxLICENSE then st.addError p false .licenseSize
      else { st with cf := { st.cf with valid := st.cf.valid ++ [p] }, validEnts := st.validEnts ++ [f] }

/-- the first loop of checkFiles: directories (other than the root) that contain a cue.mod -/
def haveCUEMod (U : Uni) (files : List FEnt) : List Str :=
  files.filterMap fun f =>
    let (dir, rest) := splitCUEMod U f.path
    if rest.isEmpty then none else some dir

def checkFilesState (U : Uni) (files : List FEnt) : CFState :=
  files.foldl (cfStep U (haveCUEMod U files)) {}

/-- checkFiles: the report and the valid entries (with their sizes) -/
def checkFiles (U : Uni) (files : List FEnt) : Checked × List FEnt :=
  let st := checkFilesState U files
  ({ st.cf with noMod := !st.found }, st.validEnts)

/-! ### the zip container and CheckZip -/

/-- one entry of an archive as archive/zip presents it: header fields `name`, `declared`
(UncompressedSize64, any 64-bit value), and the behaviour of the entry's reader: Open may
fail; otherwise it delivers `data` and then EOF (`streamErr = false`) or an error.
`wfail = some k`: the OS fails the write (or the process dies) after k bytes. -/
structure ZEnt where
  name : Str
  declared : Nat
  openErr : Bool := false
  data : List Nat := []
  streamErr : Bool := false
  wfail : Option Nat := none
deriving Repr, DecidableEq

/-- int64(x) for a uint64 x -/
def toInt64 (n : Nat) : Int := if n < 9223372036854775808 then n else (n : Int) - 18446744073709551616

structure CZState where
  cf : Checked := {}
  cc : CC := []
  size : Int := 0
  modFile : Bool := false

def CZState.addError (st : CZState) (name : Str) (w : Why) : CZState :=
  { st with cf := { st.cf with invalid := st.cf.invalid ++ [(name, w)] } }

/-- the cue.mod placement rules of CheckZip; `some (some w)` = reject with w,
`some none` = this is the module file, `none` = nothing to say -/
def cueModZipRule (U : Uni) (name : Str) : Option Why × Bool :=
  let (prefix_, rest) := splitCUEMod U name
  if rest.isEmpty then (none, false)
  else if !prefix_.isEmpty then (some .cueModNotRoot, false)
  else if !rest.contains 47 then (some .cueModNotDir, false)
  else if !sCueModSlash.isPrefixOf rest then (some .cueModCase, false)
  else if equalFold U rest sCueModModule then
    if rest ≠ sCueModModule then (some .cueModuleCase, false) else (none, true)
  else (none, false)

/-- one iteration of the loop of CheckZip -/
def czStep (U : Uni) (st : CZState) (e : ZEnt) : CZState :=
  let isDir := e.name.getLast? == some 47
  let name := if isDir then e.name.dropLast else e.name
  if pathClean name ≠ name then st.addError e.name .notClean
  else match checkFilePath U name with
  | some err => st.addError e.name (.path err)
  | none =>
  if name = sLocalModule then st.addError e.name .localModule
  else match ccCheckTop U st.cc name isDir with
  | (cc', some w) => ({ st with cc := cc' }).addError e.name w
  | (cc', none) =>
  let st := { st with cc := cc' }
  match cueModZipRule U name with
  | (some w, _) => st.addError e.name w
  | (none, isMod) =>
  let st := if isMod then { st with modFile := true } else st
  if isDir then st
  else
    let sz := toInt64 e.declared
    let st : CZState :=
      if 0 ≤ sz ∧ (maxZipFile : Int) - st.size ≥ sz then { st with size := st.size + sz }
      else { st with cf := { st.cf with sizeError := true } }
    if name = sCueModModule ∧ sz > maxCUEMod then st.addError e.name .cueModSize
    else if name = sLICENSE ∧ sz > maxLICENSE then st.addError e.name .licenseSize
    else { st with cf := { st.cf with valid := st.cf.valid ++ [e.name] } }

def checkZipState (U : Uni) (z : List ZEnt) : CZState := z.foldl (czStep U) {}

/-- CheckZip (after zip.NewReader succeeded): the report and whether a module file was found -/
def checkZip (U : Uni) (zipSize : Nat) (z : List ZEnt) : Checked :=
  if zipSize > maxZipFile then { sizeError := true }
  else
    let st := checkZipState U z
    { st.cf with noMod := !st.modFile }

/-! ### Create -/

/-- a file offered to Create: what Lstat says and what Open delivers -/
structure SrcFile where
  ent : FEnt
  content : List Nat
deriving Repr, DecidableEq

/-- Create after sorting (`order` is the sorted list; sorting is not modelled: any order).
Fails when the report has an error or a file delivers more bytes than Lstat declared.
The zip container contract: an entry written with `Create(name)` + bytes reads back with
that name, declared size = number of bytes written, and exactly those bytes. -/
def create (U : Uni) (files : List SrcFile) : Option (List ZEnt) :=
  let (cf, valid) := checkFiles U (files.map (·.ent))
  if cf.isErr then none
  else
    -- validFiles are entries of `files` (matched by FEnt); addFile copies min(size+1, len)
    let srcOf (e : FEnt) : List Nat :=
      match files.find? (fun s => s.ent = e) with
      | some s => s.content
      | none => []
    if valid.any (fun e => decide ((srcOf e).length > e.size.toNat)) then none
    else some (valid.map fun e =>
      { name := e.path, declared := (srcOf e).length, data := srcOf e })

/-! ### file system and Unzip -/

abbrev Path := List Str

inductive Node where
  | file (content : List Nat)
  | dir
deriving Repr, DecidableEq

/-- association list, first match wins; nothing is ever removed -/
abbrev FS := List (Path × Node)

def FS.get (fs : FS) (q : Path) : Option Node :=
  match fs with
  | [] => none
  | (q', n) :: rest => if q' = q then some n else FS.get rest q

def FS.set (fs : FS) (q : Path) (n : Node) : FS := (q, n) :: fs

/-- os.MkdirAll: walk from the root; existing directories are kept, a file in the way is an
error, missing directories are created -/
def mkdirAllAux (fs : FS) (pre : Path) : List Str → FS × Bool
  | [] => (fs, true)
  | c :: cs =>
    let q := pre ++ [c]
    match fs.get q with
    | some .dir => mkdirAllAux fs q cs
    | some (.file _) => (fs, false)
    | none => mkdirAllAux (fs.set q .dir) q cs

def mkdirAll (fs : FS) (p : Path) : FS × Bool := mkdirAllAux fs [] p

/-- filepath.Join(dir, name) on Unix for a clean absolute `dir` given as its elements:
Clean(dir + "/" + name): empty and "." elements vanish, ".." removes the last element
(and stays at the root) -/
def joinElems : List Str → List Str → List Str      -- (reversed stack) → elements → reversed stack
  | st, [] => st
  | st, e :: es =>
    if e.isEmpty || e == sDot then joinElems st es
    else if e == sDotDot then joinElems st.tail es
    else joinElems (e :: st) es

def fjoin (dir : Path) (name : Str) : Path := (joinElems dir.reverse (splitOn 47 name)).reverse

/-- `os.ReadDir(dir)` returned at least one entry -/
def dirNonEmpty (fs : FS) (dir : Path) : Bool :=
  fs.any fun e => e.1.length == dir.length + 1 && dir.isPrefixOf e.1

/-- the copy step of one entry: `io.Copy(w, &io.LimitedReader{R: r, N: declared+1})`, then
`lr.N <= 0` → error.  Returns the bytes that reached the file and whether the entry succeeded. -/
def copyEntry (e : ZEnt) : List Nat × Bool :=
  let n : Int := toInt64 e.declared + 1                 -- LimitedReader.N
  let want := e.data.take n.toNat
  match e.wfail with
  | some k => if k < want.length then (want.take k, false) else
      (want, !(decide ((e.data.length : Int) < n) && e.streamErr) && decide (n - (want.length : Int) > 0))
  | none =>
      (want, !(decide ((e.data.length : Int) < n) && e.streamErr) && decide (n - (want.length : Int) > 0))

/-- one iteration of the extraction loop of Unzip (for an entry that is not skipped) -/
def unzipOne (fs : FS) (dir : Path) (e : ZEnt) : FS × Bool :=
  let dst := fjoin dir e.name
  match mkdirAll fs dst.dropLast with
  | (fs1, false) => (fs1, false)
  | (fs1, true) =>
    match fs1.get dst with
    | some _ => (fs1, false)                                  -- O_EXCL
    | none =>
      let fs2 := fs1.set dst (.file [])
      if e.openErr then (fs2, false)
      else
        let (w, ok) := copyEntry e
        (fs2.set dst (.file w), ok)

/-- `name == "" || strings.HasSuffix(name, "/")` -/
def skipEntry (e : ZEnt) : Bool := e.name.isEmpty || e.name.getLast? == some 47

/-- the extraction loop of Unzip -/
def unzipEntries (fs : FS) (dir : Path) : List ZEnt → FS × Bool
  | [] => (fs, true)
  | e :: es =>
    if skipEntry e then unzipEntries fs dir es
    else
      match unzipOne fs dir e with
      | (fs1, false) => (fs1, false)
      | (fs1, true) => unzipEntries fs1 dir es

/-- Unzip(dir, m, zipFile) once the zip file was opened and parsed -/
def unzip (U : Uni) (fs : FS) (dir : Path) (zipSize : Nat) (z : List ZEnt) : FS × Bool :=
  if dirNonEmpty fs dir then (fs, false)
  else if (checkZip U zipSize z).isErr then (fs, false)
  else
    match mkdirAll fs dir with
    | (fs1, false) => (fs1, false)
    | (fs1, true) => unzipEntries fs1 dir z

/-! ### module.escapeString (cache directory names) -/

def escapeString (s : Str) : Option Str :=
  if s.any (fun r => r == 33 || decide (r ≥ 128)) then none
  else some (s.flatMap fun r => if 65 ≤ r ∧ r ≤ 90 then [33, r + 32] else [r])

end CueVerif.Modzip
