/-
Model of the TOML codec of cue-lang/cue (property C12).

Transcribed from /repo/encoding/toml/decode.go:
  `Decoder.Decode` (the loop over root expressions)          → `decode`
  `Decoder.nextRootNode` (KeyValue / Table / ArrayTable)      → `step`
  `Decoder.decodeField`, `Decoder.decodeExpr`                 → `decodeFields`, `decodeExpr`, `decodeElems`
  `Decoder.findArray`, `Decoder.findArrayPrefix`              → `findArray`, `findArrayPrefix`
  `Decoder.decodeKey`, `quoteLabelIfNeeded`                   → `keyPath`, `rooted` / `LabelQ`
  `seenTableKeys`, `openTableArrays`, `currentTableKey`, `currentTable` → the fields of `St`
and from /repo/encoding/toml/encode.go + go-toml/v2 marshaler.go (`encodeTable`,
`encodeArrayTable`, `entryIsTable`, `isArrayOfTables`; third party, a parameter):
  `emit` = the sequence of root expressions the encoder writes for a tree.

Abstractions (each stated where it is made):
* The input is the stream of root expressions the go-toml parser produces (`Ev`); the parser
  itself (text → expressions) and the printer (expressions → text) are trusted transport.
* ROOTED KEYS ARE PATHS.  The Go code keeps rooted keys as strings ("a.b", `a."x.y".0`),
  compares them with `==` and tests `strings.HasPrefix(k, r+".")`.  The model keeps the PATH
  the string spells (`List Seg`: labels and array indices) and uses path equality / strict
  path prefix.  `rooted` below is the string; `Proofs/Toml*.lean` prove that `rooted` is
  injective and that `HasPrefix(rooted q, rooted p ++ ".")` is exactly "p is a strict prefix
  of q" (theorems `C12_rooted_key_injective`, `C12_rooted_key_prefix`), under the stated
  contract of `quoteLabelIfNeeded`, so the replacement is exact.
* POINTERS INTO THE OUTPUT SYNTAX TREE ARE SEMANTIC PATHS.  The Go decoder appends fields to
  `*ast.StructLit`s / `*ast.ListLit`s it keeps pointers to (`currentTable`, `array.list`,
  `array.lastTable`).  The model records, for each such pointer, the path FROM THE ROOT OF
  THE DATA at which that literal sits (labels and list indices), and the output is the list
  of FACTS `(path, leaf)` the appended fields assert.  CUE's unification of data-only struct
  literals depends only on that set of facts as long as no two LIST literals are unified at
  the same path (which no document accepted by the TOML spec produces); the evaluator is
  not part of this model.
* Scalars are opaque atoms (kind + token text); what CUE makes of the token text is C09/C10
  territory and is exercised through the harness.
* `findArrayPrefix` (since /repo 8188ba4) compacts `d.openTableArrays` with `slices.DeleteFunc`
  and then looks the exact match up AGAIN (`d.findArray(rkey)`); the model returns the slot
  index of that second lookup.  (Before the fix the Go code returned the pointer taken before
  the compaction; the model of that version predicted the nil dereference on
  `[[a.b]] [[a]] [[a]]`, class toml-decoder-panic-stale-array-pointer, now `fixed:`.)  The
  `stalePanic` outcomes remain in the model for the slice-bounds cases
  (`keyElems[array.level:]` with level ≥ len), which no longer arise from a stale pointer.

Core Lean only.
-/
namespace CueVerif.Toml

abbrev Name := List Nat

/-- an opaque scalar token: kind (0 string, 1 integer, 2 float, 3 bool, 4.. date/time kinds)
and the token's data -/
structure Atom where
  kind : Nat
  text : List Nat
deriving DecidableEq, Repr, Inhabited

inductive Seg where
  | key (n : Name)
  | idx (i : Nat)
deriving DecidableEq, Repr, Inhabited

abbrev Path := List Seg

/-- `decodeKey` (path form): the labels of a dotted key -/
def keyPath (ks : List Name) : Path := ks.map Seg.key

/-- a value on the right of `=`, as the go-toml parser hands it over -/
inductive Val where
  | sc (a : Atom)
  | arr (xs : List Val)
  | inl (kvs : List (List Name × Val))
deriving Repr, Inhabited

/-- one root expression of the go-toml parser -/
inductive Ev where
  | kv (keys : List Name) (v : Val)
  | table (keys : List Name)
  | arrayTable (keys : List Name)
deriving Repr, Inhabited

/-- what a field appended to the output asserts about one path of the data -/
inductive Leaf where
  | atom (a : Atom)
  | tbl            -- "there is a struct literal here"
  | arr            -- "there is a list literal here"
deriving DecidableEq, Repr, Inhabited

abbrev Fact := Path × Leaf

/-- the three `nodeErrf` of nextRootNode/decodeField, plus the nil dereference -/
inductive DecErr where
  | dupKey          -- "duplicate key: %s"
  | arrayAsTable    -- "cannot redeclare table array %q as a table"
  | keyAsArray      -- "cannot redeclare key %q as a table array"
  | stalePanic      -- nil pointer dereference / slice bounds through a stale `*openTableArray`
deriving DecidableEq, Repr, Inhabited

/-- `openTableArray` -/
structure OpenArr where
  rkey : Path
  level : Nat
  list : Path     -- where `list *ast.ListLit` sits in the data
  len : Nat       -- len(list.Elts)
  last : Path     -- where `lastTable *ast.StructLit` sits in the data
deriving DecidableEq, Repr, Inhabited

/-- decoder state -/
structure St where
  seen : List Path          -- seenTableKeys (the keys mapped to true)
  arrays : List OpenArr     -- openTableArrays
  curKey : Path             -- currentTableKey
  cur : Path                -- where currentTable sits in the data ([] = topFile)
  out : List Fact           -- the fields appended so far, as facts
deriving Repr, Inhabited

def St.init : St := { seen := [], arrays := [], curKey := [], cur := [], out := [] }

/-- `strings.HasPrefix(k, r + ".")` on rooted keys = strict path prefix (see header) -/
def strictPrefix (r k : Path) : Bool := r.isPrefixOf k && r.length < k.length

/-- `findArray`: index of the first open array with exactly this key -/
def findArray (arrays : List OpenArr) (rkey : Path) : Option Nat :=
  arrays.findIdx? (fun a => a.rkey == rkey)

/-- the second loop of `findArrayPrefix`: first array of maximal level among the strict prefixes -/
def maxPrefixLoop (rkey : Path) : List OpenArr → Nat → Nat → Option Nat → Option Nat
  | [], _, _, best => best
  | a :: rest, i, maxLevel, best =>
    if strictPrefix a.rkey rkey && maxLevel < a.level then
      maxPrefixLoop rkey rest (i + 1) a.level (some i)
    else maxPrefixLoop rkey rest (i + 1) maxLevel best

/-- `findArrayPrefix`: slot index of the array it returns a pointer to, and the state after
its side effects (forgetting sub-arrays and seen sub-keys on an exact match) -/
def findArrayPrefix (s : St) (rkey : Path) : Option Nat × St :=
  match findArray s.arrays rkey with
  | some _ =>
    let arrays := s.arrays.filter (fun a => !strictPrefix rkey a.rkey)
    (findArray arrays rkey, { s with arrays := arrays,
                                     seen := s.seen.filter (fun k => !strictPrefix rkey k) })
  | none => (maxPrefixLoop rkey s.arrays 0 0 none, s)

mutual
/-- `decodeExpr` (rkey, position of the value in the data) -/
def decodeExpr (rkey p : Path) : Val → St → Except DecErr St
  | .sc a, s => .ok { s with out := s.out ++ [(p, .atom a)] }
  | .arr xs, s => decodeElems rkey p 0 xs { s with out := s.out ++ [(p, .arr)] }
  | .inl kvs, s => decodeFields rkey p kvs { s with out := s.out ++ [(p, .tbl)] }
/-- the loop of the `toml.Array` case -/
def decodeElems (rkey p : Path) (i : Nat) : List Val → St → Except DecErr St
  | [], s => .ok s
  | x :: xs, s =>
    match decodeExpr (rkey ++ [.idx i]) (p ++ [.idx i]) x s with
    | .error e => .error e
    | .ok s => decodeElems rkey p (i + 1) xs s
/-- `decodeField` for each field of an inline table (or the single root key-value) -/
def decodeFields (rkey p : Path) : List (List Name × Val) → St → Except DecErr St
  | [], s => .ok s
  | kv :: rest, s =>
    let rkey' := rkey ++ keyPath kv.1
    if (findArray s.arrays rkey').isSome then .error .arrayAsTable
    else if s.seen.contains rkey' then .error .dupKey
    else
      match decodeExpr rkey' (p ++ keyPath kv.1) kv.2 { s with seen := rkey' :: s.seen } with
      | .error e => .error e
      | .ok s => decodeFields rkey p rest s
end

/-- `nextRootNode` -/
def step (s : St) : Ev → Except DecErr St
  | .kv ks v => decodeFields s.curKey s.cur [(ks, v)] s
  | .table ks =>
    let key := keyPath ks
    if s.seen.contains key then .error .dupKey
    else
      match findArrayPrefix { s with seen := key :: s.seen } key with
      | (none, s) =>
        .ok { s with out := s.out ++ [(key, .tbl)], cur := key, curKey := key }
      | (some i, s) =>
        match s.arrays[i]? with
        | none => .error .stalePanic
        | some a =>
          if a.rkey == key then .error .arrayAsTable
          else if ks.length ≤ a.level then .error .stalePanic
          else
            let p := a.last ++ keyPath (ks.drop a.level)
            .ok { s with out := s.out ++ [(p, .tbl)], cur := p, curKey := key }
  | .arrayTable ks =>
    let key := keyPath ks
    if s.seen.contains key then .error .keyAsArray
    else
      let (slot, s) := findArrayPrefix s key
      let fresh (base : Path) : Except DecErr St :=
        let p := base ++ [.idx 0]
        .ok { s with out := s.out ++ [(base, .arr), (p, .tbl)], cur := p,
                     curKey := key ++ [.idx 0],
                     arrays := s.arrays ++ [{ rkey := key, level := ks.length, list := base,
                                              len := 1, last := p }] }
      match slot with
      | none => fresh key
      | some i =>
        match s.arrays[i]? with
        | none => .error .stalePanic
        | some a =>
          if a.level == ks.length then
            let p := a.list ++ [.idx a.len]
            .ok { s with out := s.out ++ [(p, .tbl)], cur := p, curKey := key ++ [.idx a.len],
                         arrays := s.arrays.set i { a with last := p, len := a.len + 1 } }
          else if ks.length ≤ a.level then .error .stalePanic
          else fresh (a.last ++ keyPath (ks.drop a.level))

def run (s : St) : List Ev → Except DecErr St
  | [] => .ok s
  | e :: es =>
    match step s e with
    | .error err => .error err
    | .ok s => run s es

/-- `Decoder.Decode` on a parsed document: the facts of the produced syntax tree
(`d.topFile = &ast.StructLit{}` is the root fact) -/
def decode (evs : List Ev) : Except DecErr (List Fact) :=
  match run St.init evs with
  | .error e => .error e
  | .ok s => .ok (([], .tbl) :: s.out)

/-! ### data trees and what the encoder emits for them -/

/-- concrete data as `cue.Value.Decode(&any)` hands it to go-toml (no null) -/
inductive Tree where
  | sc (a : Atom)
  | tbl (fs : List (Name × Tree))
  | arr (xs : List Tree)
deriving Repr, Inhabited

/-- go-toml `isTableLike` -/
def Tree.isTable : Tree → Bool
  | .tbl _ => true
  | _ => false

/-- go-toml `isArrayOfTables`: a non-empty slice all of whose elements are table-like -/
def Tree.isAoT : Tree → Bool
  | .arr xs => !xs.isEmpty && xs.all Tree.isTable
  | _ => false

/-- go-toml `entryIsTable` (tablesInline off, no inline tag) -/
def Tree.entryIsTable (t : Tree) : Bool := t.isTable || t.isAoT

mutual
/-- the inline rendering (`appendValue`: inline tables `{k = v}` with one-part keys, arrays) -/
def Tree.toVal : Tree → Val
  | .sc a => .sc a
  | .tbl fs => .inl (toValFields fs)
  | .arr xs => .arr (toValElems xs)
def toValFields : List (Name × Tree) → List (List Name × Val)
  | [] => []
  | f :: rest => ([f.1], f.2.toVal) :: toValFields rest
def toValElems : List Tree → List Val
  | [] => []
  | x :: xs => x.toVal :: toValElems xs
end

/-- first pass of `encodeTable`: `key = value` for the entries that are not tables -/
def emitKVs : List (Name × Tree) → List Ev
  | [] => []
  | f :: rest => (if f.2.entryIsTable then [] else [Ev.kv [f.1] f.2.toVal]) ++ emitKVs rest

mutual
/-- second pass of `encodeTable` under the key stack `keys` -/
def emitSubs (keys : List Name) : List (Name × Tree) → List Ev
  | [] => []
  | f :: rest => emitEntry (keys ++ [f.1]) f.2 ++ emitSubs keys rest
/-- one table-like entry: `[keys]` + body, or `[[keys]]` + body per element (`encodeArrayTable`) -/
def emitEntry (keys : List Name) : Tree → List Ev
  | .tbl fs => Ev.table keys :: (emitKVs fs ++ emitSubs keys fs)
  | .arr xs => if (Tree.arr xs).isAoT then emitElems keys xs else []
  | .sc _ => []
def emitElems (keys : List Name) : List Tree → List Ev
  | [] => []
  | x :: xs => emitElem keys x ++ emitElems keys xs
def emitElem (keys : List Name) : Tree → List Ev
  | .tbl fs => Ev.arrayTable keys :: (emitKVs fs ++ emitSubs keys fs)
  | _ => []
end

/-- `Encoder.Encode` on a document (the root must be a table; go-toml rejects anything else) -/
def emit : Tree → Option (List Ev)
  | .tbl fs => some (emitKVs fs ++ emitSubs [] fs)
  | _ => none

/-! ### facts of values and trees -/

mutual
/-- the facts a decoded value asserts when placed at `p` (= what `decodeExpr` appends) -/
def Val.facts (p : Path) : Val → List Fact
  | .sc a => [(p, .atom a)]
  | .arr xs => (p, .arr) :: factsElems p 0 xs
  | .inl kvs => (p, .tbl) :: factsFields p kvs
def factsElems (p : Path) (i : Nat) : List Val → List Fact
  | [] => []
  | x :: xs => x.facts (p ++ [.idx i]) ++ factsElems p (i + 1) xs
def factsFields (p : Path) : List (List Name × Val) → List Fact
  | [] => []
  | kv :: rest => kv.2.facts (p ++ keyPath kv.1) ++ factsFields p rest
end

mutual
/-- the facts of a data tree placed at `p`: one per node -/
def Tree.facts (p : Path) : Tree → List Fact
  | .sc a => [(p, .atom a)]
  | .tbl fs => (p, .tbl) :: treeFactsFields p fs
  | .arr xs => (p, .arr) :: treeFactsElems p 0 xs
def treeFactsFields (p : Path) : List (Name × Tree) → List Fact
  | [] => []
  | f :: rest => f.2.facts (p ++ [.key f.1]) ++ treeFactsFields p rest
def treeFactsElems (p : Path) (i : Nat) : List Tree → List Fact
  | [] => []
  | x :: xs => x.facts (p ++ [.idx i]) ++ treeFactsElems p (i + 1) xs
end

/-- the containers a path implies: every strict prefix is a struct (next segment a label) or
a list (next segment an index).  `inlineFields` creates exactly these nested literals. -/
def implied : Path → Path → List Fact
  | _, [] => []
  | pre, .key n :: rest => (pre, .tbl) :: implied (pre ++ [.key n]) rest
  | pre, .idx i :: rest => (pre, .arr) :: implied (pre ++ [.idx i]) rest

/-- facts closed under implied containers -/
def closure (fs : List Fact) : List Fact :=
  fs ++ fs.flatMap (fun f => implied [] f.1)

/-! ### rooted keys as strings (`decodeKey`, the `strconv.Itoa` of array elements) -/

/-- `quoteLabelIfNeeded` = `if ast.StringLabelNeedsQuoting(name) then literal.Label.Quote(name)
else name`, a parameter of the model with the contract `LabelQ.OK` -/
structure LabelQ where
  needsQuoting : Name → Bool
  quote : Name → List Nat

def LabelQ.apply (L : LabelQ) (n : Name) : List Nat :=
  if L.needsQuoting n then L.quote n else n

/-- the scanner of a quoted token's body: a backslash skips one byte, a bare `"` is not allowed -/
def closedBody : List Nat → Bool
  | [] => true
  | [92] => false
  | 92 :: _ :: r => closedBody r
  | 34 :: _ => false
  | _ :: r => closedBody r

def isDigitByte (b : Nat) : Bool := 48 ≤ b && b ≤ 57

/-- contract of `quoteLabelIfNeeded`.  Unquoted names are identifiers: non-empty, no `.`, no
`"`, not starting with an ASCII digit (`ast.IsValidIdent`); quoted names are `"` body `"`
where the body has no bare `"` (`literal.Label.Quote` escapes `"` and `\`); quoting is
injective (`Unquote ∘ Quote = id`, C09). -/
structure LabelQ.OK (L : LabelQ) : Prop where
  plain : ∀ n, L.needsQuoting n = false →
    n ≠ [] ∧ (∀ b ∈ n, b ≠ 46 ∧ b ≠ 34) ∧ (∀ b r, n = b :: r → isDigitByte b = false)
  quoted : ∀ n, L.needsQuoting n = true →
    ∃ body, L.quote n = 34 :: (body ++ [34]) ∧ closedBody body = true
  inj : ∀ n m, L.needsQuoting n = true → L.needsQuoting m = true → L.quote n = L.quote m → n = m

/-- decimal digits of `strconv.Itoa` (n ≥ 0) -/
def itoa (n : Nat) : List Nat := (Nat.toDigits 10 n).map Char.toNat

def Seg.spell (L : LabelQ) : Seg → List Nat
  | .key n => L.apply n
  | .idx i => itoa i

/-- the rooted key string: segments joined with "." -/
def rooted (L : LabelQ) : Path → List Nat
  | [] => []
  | [s] => s.spell L
  | s :: rest => s.spell L ++ 46 :: rooted L rest

end CueVerif.Toml
