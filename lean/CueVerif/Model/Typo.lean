/-
C05 — executable EVIDENCE model: a transcription of the typo check of
internal/core/adt/typocheck.go (core Lean only), driven over the syntax of Model/Closed.lean.

Transcribed Go functions (each is pinned in Bridge/C05.lean and compared with the real
evaluator by the harness stream `typo`):

  Layer A (data structures and pure steps, field for field)
    defID / containment            ← `getNextDefID`, `OpContext.containments`
    `CI`                           ← `CloseInfo` {defID, outerID, enclosingEmbed, FromDef, FromEmbed}
    `RefInfo`, `ReqSet`, `ConjInfo`← `refInfo`, `reqSet`, `conjunctInfo` (+ `conjunctFlags`)
    `addReplacement`               ← `nodeContext.addReplacement`
    `updateConjunctInfo`           ← `nodeContext.updateConjunctInfo`
    `newReq`, `injectEmbedNode`, `splitStruct`
    `addResolver`                  ← `nodeContext.addResolver` (closeOuter walk, ignore switch,
                                      same-vertex lookup, second id inside an embedding scope)
    `containsRec`/`walk`           ← `containsDefIDRec` (containment chain + replaceIDs)
    `markIgnored`, `getReqSets`, `filterTop`, `hasParentEllipsis`, `lookupSet`
    `hasEvidenceForOne`, `hasEvidenceForAll`
    `arcDenied`                    ← the per-arc body of `checkTypos`
  Layer B (the part of the evaluator that calls them, for the fragment of Model/Closed.lean)
    `sched`                        ← `scheduleConjunct` / `scheduleStruct` /
                                      `scheduleVertexConjuncts` / `insertValueConjunct` (close())
    `Sched.tasks`/`runTask`/`drain` ← references and calls are scheduler tasks (handleResolver,
                                      handleExpr) that run after the inline part of a node's conjuncts
    `evalNode`                     ← arcs + pattern insertion (`insertArc`/`MatchAndInsert`),
                                      children first, then `checkTypos`

Not transcribed: opID (one operation), Opened / ConjunctOpened (`X...`, explicitopen
experiment), disjunctions (`mergeCloseInfo`), structure sharing (every reference to a
definition is its own vertex: the harness renders each `d(e)` as its own `#N<i>`), the
containsDefID cache, open validators (`cHasOpenValidator`).  defIDs are allocated by a
counter in the model's own scheduling order; the real evaluator's task order differs, so
only DECISIONS (which arcs are denied) are compared, not id values.
-/
import CueVerif.Model.Closed
namespace CueVerif.Typo
open CueVerif.Closed

/-! ### Layer A: data -/

/-- `adt.CloseInfo`, the fields the typo check reads -/
structure CI where
  defID : Nat := 0
  outerID : Nat := 0
  enclosingEmbed : Nat := 0
  fromDef : Bool := false
  fromEmbed : Bool := false
  deriving Repr, DecidableEq, Inhabited

/-- `defIDType` -/
inductive IDKind where
  | unknown | embedding | reference | struct
  deriving Repr, DecidableEq, Inhabited

/-- `refInfo`.  `v`: vertex identity (0 = `emptyNode`); `vNonRec` is
`y.v.ClosedNonRecursive`, which `getReqSets` reads through the pointer. -/
structure RefInfo where
  v : Nat
  id : Nat
  parent : Nat
  embed : Nat
  ignore : Bool
  kind : IDKind
  isRecursive : Bool
  vNonRec : Bool
  deriving Repr, DecidableEq, Inhabited

/-- `conjunctInfo` with the `conjunctFlags` cHasEllipsis / cHasTop / cHasStruct -/
structure ConjInfo where
  id : Nat
  embed : Nat
  ell : Bool := false
  top : Bool := false
  str : Bool := false
  deriving Repr, DecidableEq, Inhabited

/-- `reqSet` -/
structure ReqSet where
  id : Nat
  parent : Nat
  embed : Nat
  kind : IDKind
  once : Bool
  ignored : Bool
  removed : Bool := false
  deriving Repr, DecidableEq, Inhabited

/-- the part of `OpContext` the typo check uses: the defID counter, `containments`
(pairs `(to, from)`: `containments[to].id = from`) and a vertex counter -/
structure Ctx where
  next : Nat := 0
  cont : List (Nat × Nat) := []
  nextV : Nat := 0
  deriving Repr, Inhabited

/-- the typo-check fields of a `nodeContext` -/
structure NodeSt where
  reqDefIDs : List RefInfo := []
  replaceIDs : List (Nat × Nat) := []      -- `replaceID{from, to}`
  conjInfo : List ConjInfo := []
  deriving Repr, Inhabited

def contOf (cont : List (Nat × Nat)) (p : Nat) : Nat :=
  match cont.find? (fun e => e.1 == p) with
  | some e => e.2
  | none => 0

/-! ### Layer A: steps -/

/-- `getNextDefID` -/
def Ctx.alloc (c : Ctx) : Nat × Ctx := (c.next + 1, { c with next := c.next + 1 })

/-- `addReplacement`: `from == 0 || from == to` nothing; a fresh `to` above `from` becomes a
containment edge; otherwise the pair is recorded in `replaceIDs`. -/
def addReplacement (c : Ctx) (n : NodeSt) (frm to : Nat) : Ctx × NodeSt :=
  if frm == 0 || frm == to then (c, n)
  else if frm < to && contOf c.cont to == 0 then ({ c with cont := (to, frm) :: c.cont }, n)
  else (c, { n with replaceIDs := n.replaceIDs ++ [(frm, to)] })

/-- `updateConjunctInfo(k, id, flags)` (the Kind is not needed for the decision) -/
def updateConjunctInfo (n : NodeSt) (id : CI) (ell top str : Bool) : NodeSt :=
  if n.conjInfo.any (fun c => c.id == id.defID) then
    { n with conjInfo := n.conjInfo.map fun c =>
        if c.id == id.defID then { c with ell := c.ell || ell, top := c.top || top, str := c.str || str }
        else c }
  else
    { n with conjInfo := n.conjInfo ++ [{ id := id.defID, embed := id.enclosingEmbed, ell, top, str }] }

/-- `newReq(p, id, kind)` for `kind ∈ {defEmbedding, defStruct}` -/
def newReq (c : Ctx) (n : NodeSt) (id : CI) (kind : IDKind) : Ctx × NodeSt × CI :=
  let (dst, c) := c.alloc
  let (c, n) := addReplacement c n id.defID dst
  let parent := id.defID
  let id := { id with defID := dst }
  let id := match kind with
    | .embedding => { id with enclosingEmbed := dst }
    | .struct => { id with outerID := dst }
    | _ => id
  let n := { n with reqDefIDs := n.reqDefIDs ++ [{
    v := 0, id := dst, parent := parent, embed := id.enclosingEmbed, ignore := true, kind := kind,
    isRecursive := id.fromDef, vNonRec := false }] }
  (c, n, id)

/-- `injectEmbedNode` (every embedded expression of the fragment reaches `newReq`) -/
def injectEmbedNode (c : Ctx) (n : NodeSt) (id : CI) : Ctx × NodeSt × CI :=
  newReq c n { id with fromEmbed := true } .embedding

/-- `splitStruct` (never a file-level struct here) -/
def splitStruct (c : Ctx) (n : NodeSt) (id : CI) : Ctx × NodeSt × CI :=
  if id.outerID != 0 then (c, n, id)
  else if id.fromEmbed then (c, n, id)
  else newReq c n id .struct

/-- `subField` -/
def subField (id : CI) : CI := { id with fromEmbed := false }

/-- the closeOuter walk of `addResolver`: from the last entry to the first, activate the
chain of enclosing structs starting at `outerID` -/
def activateOuter (vRec : Bool) : List RefInfo → Nat → List RefInfo × Nat
  | [], outer => ([], outer)
  | x :: rest, outer =>
    -- `rest` are the EARLIER entries (the list is passed reversed)
    if x.id == outer && outer != 0 then
      let x' := { x with ignore := false, isRecursive := x.isRecursive || vRec }
      let (r, o) := activateOuter vRec rest x.parent
      (x' :: r, o)
    else
      let (r, o) := activateOuter vRec rest outer
      (x :: r, o)

/-- the same-vertex lookup of `addResolver`: first entry with `x.v == v`; overrides its
settings when it was ignored and the new use is not -/
def lookupVertex (v : Nat) (ignore : Bool) (id : CI) : List RefInfo → Nat × List RefInfo
  | [] => (0, [])
  | x :: rest =>
    if x.v == v then
      if x.ignore && !ignore then
        (x.id, { x with ignore := false, parent := id.outerID, embed := id.enclosingEmbed } :: rest)
      else (x.id, x :: rest)
    else
      let (d, r) := lookupVertex v ignore id rest
      (d, x :: r)

/-- `addResolver(p, v, id, forceIgnore)`; `vRec`/`vNonRec` are the flags
ClosedRecursive/ClosedNonRecursive of the vertex `v` -/
def addResolver (c : Ctx) (n : NodeSt) (v : Nat) (vRec vNonRec : Bool) (id : CI) (forceIgnore : Bool) :
    Ctx × NodeSt × CI :=
  let closeOuter := id.fromDef && id.fromEmbed
  let n := if closeOuter && !forceIgnore then
      { n with reqDefIDs := (activateOuter vRec n.reqDefIDs.reverse id.outerID).1.reverse }
    else n
  let ignore :=
    if forceIgnore then true
    else if id.enclosingEmbed != 0 || id.outerID == 0 then !(id.fromDef || vNonRec || vRec)
    else id.fromEmbed
  let (dst0, reqs) := lookupVertex v ignore id n.reqDefIDs
  let n := { n with reqDefIDs := reqs }
  let (c, n, dst) :=
    if dst0 == 0 || id.enclosingEmbed != 0 then
      let (next, c) := c.alloc
      let (c, n) := if dst0 != 0 then addReplacement c n next dst0 else (c, n)
      let n := { n with reqDefIDs := n.reqDefIDs ++ [{
        v := v, id := next, parent := id.outerID, embed := id.enclosingEmbed, ignore := ignore,
        kind := .reference, isRecursive := vRec, vNonRec := vNonRec }] }
      (c, n, next)
    else (c, n, dst0)
  let src := id.defID
  let id := { id with defID := dst }
  let (c, n) := addReplacement c n src dst
  (c, n, id)

/-! ### containsDefID -/

/-- `containsDefIDRec(node, child, start)` at position `p` of its walk up the containment
chain (`p = child` initially); `flat` = the replaceIDs of the node and its ancestors.  One
unit of fuel per loop iteration / recursive call (structural recursion). -/
def containsRec (cont flat : List (Nat × Nat)) : Nat → Nat → Nat → Nat → Nat → Bool
  | 0, _, _, _, _ => false
  | f + 1, node, child, start, p =>
    if p == 0 then child == node
    else if p == node then true
    else if (flat.filter (fun e => e.2 == p)).any
        (fun e => e.1 != child && containsRec cont flat f node e.1 start e.1) then true
    else
      let p' := contOf cont p
      if p' == start then false else containsRec cont flat f node child start p'

/-- `containsDefID(node, child)` (the fuel bounds walk length × recursion depth) -/
def containsDefID (cont flat : List (Nat × Nat)) (node child : Nat) : Bool :=
  containsRec cont flat ((cont.length + 2) * (flat.length + 2) + 2) node child child child

/-! ### requirement sets -/

/-- `markIgnored` -/
def markIgnored (a : List ReqSet) : List ReqSet :=
  a.map fun e => if e.once then { e with ignored := true } else e

/-- `reqSets.lookupSet` -/
def lookupSet (a : List ReqSet) (id : Nat) : Option ReqSet :=
  if id == 0 then none else a.find? (fun e => e.id == id)

/-- `hasParentEllipsis(n, a, conjuncts)` -/
def hasParentEllipsis (contains : Nat → Nat → Bool) (a : ReqSet) (conjuncts : List ConjInfo) : Nat :=
  match conjuncts.find? (fun c => c.ell && contains a.id c.id) with
  | some c => c.id
  | none => 0

/-- enable the outer structs (loop `for i := last; i >= 0 && outerID != 0; i--` of
`getReqSets`); the list is the REVERSED prefix `a[0..last]` -/
def enableOuter (yRec : Bool) : List ReqSet → Nat → List ReqSet
  | [], _ => []
  | x :: rest, outer =>
    if outer == 0 then x :: rest
    else if x.id == outer then
      let once := if x.ignored then !yRec else x.once && !yRec
      { x with once := once, ignored := false } :: enableOuter yRec rest x.parent
    else x :: enableOuter yRec rest outer

/-- the `for _, y := range n.reqDefIDs` loop of `getReqSets`; `last1` = number of inherited sets -/
def addOwn (last1 : Nat) : List RefInfo → List ReqSet → List ReqSet
  | [], a => a
  | y :: ys, a =>
    if y.ignore && y.kind == .reference then addOwn last1 ys a
    else if a.any (fun x => x.id == y.id) then addOwn last1 ys a
    else
      let once :=
        if y.kind != .embedding then (if !y.ignore && !y.isRecursive then true else y.vNonRec)
        else false
      let a := a ++ [{ id := y.id, parent := y.parent, once := once, ignored := y.ignore,
                       embed := y.embed, kind := y.kind }]
      let a := if y.parent != 0 && !y.ignore then
          (enableOuter y.isRecursive (a.take last1).reverse y.parent).reverse ++ a.drop last1
        else a
      addOwn last1 ys a

/-- `filterTop` -/
def filterTop (contains : Nat → Nat → Bool) (own parentConj : List ConjInfo) (a : List ReqSet) :
    List ReqSet :=
  a.filterMap fun s =>
    let mine := own.filter (fun c => contains s.id c.id)
    let hasAny := !mine.isEmpty
    let fTop := mine.any (·.top)
    let fStr := mine.any (fun c => c.str && !(c.id < s.id))
    if fTop && !fStr then none
    else if hasAny && s.kind != .struct then some s
    else
      let id := hasParentEllipsis contains s parentConj
      if id == 0 then some s
      else if !hasAny then some { s with removed := true }
      else if s.kind != .struct then some s
      else if own.any (fun c => contains id c.id) then some s
      else some { s with removed := true }

/-- `getReqSets(n)`; `hidden` = `allowedInClosed(v.Label)` -/
def getReqSets (contains : Nat → Nat → Bool) (n : NodeSt) (parentReqs : List ReqSet)
    (parentConj : List ConjInfo) (hidden : Bool) : List ReqSet :=
  let a := markIgnored parentReqs
  let a := addOwn a.length n.reqDefIDs a
  let a := if hidden then a.filter (fun s => n.conjInfo.any (fun c => contains s.id c.id)) else a
  filterTop contains n.conjInfo parentConj a

/-! ### evidence -/

/-- `hasEvidenceForOne(all, i, conjuncts)` (`a = all[i]`) -/
def hasEvidenceForOne (contains : Nat → Nat → Bool) (all : List ReqSet) (a : ReqSet)
    (conjuncts : List ConjInfo) : Bool :=
  if conjuncts.any (fun x => contains a.id x.id) then true
  else match lookupSet all a.embed with
    | none => false
    | some embedScope =>
      let outer := lookupSet all a.parent
      conjuncts.any fun c =>
        !(contains embedScope.id c.embed) &&
        (if a.parent == 0 then
          !(embedScope.parent != 0 && (lookupSet all embedScope.parent).isNone)
        else match outer with
          | none => true
          | some o => o.removed || contains o.id c.id)

/-- `hasEvidenceForAll(a, conjuncts)` -/
def hasEvidenceForAll (contains : Nat → Nat → Bool) (a : List ReqSet) (conjuncts : List ConjInfo) : Bool :=
  a.all fun rs => rs.ignored || rs.removed || hasEvidenceForOne contains a rs conjuncts

/-- the body of the `for _, a := range v.Arcs` loop of `checkTypos`: is the arc denied?
`containsN`/`containsA`: containsDefID of the node and of the arc's nodeContext. -/
def arcDenied (containsN containsA : Nat → Nat → Bool) (base : List ReqSet) (nodeConj : List ConjInfo)
    (l : Label) (arcBottom : Bool) (arcConj : List ConjInfo) : Bool :=
  let required := base.map fun s =>
    if hasParentEllipsis containsN s nodeConj != 0 then { s with removed := true } else s
  if arcBottom then false
  else if !l.isReg then false
  else !hasEvidenceForAll containsA required arcConj

/-! ### Layer B: scheduling the conjuncts of the fragment -/

/-- shape of a node while its conjuncts come in -/
inductive NK where
  | top | sc (s : Sc) | st | bot
  deriving Repr, DecidableEq, Inhabited

def NK.meet : NK → NK → NK
  | .bot, _ => .bot
  | _, .bot => .bot
  | .top, b => b
  | a, .top => a
  | .sc s, .sc t => match s.meet t with
    | some r => .sc r
    | none => .bot
  | .st, .st => .st
  | _, _ => .bot

/-- the vertex an expression evaluates to on its own has ClosedRecursive set
(a conjunct with FromDef reached it, conjunct.go `scheduleConjunct`) -/
def vRec : Expr → Bool
  | .defn _ => true
  | .close e => vRec e
  | .and a b => vRec a || vRec b
  | .emb e rest => vRec e || vRec rest
  | .own e rest => vRec e || vRec rest
  | .field _ _ _ rest => vRec rest
  | .pat _ _ rest => vRec rest
  | .ell rest => vRec rest
  | _ => false

/-- … has ClosedNonRecursive set (its value is a `close()` result) -/
def vNonRec : Expr → Bool
  | .close _ => true
  | .and a b => vNonRec a || vNonRec b
  -- a close() result unified INTO the vertex (embedded in its literal, also through nested
  -- embedded literals) sets the flag too (insertValueConjunct: `n.node.ClosedNonRecursive =
  -- true`); an embedded reference does not
  | .emb (.defn _) rest => vNonRec rest
  | .emb e rest => vNonRec e || vNonRec rest
  | .own _ rest => vNonRec rest
  | .field _ _ _ rest => vNonRec rest
  | .pat _ _ rest => vNonRec rest
  | .ell rest => vNonRec rest
  | _ => false

def hasEmb : Expr → Bool
  | .emb _ _ => true
  | .own _ _ => true
  | .field _ _ _ rest => hasEmb rest
  | .pat _ _ rest => hasEmb rest
  | .ell rest => hasEmb rest
  | .close _ | .defn _ | .and _ _ | .sc _ | .bot => true   -- anything else in spine position
  | _ => false

def hasEll : Expr → Bool
  | .ell _ => true
  | .field _ _ _ rest => hasEll rest
  | .pat _ _ rest => hasEll rest
  | .emb _ rest => hasEll rest
  | .own _ rest => hasEll rest
  | _ => false

/-- the node under construction -/
structure Sched where
  ctx : Ctx
  ns : NodeSt := {}
  arcs : List (Label × Kind × Expr × CI) := []
  pats : List (Pat × Expr × CI) := []
  kind : NK := .top
  /-- references and calls are not processed inline but as scheduler TASKS (handleResolver,
  handleExpr), which run after the inline part (struct literals, their fields, the ellipsis
  bookkeeping) of the node's conjuncts -/
  tasks : List (Expr × CI) := []
  deriving Inhabited

def Sched.info (s : Sched) (id : CI) (ell top str : Bool) : Sched :=
  { s with ns := updateConjunctInfo s.ns id ell top str }

mutual
/-- `scheduleConjunct(c, id)` for the expression forms of the fragment -/
def sched : Nat → Expr → CI → Sched → Sched
  | 0, _, _, s => s
  | _ + 1, .top, id, s => s.info id false true false
  | _ + 1, .bot, _, s => { s with kind := .bot }
  | _ + 1, .sc x, id, s =>
    let s := s.info id false (!x.concrete) false
    { s with kind := s.kind.meet (.sc x) }
  | f + 1, .and a b, id, s => sched f b id (sched f a id s)
  | _ + 1, .defn body, id, s => { s with tasks := s.tasks ++ [(.defn body, id)] }
  | _ + 1, .close arg, id, s => { s with tasks := s.tasks ++ [(.close arg, id)] }
  | f + 1, e, id, s =>
    -- a struct literal: `scheduleStruct`
    let s := s.info id false false true
    let s := { s with kind := s.kind.meet .st }
    let (c, n, id) := if hasEmb e then splitStruct s.ctx s.ns id else (s.ctx, s.ns, id)
    let s := schedDecls f e id { s with ctx := c, ns := n }
    if hasEll e then s.info id true false false else s
/-- the declarations of a struct literal, in source order -/
def schedDecls : Nat → Expr → CI → Sched → Sched
  | 0, _, _, s => s
  | f + 1, .field l k v rest, id, s =>
    schedDecls f rest id { s with arcs := s.arcs ++ [(l, k, v, subField id)] }
  | f + 1, .pat p v rest, id, s =>
    schedDecls f rest id { s with pats := s.pats ++ [(p, v, subField id)] }
  | f + 1, .ell rest, id, s => schedDecls f rest id s
  | f + 1, .emb x rest, id, s =>
    let (c, n, ci) := injectEmbedNode s.ctx s.ns id
    schedDecls f rest id (sched f x ci { s with ctx := c, ns := n })
  | f + 1, .own x rest, id, s => schedDecls f rest id (sched f x (subField id) s)
  | _ + 1, .nil, _, s => s
  | _ + 1, .top, _, s => s
  | f + 1, x, id, s =>
    -- anything else in spine position is read as an embedding (as in Model/Closed.lean)
    let (c, n, ci) := injectEmbedNode s.ctx s.ns id
    sched f x ci { s with ctx := c, ns := n }
end

/-- one scheduler task: a reference to a definition (handleResolver →
scheduleVertexConjuncts) or a `close()` call (handleExpr → insertValueConjunct) -/
def runTask (f : Nat) (e : Expr) (id : CI) (s : Sched) : Sched :=
  match e with
  | .defn body =>
    -- a definition (ClosedRecursive vertex)
    let id := { id with fromDef := true }
    let v := s.ctx.nextV + 1
    let (c, n, id) := addResolver { s.ctx with nextV := v } s.ns v true (vNonRec body) id false
    sched f body id { s with ctx := c, ns := n }
  | .close arg =>
    -- the call yields a Vertex with ClosedNonRecursive: insertValueConjunct → addResolver,
    -- then scheduleVertexConjuncts (not a definition) → addResolver(forceIgnore)
    let v := s.ctx.nextV + 1
    let (c, n, id) := addResolver { s.ctx with nextV := v } s.ns v (vRec arg) true id false
    let (c, n, id) := addResolver c n v (vRec arg) true id true
    -- the conjuncts of the argument VERTEX are re-scheduled: for `close(#Def)` these are the
    -- conjuncts of the definition itself (the reference is not resolved again at this node)
    let arg' := match arg with
      | .defn body => body
      | e => e
    sched f arg' id { s with ctx := c, ns := n }
  | _ => s

/-- run the queued tasks in order (a task may queue further tasks) -/
def drain (f : Nat) : Nat → Sched → Sched
  | 0, s => s
  | k + 1, s =>
    match s.tasks with
    | [] => s
    | (e, id) :: rest => drain f k (runTask f e id { s with tasks := rest })

/-- labels of the arcs of a node, in order of first insertion -/
def arcLabels (arcs : List (Label × Kind × Expr × CI)) : List Label :=
  (arcs.map (·.1)).eraseDups

/-- the result of evaluating a node: the context, the node's conjunctInfo, whether it is an
error on its own, and the paths (relative to the node) of the arcs the typo check denies -/
structure NodeRes where
  ctx : Ctx
  conj : List ConjInfo
  repl : List (Nat × Nat)
  bottom : Bool
  denied : List (List Label)
  deriving Inhabited

/-- evaluate a node: schedule its conjuncts, insert pattern constraints into matching arcs,
evaluate the children, then `checkTypos`.  `flatP`/`reqsP`/`conjP`: the parent's flattened
replaceIDs, reqSets and conjunctInfo; `hidden`: the node's label is hidden/definition. -/
def evalNode : Nat → List (Expr × CI) → Ctx → List (Nat × Nat) → List ReqSet → List ConjInfo → Bool → NodeRes
  | 0, _, c, _, _, _, _ => { ctx := c, conj := [], repl := [], bottom := false, denied := [] }
  | f + 1, conjs, c, flatP, reqsP, conjP, hidden =>
    let s : Sched := conjs.foldl (fun s ec => sched (f + 1) ec.1 ec.2 s) { ctx := c }
    let s := drain (f + 1) (f + 1) s
    let flat := s.ns.replaceIDs ++ flatP
    let labels := arcLabels s.arcs
    -- the requirement sets of this node (children inherit them)
    let containsPre := containsDefID s.ctx.cont flat
    let reqs := getReqSets containsPre s.ns reqsP conjP hidden
    -- children, left to right, threading the context
    let step := fun (acc : Ctx × List (Label × Kind × NodeRes)) (l : Label) =>
      let mine := s.arcs.filter (fun a => a.1 == l)
      let k := mine.foldl (fun k a => k.merge a.2.1) Kind.optional
      let cs := mine.map (fun a => (a.2.2.1, a.2.2.2)) ++
        (s.pats.filter (fun p => p.1.matches l)).map (fun p => (p.2.1, p.2.2))
      let r := evalNode f cs acc.1 flat reqs s.ns.conjInfo (!l.isReg)
      (r.ctx, acc.2 ++ [(l, k, r)])
    let (c', kids) := labels.foldl step (s.ctx, [])
    let bottom := s.kind == .bot || (s.kind != .st && !labels.isEmpty && s.kind != .top)
    -- checkTypos
    let contains := containsDefID c'.cont flat
    let own :=
      if labels.isEmpty || bottom || reqs.isEmpty then []
      else kids.filterMap fun (l, k, r) =>
        -- `na.hasEvidenceForAll`: containsDefID of the ARC's nodeContext (its own replaceIDs
        -- in front of the parent chain), with the final containments
        -- `a.ArcType <= ArcRequired` makes the error; it is OBSERVABLE (reported by Validate)
        -- only for member arcs: a required/optional constraint is not a field of the result
        if k == .member &&
            arcDenied contains (containsDefID c'.cont (r.repl ++ flat)) reqs s.ns.conjInfo l r.bottom r.conj
        then some [l] else none
    let deep := kids.flatMap fun (l, k, r) => if k == .member then r.denied.map (l :: ·) else []
    { ctx := c', conj := s.ns.conjInfo, repl := s.ns.replaceIDs, bottom := bottom, denied := own ++ deep }

def size : Expr → Nat
  | .field _ _ v rest => size v + size rest + 1
  | .pat _ v rest => size v + size rest + 1
  | .ell rest => size rest + 1
  | .emb e rest => size e + size rest + 1
  | .own e rest => size e + size rest + 1
  | .close e => size e + 1
  | .defn e => size e + 1
  | .and a b => size a + size b + 1
  | _ => 1

def fuelOf (e : Expr) : Nat := 2 * size e + 4

/-- paths of the arcs the evidence algorithm denies in `x: schema & data` -/
def typoDenied (schema data : Expr) : List (List Label) :=
  (evalNode (fuelOf schema + fuelOf data) [(schema, {}), (data, {})] {} [] [] [] false).denied

/-- the evidence algorithm's decision for a candidate label at the top node: the arc `l`
(added by the data as `l: _`) is not denied -/
def typoAllows (schema : Expr) (l : Label) : Bool :=
  !(typoDenied schema (.field l .member .top .nil)).contains [l]

end CueVerif.Typo
