/-
C02 — model of `errors.Sanitize` (cue/errors/errors.go) and of the position comparison it
rests on (cue/token/position.go).  Core Lean only.

Transcribed Go functions
  token.Pos.Compare                      → `Pos.compare`
  errors.comparePosWithNoPosFirst        → `cmpPosNoPosFirst`
  errors.list.removeMultiples            → `sanitizeWith` (the sort is a parameter, see below)
  errors.list.sanitize / errors.Sanitize → `sanitize` (list level; the unwrapping of a
                                           one-element list is `sanitizeTop`)
  slices.insertionSortCmpFunc            → `insertionSort` (what `slices.SortFunc` runs for
                                           n ≤ 12; stable)

`slices.SortFunc` is pattern-defeating quicksort: unstable, and for more than 12 elements its
result on ties depends on the input order in ways this model does not reproduce.  Its CONTRACT
(the result is a permutation of the input that is sorted w.r.t. a comparison which is a total
preorder) is the structure `SortFn`; the theorems about `sanitizeWith` quantify over every
function meeting that contract.  `insertionSort` is the executable instance used by the
driver; it is exactly the algorithm the Go runtime uses for lists of at most 12 errors.

What an error is, for Sanitize: `Position()` (compared with `==` and with Pos.Compare),
`Path()` (compared with slices.Compare / slices.Equal), `Error()` (the rendered message,
compared as a string) and *everything else that printing shows and comparing does not*
(`InputPositions()`, the chain of wrapped errors as printed by `writeErr`): field `aux`.
-/
namespace CueVerif.Sanitize

abbrev Bytes := List Nat

/-- `cmp.Compare` on Go strings: lexicographic on bytes, a proper prefix is smaller. -/
def cmpBytes : Bytes → Bytes → Ordering
  | [], [] => .eq
  | [], _ :: _ => .lt
  | _ :: _, [] => .gt
  | a :: as, b :: bs => if a < b then .lt else if b < a then .gt else cmpBytes as bs

/-- `slices.Compare` on `[]string`. -/
def cmpPath : List Bytes → List Bytes → Ordering
  | [], [] => .eq
  | [], _ :: _ => .lt
  | _ :: _, [] => .gt
  | a :: as, b :: bs =>
    match cmpBytes a b with
    | .eq => cmpPath as bs
    | o => o

/-- `token.Pos` = (file *File, offset int).  `fid` is the identity of the `*File` pointer
(0 = nil); `name` the file's name (a function of `fid` in any real run: see `Pos.WF`);
`off` the byte offset (`index`), `bits` the low six bits of the packed word (RelPos, comma
bit, scanned bit).  Go's `==` on Pos compares pointer and the whole word: structural
equality here. -/
structure Pos where
  fid : Nat
  name : Bytes
  off : Nat
  bits : Nat
deriving DecidableEq, Repr, Inhabited

def noPos : Pos := ⟨0, [], 0, 0⟩

/-- the representation invariant of real positions: no file ⇒ no name and no offset -/
def Pos.WF (p : Pos) : Prop := p.fid = 0 → p.name = [] ∧ p.off = 0

/-- `Pos.IsValid`: `p != NoPos` -/
def Pos.isValid (p : Pos) : Bool := decide (p ≠ noPos)

/-- `Pos.Filename`: "" without a file -/
def Pos.filename (p : Pos) : Bytes := if p.fid = 0 then [] else p.name

/-- `Pos.Offset`: 0 without a file -/
def Pos.offset (p : Pos) : Nat := if p.fid = 0 then 0 else p.off

/-- `filepath.IsAbs` on Unix: the name starts with '/' -/
def isAbs (n : Bytes) : Bool := n.head? == some 47

def cmpBool (a b : Bool) : Ordering :=
  match a, b with
  | false, true => .lt
  | true, false => .gt
  | _, _ => .eq

def cmpNat (a b : Nat) : Ordering := if a < b then .lt else if b < a then .gt else .eq

/-- the part of `token.Pos.Compare` after the `==` / IsValid prelude: absolute file names
first, then by name, then by offset.  Neither the file pointer nor the low bits are
looked at. -/
def Pos.cmpKey (p q : Pos) : Ordering :=
  match cmpBool (isAbs p.filename) (isAbs q.filename) with
  | .lt => .gt   -- negated: absolute names go first
  | .gt => .lt
  | .eq =>
    match cmpBytes p.filename q.filename with
    | .eq => cmpNat p.offset q.offset
    | o => o

/-- `token.Pos.Compare` (NoPos is LARGER than every valid position here) -/
def Pos.compare (p q : Pos) : Ordering :=
  if p = q then .eq
  else if !p.isValid then .gt
  else if !q.isValid then .lt
  else Pos.cmpKey p q

/-- `errors.comparePosWithNoPosFirst` (NoPos first) -/
def cmpPosNoPosFirst (a b : Pos) : Ordering :=
  if a = b then .eq
  else if !a.isValid then .lt
  else if !b.isValid then .gt
  else Pos.compare a b

/-- an error as Sanitize and the printer see it -/
structure Err where
  pos : Pos
  path : List Bytes
  msg : Bytes
  aux : Nat
deriving DecidableEq, Repr, Inhabited

/-- the first comparison of `removeMultiples`: position, then path; nothing is rendered -/
def cmp1 (x y : Err) : Ordering :=
  match cmpPosNoPosFirst x.pos y.pos with
  | .eq => cmpPath x.path y.path
  | o => o

/-- the second comparison: `cmp.Compare(x.msg, y.msg)` -/
def cmpMsg (x y : Err) : Ordering := cmpBytes x.msg y.msg

/-- the grouping test of `removeMultiples`: `a[i].Position() == a[j].Position() &&
slices.Equal(a[i].Path(), a[j].Path())` — Go `==` on positions, NOT `Compare(..) == 0`. -/
def sameGroup (x y : Err) : Bool := decide (x.pos = y.pos) && decide (x.path = y.path)

/-- `slices.CompactFunc(group, func(x, y) bool { return x.msg == y.msg })`: of each run of
consecutive elements with equal message the FIRST is kept (`x` = the last element kept). -/
def compactMsgAux (x : Err) : List Err → List Err
  | [] => []
  | y :: rest => if x.msg = y.msg then compactMsgAux x rest else y :: compactMsgAux y rest

def compactMsg : List Err → List Err
  | [] => []
  | x :: rest => x :: compactMsgAux x rest

/-- what happens to one group `a[i:j]` = `x :: run`: a lone error is kept without rendering;
a longer group is sorted by rendered message and compacted -/
def flush (sort : (Err → Err → Ordering) → List Err → List Err) (x : Err) (run : List Err) : List Err :=
  if run.isEmpty then [x] else compactMsg (sort cmpMsg (x :: run))

/-- the group loop of `removeMultiples` (`for i := 0; i < len(a); { j := i+1; for j < len(a) &&
same(a[i], a[j]) { j++ } … i = j }`): `x` = a[i], `run` = a[i+1:j] collected so far; every
later element is compared with the group's FIRST element. -/
def groupLoop (sort : (Err → Err → Ordering) → List Err → List Err) (x : Err) (run : List Err) :
    List Err → List Err
  | [] => flush sort x run
  | y :: rest =>
    if sameGroup x y then groupLoop sort x (run ++ [y]) rest
    else flush sort x run ++ groupLoop sort y [] rest

/-- `list.removeMultiples` / `list.sanitize` with the sort as a parameter -/
def sanitizeWith (sort : (Err → Err → Ordering) → List Err → List Err) (es : List Err) : List Err :=
  if es.length ≤ 1 then es
  else
    match sort cmp1 es with
    | [] => []
    | x :: rest => groupLoop sort x [] rest

/-! ### `slices.insertionSortCmpFunc` -/

/-- one inner loop of insertion sort on the REVERSED sorted prefix (head = last element):
`for j := i; j > a && cmp(data[j], data[j-1]) < 0; j-- { swap }` -/
def insRev (cmp : α → α → Ordering) (x : α) : List α → List α
  | [] => [x]
  | y :: ys => if cmp x y = .lt then y :: insRev cmp x ys else x :: y :: ys

def insertionSortAux (cmp : α → α → Ordering) : List α → List α → List α
  | acc, [] => acc.reverse
  | acc, x :: xs => insertionSortAux cmp (insRev cmp x acc) xs

/-- `insertionSortCmpFunc(data, 0, n, cmp)`: stable -/
def insertionSort (cmp : α → α → Ordering) (l : List α) : List α := insertionSortAux cmp [] l

/-- the executable instance (exactly Go for ≤ 12 errors) -/
def sanitize (es : List Err) : List Err := sanitizeWith insertionSort es

/-- `errors.Sanitize` at the top: a list of length one is unwrapped to its element (which
prints identically); modelled as the identity on the list. -/
def sanitizeTop (es : List Err) : List Err := sanitize es

end CueVerif.Sanitize
