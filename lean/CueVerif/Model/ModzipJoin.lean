/-
filepath.Join(dir, name) at byte level, as Unzip calls it (`dst := filepath.Join(dir, name)`),
on Unix: empty arguments are dropped, the others joined with '/', the result cleaned
(filepath.Clean is path.Clean on Unix; `pathClean` is the model's transcription of it, tied
by correspondence).  Core Lean only.
-/
import CueVerif.Model.Modzip
namespace CueVerif.Modzip

def fpJoin (dir name : Str) : Str :=
  if dir.isEmpty then (if name.isEmpty then [] else pathClean name)
  else if name.isEmpty then pathClean dir
  else pathClean (dir ++ 47 :: name)

end CueVerif.Modzip
