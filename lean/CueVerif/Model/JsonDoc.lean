/-
Model of the document-level JSON encoder of cue/types.go (property C10).  Core Lean only.

Transcribed:
  * `Value.appendJSON`: the `switch k := x.Kind()` over an evaluated concrete value —
      null → `null`; bool → `json.Marshal(bool)` = `true` / `false`;
      int/float/number → `x.(*adt.Num).X.Append(b, 'G')`               (`fmtG`, Model/Json.lean)
      string → `internaljson.Marshal(str)`                              (`jsonEscape`)
      list → `listAppendJSON`;  struct → `structValue.appendJSON`
  * `listAppendJSON`: `[`, then if `l.Next()`: value, and while `l.Next()`: `,` value; `]`
  * `structValue.appendJSON`: `{`, for i in range n: Marshal(key) `:` value, `,` if i < n-1; `}`
The input of the model is the evaluated value as a finite tree (`MVal`): what
`v.eval`/`mustList`/`structValData` present to the appender — elements in list order, regular
fields in `structValue.At` order (hidden, optional and definition fields are already omitted by
`structValData`).  NOT modelled: the error branches (incomplete / non-concrete values, bottom),
the bytes kind (`json.Marshal([]byte)`, base64), non-finite decimals (see `fmtDec`), and the
evaluator that produces the tree.
-/
import CueVerif.Model.Json
import CueVerif.Spec.JsonDoc
namespace CueVerif.Json
open CueVerif.Quote (Bytes)

/-- an evaluated, concrete CUE value as the JSON appender walks it -/
inductive MVal where
  | null
  | bool (b : Bool)
  | num (neg : Bool) (coeff : Nat) (exp : Int)     -- a finite apd.Decimal (int or float kind)
  | str (s : Bytes)
  | list (es : List MVal)
  | struct (fs : List (Bytes × MVal))               -- label string, value; in field order

mutual
/-- `Value.appendJSON` (the bytes appended to `b`) -/
def appendJSON : MVal → Bytes
  | .null => [0x6E, 0x75, 0x6C, 0x6C]
  | .bool b => if b then [0x74, 0x72, 0x75, 0x65] else [0x66, 0x61, 0x6C, 0x73, 0x65]
  | .num neg coeff exp => fmtG neg coeff exp
  | .str s => jsonEscape s
  | .list es => 0x5B :: (appendElems es ++ [0x5D])
  | .struct fs => 0x7B :: (appendFields fs ++ [0x7D])
/-- the loop of `listAppendJSON`: a `,` is written only when `l.Next()` finds another element -/
def appendElems : List MVal → Bytes
  | [] => []
  | e :: es => appendJSON e ++ (if es.isEmpty then [] else 0x2C :: appendElems es)
/-- the loop of `structValue.appendJSON`: key, `:`, value, and `,` iff `i < n-1` -/
def appendFields : List (Bytes × MVal) → Bytes
  | [] => []
  | (k, v) :: fs =>
    jsonEscape k ++ 0x3A :: (appendJSON v ++ (if fs.isEmpty then [] else 0x2C :: appendFields fs))
end

/-- pkg/encoding/json `MarshalStream`: every element of the list marshalled
(`internaljson.Marshal(iter.Value())` → `Value.MarshalJSON`), each followed by `'\n'` -/
def marshalStream : List MVal → Bytes
  | [] => []
  | v :: vs => appendJSON v ++ 0x0A :: marshalStream vs

mutual
/-- the JSON data a value stands for (what the property calls "the same data"): numbers as
their exact decimal, strings and member names byte for byte, members in field order -/
def dataOf : MVal → JVal
  | .null => .null
  | .bool b => .bool b
  | .num neg coeff exp => .num neg coeff exp
  | .str s => .str s
  | .list es => .arr (dataOfList es)
  | .struct fs => .obj (dataOfFields fs)
def dataOfList : List MVal → List JVal
  | [] => []
  | e :: es => dataOf e :: dataOfList es
def dataOfFields : List (Bytes × MVal) → List (Bytes × JVal)
  | [] => []
  | (k, v) :: fs => (k, dataOf v) :: dataOfFields fs
end

mutual
/-- every string and every label is a valid UTF-8 byte string (always the case for a
`cue.Value`: string values and labels are valid UTF-8 by construction) -/
def MVal.WF : MVal → Prop
  | .null => True
  | .bool _ => True
  | .num _ _ _ => True
  | .str s => Quote.IsBytes s ∧ Quote.validUTF8 s = true
  | .list es => MVal.WFList es
  | .struct fs => MVal.WFFields fs
def MVal.WFList : List MVal → Prop
  | [] => True
  | e :: es => MVal.WF e ∧ MVal.WFList es
def MVal.WFFields : List (Bytes × MVal) → Prop
  | [] => True
  | (k, v) :: fs => (Quote.IsBytes k ∧ Quote.validUTF8 k = true) ∧ MVal.WF v ∧ MVal.WFFields fs
end

end CueVerif.Json
