/-
C11 (extension) — the printing steps between the in-repo block decision and the bytes a YAML
reader sees (core Lean only).

Transcribed from internal/encoding/yaml/goccy/encode.go:
  stripBlankLinePadding (with its fast path), the string arm of quoteFlowUnsafe;
from the comment in Encode ("goccy pads the blank lines within literal block scalars to the
block's indentation"): `emitBlockRaw`, the lines goccy's printer writes BEFORE
stripBlankLinePadding — every body line, empty ones included, prefixed by the indentation.
Reading side: YAML 1.2 §5.4 line break normalisation (`normalizeBreaks`), §5.1 printable
characters restricted to what matters here (`cleanByte`).
-/
import CueVerif.Model.YamlEmit
namespace CueVerif.Yaml
open CueVerif.Quote (Bytes)

/-- one iteration of the loop of `stripBlankLinePadding`:
`if len(line) > 0 && len(bytes.TrimLeft(line, " ")) == 0 { lines[i] = nil }` -/
def stripLine (l : Bytes) : Bytes :=
  if !l.isEmpty && (l.dropWhile (· == 32)).isEmpty then [] else l

/-- `stripBlankLinePadding` (bytes.Split(b, "\n") = `splitLines`, bytes.Join = `joinLines`) -/
def stripBlankLinePadding (doc : Bytes) : Bytes :=
  if !containsSub [32, 10] doc && !hasSuffix [32] doc then doc
  else joinLines ((splitLines doc).map stripLine)

/-- what goccy's printer writes for the block body, before `stripBlankLinePadding`: every
line of the body — blank ones too — prefixed by `ind` blanks -/
def emitBlockRaw (ind : Nat) (s : Bytes) : Chomp × List Bytes :=
  let ls := splitLines s
  let body := if hasSuffix [10] s then ls.dropLast else ls
  (blockHeader s, body.map fun l => List.replicate ind 32 ++ l)

/-- the block scalar header goccy writes -/
def Chomp.text : Chomp → Bytes
  | .strip => b "|-"
  | .clip => b "|"
  | .keep => b "|+"

/-- the document `Encode` returns for `{<key>: <multi-line literal s>}` with the block body
indented by `ind`: key line with the header, the printer's padded lines, a final line break —
all of it passed through `stripBlankLinePadding` as `Encode` does -/
def printedBlockDoc (key : Bytes) (ind : Nat) (s : Bytes) : Bytes :=
  let r := emitBlockRaw ind s
  stripBlankLinePadding (key ++ b ": " ++ r.1.text ++ [10] ++ joinLines r.2 ++ [10])

/-- the string arm of `quoteFlowUnsafe`: inside a flow collection a string handed to the
library (`Decision.lib`) that contains one of `,[]{}:` is single-quoted by the in-repo code -/
def flowUnsafe : Bytes := b ",[]{}:"
def quoteFlowUnsafe (s : Bytes) : Option Bytes :=
  if containsAny flowUnsafe s then some (singleQuoted s) else none

/-- YAML 1.2 §5.4: a reader normalises the line breaks CR LF and CR to LF -/
def normalizeBreaks : Bytes → Bytes
  | [] => []
  | 13 :: 10 :: t => 10 :: normalizeBreaks t
  | 13 :: t => 10 :: normalizeBreaks t
  | c :: t => c :: normalizeBreaks t

/-- an ASCII byte a YAML reader takes literally inside a block scalar: printable ASCII, TAB,
LF (YAML 1.2 §5.1 `c-printable` restricted to ASCII, minus CR which §5.4 normalises) -/
def cleanByte (c : Nat) : Bool := c == 9 || c == 10 || (decide (32 ≤ c) && decide (c < 127)) || decide (128 ≤ c)

end CueVerif.Yaml
