/-
C02 — model of the deterministic field ordering `toposort.Graph.Sort`
(internal/core/toposort/graph.go) and of Tarjan's algorithm as written in scc.go.
Core Lean only.

Transcribed Go functions
  indexComparison.compareNodeByName        → `cmpLabel`
  indexComparison.compareComponentsByNodes → `cmpComp`   (slices.CompareFunc)
  Graph.Sort                               → `sortWith`  (loop: `kahn`)
  Graph.StronglyConnectedComponents,
  sccFinderState.findSCC                   → `tarjan` / `findSCC` (fuelled; used by the driver)

What is a *presentation*.  `GraphBuilder.Build` fills `graph.nodes` from
`maps.Values(builder.nodesByFeature)`: Go map iteration, i.e. an ARBITRARY order that differs
between two runs of the same program.  `Node.Outgoing` is in AddEdge order.  A `Graph` here is
one such presentation: the node list in some order and, per node, the successor list in some
order.  The determinism claim is that `Sort` does not depend on the presentation.

Not reproduced: the order of `StronglyConnectedComponent.Outgoing/Incoming` (discovery order
in the code, `comps` order here).  These orders only decide the order in which newly ready
components are appended before `sccReady` is sorted again, so they are invisible whenever
the comparison distinguishes distinct components.  `slices.SortFunc` is a parameter with its
contract, as in Model/Sanitize.lean.

The `fixed` flag: `fixed = true` is `compareNodeByName` as it is in the code since commit
2c855f1: non-integer features are compared by `RawString` and, on a tie, by the feature type
(the regular field "#a" and the definition #a share a string table entry).  `fixed = false` is
the comparison before that commit (RawString only), kept for the historical witness.
-/
import CueVerif.Model.Sanitize
namespace CueVerif.Toposort
open CueVerif.Sanitize (Bytes cmpBytes cmpNat insertionSort)

/-- `adt.Feature` as the sort sees it: an integer label with its `Index()`, or any other
label type (`typ` = the FeatureType bits: string, definition, hidden, hidden definition,
let) with its `RawString`. In a real run `RawString` is injective on the index part, so
(typ, string) determines the feature. -/
inductive Label
  | int (i : Nat)
  | named (typ : Nat) (s : Bytes)
deriving DecidableEq, Repr, Inhabited

/-- `compareNodeByName` (`fixed = true`: the code; `fixed = false`: before 2c855f1) -/
def cmpLabel (fixed : Bool) : Label → Label → Ordering
  | .int a, .int b => cmpNat a b
  | .int _, .named _ _ => .lt
  | .named _ _, .int _ => .gt
  | .named t s, .named u r =>
    match cmpBytes s r with
    | .eq => if fixed then cmpNat t u else .eq
    | o => o

abbrev Comp := List Label

/-- `compareComponentsByNodes` = `slices.CompareFunc(a.Nodes, b.Nodes, compareNodeByName)` -/
def cmpComp (fixed : Bool) : Comp → Comp → Ordering
  | [], [] => .eq
  | [], _ :: _ => .lt
  | _ :: _, [] => .gt
  | a :: as, b :: bs =>
    match cmpLabel fixed a b with
    | .eq => cmpComp fixed as bs
    | o => o

/-- one presentation of a graph -/
structure Graph where
  nodes : List Label
  out : Label → List Label

/-- `slices.SortFunc`, any element type -/
structure SortFn where
  sort : {α : Type} → (α → α → Ordering) → List α → List α

def stableSort : SortFn := ⟨fun cmp l => insertionSort cmp l⟩

/-- is there an edge from a node of component `c` to a node of another component `d` -/
def cedge (g : Graph) (c d : Comp) : Bool :=
  c != d && c.any (fun u => (g.out u).any (fun v => d.contains v))

/-- `component.Outgoing` (as a set; see the header for the order) -/
def outgoing (g : Graph) (comps : List Comp) (c : Comp) : List Comp := comps.filter (cedge g c)

/-- `component.Incoming` -/
def incoming (g : Graph) (comps : List Comp) (d : Comp) : List Comp := comps.filter (fun c => cedge g c d)

inductive Res
  | ok (l : List Label)
  | panic          -- `sccReady[0]` on an empty slice: index out of range
  | fuel           -- the model's fuel ran out (never, by `C02_toposort_ok`)
deriving DecidableEq, Repr

structure St where
  ready : List Comp
  visited : List Comp
  sorted : List Label

/-- the main loop of `Graph.Sort` (`for sccVisitedCount != len(scc)`), components compared
by value (they are pairwise disjoint and non-empty, so value = pointer identity). -/
def kahn (fixed : Bool) (S : SortFn) (g : Graph) (comps : List Comp) : Nat → St → Res
  | fuel, st =>
    if st.visited.length = comps.length then .ok st.sorted
    else match fuel with
      | 0 => .fuel
      | fuel + 1 =>
        match st.ready with
        | [] => .panic
        | cur :: rest =>
          if st.visited.contains cur then kahn fixed S g comps fuel { st with ready := rest }
          else
            let visited := cur :: st.visited
            let newly := (outgoing g comps cur).filter
              (fun nx => (incoming g comps nx).all (fun rq => visited.contains rq))
            let ready := if newly.isEmpty then rest else S.sort (cmpComp fixed) (rest ++ newly)
            kahn fixed S g comps fuel { ready := ready, visited := visited, sorted := st.sorted ++ cur }

/-- `Graph.Sort` given the components `StronglyConnectedComponents()` returned: every
component's node list is sorted by name, those without incoming edges form the initial ready
list (sorted), then `kahn`. -/
def sortWith (fixed : Bool) (S : SortFn) (g : Graph) (comps : List Comp) : Res :=
  let cs := comps.map (fun c => S.sort (cmpLabel fixed) c)
  let ready0 := S.sort (cmpComp fixed) (cs.filter (fun c => (incoming g cs c).isEmpty))
  kahn fixed S g cs cs.length { ready := ready0, visited := [], sorted := [] }

/-! ### Tarjan's algorithm as written in scc.go (executable, fuelled) -/

structure TS where
  counter : Nat := 0
  stack : List Label := []            -- top first
  index : List (Label × Nat) := []
  low : List (Label × Nat) := []
  onStack : List Label := []
  comps : List Comp := []             -- in completion order (`scc.components`)

def look (m : List (Label × Nat)) (v : Label) : Option Nat := (m.find? (fun e => e.1 == v)).map (·.2)

def setLow (s : TS) (v : Label) (n : Nat) : TS := { s with low := (v, n) :: s.low }

/-- pop the stack down to and including `cur`: (popped in pop order, remaining stack) -/
def popUntil (cur : Label) : List Label → List Label × List Label
  | [] => ([], [])
  | x :: xs => if x = cur then ([x], xs) else
      let (p, r) := popUntil cur xs
      (x :: p, r)

mutual
/-- `findSCC(cur)`; `fuel` bounds the total number of calls (one per node entered plus one
per edge inspected) -/
def findSCC (g : Graph) : Nat → Label → TS → TS
  | 0, _, s => s
  | fuel + 1, cur, s =>
    let num := s.counter
    let s : TS := { counter := num + 1, index := (cur, num) :: s.index, low := (cur, num) :: s.low, stack := cur :: s.stack, onStack := cur :: s.onStack, comps := s.comps }
    let s := visitOut g fuel cur (g.out cur) s
    if (look s.low cur).getD num = num then
      let (popped, rest) := popUntil cur s.stack
      { s with stack := rest, onStack := s.onStack.filter (fun v => !popped.contains v),
               comps := s.comps ++ [popped] }
    else s
/-- `for _, next := range cur.Outgoing { … }` -/
def visitOut (g : Graph) : Nat → Label → List Label → TS → TS
  | 0, _, _, s => s
  | _, _, [], s => s
  | fuel + 1, cur, nx :: rest, s =>
    let s :=
      match look s.index nx with
      | none =>
        let s := findSCC g fuel nx s
        setLow s cur (min ((look s.low cur).getD 0) ((look s.low nx).getD 0))
      | some ix =>
        if s.onStack.contains nx then setLow s cur (min ((look s.low cur).getD 0) ix) else s
    visitOut g fuel cur rest s
end

/-- enough fuel for every call Tarjan's algorithm can make on `g` -/
def tarjanFuel (g : Graph) : Nat :=
  2 * (g.nodes.length + (g.nodes.map (fun v => (g.out v).length)).sum) + 2

/-- `StronglyConnectedComponents()`: components in REVERSE completion order -/
def tarjan (g : Graph) : List Comp :=
  let s := g.nodes.foldl (fun s v => if (look s.index v).isNone then findSCC g (tarjanFuel g) v s else s) ({} : TS)
  s.comps.reverse

/-- `Graph.Sort` end to end -/
def sortG (fixed : Bool) (S : SortFn) (g : Graph) : Res := sortWith fixed S g (tarjan g)

end CueVerif.Toposort
