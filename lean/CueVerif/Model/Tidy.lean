/-
Model of `cue mod tidy` (published view, no module replaces), transcribing

  internal/mod/modload/tidy.go      tidy, tidyOnce (incl. keepImpliedDefaults), resolveDependencies, resolveMissingImports,
                                    updateRoots (the branch tidy reaches: roots were added),
                                    tidyRoots, modfileFromRequirements, CheckTidy/equalRequirements
  internal/mod/modload/query.go     queryImport, queryLatestModules, LatestVersion
  internal/mod/modpkgload           LoadPackages / load (package graph, per-dependency default
                                    major versions), importFromModules + FindPackageLocations
                                    (roots first, then the module graph; ambiguity)
  internal/mod/modrequirements      NewRequirements / initDefaultMajorVersions / RootSelected /
                                    DefaultMajorVersion / DependencyDefaultMajorVersion /
                                    readModGraph (pruned graph main → roots → each root's own
                                    requirements) + mvs.Graph.Selected
  internal/mod/modimports           AllImports (sorted, de-duplicated import paths)

Abstractions.  A path is a list of element ids whose numeric order is the string order of the
element names (element 0 = a dot-less first element, i.e. a standard-library import).  A module
path is base@major; its versions are ranks ≥ 2 (rank order = semver order inside one major; odd
= stable, even = pre-release; 0 = "none").  A package is a directory holding CUE files: its
(full) path and the union of its files' imports; package-name qualifiers, build attributes,
`_tool`/`_test` files, cue.mod/{pkg,usr,gen} and parent-directory instance files are not
modelled (the generated universes do not contain them).  LoadPackages marks every root package
PkgInAll and propagates the flag to all imports, so every loaded package is "in all"; flags are
therefore not represented.  Concurrency (par.Queue) is abstracted: every package is loaded from
the same immutable `Requirements`, so the result is the breadth-first closure computed here.
Core Lean only.
-/
namespace CueVerif.Tidy

abbrev Path := List Nat

structure MPath where
  base : Path
  major : Nat
deriving DecidableEq, Repr

structure Imp where
  path : Path
  major : Option Nat
deriving DecidableEq, Repr

structure Pkg where
  path : Path
  imports : List Imp
deriving DecidableEq, Repr

structure Dep where
  mp : MPath
  rank : Nat
  dflt : Bool
deriving DecidableEq, Repr

structure Mod where
  mp : MPath
  rank : Nat
  deps : List Dep
  pkgs : List Pkg
deriving DecidableEq, Repr

/-- what tidy can ask a registry (modpkgload.FullRegistry): a module version's contents and
module file, and the versions of a base path (all majors, or one major) -/
structure Reg where
  find : MPath → Nat → Option Mod
  /-- LatestVersion of ModuleVersions(base[@major]) as (major, rank) -/
  latest : Path → Option Nat → Option (Nat × Nat)

structure Universe where
  main : Mod
  mods : List Mod

/-! ### ordering of spellings (slices.Sorted of canonical import paths / module.Sort) -/

def lexLt : List Nat → List Nat → Bool
  | [], [] => false
  | [], _ :: _ => true
  | _ :: _, [] => false
  | a :: as, b :: bs => if a < b then true else if b < a then false else lexLt as bs

/-- "t.test/a/x" < "t.test/a@v0" ('/' < '@'), a proper prefix first -/
def Imp.key (i : Imp) : List Nat :=
  i.path ++ (match i.major with | some m => [1000 + m] | none => [])

def MPath.key (m : MPath) : List Nat := m.base ++ [1000 + m.major]

def insertBy {α} (k : α → List Nat) (x : α) : List α → List α
  | [] => [x]
  | y :: ys =>
    if lexLt (k x) (k y) then x :: y :: ys
    else if lexLt (k y) (k x) then y :: insertBy k x ys
    else y :: ys

/-- sort by key, dropping later elements with an equal key -/
def sortDedup {α} (k : α → List Nat) (l : List α) : List α := l.foldl (fun acc x => insertBy k x acc) []

/-- IsStdlibPackage: the first path element has no dot -/
def isStd (p : Path) : Bool :=
  match p with
  | [] => true
  | e :: _ => e == 0

/-- the non-empty prefixes of a path, longest first (pathAncestors) -/
def prefixes (p : Path) : List Path :=
  (List.range p.length).map (fun i => p.take (p.length - i))

def Mod.hasPkg (m : Mod) (p : Path) : Bool := m.pkgs.any (fun q => q.path == p)

/-! ### modrequirements.Requirements -/

structure Reqs where
  roots : List (MPath × Nat)
  /-- the explicit default-major-version map (base path ↦ major) -/
  dflts : List (Path × Nat)

inductive DefSt
  | explicit (m : Nat)
  | nonexplicit (m : Nat)
  | none
  | ambiguous
deriving DecidableEq, Repr

def lookupD (d : List (Path × Nat)) (b : Path) : Option Nat :=
  (d.find? (fun e => e.1 == b)).map (·.2)

/-- initDefaultMajorVersions + DefaultMajorVersion: an explicit default wins; otherwise a base
path with exactly one root entry has that entry's major as its default; with several root
entries it is ambiguous -/
def Reqs.defaultMajor (rs : Reqs) (b : Path) : DefSt :=
  match lookupD rs.dflts b with
  | some m => .explicit m
  | none =>
    match rs.roots.filter (fun r => r.1.base == b) with
    | [] => .none
    | [r] => .nonexplicit r.1.major
    | _ => .ambiguous

def DefSt.major? : DefSt → Option Nat
  | .explicit m => some m
  | .nonexplicit m => some m
  | _ => Option.none

def maxRank (l : List Nat) : Nat := l.foldl max 0

/-- RootSelected: `some 0` stands for the main module (version ""), otherwise the highest root
version of the path -/
def Reqs.rootSel (mainMp : MPath) (rs : Reqs) (mp : MPath) : Option Nat :=
  if mp = mainMp then some 0 else
  match (rs.roots.filter (fun r => r.1 == mp)).map (·.2) with
  | [] => none
  | vs => some (maxRank vs)

/-- the nodes of the pruned module graph: the roots and each root's own requirements -/
def graphNodes (reg : Reg) (roots : List (MPath × Nat)) : List (MPath × Nat) :=
  roots ++ roots.flatMap (fun r =>
    match reg.find r.1 r.2 with
    | some m => m.deps.map (fun d => (d.mp, d.rank))
    | none => [])

/-- readModGraph + mvs.Graph.Selected: the maximum version of each path over the graph's nodes
(0 = "none"); an error when a root's module file cannot be read -/
def graphSel (reg : Reg) (roots : List (MPath × Nat)) : Option (MPath → Nat) :=
  if roots.all (fun r => (reg.find r.1 r.2).isSome) then
    some (fun mp => maxRank (((graphNodes reg roots).filter (fun n => n.1 == mp)).map (·.2)))
  else none

/-! ### importFromModules -/

inductive Prov
  | main
  | ext (mp : MPath) (rank : Nat)
deriving DecidableEq, Repr

inductive Err
  | ambiguous | fetch | graph | other
deriving DecidableEq, Repr

/-- FindPackageLocations over the given prefixes: the modules (at the version `sel` gives them)
that contain the package directory -/
def locate (main : Mod) (reg : Reg) (imp : Imp) (dflt : Path → Option Nat)
    (sel : MPath → Option Nat) : List Path → Except Err (List Prov)
  | [] => .ok []
  | pre :: rest =>
    let mj := match imp.major with
      | some m => some m
      | none => dflt pre
    match mj with
    | none => locate main reg imp dflt sel rest
    | some j =>
      let mp : MPath := ⟨pre, j⟩
      if mp = main.mp then
        match locate main reg imp dflt sel rest with
        | .error e => .error e
        | .ok r => .ok (if main.hasPkg imp.path then Prov.main :: r else r)
      else
        match sel mp with
        | none => locate main reg imp dflt sel rest
        | some v =>
          match reg.find mp v with
          | none => .error .fetch
          | some m =>
            match locate main reg imp dflt sel rest with
            | .error e => .error e
            | .ok r => .ok (if m.hasPkg imp.path then Prov.ext mp v :: r else r)

/-- importFromModules: the root requirements first; only when they do not provide the package,
the module graph.  `.ok none` is ImportMissingError. -/
def importFrom (main : Mod) (reg : Reg) (rs : Reqs) (imp : Imp) (dflt : Path → Option Nat) :
    Except Err (Option Prov) :=
  match locate main reg imp dflt (rs.rootSel main.mp) (prefixes imp.path) with
  | .error e => .error e
  | .ok (_ :: _ :: _) => .error .ambiguous
  | .ok [p] => .ok (some p)
  | .ok [] =>
    match graphSel reg rs.roots with
    | none => .error .graph
    | some g =>
      let sel := fun mp => if mp = main.mp then some 0 else if g mp = 0 then none else some (g mp)
      match locate main reg imp dflt sel (prefixes imp.path) with
      | .error e => .error e
      | .ok (_ :: _ :: _) => .error .ambiguous
      | .ok [p] => .ok (some p)
      | .ok [] => .ok none

/-- DependencyDefaultMajorVersion: the dependency's own module file decides (its own base path,
its explicit defaults, else the unique major among its requirements of that base path) -/
def depDefault (m : Mod) (pre : Path) : Option Nat :=
  if pre = m.mp.base then some m.mp.major else
  match m.deps.find? (fun d => d.dflt && d.mp.base == pre) with
  | some d => some d.mp.major
  | none =>
    match (m.deps.filter (fun d => d.mp.base == pre)).map (fun d => d.mp.major) with
    | [] => none
    | j :: rest => if rest.all (· == j) then some j else none

/-! ### LoadPackages -/

inductive PkgRes
  | std
  /-- the package could not be loaded: `missing` = ImportMissingError -/
  | err (missing : Bool)
  /-- loaded from `prov`; `imports` after per-dependency major-version resolution; `bad` = an
  error other than "missing" occurred while resolving one of them (pkg.err is set) -/
  | ok (prov : Prov) (imports : List Imp) (bad : Bool)
deriving DecidableEq, Repr

def PkgRes.isErr : PkgRes → Bool
  | .err _ => true
  | .ok _ _ b => b
  | .std => false

def PkgRes.imports : PkgRes → List Imp
  | .ok _ is _ => is
  | _ => []

def pkgImports (m : Mod) (p : Path) : List Imp :=
  (m.pkgs.filter (fun q => q.path == p)).flatMap (·.imports)

/-- Packages.load for one canonical import path -/
def loadOne (main : Mod) (reg : Reg) (rs : Reqs) (key : Imp) : PkgRes :=
  if isStd key.path then .std else
  match importFrom main reg rs key (fun pre => (rs.defaultMajor pre).major?) with
  | .error _ => .err false
  | .ok none => .err true
  | .ok (some .main) => .ok .main (sortDedup Imp.key (pkgImports main key.path)) false
  | .ok (some (.ext mp v)) =>
    match reg.find mp v with
    | none => .err false
    | some m =>
      let imps := sortDedup Imp.key (pkgImports m key.path)
      let res := imps.map (fun i =>
        match i.major with
        | some _ => (i, false)
        | none =>
          match importFrom main reg rs i (depDefault m) with
          | .error _ => (i, true)
          | .ok none => (i, false)
          | .ok (some .main) => (i, false)
          | .ok (some (.ext mp' _)) => ({ i with major := some mp'.major }, false))
      .ok (.ext mp v) (res.map (·.1)) (res.any (·.2))

/-- the packages in `Packages.All()` order (breadth first from the roots); `none` = out of fuel -/
def loadAll (main : Mod) (reg : Reg) (rs : Reqs) :
    Nat → List Imp → List (Imp × PkgRes) → Option (List (Imp × PkgRes))
  | 0, [], done => some done
  | 0, _ :: _, _ => none
  | _ + 1, [], done => some done
  | f + 1, k :: q, done =>
    if done.any (fun d => d.1 == k) then loadAll main reg rs f q done
    else
      let r := loadOne main reg rs k
      loadAll main reg rs f (q ++ r.imports) (done ++ [(k, r)])

/-- modimports.AllImports over all files of the main module -/
def rootKeys (main : Mod) : List Imp := sortDedup Imp.key (main.pkgs.flatMap (·.imports))

/-! ### resolveMissingImports / queryImport -/

def verLt (a b : Nat × Nat) : Bool := a.1 < b.1 || (a.1 == b.1 && a.2 < b.2)

def maxVer (l : List (Nat × Nat)) : Option (Nat × Nat) :=
  l.foldl (fun acc v => match acc with
    | none => some v
    | some a => if verLt a v then some v else some a) none

/-- LatestVersion: the highest stable version if there is one, else the highest -/
def latest (vs : List (Nat × Nat)) : Option (Nat × Nat) :=
  match maxVer (vs.filter (fun v => v.2 % 2 == 1)) with
  | some s => some s
  | none => maxVer vs

/-! ### reading the inputs: directories and module files are read into sets and sorted
(`importsMap` + `slices.Sorted(maps.Keys(..))` in Packages.load, modimports.AllImports,
File.init's `slices.SortFunc(versions)`, the registry's tag listing sorted by semver) -/

/-- the packages of a module as the loader sees them: one entry per directory, its imports the
sorted set of all imports of its files -/
def normPkgs (m : Mod) : List Pkg :=
  (sortDedup id (m.pkgs.map (·.path))).map (fun p => ⟨p, sortDedup Imp.key (pkgImports m p)⟩)

def normMod (m : Mod) : Mod :=
  { m with pkgs := normPkgs m, deps := sortDedup (fun d => d.mp.key) m.deps }

/-- the registry a list of published modules induces -/
def regOf (mods : List Mod) : Reg where
  find := fun mp r => (mods.find? (fun m => m.mp == mp && m.rank == r)).map normMod
  latest := fun b mj =>
    latest ((mods.filter (fun m => m.mp.base == b && (match mj with | some j => m.mp.major == j | none => true))).map
      (fun m => (m.mp.major, m.rank)))

/-- queryLatestModules: for every prefix of the import path, the latest version of the module
of that name (at the major the import names, or the default, or over all majors), unless that
module path is already a root -/
def queryImport (main : Mod) (reg : Reg) (rs : Reqs) (imp : Imp) : List (MPath × Nat) :=
  if isStd imp.path then [] else
  (prefixes imp.path).filterMap (fun pre =>
    let mv : Option (Option Nat) :=
      match imp.major with
      | some m => some (some m)
      | none =>
        match rs.defaultMajor pre with
        | .ambiguous => none
        | .explicit m => some (some m)
        | .nonexplicit m => some (some m)
        | .none => some none
    match mv with
    | none => none
    | some (some m) =>
      if (rs.rootSel main.mp ⟨pre, m⟩).isSome then none
      else (reg.latest pre (some m)).map (fun v => (⟨pre, v.1⟩, v.2))
    | some none => (reg.latest pre none).map (fun v => (⟨pre, v.1⟩, v.2)))

def setDflt (d : List (Path × Nat)) (b : Path) (m : Nat) : List (Path × Nat) :=
  if d.any (fun e => e.1 == b) then d.map (fun e => if e.1 == b then (b, m) else e) else d ++ [(b, m)]

def addNew (acc : List (MPath × Nat)) (c : MPath × Nat) : List (MPath × Nat) :=
  if acc.contains c then acc else acc ++ [c]

/-- the modules to add and the new default-major-version map -/
def resolveMissing (main : Mod) (reg : Reg) (rs : Reqs) (pkgs : List (Imp × PkgRes)) :
    List (MPath × Nat) × List (Path × Nat) :=
  pkgs.foldl (fun acc p =>
    match p.2 with
    | .err true =>
      let cands := queryImport main reg rs p.1
      (cands.foldl addNew acc.1,
       if p.1.major.isNone then cands.foldl (fun d c => setDflt d c.1.base c.1.major) acc.2 else acc.2)
    | _ => acc) ([], rs.dflts)

/-! ### updateRoots -/

/-- one entry per module path (the main module's path dropped), at the selected version -/
def dedupPaths (mainMp : MPath) (g : MPath → Nat) (roots : List (MPath × Nat)) : List (MPath × Nat) :=
  roots.foldl (fun acc r =>
    if r.1 = mainMp || acc.any (fun a => a.1 == r.1) then acc else acc ++ [(r.1, g r.1)]) []

/-- the loop "each root appears only once, at the selected version of its path" -/
def updateLoop (main : Mod) (reg : Reg) : Nat → List (MPath × Nat) → Except Err (List (MPath × Nat))
  | 0, _ => .error .other
  | f + 1, roots =>
    match graphSel reg roots with
    | none => .error .graph
    | some g =>
      let roots' := dedupPaths main.mp g roots
      if roots.any (fun r => r.1 ≠ main.mp && g r.1 != r.2) then updateLoop main reg f roots'
      else .ok roots'

def sameRoots (a b : List (MPath × Nat)) : Bool :=
  a.all (fun x => b.contains x) && b.all (fun x => a.contains x)

/-! ### resolveDependencies, tidyRoots, tidy, CheckTidy -/

def resolveLoop (main : Mod) (reg : Reg) (lf : Nat) :
    Nat → Reqs → Except Err (Reqs × List (Imp × PkgRes))
  | 0, _ => .error .other
  | f + 1, rs =>
    match loadAll main reg rs lf (rootKeys main) [] with
    | none => .error .other
    | some pkgs =>
      let (adds, dflts') := resolveMissing main reg rs pkgs
      let rs1 : Reqs := { rs with dflts := dflts' }
      if adds.isEmpty then .ok (rs1, pkgs)
      else
        let extra := pkgs.filterMap (fun p =>
          match p.2 with
          | .ok (.ext mp v) _ _ => if (rs1.rootSel main.mp mp).isNone then some (mp, v) else none
          | _ => none)
        match updateLoop main reg lf (rs1.roots ++ extra ++ adds) with
        | .error e => .error e
        | .ok roots =>
          if sameRoots roots rs1.roots then .error .other   -- the "had no effect" panic
          else resolveLoop main reg lf f { roots := roots, dflts := dflts' }

/-- tidyRoots: the module of every loaded package, the first version seen per path -/
def tidyRoots (pkgs : List (Imp × PkgRes)) : List (MPath × Nat) :=
  pkgs.foldl (fun acc p =>
    match p.2 with
    | .ok (.ext mp v) _ _ => if acc.any (fun a => a.1 == mp) then acc else acc ++ [(mp, v)]
    | _ => acc) []

/-- File.init's defaults: the main module's own base path, and the deps marked default -/
def fileDflts (main : Mod) : List (Path × Nat) :=
  (main.mp.base, main.mp.major) :: (main.deps.filter (·.dflt)).map (fun d => (d.mp.base, d.mp.major))

def nodupKeys {α} [DecidableEq α] : List α → Bool
  | [] => true
  | x :: xs => !xs.contains x && nodupKeys xs

/-- what ParseNonStrict / NewRequirements accept: one entry per module path, none for the main
module itself, at most one default per base path and none for the main module's base path -/
def wfMain (main : Mod) : Bool :=
  nodupKeys (main.deps.map (·.mp)) && !(main.deps.any (fun d => d.mp == main.mp)) &&
  nodupKeys (fileDflts main |>.map (·.1))

def initReqs (main : Mod) : Reqs :=
  { roots := main.deps.map (fun d => (d.mp, d.rank)), dflts := fileDflts main }

/-- modfileFromRequirements -/
def depsOf (roots : List (MPath × Nat)) (dflts : List (Path × Nat)) : List Dep :=
  sortDedup (fun d => d.mp.key) (roots.map (fun r => { mp := r.1, rank := r.2, dflt := lookupD dflts r.1.base == some r.1.major }))

/-- keepImpliedDefaults (tidyOnce, after tidyRoots): every base path for which an import without
a major version was resolved through the implied default "the only major among the roots"
(`.nonexplicit`) and which has several majors among the tidy roots gets that major as an
explicit default.  (Repair 8593d77 of the former finding `two-majors-no-default`.) -/
def keepImpliedDefaults (rs : Reqs) (pkgs : List (Imp × PkgRes)) : List (Path × Nat) :=
  let troots := tidyRoots pkgs
  pkgs.foldl (fun d p =>
    match p.1.major, p.2 with
    | none, .ok (.ext mp _) _ _ =>
      match rs.defaultMajor mp.base with
      | .nonexplicit m =>
        if (Reqs.defaultMajor { roots := troots, dflts := d } mp.base) = .ambiguous then setDflt d mp.base m
        else d
      | _ => d
    | _, _ => d) rs.dflts

def tidy (main0 : Mod) (reg : Reg) (fuel : Nat) : Except Err (List Dep) :=
  if !wfMain main0 then .error .other else
  let main := normMod main0
  match resolveLoop main reg fuel fuel (initReqs main) with
  | .error e => .error e
  | .ok (rs, pkgs) =>
    if pkgs.any (fun p => p.2.isErr) then .error .other
    else
      let roots := tidyRoots pkgs
      match graphSel reg roots with
      | none => .error .graph
      | some _ => .ok (depsOf roots (keepImpliedDefaults rs pkgs))

inductive Verdict
  | ok | nottidy | error
deriving DecidableEq, Repr

/-- CheckTidy: load with the file's requirements, add nothing, compare -/
def checkTidy (main0 : Mod) (reg : Reg) (fuel : Nat) : Verdict :=
  if !wfMain main0 then .error else
  let main := normMod main0
  match loadAll main reg (initReqs main) fuel (rootKeys main) [] with
  | none => .error
  | some pkgs =>
    match pkgs.find? (fun p => p.2.isErr) with
    | some (_, .err true) => .nottidy
    | some _ => .error
    | none =>
      let roots := tidyRoots pkgs
      match graphSel reg roots with
      | none => .error
      | some _ => if sameRoots roots (initReqs main).roots then .ok else .nottidy

end CueVerif.Tidy
