/-
C03 — specification, written from the property text, independent of the evaluator's data
structures: WHICH ATOMS SATISFY A CONSTRAINT.

  * an atom satisfies an atom when it is the same kind and the same value (numbers by exact
    decimal value, so `1.0` and `1.00` are the same float, while the int `1` and the float
    `1.0` are different kinds);
  * an atom satisfies a basic type when its kind is one of the type's kinds;
  * an atom satisfies a bound `op v` when (i) it is of the kind of the operand — any number
    for a numeric operand; for `!=null` every non-null value — and (ii) the comparison
    `atom op v` holds: `<,<=,>,>=` on numbers (exact value), strings and bytes (bytewise
    lexicographic), `!=` as "not the same value", `=~`/`!~` by the regular-expression oracle
    `re pattern subject` on strings.  An ordering bound with a `null`/`bool` operand is an
    error in CUE: nothing satisfies it;
  * a predeclared range is the conjunction CUE documents for it (`int8` = `int & >=-128 &
    <=127`, `float32` = `>=-3.4…e38 & <=3.4…e38` on any number, `uint` = `int & >=0`).

`Sat re cs a` = the atom satisfies every conjunct: the denotation of `c₁ & … & cₙ` is the
intersection of the denotations.
-/
import CueVerif.Model.Scalar
namespace CueVerif.Scalar
open CueVerif

def Atom.isNum : Atom → Bool
  | .int _ | .float _ => true
  | _ => false

def Atom.isNull : Atom → Bool
  | .null => true
  | _ => false

def Atom.sameKind (a b : Atom) : Bool := a.kindBit == b.kindBit

/-- (i) the kind restriction a bound carries -/
def boundAdmits (b : Bound) (a : Atom) : Bool :=
  match b.val with
  | .int _ | .float _ => a.isNum
  | .null => if b.op == .ne then !a.isNull else a.isNull
  | v => a.sameKind v

/-- (ii) the comparison itself -/
def boundHolds (re : Bytes → Bytes → Bool) (b : Bound) (a : Atom) : Bool :=
  match b.op with
  | .ne => !(a.eqv b.val)
  | .mat => match a, b.val with
    | .str s, .str p => re p s
    | _, _ => false
  | .nmat => match a, b.val with
    | .str s, .str p => !(re p s)
    | _, _ => false
  | op => match ordCmp a b.val with
    | some o => opHolds op o
    | none => false

def satBound (re : Bytes → Bytes → Bool) (a : Atom) (b : Bound) : Bool :=
  boundAdmits b a && boundHolds re b a

def satRange (a : Atom) (r : Range) : Bool :=
  match r.intSpec with
  | some (lo, hi) =>
    match a with
    | .int z => decide (lo ≤ z) && (match hi with | some h => decide (z ≤ h) | none => true)
    | _ => false
  | none =>
    match a.num? with
    | some d => (Dec.cmp r.floatMax.neg d).isLE && (Dec.cmp d r.floatMax).isLE
    | none => false

/-- the atom `a` satisfies the constraint -/
def sat (re : Bytes → Bytes → Bool) (a : Atom) : Constraint → Bool
  | .atom b => a.sameKind b && a.eqv b
  | .type t => t.kind.has a
  | .bound b => satBound re a b
  | .range r => satRange a r

def Sat (re : Bytes → Bytes → Bool) (cs : List Constraint) (a : Atom) : Prop :=
  ∀ c ∈ cs, sat re a c = true

def satAll (re : Bytes → Bytes → Bool) (cs : List Constraint) (a : Atom) : Bool :=
  cs.all (sat re a)

/-- "the same atom": same kind, same value -/
def Atom.same (a b : Atom) : Bool := a.sameKind b && a.eqv b

/-- `r` is a successful unification with the atom `a` ("and the result is then that atom") -/
def accepts (r : Result) (a : Atom) : Prop :=
  ∃ b, r = .atom b ∧ b.same a = true

end CueVerif.Scalar
