/-
Reference semantics of a TOML document (property C12), written from the TOML 1.0.0
specification (https://toml.io/en/v1.0.0, sections "Keys", "Table", "Inline Table", "Array of
Tables"), independent of encoding/toml/decode.go.

A document is the stream of root expressions (`Toml.Ev`).  Its meaning is a set of facts
about the data (`Toml.Fact`), or an error when the specification calls the document invalid.

The state is a STORE: which paths of the data (labels and array indices) are defined, and how:

  value     by `key = value` (scalars, static arrays, inline tables and everything inside
            them): fully defined, nothing may be added ("inline tables are fully
            self-contained", "cannot append to a statically defined array")
  header    a table defined by a `[header]`  ("you cannot define a table more than once")
  implicit  a super-table created on the way to a `[header]` / `[[header]]`; it may still be
            defined by its own `[header]` later
  dotted    a table created by a dotted key; it may be extended by further dotted keys of the
            same table, never by a `[header]`
  aot n     an array of tables with n elements (`[[header]]`); headers that pass through it
            refer to its LAST element

Rules (each with the sentence of the specification it renders):

  walk      "the tables leading up to the last key part are created if absent"; passing
            through a value is an error; passing through an array of tables enters its last
            element ("any reference to an array of tables points to the most recently
            defined table element").
  [k]       the last part must be absent or implicit ("defining a table more than once is
            invalid", "[fruit.apple] # INVALID" after dotted keys defined it, "[fruits.varieties]
            # INVALID" for an array).
  [[k]]     the last part must be absent (new array) or an array of tables (append);
            a table, a value or a static array is an error.
  k = v     in the current table: prefix parts must be absent (→ dotted) or dotted; the last
            part must be absent ("defining a key multiple times is invalid", "as long as a key
            hasn't been directly defined you may still write to it and to names within it").
            The same rule applies, locally, to the fields of an inline table.

Core Lean only.
-/
import CueVerif.Model.Toml
namespace CueVerif.Toml.Spec
open CueVerif.Toml

inductive Kind where
  | value
  | header
  | implicit
  | dotted
  | aot (n : Nat)
deriving DecidableEq, Repr, Inhabited

abbrev Store := List (Path × Kind)

/-- latest definition of a path -/
def kindAt (σ : Store) (p : Path) : Option Kind :=
  match σ.find? (fun e => e.1 == p) with
  | some e => some e.2
  | none => none

/-- (re)define a path -/
def define (σ : Store) (p : Path) (k : Kind) : Store := (p, k) :: σ

inductive SpecErr where
  | redefined        -- a key / table defined twice, or a table re-opened
  | notATable        -- a path passes through a value or static array
  | arrayMismatch    -- `[[k]]` on something that is not an array of tables, or `[k]` on one
deriving DecidableEq, Repr, Inhabited

structure SSt where
  store : Store
  cur : Path             -- the table the following key-values go to
  facts : List Fact
deriving Repr, Inhabited

/-- the root of a document is a table -/
def SSt.init : SSt := { store := [], cur := [], facts := [([], .tbl)] }

/-- walk the leading parts of a header key from the root -/
def walkHeader (σ : Store) : Path → List Name → Except SpecErr (Store × Path)
  | cur, [] => .ok (σ, cur)
  | cur, k :: ks =>
    let p := cur ++ [.key k]
    match kindAt σ p with
    | none => walkHeader (define σ p .implicit) p ks
    | some .value => .error .notATable
    | some (.aot n) => walkHeader σ (p ++ [.idx (n - 1)]) ks
    | some _ => walkHeader σ p ks

/-- walk the leading parts of a dotted key inside table `cur` -/
def walkDotted (σ : Store) : Path → List Name → Except SpecErr (Store × Path)
  | cur, [] => .ok (σ, cur)
  | cur, k :: ks =>
    let p := cur ++ [.key k]
    match kindAt σ p with
    | none => walkDotted (define σ p .dotted) p ks
    | some .dotted => walkDotted σ p ks
    | some .value => .error .notATable
    | some _ => .error .redefined

mutual
/-- define a value at the (so far undefined) path `p`, checking the inside of inline tables -/
def defineVal (p : Path) : Val → Store → Except SpecErr Store
  | .sc _, σ => .ok (define σ p .value)
  | .arr xs, σ => defineElems p 0 xs (define σ p .value)
  | .inl kvs, σ => defineFields p kvs (define σ p .value)
def defineElems (p : Path) (i : Nat) : List Val → Store → Except SpecErr Store
  | [], σ => .ok σ
  | x :: xs, σ =>
    match defineVal (p ++ [.idx i]) x σ with
    | .error e => .error e
    | .ok σ => defineElems p (i + 1) xs σ
/-- the fields `k1.k2… = v` of the table at `p` (an inline table, or one root key-value) -/
def defineFields (p : Path) : List (List Name × Val) → Store → Except SpecErr Store
  | [], σ => .ok σ
  | kv :: rest, σ =>
    match kv.1.getLast?, walkDotted σ p kv.1.dropLast with
    | none, _ => .error .redefined            -- the parser never produces an empty key
    | _, .error e => .error e
    | some k, .ok (σ, q) =>
      let leaf := q ++ [.key k]
      match kindAt σ leaf with
      | some _ => .error .redefined
      | none =>
        match defineVal leaf kv.2 σ with
        | .error e => .error e
        | .ok σ => defineFields p rest σ
end

def sstep (s : SSt) : Ev → Except SpecErr SSt
  | .kv ks v =>
    match defineFields s.cur [(ks, v)] s.store with
    | .error e => .error e
    | .ok σ => .ok { s with store := σ, facts := s.facts ++ v.facts (s.cur ++ keyPath ks) }
  | .table ks =>
    match ks.getLast?, walkHeader s.store [] ks.dropLast with
    | none, _ => .error .redefined
    | _, .error e => .error e
    | some k, .ok (σ, q) =>
      let p := q ++ [.key k]
      match kindAt σ p with
      | none | some .implicit =>
        .ok { store := define σ p .header, cur := p, facts := s.facts ++ [(p, .tbl)] }
      | some (.aot _) => .error .arrayMismatch
      | some _ => .error .redefined
  | .arrayTable ks =>
    match ks.getLast?, walkHeader s.store [] ks.dropLast with
    | none, _ => .error .redefined
    | _, .error e => .error e
    | some k, .ok (σ, q) =>
      let p := q ++ [.key k]
      match kindAt σ p with
      | none =>
        .ok { store := define σ p (.aot 1), cur := p ++ [.idx 0],
              facts := s.facts ++ [(p, .arr), (p ++ [.idx 0], .tbl)] }
      | some (.aot n) =>
        .ok { store := define σ p (.aot (n + 1)), cur := p ++ [.idx n],
              facts := s.facts ++ [(p ++ [.idx n], .tbl)] }
      | some _ => .error .arrayMismatch

def srun (s : SSt) : List Ev → Except SpecErr SSt
  | [] => .ok s
  | e :: es =>
    match sstep s e with
    | .error err => .error err
    | .ok s => srun s es

/-- the meaning of a document: its facts, or why the specification rejects it -/
def tomlSpec (evs : List Ev) : Except SpecErr (List Fact) :=
  match srun SSt.init evs with
  | .error e => .error e
  | .ok s => .ok s.facts

/-- two fact lists describe the same data: same closed fact SETS -/
def SameData (a b : List Fact) : Prop := ∀ f, f ∈ closure a ↔ f ∈ closure b

/-- executable form of `SameData` (used by the driver) -/
def sameDataB (a b : List Fact) : Bool :=
  (closure a).all (fun f => (closure b).contains f) && (closure b).all (fun f => (closure a).contains f)

/-- a closed fact set that no data tree has: a path that is two different things, or two
different scalars (what CUE reports as conflicting values) -/
def conflictB (fs : List Fact) : Bool :=
  let c := closure fs
  c.any (fun f => c.any (fun g => f.1 == g.1 && f.2 != g.2))

/-! ### data trees the property quantifies over -/

mutual
/-- "TOML-safe" (what the encoder can write and what the round trip is promised for): field
names of every table are pairwise distinct.  (No null exists in `Tree`; atoms are arbitrary.) -/
def SafeTree : Tree → Prop
  | .sc _ => True
  | .tbl fs => (fs.map (·.1)).Nodup ∧ SafeFields fs
  | .arr xs => SafeElems xs
def SafeFields : List (Name × Tree) → Prop
  | [] => True
  | f :: rest => SafeTree f.2 ∧ SafeFields rest
def SafeElems : List Tree → Prop
  | [] => True
  | x :: xs => SafeTree x ∧ SafeElems xs
end

end CueVerif.Toml.Spec
