/-
Specification side of the remaining mvs.go operations: what "the build list of (g, roots)"
means, independent of any traversal, so that statements about Req / Upgrade / Downgrade can
be made about build lists of *modified* graphs.
-/
import CueVerif.Model.MvsOps
namespace CueVerif.Mvs

/-- `sel` is the MVS selection for the graph `g` and the roots: for every path the maximum of
the versions of that path reachable from the roots — an upper bound that is attained, or
0 ("none") when it is 0.  By `C14_minimal_sufficient` every complete run of the traversal
ends with such a `sel`; by `isSel_unique` there is only one. -/
def IsSel (g : Graph) (roots : List Node) (sel : Nat → Nat) : Prop :=
  ∀ p, (∀ v, Reach g roots (p, v) → v ≤ sel p) ∧ (sel p = 0 ∨ Reach g roots (p, sel p))

/-- the graph in which the main module's requirement list is replaced -/
abbrev withReqs (g : Graph) (main : Node) (reqs : List Node) : Graph := override g main reqs

/-- the build list as a list of nodes: exactly the selected version of every path that has one -/
def IsBuildList (sel : Nat → Nat) (list : List Node) : Prop :=
  ∀ n, n ∈ list ↔ (n.2 ≠ 0 ∧ n.2 = sel n.1)

end CueVerif.Mvs
