/-
Specification side of C15, written from the property text ("extraction either fails or
writes only regular files beneath the target directory, never more bytes than declared";
"no two paths equal under case folding"; "creating and extracting reproduces exactly those
files"), independent of how the Go code checks it.  Core Lean only.
-/
import CueVerif.Model.Modzip
namespace CueVerif.Modzip

/-- `q` lies strictly beneath `dir` (paths are lists of elements from the root) -/
def StrictUnder (dir q : Path) : Prop := ∃ r, r ≠ [] ∧ q = dir ++ r

/-- `q` is `dir` or one of its ancestors -/
def AtOrAbove (dir q : Path) : Prop := ∃ r, dir = q ++ r

/-- A relative slash-separated name that can never leave the directory it is joined to, on
any of the supported platforms: it is a non-empty list of elements joined by '/', no element
is empty, "." or "..", and no byte is a backslash, a colon (drive letters, alternate data
streams) or NUL. -/
def SafeName (p : Str) : Prop :=
  ∃ es : List Str, es ≠ [] ∧ p = joinSlash es ∧
    (∀ e ∈ es, e ≠ [] ∧ e ≠ sDot ∧ e ≠ sDotDot ∧ 47 ∉ e) ∧
    (∀ b ∈ p, b ≠ 92 ∧ b ≠ 58 ∧ b ≠ 0)

/-- What an extraction into `dir` may do to a file system `fs`, giving `fs'`:
every path keeps what it had, except that paths which did not exist may come into being —
strictly beneath `dir` (files or directories), or as a *directory* at `dir` or above it
(MkdirAll of the target).  In particular nothing that existed is replaced or removed and
no regular file appears anywhere but strictly beneath `dir`. -/
def Confined (dir : Path) (fs fs' : FS) : Prop :=
  ∀ q, fs'.get q = fs.get q ∨
    (fs.get q = none ∧ (StrictUnder dir q ∨ (AtOrAbove dir q ∧ fs'.get q = some .dir)))

/-- `d` is a proper ancestor directory of the slash-separated name `b` -/
def IsAncestor (d b : Str) : Prop := d ≠ [] ∧ ∃ r, r ≠ [] ∧ b = d ++ 47 :: r

/-- no two names are equal under case folding, and no name is (up to case folding) a
directory that another name lies in -/
def CollisionFree (U : Uni) (names : List Str) : Prop :=
  names.Pairwise (fun a b => foldKey U a ≠ foldKey U b) ∧
  ∀ a ∈ names, ∀ b ∈ names, ∀ d, IsAncestor d b → foldKey U d ≠ foldKey U a

/-- entry name denotes a directory in a zip -/
def isDirName (name : Str) : Bool := name.getLast? == some 47

/-- sum of the declared sizes of the file (non-directory) entries -/
def declaredTotal : List ZEnt → Nat
  | [] => 0
  | e :: es => (if isDirName e.name then 0 else e.declared) + declaredTotal es

/-- the regular files of `fs` strictly beneath `dir`, as (relative elements, content) -/
def FileAt (fs : FS) (dir : Path) (rel : List Str) (c : List Nat) : Prop :=
  rel ≠ [] ∧ fs.get (dir ++ rel) = some (.file c)

/-- an entry whose reader behaves as the zip format promises for an intact archive: a 64-bit
header value, Open succeeds, the stream delivers exactly `declared` bytes and then EOF, and
the OS accepts the writes -/
def Honest (e : ZEnt) : Prop :=
  e.declared < 2 ^ 64 ∧ e.openErr = false ∧ e.streamErr = false ∧ e.wfail = none ∧
  e.data.length = e.declared

/-- the target of an extraction is fresh: nothing exists strictly beneath it, and neither it
nor any of its ancestors is a regular file (so MkdirAll can succeed) -/
def FreshTarget (fs : FS) (dir : Path) : Prop :=
  (∀ q n, fs.get q = some n → ¬ StrictUnder dir q) ∧
  (∀ q c, AtOrAbove dir q → fs.get q ≠ some (.file c))

/-- number of bytes of the regular file at `q` (0 when `q` is absent or a directory) -/
def FS.fileLen (fs : FS) (q : Path) : Nat :=
  match fs.get q with
  | some (.file c) => c.length
  | _ => 0

/-- total number of bytes held by the regular files at the (distinct) paths `qs` -/
def FS.bytesAt (fs : FS) (qs : List Path) : Nat := (qs.map fs.fileLen).sum

/-- the inverse of module.escapeString, written from the description of the encoding ("!x" for
an upper-case X, everything else literally): there is no such function in cue-lang/cue; it is
the specification the escaping is proved against -/
def unescapeString : Str → Option Str
  | [] => some []
  | c :: rest =>
    if c = 33 then
      match rest with
      | d :: rest' =>
        if 97 ≤ d ∧ d ≤ 122 then (unescapeString rest').map (fun t => (d - 32) :: t) else none
      | [] => none
    else if 65 ≤ c ∧ c ≤ 90 then none
    else (unescapeString rest).map (fun t => c :: t)

/-- the bytes Windows (and POSIX shells) give a meaning to, which the code forbids in file names
on every OS: control characters, `" * / : < > ? \ |`, and `' ; ` DEL` -/
def winForbidden (b : Nat) : Bool :=
  decide (b < 32) || b == 34 || b == 39 || b == 42 || b == 47 || b == 58 || b == 59 || b == 60 ||
  b == 62 || b == 63 || b == 92 || b == 96 || b == 124 || b == 127

/-- the part of an element before its first dot (what Windows matches against device names) -/
def shortName (e : Str) : Str := e.takeWhile (· != 46)

/-- What the code's Windows rules guarantee for one path element on every OS: not empty, not
made of dots only (`.`, `..`, `...`), no trailing dot (Windows strips it), no forbidden byte
(so no separator of any kind, no drive letter or alternate data stream), and the part before the
first dot is not a reserved device name in any case (CON, PRN, AUX, NUL, COM1-9, LPT1-9).
NOT guaranteed (the code allows them): trailing or leading spaces. -/
def WinSafeElem (U : Uni) (e : Str) : Prop :=
  e ≠ [] ∧ ¬ (∀ b ∈ e, b = 46) ∧ e.getLast? ≠ some 46 ∧ (∀ b ∈ e, winForbidden b = false) ∧
  ∀ bad ∈ badWindowsNames, equalFold U bad (shortName e) = false

end CueVerif.Modzip
