/-
C02 — specification layer for `errors.Sanitize`: what "sorted, de-duplicated, independent of
the order in which the errors were collected" means, written from the property text and from
the documented contract of `slices.SortFunc`, independent of the transcription.
-/
import CueVerif.Model.Sanitize
namespace CueVerif.Sanitize

/-- a three-way comparison that is a total preorder (what `slices.SortFunc` requires:
"a strict weak ordering") -/
structure TotalPreorder {α : Type} (cmp : α → α → Ordering) : Prop where
  refl : ∀ a, cmp a a = .eq
  swap : ∀ a b, cmp b a = (cmp a b).swap
  trans : ∀ a b c, cmp a b ≠ .gt → cmp b c ≠ .gt → cmp a c ≠ .gt

/-- sorted: no element is followed (anywhere later) by a strictly smaller one -/
def SortedBy {α : Type} (cmp : α → α → Ordering) (l : List α) : Prop :=
  l.Pairwise (fun a b => cmp a b ≠ .gt)

/-- the documented contract of `slices.SortFunc` at the element type of Sanitize: the result
is a permutation of the input and, when `cmp` is a total preorder, sorted.  Nothing is
promised about the relative order of elements that compare equal (the sort is unstable). -/
structure SortContract (sort : (Err → Err → Ordering) → List Err → List Err) : Prop where
  perm : ∀ cmp l, (sort cmp l).Perm l
  sorted : ∀ cmp l, TotalPreorder cmp → SortedBy cmp (sort cmp l)

/-- what the printer shows of an error is ALL of it (`aux` = input positions, wrapped chain) -/
def printed (e : Err) : Err := e

/-- H1 — positions are canonical: two positions of the list that `Pos.Compare` cannot tell
apart are `==`.  (Fails for two `*token.File`s with one name, and for one offset carrying
different RelPos/comma/scanned bits.) -/
def PosCanon (es : List Err) : Prop :=
  ∀ x ∈ es, ∀ y ∈ es, cmpPosNoPosFirst x.pos y.pos = .eq → x.pos = y.pos

/-- H2 — position, path and rendered message determine the error: two errors of the list
that Sanitize treats as duplicates print identically. -/
def MsgDet (es : List Err) : Prop :=
  ∀ x ∈ es, ∀ y ∈ es, x.pos = y.pos → x.path = y.path → x.msg = y.msg → x = y

/-- the duplicate key named by the doc comment of removeMultiples: "errors that share a
position, path, and message" -/
def sameKey (x y : Err) : Prop := x.pos = y.pos ∧ x.path = y.path ∧ x.msg = y.msg

/-- the total order the output is meant to be in: position/path first, message second -/
def cmp3 (x y : Err) : Ordering :=
  match cmp1 x y with
  | .eq => cmpMsg x y
  | o => o

/-- strictly increasing w.r.t. `cmp3`: sorted AND free of duplicates (by key) -/
def StrictSorted (l : List Err) : Prop := l.Pairwise (fun a b => cmp3 a b = .lt)

end CueVerif.Sanitize
