/-
C05 — the INDEPENDENT membership checker `admits : Schema → DataStruct → Bool`, written
from the text of doc/ref/spec.md (§Structs, §Field constraints, §Pattern and default
constraints, §Closed structs, §Embedding, §Definitions and hidden fields) and from the
statement of property C05.  It works top-down on the SYNTAX of the schema and on the data;
it never builds a value and shares no code with `Model/Closed.lean` except the syntax,
the scalar lattice and `Pat.matches`.

Reading of the spec, clause by clause:

 * "every field present in the result — whether it comes from the data or from another
   conjunct — is allowed by every closed conjunct (named field, matching pattern, or
   ellipsis; embeddings widen the enclosing struct)":
     `allowedBy e l`  (`A`),  present fields = data fields ∪ regular fields of the schema;
 * "every constraint matching a present field is satisfied":  the recursive call on
     `sub l e` = the conjunction of everything `e` says about `l` (field values of any
     marker, values of matching patterns; from embeddings likewise);
 * "every required field is present": `reqLabels`;
 * "definitions close recursively": `sub l (defn e) = defn (sub l e)`;
   "close() closes one level": `sub l (close e) = sub l e`;
 * "hidden and definition fields are never restricted": `allowed` is only asked for
   regular labels; they are also "never required to be concrete" (mode `full = false`
   below them: only evaluation errors count there);
 * "optional constraints on absent fields never make a struct fail": a label that is
   neither in the data nor a regular field of the schema is simply never looked at.
-/
import CueVerif.Model.Closed
namespace CueVerif.Closed

/-! ### what one level of a schema says -/

/-- kind-level result of unifying everything at a node -/
inductive Shape where
  | bot | top | sc (s : Sc) | st
  deriving DecidableEq, Repr

def Shape.meet : Shape → Shape → Shape
  | .bot, _ => .bot
  | _, .bot => .bot
  | .top, b => b
  | a, .top => a
  | .sc s, .sc t => match s.meet t with
    | some r => .sc r
    | none => .bot
  | .st, .st => .st
  | _, _ => .bot

/-- shape of an expression (the same in value and in spine position) -/
def shape : Expr → Shape
  | .top => .top
  | .bot => .bot
  | .sc s => .sc s
  | .nil => .st
  | .field _ _ _ rest => Shape.st.meet (shape rest)
  | .pat _ _ rest => Shape.st.meet (shape rest)
  | .ell rest => Shape.st.meet (shape rest)
  | .emb e rest => (shape e).meet (shape rest)
  | .own e rest => (shape e).meet (shape rest)
  | .close e => shape e
  | .defn e => shape e
  | .and a b => (shape a).meet (shape b)

/-- `e` names `l`: by a field with that label (any marker), a matching pattern, or `...`;
looking through embeddings and conjunctions -/
def names : Expr → Label → Bool
  | .field l' _ _ rest, l => l == l' || names rest l
  | .pat p _ rest, l => p.matches l || names rest l
  | .ell rest, l => l.isReg || names rest l
  | .emb e rest, l => names e l || names rest l
  | .own e rest, l => names e l || names rest l
  | .close e, l => names e l
  | .defn e, l => names e l
  | .and a b, l => names a l || names b l
  | _, _ => false

/-- `e` declares `l` as a field with marker `k` (`member`: a regular field `l: v`) -/
def hasDecl (k : Kind) : Expr → Label → Bool
  | .field l' k' _ rest, l => (l == l' && k == k') || hasDecl k rest l
  | .pat _ _ rest, l => hasDecl k rest l
  | .ell rest, l => hasDecl k rest l
  | .emb e rest, l => hasDecl k e l || hasDecl k rest l
  | .own e rest, l => hasDecl k e l || hasDecl k rest l
  | .close e, l => hasDecl k e l
  | .defn e, l => hasDecl k e l
  | .and a b, l => hasDecl k a l || hasDecl k b l
  | _, _ => false

/-- labels declared as fields (any marker), in source order -/
def fieldLabels : Expr → List Label
  | .field l _ _ rest => l :: fieldLabels rest
  | .pat _ _ rest => fieldLabels rest
  | .ell rest => fieldLabels rest
  | .emb e rest => fieldLabels e ++ fieldLabels rest
  | .own e rest => fieldLabels e ++ fieldLabels rest
  | .close e => fieldLabels e
  | .defn e => fieldLabels e
  | .and a b => fieldLabels a ++ fieldLabels b
  | _ => []

/-- is `e` closed (does any closed conjunct restrict its fields)?  `close(e)` and a
reference to a definition close a struct; a literal is closed when one of its embeddings
(or direct conjuncts) is. -/
def closed : Expr → Bool
  | .emb e rest => closed e || closed rest
  | .own e rest => closed e || closed rest
  | .field _ _ _ rest => closed rest
  | .pat _ _ rest => closed rest
  | .ell rest => closed rest
  | .close e => shape e == .st
  | .defn e => shape e == .st
  | .and a b => closed a || closed b
  | _ => false

/-- what an expression admits when embedded, given whether it is closed, what its closers
allow and what it names -/
def dSel (isClosed allowed named : Bool) : Bool := if isClosed then allowed else named

mutual
/-- `allowedBy e l`: every closed conjunct of `e` allows `l`.
For a literal: the closers of its direct conjuncts apply as they are (`ownA`); the closers
that come in through embeddings (`embA`) are widened by everything the literal says
(`wideS`): "embeddings widen the enclosing struct". -/
def allowedBy : Expr → Label → Bool
  | .field l' _ _ rest, l => ownA rest l && (embA rest l || (l == l' || wideS rest l))
  | .pat p _ rest, l => ownA rest l && (embA rest l || (p.matches l || wideS rest l))
  | .ell rest, l => ownA rest l && (embA rest l || (l.isReg || wideS rest l))
  | .emb e rest, l =>
    ownA rest l && ((allowedBy e l && embA rest l) ||
      (dSel (closed e) (allowedBy e l) (names e l) || wideS rest l))
  | .own e rest, l =>
    (allowedBy e l && ownA rest l) && (embA rest l || (names e l || wideS rest l))
  | .close e, l => allowedBy e l && (shape e != .st || dSel (closed e) (allowedBy e l) (names e l))
  | .defn e, l => allowedBy e l && (shape e != .st || dSel (closed e) (allowedBy e l) (names e l))
  | .and a b, l => allowedBy a l && allowedBy b l
  | _, _ => true
/-- closers of the direct (non-embedded) conjuncts of a literal -/
def ownA : Expr → Label → Bool
  | .field _ _ _ rest, l => ownA rest l
  | .pat _ _ rest, l => ownA rest l
  | .ell rest, l => ownA rest l
  | .emb _ rest, l => ownA rest l
  | .own e rest, l => allowedBy e l && ownA rest l
  | _, _ => true
/-- closers of the embedded conjuncts of a literal, before widening
(anything that is not a declaration is read as an embedding) -/
def embA : Expr → Label → Bool
  | .field _ _ _ rest, l => embA rest l
  | .pat _ _ rest, l => embA rest l
  | .ell rest, l => embA rest l
  | .emb e rest, l => allowedBy e l && embA rest l
  | .own _ rest, l => embA rest l
  | .close e, l => allowedBy e l && (shape e != .st || dSel (closed e) (allowedBy e l) (names e l))
  | .defn e, l => allowedBy e l && (shape e != .st || dSel (closed e) (allowedBy e l) (names e l))
  | .and a b, l => allowedBy a l && allowedBy b l
  | _, _ => true
/-- the widening set of a literal: the labels of its own fields, its patterns, `...`,
what each embedding admits, what each direct conjunct names -/
def wideS : Expr → Label → Bool
  | .field l' _ _ rest, l => l == l' || wideS rest l
  | .pat p _ rest, l => p.matches l || wideS rest l
  | .ell rest, l => l.isReg || wideS rest l
  | .emb e rest, l => dSel (closed e) (allowedBy e l) (names e l) || wideS rest l
  | .own e rest, l => names e l || wideS rest l
  | .close e, l =>
    dSel (shape e == .st)
      (allowedBy e l && (shape e != .st || dSel (closed e) (allowedBy e l) (names e l))) (names e l)
  | .defn e, l =>
    dSel (shape e == .st)
      (allowedBy e l && (shape e != .st || dSel (closed e) (allowedBy e l) (names e l))) (names e l)
  | .and a b, l => dSel (closed a || closed b) (allowedBy a l && allowedBy b l) (names a l || names b l)
  | _, _ => false
end

/-- `D e l`: what `e` admits when embedded — what its closers allow if it is closed, what
it names otherwise -/
def admitsLabel (e : Expr) (l : Label) : Bool := dSel (closed e) (allowedBy e l) (names e l)

/-- `e` is recursively closed: when it is embedded, the enclosing struct literal becomes
recursively closed as well -/
def recC : Expr → Bool
  | .defn e => shape e == .st
  | .close e => recC e
  | .and a b => recC a || recC b
  | .emb e rest => recC e || recC rest
  | .own e rest => recC e || recC rest
  | .field _ _ _ rest => recC rest
  | .pat _ _ rest => recC rest
  | .ell rest => recC rest
  | _ => false

/-- some EMBEDDED part of the literal is recursively closed (then the literal closes all
its fields recursively, like a definition) -/
def embRec : Expr → Bool
  | .emb e rest => recC e || embRec rest
  | .own _ rest => embRec rest
  | .field _ _ _ rest => embRec rest
  | .pat _ _ rest => embRec rest
  | .ell rest => embRec rest
  | .defn e => shape e == .st
  | .close e => recC e
  | .and a b => recC a || recC b
  | _ => false

def wrapDef (b : Bool) (e : Expr) : Expr := if b then .defn e else e

mutual
/-- everything `e` says about field `l`, as a schema again:
values of fields named `l` (any marker) and of matching patterns are direct conjuncts,
embeddings stay embeddings, definitions keep closing (so does a literal that embeds a
recursively closed struct), `close` does not reach down -/
def sub (l : Label) : Expr → Expr
  | .top => .top
  | .bot => .bot
  | .sc _ => .bot
  | .nil => .top
  | .field l' _ v rest =>
    wrapDef (embRec rest) (if l = l' then .own v (subS l rest) else subS l rest)
  | .pat p v rest =>
    wrapDef (embRec rest) (if p.matches l then .own v (subS l rest) else subS l rest)
  | .ell rest => wrapDef (embRec rest) (subS l rest)
  | .emb e rest => wrapDef (recC e || embRec rest) (.emb (sub l e) (subS l rest))
  | .own e rest => wrapDef (embRec rest) (.own (sub l e) (subS l rest))
  | .close e => sub l e
  | .defn e => .defn (sub l e)
  | .and a b => .and (sub l a) (sub l b)
/-- projection of a literal under construction (no closing yet) -/
def subS (l : Label) : Expr → Expr
  | .top => .top
  | .nil => .top
  | .field l' _ v rest => if l = l' then .own v (subS l rest) else subS l rest
  | .pat p v rest => if p.matches l then .own v (subS l rest) else subS l rest
  | .ell rest => subS l rest
  | .emb e rest => .emb (sub l e) (subS l rest)
  | .own e rest => .own (sub l e) (subS l rest)
  | .bot => .bot
  | .sc _ => .bot
  | .close e => .emb (sub l e) .top
  | .defn e => .emb (.defn (sub l e)) .top
  | .and a b => .emb (.and (sub l a) (sub l b)) .top
end

/-! ### data -/

def Data.shape : Data → Shape
  | .atom s => .sc s
  | _ => .st

def Data.lookup (l : Label) : Data → Option Data
  | .cons l' v rest => if l = l' then some v else rest.lookup l
  | _ => none

def Data.labels : Data → List Label
  | .cons l _ rest => l :: rest.labels
  | _ => []

/-- well-formed data: struct spines end in `nil`, labels are distinct at every level -/
def Data.WF : Data → Bool
  | .atom s => s.concrete
  | .nil => true
  | .cons l v rest =>
    v.WF && rest.WF && !(rest.labels.contains l) && (match rest with | .atom _ => false | _ => true)

def Data.depth : Data → Nat
  | .cons _ v rest => max (v.depth + 1) rest.depth
  | _ => 0

def depth : Expr → Nat
  | .field _ _ v rest => max (depth v + 1) (depth rest)
  | .pat _ v rest => max (depth v + 1) (depth rest)
  | .ell rest => depth rest
  | .emb e rest => max (depth e) (depth rest)
  | .own e rest => max (depth e) (depth rest)
  | .close e => depth e
  | .defn e => depth e
  | .and a b => max (depth a) (depth b)
  | _ => 0

/-! ### the membership checker -/

def optShape : Option Data → Shape
  | none => .top
  | some d => d.shape

/-- `admitsN n full e od`: does the schema `e`, unified with the data `od` (`none`: no data
at this node — the field comes from the schema alone), yield a valid concrete result?
`n` bounds the depth; `full = false` below hidden/definition fields. -/
def admitsN : Nat → Bool → Expr → Option Data → Bool
  | 0, _, _, _ => false
  | n + 1, full, e, od =>
    match (shape e).meet (optShape od) with
    | .bot => false
    | .top => !full
    | .sc s => s.concrete || !full
    | .st =>
      let dl := match od with | some d => d.labels | none => []
      (fieldLabels e ++ dl).all fun l =>
        if dl.contains l || hasDecl .member e l then
          -- `l` is present in the result (from the data or from another conjunct):
          -- allowed by every closed conjunct, and every constraint on it holds
          (!l.isReg || allowedBy e l) &&
          admitsN n (full && l.isReg) (sub l e) (match od with | some d => d.lookup l | none => none)
        else
          -- `l` is absent: fatal only if it is required; optional constraints are ignored
          !(full && hasDecl .required e l)

/-- no definition reference occurs anywhere in `e` (`close()` may) -/
def noDef : Expr → Bool
  | .field _ _ v rest => noDef v && noDef rest
  | .pat _ v rest => noDef v && noDef rest
  | .ell rest => noDef rest
  | .emb e rest => noDef e && noDef rest
  | .own e rest => noDef e && noDef rest
  | .close e => noDef e
  | .defn _ => false
  | .and a b => noDef a && noDef b
  | _ => true

/-- the spec's verdict on `schema & data` -/
def admits (s : Expr) (d : Data) : Bool :=
  admitsN (depth s + d.depth + 2) true s (some d)

end CueVerif.Closed
