/-
C05 — spec-level set of DENIED fields of `schema & data`: the minimal paths at which a field
that is present in the result (from the data or declared `l:` by some conjunct) is not
allowed by some closed conjunct.  Written with the vocabulary of Spec/Closed.lean only
(`shape`, `allowedBy`, `sub`): the same top-down walk as `admitsN`, collecting instead of
deciding.  Below a denied field nothing more is reported (minimal paths).
This is the observable the evidence algorithm of typocheck.go (Model/Typo.lean) is compared
with: the real evaluator reports exactly one "field not allowed" error per such path.
-/
import CueVerif.Spec.Closed
namespace CueVerif.Closed

/-- a field that is present in the result: a data field or a regular field of some conjunct
(exactly the presence test of `admitsN`) -/
def presentIn (e : Expr) (dl : List Label) (l : Label) : Bool :=
  dl.contains l || hasDecl .member e l

def deniedN : Nat → Expr → Option Data → List (List Label)
  | 0, _, _ => []
  | n + 1, e, od =>
    match (shape e).meet (optShape od) with
    | .st =>
      let dl := match od with | some d => d.labels | none => []
      (fieldLabels e ++ dl).eraseDups.flatMap fun l =>
        if presentIn e dl l then
          if l.isReg && !allowedBy e l then [[l]]
          else (deniedN n (sub l e) (match od with | some d => d.lookup l | none => none)).map (l :: ·)
        else []
    | _ => []

/-- the spec's set of denied fields of `schema & data` -/
def denied (s : Expr) (d : Data) : List (List Label) :=
  deniedN (depth s + d.depth + 2) s (some d)

end CueVerif.Closed
