/-
C04 (also serves C01): "the same conjuncts of one node in another order".

`Expr.Reorder e e'` relates two expressions that unify the SAME conjuncts `d1 & d2 & … & dn`
of one node, permuted, re-associated and re-parenthesised: the least equivalence relation
that contains commutativity and associativity of `&`, is a congruence for `&`, and ignores
parentheses around a conjunct.  Every permutation and every bracketing of `d1 & … & dn` is
reachable from any other (adjacent transpositions under `cong`, `assoc`).
Written from the spec ("unification is commutative, associative"); core Lean only.
-/
import CueVerif.Model.Disj
namespace CueVerif.Disj

inductive Expr.Reorder {V : Type} : Expr V → Expr V → Prop
  | refl (e : Expr V) : Expr.Reorder e e
  | symm {a b : Expr V} : Expr.Reorder a b → Expr.Reorder b a
  | trans {a b c : Expr V} : Expr.Reorder a b → Expr.Reorder b c → Expr.Reorder a c
  | comm (l r : Expr V) : Expr.Reorder (.and l r) (.and r l)
  | assoc (a b c : Expr V) : Expr.Reorder (.and (.and a b) c) (.and a (.and b c))
  | cong {l l' r r' : Expr V} : Expr.Reorder l l' → Expr.Reorder r r' →
      Expr.Reorder (.and l r) (.and l' r')
  | paren (e : Expr V) : Expr.Reorder (.paren e) e

/-- the conjuncts of the node an expression is evaluated at (flattened through `&` and
parentheses), left to right -/
def Expr.conjuncts {V : Type} : Expr V → List (Expr V)
  | .and l r => l.conjuncts ++ r.conjuncts
  | .paren e => e.conjuncts
  | e => [e]

/-- `d1 & (d2 & (… & dn))` -/
def Expr.andAll {V : Type} : Expr V → List (Expr V) → Expr V
  | d, [] => d
  | d, d' :: ds => .and d (Expr.andAll d' ds)

end CueVerif.Disj
