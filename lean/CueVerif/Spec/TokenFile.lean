/-
Specification side of the position table (C09): what the property text demands of a
position — "every reported position lies within the input" — written without reference to
how `token.File` computes it (no binary search, no packing).  Core Lean only.
-/
import CueVerif.Model.TokenFile
namespace CueVerif.TokenFile

/-- the invariant of a line table: the first line starts at offset 0, line starts strictly
increase, every later line starts inside the file -/
structure WF (f : File) : Prop where
  size_nonneg : 0 ≤ f.size
  head : f.lines.head? = some 0
  sorted : f.lines.Pairwise (· < ·)
  bound : ∀ x ∈ f.lines.tail, x < f.size

/-- what the property demands of the `Position` reported for the (clamped) file offset `o`:
it carries `o`, `o` lies within the input, the line number names an existing line
(1-based), the column is ≥ 1, the line's start offset is `o - (column-1) ≤ o`, and `o` lies
before the start of the next line, if there is one -/
def GoodPosition (f : File) (o : Int) (p : Position) : Prop :=
  p.offset = o ∧ 0 ≤ o ∧ o ≤ f.size ∧
  1 ≤ p.line ∧ p.line ≤ f.lines.length ∧ 1 ≤ p.column ∧
  f.lines[(p.line - 1).toNat]? = some (o - (p.column - 1)) ∧
  (∀ nxt, f.lines[p.line.toNat]? = some nxt → o < nxt)

/-- the text-book definition from the CONTENT: 1 + the number of line feeds before offset
`o`, and the distance from the byte after the last of them (1-based) -/
def lineOf (content : List Nat) (o : Nat) : Nat := 1 + ((content.take o).filter (· == 10)).length

/-- start offset of the line containing `o`: the offset after the last line feed before `o` -/
def lineStart : List Nat → Nat → Nat → Nat → Nat
  | [], _, start, _ => start
  | b :: rest, o, start, i =>
    if i < o then lineStart rest o (if b == 10 then i + 1 else start) (i + 1) else start

def colOf (content : List Nat) (o : Nat) : Nat := o - lineStart content o 0 0 + 1

/-- the content-based definition of the line table of a text `c`: offset 0, and the offset
after every line feed byte, as far as it lies inside the text -/
def IsLineStart (c : List Nat) (x : Int) : Prop :=
  x = 0 ∨ ∃ i : Nat, c[i]? = some 10 ∧ x = (i : Int) + 1 ∧ i + 1 < c.length

end CueVerif.TokenFile
