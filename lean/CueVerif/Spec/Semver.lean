/-
Semantic Versioning 2.0.0 precedence (semver.org §11) on structured versions,
written from the standard, independent of the Go code.
-/
import CueVerif.Model.Semver
namespace CueVerif.Semver

/-- a pre-release identifier: numeric or alphanumeric (bytes) -/
inductive Ident where
  | num (n : Nat)
  | alnum (s : Str)
deriving Repr, DecidableEq

/-- §11.4: numeric identifiers compare numerically, alphanumerics in ASCII order,
numeric < alphanumeric -/
def Ident.cmp : Ident → Ident → Ordering
  | .num a, .num b => compare a b
  | .num _, .alnum _ => .lt
  | .alnum _, .num _ => .gt
  | .alnum a, .alnum b => List.compareLex compare a b

structure SV where
  maj : Nat
  min : Nat
  pat : Nat
  pre : List Ident
deriving Repr, DecidableEq

/-- §11.3/11.4: a version without pre-release is higher; otherwise identifier-wise,
a longer list wins when all preceding identifiers are equal -/
def preCmp : List Ident → List Ident → Ordering
  | [], [] => .eq
  | [], _ :: _ => .gt
  | _ :: _, [] => .lt
  | a :: as, b :: bs => List.compareLex Ident.cmp (a :: as) (b :: bs)

/-- §11.2: major, minor, patch numerically, then pre-release -/
def specCmp (v w : SV) : Ordering :=
  (compare v.maj w.maj).then <| (compare v.min w.min).then <|
  (compare v.pat w.pat).then <| preCmp v.pre w.pre

/-- value of a digit string -/
def digitsVal (s : Str) : Nat := s.foldl (fun acc c => acc * 10 + (c - 48)) 0

/-- what `parseInt` accepts: a non-empty digit string, no leading zero unless it is "0" -/
def GoodNum (s : Str) : Prop := s ≠ [] ∧ s.all isDigit = true ∧ (s.head? = some 48 → s.length = 1)

def toIdent (s : Str) : Ident := if isNum s then .num (digitsVal s) else .alnum s

/-- the structured version denoted by a parsed version string -/
def structure' (p : Parsed) : SV :=
  { maj := digitsVal p.major, min := digitsVal p.minor, pat := digitsVal p.patch,
    pre := if p.prerelease.isEmpty then [] else (splitDot p.prerelease.tail).map toIdent }

end CueVerif.Semver
