/-
RFC 8259 parse trees (C10, reading direction).  Core only.

`JTree` is a JSON text with its tokens kept as written: string tokens as item lists (`JItem`),
number tokens as `JNum`.  `sValue`/`sElems`/`sMembers` are the parser of Spec/JsonDoc.lean with
the tokens kept instead of denoted (same grammar, same fuel discipline); `JTree.den` is the
denotation, and `Proofs/JsonTree.lean` proves `pValue = den ∘ sValue`.  The tree is also the
shape `parser.ParseExpr` returns for a JSON text (every literal verbatim) — see
Model/JsonExtract.lean.
-/
import CueVerif.Spec.JsonDoc
namespace CueVerif.Json
open CueVerif.Quote (Bytes)

inductive JTree where
  | null
  | bool (b : Bool)
  | num (n : JNum)
  | str (items : List JItem)
  | arr (es : List JTree)
  | obj (ms : List (List JItem × JTree))

mutual
def sValue : Nat → Bytes → Option (JTree × Bytes)
  | 0, _ => none
  | fuel + 1, s =>
    match s with
    | [] => none
    | c :: r =>
      if c == 0x6E then
        (if r.take 3 == [0x75, 0x6C, 0x6C] then some (.null, r.drop 3) else none)
      else if c == 0x74 then
        (if r.take 3 == [0x72, 0x75, 0x65] then some (.bool true, r.drop 3) else none)
      else if c == 0x66 then
        (if r.take 4 == [0x61, 0x6C, 0x73, 0x65] then some (.bool false, r.drop 4) else none)
      else if c == 0x22 then
        (pStrBody (r.length + 1) r).map fun p => (JTree.str p.1, p.2)
      else if c == 0x5B then
        match skipWs r with
        | [] => none
        | c1 :: r1 =>
          if c1 == 0x5D then some (.arr [], r1)
          else (sElems fuel (c1 :: r1)).map fun p => (JTree.arr p.1, p.2)
      else if c == 0x7B then
        match skipWs r with
        | [] => none
        | c1 :: r1 =>
          if c1 == 0x7D then some (.obj [], r1)
          else (sMembers fuel (c1 :: r1)).map fun p => (JTree.obj p.1, p.2)
      else
        (pNumber s).map fun p => (JTree.num p.1, p.2)

def sElems : Nat → Bytes → Option (List JTree × Bytes)
  | 0, _ => none
  | fuel + 1, s =>
    match sValue fuel s with
    | none => none
    | some (v, r) =>
      match skipWs r with
      | [] => none
      | c :: r' =>
        if c == 0x2C then consFst v (sElems fuel (skipWs r'))
        else if c == 0x5D then some ([v], r')
        else none

def sMembers : Nat → Bytes → Option (List (List JItem × JTree) × Bytes)
  | 0, _ => none
  | fuel + 1, s =>
    match s with
    | [] => none
    | q :: r =>
      if q != 0x22 then none
      else
        match pStrBody (r.length + 1) r with
        | none => none
        | some (k, r1) =>
          match skipWs r1 with
          | [] => none
          | c :: r2 =>
            if c != 0x3A then none
            else
              match sValue fuel (skipWs r2) with
              | none => none
              | some (v, r3) =>
                match skipWs r3 with
                | [] => none
                | c' :: r4 =>
                  if c' == 0x2C then consFst (k, v) (sMembers fuel (skipWs r4))
                  else if c' == 0x7D then some ([(k, v)], r4)
                  else none
end

/-- the parse tree of a JSON text (`ws value ws`) -/
def parseTree (s : Bytes) : Option JTree :=
  match sValue (s.length + 1) (skipWs s) with
  | some (t, r) => if (skipWs r).isEmpty then some t else none
  | none => none

mutual
/-- the data a parse tree denotes -/
def JTree.den : JTree → JVal
  | .null => .null
  | .bool b => .bool b
  | .num n => .num n.neg n.coeff n.exponent
  | .str items => .str (denote items)
  | .arr es => .arr (JTree.denList es)
  | .obj ms => .obj (JTree.denMembers ms)
def JTree.denList : List JTree → List JVal
  | [] => []
  | e :: es => e.den :: JTree.denList es
def JTree.denMembers : List (List JItem × JTree) → List (Bytes × JVal)
  | [] => []
  | (k, v) :: ms => (denote k, v.den) :: JTree.denMembers ms
end

end CueVerif.Json
