/-
Specification side of C08, written from the property text and the CUE language specification
("the next token is the longest sequence of characters that form a valid token"; parentheses only
group), independent of the formatter code.
-/
import CueVerif.Model.Fmt
namespace CueVerif.Fmt

/-! ### what a tree MEANS: parentheses only group -/

/-- the tree without any parenthesis node: two expression trees mean the same iff their erasures
are equal (operators, operands and their nesting are all kept) -/
def erase : Expr → Expr
  | .atom a => .atom a
  | .un o x => .un o (erase x)
  | .bin o x y => .bin o (erase x) (erase y)
  | .paren x => erase x

/-- `((x))` → `(x)`: the only change `cue fmt` may make to a tree that came from the parser -/
def collapse : Expr → Expr
  | .atom a => .atom a
  | .un o x => .un o (collapse x)
  | .bin o x y => .bin o (collapse x) (collapse y)
  | .paren (.paren x) => collapse (.paren x)
  | .paren x => .paren (collapse x)

/-- the grammar of the language specification, as a predicate on trees: `Shaped p e` = "`e` can
stand where an expression of binary precedence ≥ p is expected without parentheses".
UnaryExpr = PrimaryExpr | unary_op UnaryExpr; Expression = UnaryExpr | Expression binary_op
Expression with the precedence table and left associativity. Trees the parser returns satisfy
`Shaped 0`. -/
def Shaped : Nat → Expr → Bool
  | _, .atom _ => true
  | p, .un _ x => decide (p ≤ unaryPrec) && Shaped unaryPrec x
  | p, .bin o x y => decide (p ≤ o.prec) && Shaped o.prec x && Shaped (o.prec + 1) y
  | _, .paren x => Shaped 0 x

/-! ### maximal munch: when do two adjacent tokens NOT stay two tokens -/

/-- `hazardChar t c`: writing character `c` directly after token `t` changes how `t` is scanned
(a longer token, a comment, a number, an illegal sequence) or leaves the modelled alphabet.
Read off the token table of the language specification. -/
def hazardChar (t : Tok) (c : Char) : Bool :=
  match t with
  | .atom (.ident _) => isLetter c || isDigit c || c = '_' || c = '$' || c = '#'
  | .atom (.int _) => isDigit c || isLetter c || c = '.' || c = '_'
  | .op .lss => c = '-' || c = '='          -- `<-`  `<=`
  | .op .gtr => c = '='                     -- `>=`
  | .op .bind => c = '=' || c = '~'         -- `==`  `=~`
  | .op .not => c = '=' || c = '~'          -- `!=`  `!~`
  | .op .and => c = '&'                     -- `&&`
  | .op .or => c = '|'                      -- `||`
  | .op .quo => c = '/'                     -- `//` comment
  | .op .period => c = '.' || isDigit c     -- `..`, `...`, `.5`
  | .op _ => false

/-- two adjacent tokens need a separating blank -/
def hazard (a b : Tok) : Bool :=
  match b.spell with
  | [] => true
  | c :: _ => hazardChar a c

/-- a blank is present wherever two adjacent tokens would not stay two tokens -/
def sepOK : Items → Bool
  | [] => true
  | [_] => true
  | (_, t1) :: (b2, t2) :: r => (b2 || !hazard t1 t2) && sepOK ((b2, t2) :: r)

/-! ### the excluded region of the v1 printer -/

/-- the first token of the printed form of `e` in a context of precedence `p` -/
def firstTok (p : Nat) (e : Expr) : Option Tok := (printP p e).head?

/-- no unary operator is followed by an operand whose first printed token merges with it
(`<` before `-`/`=…`, `>` before `=…`, `!` before `=…`): the hypothesis of `C08_v1_policy_safe_partial` -/
def NoUnaryMerge : Expr → Bool
  | .atom _ => true
  | .un o x =>
    (match firstTok unaryPrec x with
     | some t => !hazard (.op o) t
     | none => true) && NoUnaryMerge x
  | .bin _ x y => NoUnaryMerge x && NoUnaryMerge y
  | .paren x => NoUnaryMerge x

end CueVerif.Fmt
