/-
C01 — the property-level notion of "rearrangement" of a CUE program, written from the
property text ("the evaluation result is independent of declaration and conjunct order"),
independent of `eval`:

two expressions are rearrangements of each other when one is obtained from the other by
any composition, at any nesting depth, of
  * permuting the declarations of a struct literal,
  * commuting / re-associating / duplicating the operands of `&`, adding `& _`,
  * splitting a field `l: a & b` into the two declarations `l: a`, `l: b` (or merging),
  * wrapping an expression as the only embedding of a struct literal `{ e }`
(list elements may be rearranged inside, but the element order of a list is significant).
Core Lean only.
-/
import CueVerif.Model.Core
namespace CueVerif.Core

open Expr Decl in
inductive Rearr : Expr → Expr → Prop where
  | refl (e : Expr) : Rearr e e
  | symm {a b : Expr} : Rearr a b → Rearr b a
  | trans {a b c : Expr} : Rearr a b → Rearr b c → Rearr a c
  /-- congruence: rearranging below `&` -/
  | and_congr {a a' b b' : Expr} : Rearr a a' → Rearr b b' → Rearr (.and a b) (.and a' b')
  /-- congruence: rearranging below `close()` -/
  | close_congr {a a' : Expr} : Rearr a a' → Rearr (.close a) (.close a')
  /-- congruence: rearranging the value of a field declaration at any position -/
  | field_congr (pre post : List Decl) (l : Nat) (t : ArcTy) {a a' : Expr} : Rearr a a' →
      Rearr (structL (pre ++ field l t a :: post)) (structL (pre ++ field l t a' :: post))
  /-- congruence: rearranging an embedded expression at any position -/
  | embed_congr (pre post : List Decl) {a a' : Expr} : Rearr a a' →
      Rearr (structL (pre ++ embed a :: post)) (structL (pre ++ embed a' :: post))
  /-- congruence: rearranging an element of a list literal at any position (the order of the
  elements themselves is of course significant) -/
  | list_congr (pre post : List Expr) {a a' : Expr} : Rearr a a' →
      Rearr (listL (pre ++ a :: post)) (listL (pre ++ a' :: post))
  /-- declaration order -/
  | perm {ds ds' : List Decl} : ds.Perm ds' → Rearr (structL ds) (structL ds')
  /-- conjunct order -/
  | and_comm (a b : Expr) : Rearr (.and a b) (.and b a)
  | and_assoc (a b c : Expr) : Rearr (.and (.and a b) c) (.and a (.and b c))
  | and_dup (a : Expr) : Rearr a (.and a a)
  | and_top (a : Expr) : Rearr a (.and a .top)
  /-- `l: a & b`  ~  `l: a, l: b` at any position -/
  | split (pre post : List Decl) (l : Nat) (t : ArcTy) (a b : Expr) :
      Rearr (structL (pre ++ field l t (.and a b) :: post))
            (structL (pre ++ field l t a :: field l t b :: post))
  /-- `e`  ~  `{ e }` -/
  | embed (e : Expr) : Rearr e (structL [embed e])

end CueVerif.Core
