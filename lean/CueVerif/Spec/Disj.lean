/-
Specification side of C04, written from doc/ref/spec.md §"Default values" (not from the
code): value-default pairs ⟨v, d⟩ over duplicate-free lists of values of `V`, the rewrite
rules U0–U2 (unification), D0–D2 (unmarked disjunction), M0–M3 (terms of a marked
disjunction), and `resolve`.

Representation.  A disjunction value is the finite set of its disjuncts (a duplicate-free
list; bottom = the empty list: "the disjunction of a value a with bottom is a").
`⟨v⟩` (no default) is `⟨v, []⟩`.  The spec text says, next to the rules: "During
unification, if all the marked disjuncts of a marked disjunction are eliminated, then the
remaining unmarked disjuncts are considered as if they originated from an unmarked
disjunction."  That sentence is what makes `⟨v, _|_⟩` and `⟨v⟩` the same thing and is built
into `unifyD` below: a conjunct none of whose defaults survives the unification with the
other conjuncts (d_i & (&_{j≠i} v_j) = _|_) takes part as `⟨v_i⟩`.  The rule is applied to
all conjuncts of a node at once because unification is associative and commutative; for two
conjuncts it is `U`: with both sides keeping a default this is U2, with one U1, with none
U0.  (`specStrict` further down is the literal reading that keeps `⟨v,_|_⟩` apart from
`⟨v⟩`; the two readings give the same `resolve` on every row of the spec's tables.)
Core Lean only.
-/
import CueVerif.Model.Disj
namespace CueVerif.Disj

section
variable {V : Type} [DecidableEq V]

/-- ⟨v, d⟩; `d = []` is "no default". -/
structure Pair (V : Type) where
  v : List V
  d : List V
  deriving Repr, DecidableEq

def insertV (xs : List V) (x : V) : List V := if x ∈ xs then xs else xs ++ [x]

/-- v1 | v2 on sets of disjuncts -/
def unionV (a b : List V) : List V := b.foldl insertV a

/-- v1 & v2: unification distributes over disjunction; failed meets disappear -/
def meetV (S : Sl V) (a b : List V) : List V :=
  (a.flatMap fun x => b.filterMap fun y => S.meet x y).foldl insertV []

/-- U0–U2 for two operands (with the "all marked disjuncts eliminated" clause): a side none
of whose defaults survives takes part as `⟨v⟩`. -/
def U (S : Sl V) (a b : Pair V) : Pair V :=
  let l := meetV S a.d b.v
  let r := meetV S a.v b.d
  { v := meetV S a.v b.v,
    d := if l.isEmpty then r else if r.isEmpty then l else meetV S a.d b.d }

/-- v_1 & … & v_n -/
def meetAll (S : Sl V) : List (List V) → List V
  | [] => [S.top]
  | [a] => a
  | a :: rest => meetV S a (meetAll S rest)

/-- the other conjuncts of each conjunct: `others [a,b,c] = [(a,[b,c]), (b,[a,c]), (c,[a,b])]` -/
def others {α : Type} : List α → List α → List (α × List α)
  | _, [] => []
  | pre, x :: post => (x, pre ++ post) :: others (pre ++ [x]) post

/-- The default of a unification of any number of conjuncts `⟨v_i, d_i⟩` (U0–U2 applied to
all conjuncts of one node at once, so that the result does not depend on how `&` is
parenthesised or ordered): a conjunct whose marked disjuncts are all eliminated by the
other conjuncts (d_i & (&_{j≠i} v_j) = _|_; in particular an unmarked one) takes part
with v_i, the others with d_i; no default when every conjunct is eliminated. -/
def unifyD (S : Sl V) (ps : List (Pair V)) : List V :=
  let parts := (others [] ps).map fun (pr : Pair V × List (Pair V)) =>
    let alive := !(meetV S pr.1.d (meetAll S (pr.2.map Pair.v))).isEmpty
    (alive, if alive then pr.1.d else pr.1.v)
  if parts.any (·.1) then meetAll S (parts.map (·.2)) else []

/-- D0–D2 -/
def D (a b : Pair V) : Pair V := { v := unionV a.v b.v, d := unionV a.d b.d }

/-- M0–M3 for one term of a disjunction that has marks (`marked` = this term carries `*`) -/
def M (marked : Bool) (p : Pair V) : Pair V :=
  if marked then (if p.d.isEmpty then { v := p.v, d := p.v } else p)   -- M1, M2
  else { v := p.v, d := [] }                                            -- M0, M3

/-- a disjunction from its terms (mark, pair): unmarked disjunctions use D0–D2 directly,
marked ones rewrite every term with M0–M3 first -/
def disjPair (ts : List (Bool × Pair V)) : Pair V :=
  let marked := ts.any (·.1)
  ts.foldl (fun acc t => D acc (if marked then M t.1 t.2 else t.2)) { v := [], d := [] }

structure SpecSem (V : Type) where
  pair : Pair V
  /-- as terms of an enclosing `|` chain under an inherited mark -/
  terms : Bool → List (Bool × Pair V)
  /-- the conjuncts this expression contributes to an enclosing `&` (flattened through
  `&` and parentheses, as unification is associative) -/
  conjs : List (Pair V)

def specSem (S : Sl V) : Expr V → SpecSem V
  | .atom a =>
    let p : Pair V := { v := [a], d := [] }
    { pair := p, terms := fun mk => [(mk, p)], conjs := [p] }
  | .and l r =>
    let sl := specSem S l
    let sr := specSem S r
    let cs := sl.conjs ++ sr.conjs
    let p : Pair V := { v := meetV S sl.pair.v sr.pair.v, d := unifyD S cs }
    { pair := p, terms := fun mk => [(mk, p)], conjs := cs }
  | .paren e =>
    let s := specSem S e
    { pair := s.pair, terms := fun mk => [(mk, s.pair)], conjs := s.conjs }
  | .mark e =>
    -- outside a disjunction a mark is not an expression: bottom
    let p : Pair V := { v := [], d := [] }
    { pair := p, terms := fun _ => (specSem S e).terms true, conjs := [p] }
  | .or l r =>
    let tl := (specSem S l).terms
    let tr := (specSem S r).terms
    let p := disjPair (tl false ++ tr false)
    { pair := p, terms := fun mk => tl mk ++ tr mk, conjs := [p] }

/-- the spec's value-default pair of an expression -/
def specPair (S : Sl V) (e : Expr V) : Pair V := (specSem S e).pair

/-- the disjuncts a use that needs a concrete value chooses from -/
def Pair.defaultSet (p : Pair V) : List V := if p.d.isEmpty then p.v else p.d

/-- "a unique surviving marked disjunct, else the unique disjunct, else ambiguity is an
incomplete error, never a silently chosen value" -/
def Pair.resolve (p : Pair V) : Res V :=
  match p.v with
  | [] => .bottom
  | _ =>
    match p.defaultSet with
    | [x] => .value x
    | _ => .ambiguous

/-! ### the literal reading (⟨v⟩ and ⟨v,_|_⟩ kept apart), for comparison only -/

structure PairS (V : Type) where
  v : List V
  d : Option (List V)
  deriving Repr, DecidableEq

def US (S : Sl V) (a b : PairS V) : PairS V :=
  { v := meetV S a.v b.v,
    d := match a.d, b.d with
      | none, none => none                          -- U0
      | some d1, none => some (meetV S d1 b.v)      -- U1
      | none, some d2 => some (meetV S a.v d2)      -- U1 (symmetric)
      | some d1, some d2 => some (meetV S d1 d2) }  -- U2

def DS (a b : PairS V) : PairS V :=
  { v := unionV a.v b.v,
    d := match a.d, b.d with
      | none, none => none
      | some d1, none => some d1
      | none, some d2 => some d2
      | some d1, some d2 => some (unionV d1 d2) }

def MS (marked : Bool) (p : PairS V) : PairS V :=
  if marked then (match p.d with | none => { v := p.v, d := some p.v } | some _ => p)
  else { v := p.v, d := none }

def disjPairS (ts : List (Bool × PairS V)) : PairS V :=
  let marked := ts.any (·.1)
  ts.foldl (fun acc t => DS acc (if marked then MS t.1 t.2 else t.2)) { v := [], d := none }

structure SpecSemS (V : Type) where
  pair : PairS V
  terms : Bool → List (Bool × PairS V)

def specSemS (S : Sl V) : Expr V → SpecSemS V
  | .atom a => let p : PairS V := { v := [a], d := none }; { pair := p, terms := fun mk => [(mk, p)] }
  | .and l r =>
    let p := US S (specSemS S l).pair (specSemS S r).pair
    { pair := p, terms := fun mk => [(mk, p)] }
  | .paren e => let p := (specSemS S e).pair; { pair := p, terms := fun mk => [(mk, p)] }
  | .mark e => { pair := { v := [], d := none }, terms := fun _ => (specSemS S e).terms true }
  | .or l r =>
    let tl := (specSemS S l).terms
    let tr := (specSemS S r).terms
    { pair := disjPairS (tl false ++ tr false), terms := fun mk => tl mk ++ tr mk }

def specStrict (S : Sl V) (e : Expr V) : PairS V := (specSemS S e).pair

def PairS.resolve (p : PairS V) : Res V :=
  match p.v with
  | [] => .bottom
  | _ =>
    match (match p.d with | some (x :: xs) => x :: xs | _ => p.v) with
    | [x] => .value x
    | _ => .ambiguous

end

/-! ### a small concrete semilattice: finite sets of probe points as bit masks -/

/-- values = non-empty subsets of a finite probe universe (up to 512 points), as bit masks;
meet = ∩ -/
def bits : Sl Nat := { meet := fun a b => if a &&& b = 0 then none else some (a &&& b), top := 0xFFFFFFFFFFFFFFFFFFFFFFFFFFFFFFFFFFFFFFFFFFFFFFFFFFFFFFFFFFFFFFFFFFFFFFFFFFFFFFFFFFFFFFFFFFFFFFFFFFFFFFFFFFFFFFFFFFFFFFFFFFFFFFFF }

end CueVerif.Disj
