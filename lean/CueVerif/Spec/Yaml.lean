/-
C11 — property-level vocabulary, written from the YAML specifications and the property text,
independent of the code (core Lean only).

Sources: YAML 1.2.2 §10.3.2 (core schema tag resolution: null, bool, int, float incl.
infinities and NaN), the YAML 1.1 type repository yaml.org/type/{bool,null,float,merge,value}
(the implicit spellings every YAML 1.1 parser resolves), YAML 1.2.2 §5.7 (escape sequences,
in Model/Yaml.lean `yamlEscape`), §8.1.1 (block scalar headers, `parseBlock`).
-/
import CueVerif.Model.Yaml
namespace CueVerif.Yaml
open CueVerif.Quote (Bytes)

/-- yaml.org/type/bool.html: `y|Y|yes|Yes|YES|n|N|no|No|NO|true|True|TRUE|false|False|FALSE|on|On|ON|off|Off|OFF` -/
def bool11 : List Bytes :=
  [b "y", b "Y", b "yes", b "Yes", b "YES", b "n", b "N", b "no", b "No", b "NO",
   b "true", b "True", b "TRUE", b "false", b "False", b "FALSE",
   b "on", b "On", b "ON", b "off", b "Off", b "OFF"]

/-- YAML 1.2 core schema: `true|True|TRUE|false|False|FALSE` -/
def bool12 : List Bytes := [b "true", b "True", b "TRUE", b "false", b "False", b "FALSE"]

/-- `null|Null|NULL|~` (1.1 and 1.2; the empty scalar is null too) -/
def nullWords : List Bytes := [b "null", b "Null", b "NULL", b "~"]

/-- `[-+]?(\.inf|\.Inf|\.INF)` (1.1 and 1.2) -/
def infWords : List Bytes :=
  [b ".inf", b ".Inf", b ".INF", b "+.inf", b "+.Inf", b "+.INF", b "-.inf", b "-.Inf", b "-.INF"]

/-- `\.nan|\.NaN|\.NAN` -/
def nanWords : List Bytes := [b ".nan", b ".NaN", b ".NAN"]

/-- yaml.org/type/merge.html -/
def mergeWord : Bytes := b "<<"
/-- yaml.org/type/value.html -/
def valueWord : Bytes := b "="

/-- every implicit bool spelling, whatever the lexer says about the text -/
def boolWords : List Bytes := bool11 ++ bool12

/-- the token type the YAML 1.2 core schema assigns to a spelling of the second group -/
def coreTok (s : Bytes) : Tok :=
  if nullWords.contains s then .null
  else if infWords.contains s then .inf
  else if nanWords.contains s then .nan
  else if s == mergeWord then .merge
  else .str

/-- null / infinity / NaN / merge spellings -/
def coreWords : List Bytes := nullWords ++ infWords ++ nanWords ++ [mergeWord]

/-- "the lexer reads the text as one token and types it as the core schema does, or (goccy
does this for `+.inf`) hands it through as a string token with the text unchanged, which the
in-repo tables then resolve" -/
def CoreTyped (lx : Lex) (s : Bytes) : Prop :=
  lx.single = true ∧ (lx.ty = coreTok s ∨ (lx.ty = .str ∧ lx.same = true ∧ (specialFloat s).isSome = true))

/-- "quoted": neither as a value (single- or multi-line CUE literal) nor as a key does the
scalar appear plain, whatever the library's own quoting rule says -/
def Quoted (lx : Lex) (s : Bytes) : Prop :=
  ∀ (P : IsPrint) libq multi, valueStyle P lx libq s multi ≠ .plain ∧ keyStyle P lx libq s ≠ .plain

/-- the lexer reads the text as exactly one scalar token: typed as a non-string, or a string
token carrying the text unchanged -/
def LexScalar (lx : Lex) : Prop :=
  lx.single = true ∧ (lx.ty.nonString = true ∨ (lx.ty = .str ∧ lx.same = true))

/-- the literal block written for `s` reads back as `s` (any indentation) -/
def BlockRoundTrips (s : Bytes) : Prop :=
  ∀ ind, parseBlock (emitBlock ind s).1 (emitBlock ind s).2 = s

end CueVerif.Yaml
