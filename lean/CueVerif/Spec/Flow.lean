/-
Specification side of C18, written from the property text:

  * what a dependency cycle is (`Reaches`, `Cyclic`) — independent of the DFS in the code;
  * the clauses of the property as predicates over a controller state and its recorded
    history (`DepsFirst`, `Once`, `AllRan`, `NoDeadlock`, `FinalValue`);
  * the invariant that makes them inductive (`Inv`);
  * the dependency relation a workflow *description* denotes (`Workflow`, `specDeps`):
    "A depends on B if A, directly or through intermediate fields, refers to any field of B".
Core Lean only.
-/
import CueVerif.Model.Flow
namespace CueVerif.Flow

/-! ### cycles -/

/-- a non-empty path `t → … → u` along dependency edges -/
inductive Reaches (deps : Nat → List Nat) : Nat → Nat → Prop
  | edge {t d} : d ∈ deps t → Reaches deps t d
  | trans {t d u} : d ∈ deps t → Reaches deps d u → Reaches deps t u

/-- some registered task depends, directly or indirectly, on itself -/
def Cyclic (n : Nat) (deps : Nat → List Nat) : Prop := ∃ t, t < n ∧ Reaches deps t t

/-- dependencies stay inside the registered tasks and never are self-loops -/
def WfDeps (n : Nat) (deps : Nat → List Nat) : Prop :=
  ∀ t, t < n → ∀ d ∈ deps t, d < n ∧ d ≠ t

def Ctl.deps (s : Ctl) : Nat → List Nat := fun i => (s.tasks i).deps

/-! ### the clauses of the property, on a state with its recorded history -/

/-- A started task: every task it depended on when it was started had been received as
completed strictly earlier, successfully, and — if that task filled a result — the result
is part of the configuration the runner was handed. -/
def DepsFirst (s : Ctl) : Prop :=
  ∀ t, t < s.n → ∀ k, (s.tasks t).startAt = some k →
    ∀ d ∈ (s.tasks t).startDeps, d < s.n ∧ d ≠ t ∧ (s.tasks d).state = .terminated ∧
      (s.tasks d).failed = false ∧
      (∃ e, (s.tasks d).endAt = some e ∧ e < k) ∧
      ((s.tasks d).filled = true → d ∈ (s.tasks t).startSeen)

/-- every task's runner is started at most once, exactly when it is Running or later -/
def Once (s : Ctl) : Prop :=
  ∀ t, t < s.n →
    (s.tasks t).runs ≤ 1 ∧
    ((s.tasks t).runs = 1 ↔ 2 ≤ (s.tasks t).state.rank) ∧
    ((s.tasks t).runs = 1 ↔ (s.tasks t).startAt.isSome)

/-- the run is over without error and without cancellation: every task ran, once, and
terminated successfully -/
def AllRan (s : Ctl) : Prop :=
  ∀ t, t < s.n → (s.tasks t).state = .terminated ∧ (s.tasks t).failed = false ∧ (s.tasks t).runs = 1

/-- The configuration `Controller.Value()` returns is evaluated from the initial conjuncts
plus exactly the results of the tasks that filled one, each once, and is up to date. -/
def FinalValue (s : Ctl) : Prop :=
  s.inst = s.conj ∧ s.valueSeq = s.conjSeq ∧ s.conj.Nodup ∧
  ∀ t, t ∈ s.conj ↔ (t < s.n ∧ (s.tasks t).filled = true)

/-! ### the inductive invariant -/

structure Inv (s : Ctl) : Prop where
  wf : WfDeps s.n s.deps
  /-- while no error is recorded the dependency graph passed `checkCycle` -/
  acyclic : s.errs = false → checkCycle s.n s.deps = false
  /-- tasks outside the registered range are pristine -/
  fresh : ∀ t, s.n ≤ t → (s.tasks t).state = .waiting ∧ (s.tasks t).deps = [] ∧
            (s.tasks t).runs = 0 ∧ (s.tasks t).filled = false ∧ (s.tasks t).startAt = none ∧
            (s.tasks t).conjSeq = 0
  once : Once s
  depsFirst : DepsFirst s
  /-- recorded times are in the past -/
  clock_start : ∀ t k, (s.tasks t).startAt = some k → k < s.clock
  clock_end : ∀ t e, (s.tasks t).endAt = some e → e < s.clock
  /-- terminated ⇔ completion received -/
  term_end : ∀ t, t < s.n → ((s.tasks t).state = .terminated ↔ (s.tasks t).endAt.isSome)
  /-- a failure is always recorded as an error -/
  failed_errs : ∀ t, t < s.n → (s.tasks t).failed = true → s.errs = true
  failed_term : ∀ t, t < s.n → (s.tasks t).failed = true → (s.tasks t).state = .terminated
  /-- only terminated tasks have filled -/
  filled_term : ∀ t, (s.tasks t).filled = true → t < s.n ∧ (s.tasks t).state = .terminated
  /-- at the `select` nothing is Ready and something is Running -/
  live : s.stopped = false → s.errs = false ∧ (∀ t, t < s.n → (s.tasks t).state ≠ .ready) ∧
            ∃ t, t < s.n ∧ (s.tasks t).state = .running
  no_deadlock : s.deadlock = false
  /-- the run ended without error or cancellation: everything terminated -/
  finished : s.stopped = true → s.errs = false → s.cancelled = false →
            ∀ t, t < s.n → (s.tasks t).state = .terminated
  value : FinalValue s
  /-- a task that never ran has never had its value looked up (`valueSeq` is still -1) -/
  vseq_none : ∀ t, (s.tasks t).runs = 0 → (s.tasks t).valueSeq = none

/-! ### dependencies denoted by a workflow description -/

/-- a reference occurring in a task or in an intermediate field -/
inductive Ref where
  /-- to (a field of) task `i` -/
  | task (i : Nat)
  /-- to intermediate (non-task) field `j` -/
  | aux (j : Nat)
  /-- to the group `j` of tasks that appear once the group's guard task has filled -/
  | grp (j : Nat)
  deriving DecidableEq, Repr

structure TaskDecl where
  /-- `some j`: member of group `j` (appears only once that group's guard has filled) -/
  group : Option Nat := none
  refs : List Ref := []

structure Workflow where
  /-- index = task id -/
  tasks : List TaskDecl := []
  /-- intermediate fields; field `j` may refer to tasks and to lower-numbered fields -/
  aux : List (List Ref) := []
  /-- guard task of each group -/
  guards : List Nat := []

def Workflow.members (w : Workflow) (j : Nat) : List Nat :=
  (List.range w.tasks.length).filter fun i =>
    match w.tasks[i]? with
    | some d => d.group = some j
    | none => false

/-- tasks a reference leads to; intermediate fields are followed (fuel = number of fields) -/
def refDeps (w : Workflow) : Nat → Ref → List Nat
  | _, .task i => [i]
  | _, .grp j => (match w.guards[j]? with | some g => [g] | none => []) ++ w.members j
  | 0, .aux _ => []
  | fuel + 1, .aux j =>
    match w.aux[j]? with
    | some rs => rs.flatMap (refDeps w fuel)
    | none => []

/-- "task i depends on task d": d ≠ i is referred to by i directly or through
intermediate fields -/
def specDeps (w : Workflow) (i : Nat) : List Nat :=
  match w.tasks[i]? with
  | some d => ((d.refs.flatMap (refDeps w (w.aux.length + 1))).filter (· ≠ i)).eraseDups
  | none => []

/-- What the documented analysis discovers ("directly or indirectly has a reference to any
field of B"): a reference to a non-task container (a group) also leads to everything the
container's content refers to, i.e. the references of the member tasks.  A superset of
`specDeps` by construction of the extra clause; the additional edges are implied
transitively (member → its own dependencies). -/
def refDisc (w : Workflow) : Nat → Ref → List Nat
  | _, .task i => [i]
  | 0, _ => []
  | fuel + 1, .aux j =>
    match w.aux[j]? with
    | some rs => rs.flatMap (refDisc w fuel)
    | none => []
  | fuel + 1, .grp j =>
    (match w.guards[j]? with | some g => [g] | none => []) ++ w.members j ++
    (w.members j).flatMap fun m =>
      match w.tasks[m]? with
      | some d => d.refs.flatMap (refDisc w fuel)
      | none => []

def discDeps (w : Workflow) (i : Nat) : List Nat :=
  match w.tasks[i]? with
  | some d => ((d.refs.flatMap (refDisc w (w.aux.length + w.tasks.length + 1))).filter (· ≠ i)).eraseDups
  | none => []

/-- tasks that eventually exist: the ungrouped ones and, transitively, the members of
groups whose guard exists -/
def existsFuel (w : Workflow) : Nat → List Nat
  | 0 => (List.range w.tasks.length).filter fun i =>
      match w.tasks[i]? with | some d => d.group.isNone | none => false
  | k + 1 =>
    let cur := existsFuel w k
    (List.range w.tasks.length).filter fun i =>
      match w.tasks[i]? with
      | some d => (match d.group with
          | none => true
          | some j => (match w.guards[j]? with | some g => cur.contains g | none => false))
      | none => false

def Workflow.existing (w : Workflow) : List Nat := existsFuel w w.tasks.length

end CueVerif.Flow
