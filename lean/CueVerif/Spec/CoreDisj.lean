/-
C01, phase 3 — when are two disjunction values "the same", and what is a rearrangement of
an expression with top-level disjunctions.  Written from the CUE specification's
value/default pairs ⟨v, d⟩: a value is the SET of its non-bottom disjuncts, the set of its
defaults, and whether it carries marks at all.
Core Lean only.
-/
import CueVerif.Model.CoreDisj
import CueVerif.Spec.Core
namespace CueVerif.Core

/-- `v` is a (non-bottom) disjunct of `x` -/
def DVal.mem (x : DVal) (v : Val) : Prop := v ≠ .bot ∧ ∃ b, (v, b) ∈ x.items

/-- `v` belongs to the default set used when `x` is unified (⟨v⟩ acts as ⟨v, v⟩) -/
def DVal.dflt (x : DVal) (v : Val) : Prop := v ≠ .bot ∧ (v, true) ∈ x.eff

/-- the same value: same disjuncts, same defaults, same "has marks" -/
structure DEquiv (x y : DVal) : Prop where
  mem : ∀ v, x.mem v ↔ y.mem v
  dflt : ∀ v, x.dflt v ↔ y.dflt v
  hm : x.hm = y.hm

/-- rearrangements of an expression with top-level disjunctions: conjunct order and
grouping, `& _`, disjunct order and grouping, any rearrangement (Spec/Core.lean) inside a
disjunction-free leaf, and moving `&` between the two levels -/
inductive DRearr : DExpr → DExpr → Prop where
  | refl (e : DExpr) : DRearr e e
  | symm {a b : DExpr} : DRearr a b → DRearr b a
  | trans {a b c : DExpr} : DRearr a b → DRearr b c → DRearr a c
  | and_congr {a a' b b' : DExpr} : DRearr a a' → DRearr b b' → DRearr (.and a b) (.and a' b')
  | or_congr {a a' b b' : DExpr} : DRearr a a' → DRearr b b' → DRearr (.or a b) (.or a' b')
  | mark_congr {a a' : DExpr} : DRearr a a' → DRearr (.mark a) (.mark a')
  | leaf_congr {e e' : Expr} : Rearr e e' → DRearr (.leaf e) (.leaf e')
  | leaf_and (a b : Expr) : DRearr (.leaf (.and a b)) (.and (.leaf a) (.leaf b))
  | and_comm (a b : DExpr) : DRearr (.and a b) (.and b a)
  | and_assoc (a b c : DExpr) : DRearr (.and (.and a b) c) (.and a (.and b c))
  | and_top (a : DExpr) : DRearr a (.and a (.leaf .top))
  | or_comm (a b : DExpr) : DRearr (.or a b) (.or b a)
  | or_assoc (a b c : DExpr) : DRearr (.or (.or a b) c) (.or a (.or b c))

end CueVerif.Core
