/-
The property-level reading of C17, written from the property text and the module reference
(schema.cue's description of `default`, minimal version selection), independent of how tidy
computes its result:

  * the BUILD LIST of a module file is the minimal-version selection over
    main → listed deps → each listed dep's own deps  (the pruned graph of C14);
  * an import RESOLVES to the modules of the build list — at their SELECTED versions — whose
    base path is a prefix of the import path, whose major version is the one the import names
    (or the default major version for that base path), and which contain the directory;
    exactly one such module must exist (none = unresolved, several = ambiguous);
  * NEEDED = the imports of the main module's packages and, transitively, of the packages
    they resolve to;
  * a module file is RIGHT when every needed import resolves uniquely, every module a needed
    import resolves to is listed, every listed module provides a needed package, and every
    listed version is the selected one.

Default major versions follow the rule of the code base (modrequirements): an importer's own
module file decides the major version of an unversioned import (explicit `default: true`, its
own path, or the unique major among its requirements of that base path); what it does not
decide falls back to the main module's defaults.  Core Lean only.
-/
import CueVerif.Model.Tidy
import CueVerif.Model.Mvs
namespace CueVerif.Tidy

/-- selected version of every module path in the build list of a root list (0 = none) -/
def specSel (reg : Reg) (roots : List (MPath × Nat)) (mp : MPath) : Nat :=
  maxRank (((graphNodes reg roots).filter (fun n => n.1 == mp)).map (·.2))

/-- the pruned requirement graph as a C14 graph over nodes (module path, version):
`none` is the main module -/
def prunedGraph (reg : Reg) (roots : List (MPath × Nat)) : Option (MPath × Nat) → List (MPath × Nat)
  | none => roots
  | some n =>
    if roots.contains n then
      match reg.find n.1 n.2 with
      | some m => m.deps.map (fun d => (d.mp, d.rank))
      | none => []
    else []

/-- reachability in the pruned graph from the main module (C14's `Reach`, specialised) -/
inductive PReach (reg : Reg) (roots : List (MPath × Nat)) : MPath × Nat → Prop
  | root {n} : n ∈ roots → PReach reg roots n
  | dep {r n} : r ∈ roots → n ∈ prunedGraph reg roots (some r) → PReach reg roots n

/-- the providers of an import in the build list -/
def specProviders (main : Mod) (reg : Reg) (sel : MPath → Nat) (imp : Imp)
    (dflt : Path → Option Nat) : List Prov :=
  (prefixes imp.path).filterMap (fun pre =>
    let mj := match imp.major with
      | some m => some m
      | none => dflt pre
    match mj with
    | none => none
    | some j =>
      let mp : MPath := ⟨pre, j⟩
      if mp = main.mp then (if main.hasPkg imp.path then some Prov.main else none)
      else if sel mp = 0 then none
      else match reg.find mp (sel mp) with
        | some m => if m.hasPkg imp.path then some (Prov.ext mp (sel mp)) else none
        | none => none)

structure Audit where
  unresolved : List Imp := []
  ambiguous : List Imp := []
  used : List MPath := []
deriving Repr

/-- breadth-first closure of NEEDED.  A work item is an import together with the module whose
package contains it (`none` = the main module). -/
def audit (main : Mod) (reg : Reg) (sel : MPath → Nat) (mainDflt : Path → Option Nat) :
    Nat → List (Imp × Option Mod) → List (Imp × Option MPath) → Audit → Option Audit
  | 0, [], _, a => some a
  | 0, _ :: _, _, _ => none
  | _ + 1, [], _, a => some a
  | f + 1, (imp, ctx) :: q, seen, a =>
    let tag := ctx.map (·.mp)
    if seen.contains (imp, tag) then audit main reg sel mainDflt f q seen a
    else
      let seen := (imp, tag) :: seen
      if isStd imp.path then audit main reg sel mainDflt f q seen a
      else
        -- the importer's own module file decides the major version of an unversioned import
        let imp' : Option Imp :=
          match ctx, imp.major with
          | some m, none =>
            match specProviders main reg sel imp (depDefault m) with
            | [] => some imp
            | [Prov.main] => some imp
            | [Prov.ext mp _] => some { imp with major := some mp.major }
            | _ => none
          | _, _ => some imp
        match imp' with
        | none => audit main reg sel mainDflt f q seen { a with ambiguous := imp :: a.ambiguous }
        | some imp' =>
          match specProviders main reg sel imp' mainDflt with
          | [] => audit main reg sel mainDflt f q seen { a with unresolved := imp :: a.unresolved }
          | [Prov.main] =>
            audit main reg sel mainDflt f (q ++ (pkgImports main imp'.path).map (fun i => (i, none))) seen a
          | [Prov.ext mp v] =>
            match reg.find mp v with
            | none => audit main reg sel mainDflt f q seen { a with unresolved := imp :: a.unresolved }
            | some m =>
              audit main reg sel mainDflt f (q ++ (pkgImports m imp'.path).map (fun i => (i, some m))) seen
                { a with used := if a.used.contains mp then a.used else mp :: a.used }
          | _ => audit main reg sel mainDflt f q seen { a with ambiguous := imp :: a.ambiguous }

inductive Flaw
  | unresolved | ambiguous | unused | unlisted | belowSelected | missingModule | fuel
deriving DecidableEq, Repr

/-- the flaws of a module file `deps` for the main module (empty = the file is right) -/
def specFlaws (main : Mod) (reg : Reg) (deps : List Dep) (fuel : Nat) : List Flaw :=
  let m' : Mod := { main with deps := deps }
  let rs := initReqs m'
  let sel := specSel reg rs.roots
  let mainDflt := fun pre => (rs.defaultMajor pre).major?
  let start := (main.pkgs.flatMap (·.imports)).map (fun i => (i, (none : Option Mod)))
  match audit main reg sel mainDflt fuel start [] {} with
  | none => [.fuel]
  | some a =>
    (if a.unresolved.isEmpty then [] else [.unresolved]) ++
    (if a.ambiguous.isEmpty then [] else [.ambiguous]) ++
    (if deps.all (fun d => a.used.contains d.mp) then [] else [.unused]) ++
    (if a.used.all (fun mp => deps.any (fun d => d.mp == mp)) then [] else [.unlisted]) ++
    (if deps.all (fun d => sel d.mp == d.rank) then [] else [.belowSelected]) ++
    (if deps.all (fun d => (reg.find d.mp d.rank).isSome) then [] else [.missingModule])

end CueVerif.Tidy
