/-
C20 — specification written from the property text: "fields are removed only when
something else implies them; the fully evaluated result with defaults resolved is identical
at every path; trimming again removes nothing more".
Core Lean only.
-/
import CueVerif.Model.Trim
namespace CueVerif.Trim

/-- A multiset of conjuncts with one designated occurrence is written `A ++ c :: B`.
`c` is redundant when the rest already implies it: erasing it leaves the unified value
unchanged. -/
def redundant (L : SL S) (A : List S) (c : S) (B : List S) : Prop :=
  unifyAll L (A ++ B) = unifyAll L (A ++ c :: B)

instance [DecidableEq S] (L : SL S) (A : List S) (c : S) (B : List S) :
    Decidable (redundant L A c B) := by
  unfold redundant; infer_instance

/-- A package: conjuncts are functions path → (absent | ⟨value, default⟩). -/
abbrev PkgConj (P V : Type) := P → Option (DV V)

def pkgSL (L : SLB V) (P : Type) : SL (PkgConj P V) := (L.dv.opt).pi P

/-- the fully evaluated result at a path, defaults resolved; `none` = no such field -/
def finalAt (L : SLB V) [DecidableEq V] (C : List (PkgConj P V)) (p : P) : Option V :=
  (unifyAll (pkgSL L P) C p).map (resolve L)

/-- Sequences of removals, each of a removable conjunct that is redundant with respect to
the CURRENT multiset. -/
inductive Removal (L : SL S) (val : K → S) (ok : K → Prop) : List K → List K → Prop
  | refl (C : List K) : Removal L val ok C C
  | step (A : List K) (c : K) (B C' : List K) :
      ok c → redundant L (A.map val) (val c) (B.map val) →
      Removal L val ok (A ++ B) C' → Removal L val ok (A ++ c :: B) C'

/-- nothing removable is redundant any more -/
def Maximal (L : SL S) (val : K → S) (ok : K → Prop) (T : List K) : Prop :=
  ∀ A c B, T = A ++ c :: B → ok c → ¬ redundant L (A.map val) (val c) (B.map val)

end CueVerif.Trim
