/-
Specification for property C06, written from the property text and doc/ref/spec.md
(sections "Numeric literals", "Numeric values", "Arithmetic operators", "Comparison operators",
"`div`, `mod`, `quo` and `rem`"), independently of the code.  Core Lean only (`Rat` is core).

* the VALUE of a decimal `coeff·10^exp` as a rational (`toRat`);
* "has at most p significant digits" (`Fits`);
* the exact results of `+ - *` on rationals (`specOp`);
* "correctly rounded to p significant digits" (`IsRounding`);
* the Euclidean / truncated division identities (`EuclidSpec`, `TruncSpec`);
* the literal grammar of the spec as a syntax tree `Lit` (every derivation of the EBNF is a
  `Lit` satisfying `Lit.wf`), its spelling `Lit.spell`, its kind and its denotation `Lit.denote`.
-/
import CueVerif.Model.Dec
import CueVerif.Model.NumLit
namespace CueVerif.Spec.Arith
open CueVerif

abbrev Str := List Nat
abbrev Kind := NumLit.Kind

/-! ### values -/

/-- the rational a decimal denotes -/
def toRat (d : Dec) : Rat := (d.coeff : Rat) * (10 : Rat) ^ d.exp

/-- the value can be written with at most `p` significant digits: the coefficient is `c·10^j`
with `|c| < 10^p` -/
def Fits (p : Nat) (d : Dec) : Prop := ∃ (c : Int) (j : Nat), c.natAbs < 10 ^ p ∧ d.coeff = c * 10 ^ j

/-- a rational that can be written with at most `p` significant digits -/
def FitsVal (p : Nat) (v : Rat) : Prop := ∃ d : Dec, Fits p d ∧ toRat d = v

inductive ArithOp where
  | add | sub | mul
deriving DecidableEq, Repr, Inhabited

/-- the exact result over ℚ -/
def specOp : ArithOp → Rat → Rat → Rat
  | .add, a, b => a + b
  | .sub, a, b => a - b
  | .mul, a, b => a * b

inductive CmpOp where
  | eq | ne | lt | le | gt | ge
deriving DecidableEq, Repr, Inhabited

/-- the comparison operators on exact values -/
def specCmp : CmpOp → Rat → Rat → Bool
  | .eq, a, b => decide (a = b)
  | .ne, a, b => decide (a ≠ b)
  | .lt, a, b => decide (a < b)
  | .le, a, b => decide (a ≤ b)
  | .gt, a, b => decide (b < a)
  | .ge, a, b => decide (b ≤ a)

/-- `r` is `v` correctly rounded to `p` significant digits: `r` has at most `p` digits (or is the
carry `10^p`), and `v` is within half a unit in the last place of `r` -/
def IsRounding (p : Nat) (r : Dec) (v : Rat) : Prop :=
  r.coeff.natAbs ≤ 10 ^ p ∧
  2 * (v - toRat r) ≤ (10 : Rat) ^ r.exp ∧ 2 * (toRat r - v) ≤ (10 : Rat) ^ r.exp

/-! ### integer division (spec section "div, mod, quo and rem") -/

/-- `r = x - y*q with 0 <= r < |y|` -/
def EuclidSpec (x y q r : Int) : Prop := x = y * q + r ∧ 0 ≤ r ∧ r < (y.natAbs : Int)

/-- `x = q*y + r and |r| < |y|`, `q` truncated towards zero (so `r` is zero or has the sign of `x`) -/
def TruncSpec (x y q r : Int) : Prop :=
  x = q * y + r ∧ r.natAbs < y.natAbs ∧ (r = 0 ∨ r.sign = x.sign)

/-! ### the literal grammar -/

/-- value of a digit character in a base (spec: `a…f`, `A…F` are 10…15); 16 = not a digit -/
def digitOf (c : Nat) : Nat :=
  if 48 ≤ c ∧ c ≤ 57 then c - 48
  else if 97 ≤ c ∧ c ≤ 102 then c - 87
  else if 65 ≤ c ∧ c ≤ 70 then c - 55
  else 16

def isDigit (base c : Nat) : Bool := decide (digitOf c < base)

/-- `{ [ "_" ] digit }` after a digit; `pu` = the previous character was `_` -/
def wfTail (base : Nat) : Bool → Str → Bool
  | pu, [] => !pu
  | pu, c :: cs =>
    if c == 95 then !pu && wfTail base true cs
    else isDigit base c && wfTail base false cs

/-- `digit { [ "_" ] digit }` -/
def wfDigits (base : Nat) (ds : Str) : Bool :=
  match ds with
  | [] => false
  | c :: cs => isDigit base c && wfTail base false cs

/-- number of digit characters (separators do not count) -/
def nDigits (ds : Str) : Nat := (ds.filter (· != 95)).length

/-- positional value of a digit sequence with separators ("underscores have no meaning") -/
def digitsVal (base : Nat) : Str → Nat
  | [] => 0
  | c :: cs => if c == 95 then digitsVal base cs else digitOf c * base ^ nDigits cs + digitsVal base cs

inductive MulLetter where
  | K | M | G | T | P
deriving DecidableEq, Repr, Inhabited

structure Multiplier where
  letter : MulLetter
  iec : Bool          -- followed by `i`
deriving DecidableEq, Repr, Inhabited

def MulLetter.char : MulLetter → Nat
  | .K => 75 | .M => 77 | .G => 71 | .T => 84 | .P => 80

def MulLetter.rank : MulLetter → Nat
  | .K => 1 | .M => 2 | .G => 3 | .T => 4 | .P => 5

/-- SI: powers of 1000; IEC: powers of 1024 -/
def Multiplier.value (m : Multiplier) : Nat :=
  if m.iec then 1024 ^ m.letter.rank else 1000 ^ m.letter.rank

def Multiplier.spell (m : Multiplier) : Str :=
  if m.iec then [m.letter.char, 105] else [m.letter.char]

inductive Sign where
  | none | plus | minus
deriving DecidableEq, Repr, Inhabited

structure Exponent where
  upper : Bool       -- `E` rather than `e`
  sign : Sign
  ds : Str
deriving DecidableEq, Repr, Inhabited

def Exponent.spell (x : Exponent) : Str :=
  [if x.upper then 69 else 101] ++
    (match x.sign with
     | .none => []
     | .plus => [43]
     | .minus => [45]) ++ x.ds

def Exponent.value (x : Exponent) : Int :=
  match x.sign with
  | .minus => -(digitsVal 10 x.ds : Int)
  | _ => (digitsVal 10 x.ds : Int)

/-- one constructor per production of `int_lit` / `float_lit` -/
inductive Lit where
  | dec (ds : Str)                                    -- decimal_lit
  | bin (ds : Str)                                    -- "0b" …
  | oct (ds : Str)                                    -- "0o" …
  | hex (upperX : Bool) (ds : Str)                    -- "0x" | "0X" …
  | si (ip : Str) (fp : Option Str) (m : Multiplier)  -- decimals [ "." decimals ] multiplier
  | siDot (fp : Str) (m : Multiplier)                 -- "." decimals multiplier
  | fPoint (ip : Str) (fp : Option Str) (ex : Option Exponent) -- decimals "." [ decimals ] [ exponent ]
  | fExp (ip : Str) (ex : Exponent)                   -- decimals exponent
  | fDot (fp : Str) (ex : Option Exponent)            -- "." decimals [ exponent ]
deriving DecidableEq, Repr, Inhabited

def optWf (o : Option Str) : Bool :=
  match o with
  | none => true
  | some ds => wfDigits 10 ds

def exWf (o : Option Exponent) : Bool :=
  match o with
  | none => true
  | some x => wfDigits 10 x.ds

/-- the side conditions of the EBNF -/
def Lit.wf : Lit → Bool
  | .dec ds =>
    ds == [48] ||
      (match ds with
       | c :: cs => decide (49 ≤ c ∧ c ≤ 57) && wfTail 10 false cs
       | [] => false)
  | .bin ds => wfDigits 2 ds
  | .oct ds => wfDigits 8 ds
  | .hex _ ds => wfDigits 16 ds
  | .si ip fp _ => wfDigits 10 ip && optWf fp
  | .siDot fp _ => wfDigits 10 fp
  | .fPoint ip fp ex => wfDigits 10 ip && optWf fp && exWf ex
  | .fExp ip ex => wfDigits 10 ip && wfDigits 10 ex.ds
  | .fDot fp ex => wfDigits 10 fp && exWf ex

def optSpell (o : Option Str) : Str :=
  match o with
  | none => []
  | some ds => ds

def exSpell (o : Option Exponent) : Str :=
  match o with
  | none => []
  | some x => x.spell

def Lit.spell : Lit → Str
  | .dec ds => ds
  | .bin ds => [48, 98] ++ ds
  | .oct ds => [48, 111] ++ ds
  | .hex u ds => [48, if u then 88 else 120] ++ ds
  | .si ip fp m =>
    ip ++ (match fp with
           | none => []
           | some f => 46 :: f) ++ m.spell
  | .siDot fp m => 46 :: fp ++ m.spell
  | .fPoint ip fp ex => ip ++ [46] ++ optSpell fp ++ exSpell ex
  | .fExp ip ex => ip ++ ex.spell
  | .fDot fp ex => 46 :: fp ++ exSpell ex

/-- "Integer literals are always of type int"; "a decimal floating-point literal always has
type float" -/
def Lit.kind : Lit → Kind
  | .dec _ | .bin _ | .oct _ | .hex _ _ | .si _ _ _ | .siDot _ _ => .int
  | _ => .float

/-- mantissa `ip.fp` as a rational -/
def mantissa (ip : Str) (fp : Str) : Rat :=
  (digitsVal 10 ip : Rat) + (digitsVal 10 fp : Rat) / ((10 : Rat) ^ nDigits fp)

def exVal (o : Option Exponent) : Int :=
  match o with
  | none => 0
  | some x => x.value

/-- truncation towards zero of a non-negative rational -/
def truncNonneg (q : Rat) : Int := q.floor

/-- the value the spec assigns to a literal.  "When multiplying a fraction by a multiplier, the
result is truncated towards zero if it is not an integer." -/
def Lit.denote : Lit → Rat
  | .dec ds => digitsVal 10 ds
  | .bin ds => digitsVal 2 ds
  | .oct ds => digitsVal 8 ds
  | .hex _ ds => digitsVal 16 ds
  | .si ip fp m => (truncNonneg (mantissa ip (optSpell fp) * m.value) : Rat)
  | .siDot fp m => (truncNonneg (mantissa [] fp * m.value) : Rat)
  | .fPoint ip fp ex => mantissa ip (optSpell fp) * (10 : Rat) ^ exVal ex
  | .fExp ip ex => mantissa ip [] * (10 : Rat) ^ ex.value
  | .fDot fp ex => mantissa [] fp * (10 : Rat) ^ exVal ex

/-- the multiplied mantissa is an integer (no truncation needed) -/
def Lit.siIntegral : Lit → Prop
  | .si ip fp m => ∃ z : Int, mantissa ip (optSpell fp) * m.value = z
  | .siDot fp m => ∃ z : Int, mantissa [] fp * m.value = z
  | _ => True

/-- all digits of the mantissa (`ip` then `fp`) and the number of fraction digits -/
def Lit.mantDigits : Lit → Str × Nat
  | .si ip fp _ => (ip ++ optSpell fp, nDigits (optSpell fp))
  | .siDot fp _ => (fp, nDigits fp)
  | .fPoint ip fp _ => (ip ++ optSpell fp, nDigits (optSpell fp))
  | .fExp ip _ => (ip, 0)
  | .fDot fp _ => (fp, nDigits fp)
  | .dec ds => (ds, 0)
  | _ => ([], 0)

def Lit.writtenExp : Lit → Int
  | .fPoint _ _ ex => exVal ex
  | .fExp _ ex => ex.value
  | .fDot _ ex => exVal ex
  | _ => 0

/-- exponent window of the implementation's decimal package (±100000 for the written exponent,
the number of fraction digits and the adjusted exponent; for a `decimal_lit` this bounds the
number of digits by 100001).  Outside it the implementation reports an error (allowed by the
spec's implementation restriction: "give an error if unable to represent …"). -/
def Lit.inWindow (l : Lit) : Prop :=
  let e := l.writtenExp
  let f := (l.mantDigits.2 : Int)
  let adj := e - f + (Dec.numDigits (digitsVal 10 l.mantDigits.1) : Int) - 1
  (-100000 : Int) ≤ e ∧ e ≤ 100000 ∧ f ≤ 100000 ∧ (-100000 : Int) ≤ adj ∧ adj ≤ 100000

/-- spellings of the grammar the implementation's scanner rejects (a finding): an `si_lit`
whose integer part has a superfluous leading zero (`01K`, `0_1K`, `00.5M`) -/
def Lit.siLeadingZero : Lit → Bool
  | .si ip _ _ => match ip with
    | 48 :: _ :: _ => true
    | _ => false
  | _ => false

end CueVerif.Spec.Arith
