/-
C05 — what it MEANS for a pattern constraint to admit a label, written with the scalar
specification of C03 (Spec/Scalar.lean `sat`): the label, read as the string atom
`.str l`, satisfies the constraint the pattern denotes.  Independent of how
`matchPatternValue` dispatches (no kind pre-check, no fast/slow track).
-/
import CueVerif.Spec.Scalar
import CueVerif.Model.PatMatch
namespace CueVerif.PatMatch
open CueVerif CueVerif.Scalar

/-- the atom `a` satisfies the pattern value -/
def PatV.sat (re : Bytes → Bytes → Bool) (a : Atom) : PatV → Bool
  | .bot => false
  | .top => true
  | .basic t => Scalar.sat re a (.type t)
  | .bound b => Scalar.sat re a (.bound b)
  | .str s => Scalar.sat re a (.atom (.str s))
  | .num z => Scalar.sat re a (.atom (.int z))
  | .conj x y => x.sat re a && y.sat re a
  | .disj x y => x.sat re a || y.sat re a

/-- a pattern constraint admits a label iff the label is regular and its text satisfies the
pattern's constraint -/
def admitsLabel (re : Bytes → Bytes → Bool) (p : PatV) (regular : Bool) (l : Bytes) : Bool :=
  regular && p.sat re (.str l)

end CueVerif.PatMatch
