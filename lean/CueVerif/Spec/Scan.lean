/-
Specification side of the scanner model (C09): the comma-insertion rule of the language
specification (doc/ref/spec.md §Commas), written from the spec text — not from scanner.go —
and the progress/ordering predicates the property demands of a token stream.  Core Lean only.
-/
import CueVerif.Model.Scan
namespace CueVerif.Scan

def kindName : Kind → String
  | .ILLEGAL => "ILLEGAL"
  | .EOF => "EOF"
  | .COMMENT => "COMMENT"
  | .ATTRIBUTE => "ATTRIBUTE"
  | .IDENT => "IDENT"
  | .KEYWORD => "KEYWORD"
  | .INT => "INT"
  | .FLOAT => "FLOAT"
  | .STRING => "STRING"
  | .INTERPOLATION => "INTERPOLATION"
  | .BOTTOM => "BOTTOM"
  | .ADD => "ADD"
  | .SUB => "SUB"
  | .MUL => "MUL"
  | .QUO => "QUO"
  | .AND => "AND"
  | .OR => "OR"
  | .LAND => "LAND"
  | .LOR => "LOR"
  | .BIND => "BIND"
  | .EQL => "EQL"
  | .LSS => "LSS"
  | .GTR => "GTR"
  | .NOT => "NOT"
  | .ARROW => "ARROW"
  | .NEQ => "NEQ"
  | .LEQ => "LEQ"
  | .GEQ => "GEQ"
  | .MAT => "MAT"
  | .NMAT => "NMAT"
  | .LPAREN => "LPAREN"
  | .LBRACK => "LBRACK"
  | .LBRACE => "LBRACE"
  | .COMMA => "COMMA"
  | .PERIOD => "PERIOD"
  | .ELLIPSIS => "ELLIPSIS"
  | .RPAREN => "RPAREN"
  | .RBRACK => "RBRACK"
  | .RBRACE => "RBRACE"
  | .SEMICOLON => "SEMICOLON"
  | .COLON => "COLON"
  | .OPTION => "OPTION"
  | .TILDE => "TILDE"
  | .PANIC => "PANIC"
  | .FUEL => "FUEL"

/-- doc/ref/spec.md §Commas: "a comma is automatically inserted into the token stream
immediately after a line's final token if that token is
  - an identifier, keyword, or bottom
  - a number or string literal, including an interpolation
  - one of the characters `)`, `]`, `}`, or `?`
  - an ellipsis `...`" -/
def specCommaKinds : List Kind :=
  [.IDENT, .KEYWORD, .BOTTOM, .INT, .FLOAT, .STRING, .INTERPOLATION, .RPAREN, .RBRACK, .RBRACE,
   .OPTION, .ELLIPSIS]

def specComma (k : Kind) : Bool := specCommaKinds.contains k

/-- the measure that decreases with every `Scan` call: twice the remaining input, plus one
while an automatic comma is pending -/
def mu (st : St) : Nat := 2 * st.cur.length + (if st.insertEOL then 1 else 0)

/-- what one `Scan` call must satisfy (n = len(src)): offsets are within the input and
ordered — entry offset ≤ token offset ≤ final offset = the new position — and the call made
progress: `mu` never grows, and unless the call returned EOF it strictly decreased (the call
consumed at least one byte, or it emitted the pending automatic comma without consuming) -/
def GoodStep (n : Nat) (st : St) (t : Tok) (st' : St) : Prop :=
  st'.cur.length ≤ st.cur.length ∧
  n - st.cur.length ≤ t.off ∧ t.off ≤ t.fin ∧ t.fin = n - st'.cur.length ∧
  mu st' ≤ mu st ∧ (t.kind = .EOF ∨ mu st' < mu st)

end CueVerif.Scan
