/-
C16 — specification side.  Written from the property text:

  "a directory is never reported as available while incomplete, and a cached module file or
   zip is either absent or complete … the next fetch completes and returns a directory
   containing exactly the module's files with the registry's content … one download per
   version per process."

`Safe` is the property-level state predicate; `Inv` is its inductive strengthening (what
every thread may rely on at each program point); both are stated over the abstract file
system only — the code enters through `Step`.
-/
import CueVerif.Model.ModCache
namespace CueVerif.ModCache

/-- exactly the module's n files, none half-written, all with the registry's content -/
def DirSt.complete (n : Nat) (d : DirSt) : Prop := d = ⟨n, false, true⟩

instance (n : Nat) (d : DirSt) : Decidable (d.complete n) := by unfold DirSt.complete; infer_instance

/-- the extraction directory exists and is exactly the module -/
def Complete (n : Nat) (s : VSt) : Prop := s.dir = some ⟨n, false, true⟩

/-- what a reader that does not take the lock can observe as "available": the directory
exists and there is no `.partial` marker (this is the criterion of `downloadDir`) -/
def Available (s : VSt) : Prop := s.dir.isSome = true ∧ s.mark = false

/-- the property as a predicate on file-system states -/
structure Safe (n : Nat) (s : VSt) : Prop where
  /-- never reported available while incomplete -/
  dir_ok : Available s → Complete n s
  /-- a zip at its final name is complete -/
  zip_ok : ∀ b, s.zip = some b → b = .full
  /-- a cached module file at its final name is complete -/
  mod_ok : ∀ b, s.modf = some b → b = .full

/-- executable form of `Safe` (used by the driver on observed states) -/
def safeB (n : Nat) (s : VSt) : Bool :=
  (match s.dir with
   | some d => s.mark || d == ⟨n, false, true⟩
   | none => true) &&
  (s.zip != some .part) && (s.modf != some .part)

/-! ### program-point classes -/

/-- the thread holds the version's flock at this point -/
def Pc.crit : Pc → Bool
  | .zStat2 | .zClean | .zCreate | .zGet _ | .zCopy _ | .zRename _ | .zFail _ | .zUnlock _
  | .lStatDir | .lStatMark | .lRmAll | .lMark | .uCheck | .uMkdir | .uCreate _ | .uWrite _
  | .fUnmark | .fReadOnly | .fUnlock _ | .eRmAll | .eUnmark
  | .mRead2 | .mGet | .mCreate | .mWrite _ | .mRename _ | .mFail _ | .mUnlock _ => true
  | _ => false

/-- inside the function passed to `downloadZipCache.Do` -/
def Pc.zphase : Pc → Bool
  | .zStat1 | .zLock | .zStat2 | .zClean | .zCreate | .zGet _ | .zCopy _ | .zRename _
  | .zFail _ | .zUnlock _ => true
  | _ => false

/-- … and GetZip has not been called yet -/
def Pc.zpre : Pc → Bool
  | .zStat1 | .zLock | .zStat2 | .zClean | .zCreate | .zGet _ => true
  | _ => false

/-- inside the function passed to `modFileCache.Do` -/
def Pc.mphase : Pc → Bool
  | .mRead1 | .mLock | .mRead2 | .mGet | .mCreate | .mWrite _ | .mRename _ | .mFail _
  | .mUnlock _ => true
  | _ => false

def Pc.mpre : Pc → Bool
  | .mRead1 | .mLock | .mRead2 | .mGet => true
  | _ => false

/-- `downloadZip` has returned successfully (or is about to): the zip is at its final name -/
def Pc.needZip : Pc → Bool
  | .zUnlock true | .lLock | .lStatDir | .lStatMark | .lRmAll | .lMark | .uCheck | .uMkdir
  | .uCreate _ | .uWrite _ => true
  | _ => false

/-- what a thread may rely on at each program point -/
def Local (n : Nat) (s : VSt) : Pc → Prop
  | .fStatMark | .cStatMark => s.dir.isSome = true ∨ s.mark = true
  | .lStatMark => s.dir.isSome = true
  | .lRmAll => s.mark = true
  | .lMark => s.dir = none
  | .uCheck | .uMkdir => s.dir = none ∧ s.mark = true
  | .uCreate i => s.dir = some ⟨i, false, true⟩ ∧ s.mark = true ∧ i ≤ n
  | .uWrite i => s.dir = some ⟨i, true, true⟩ ∧ s.mark = true ∧ i < n
  | .fUnmark => s.dir = some ⟨n, false, true⟩ ∧ s.mark = true
  | .fReadOnly | .fUnlock .avail => s.dir = some ⟨n, false, true⟩ ∧ s.mark = false
  -- the failure path of Unzip is dead code as long as the local file system does not fail
  | .eRmAll | .eUnmark | .fUnlock .err => False
  | .zGet k | .zCopy k => tget k s.ztmps = some .part
  | .zRename k => tget k s.ztmps = some .full
  | .mWrite k => tget k s.mtmps = some .part
  | .mRename k => tget k s.mtmps = some .full
  | _ => True

structure Inv (n : Nat) (s : VSt) : Prop where
  zip_ok : ∀ b, s.zip = some b → b = .full
  mod_ok : ∀ b, s.modf = some b → b = .full
  /-- no marker ⇒ whatever is at the directory's name is the complete module -/
  avail_ok : s.mark = false → ∀ d, s.dir = some d → d = ⟨n, false, true⟩
  /-- single flight: at most one GetZip / ModuleFile download per process -/
  nget_le : ∀ p, s.nget p ≤ 1
  nmod_le : ∀ p, s.nmod p ≤ 1
  zc_idle : ∀ p, s.zc p = .idle → s.nget p = 0
  mc_idle : ∀ p, s.mc p = .idle → s.nmod p = 0
  zc_done : ∀ p, s.zc p = .done true → s.zip.isSome = true
  mc_done : ∀ p, s.mc p = .done true → s.modf.isSome = true
  /-- a thread inside a locked region is THE holder of the flock … -/
  crit_lock : ∀ u, (s.pc u).crit = true → s.lock = some u
  /-- … and the flock is held only by a thread inside a locked region -/
  lock_crit : ∀ h, s.lock = some h → (s.pc h).crit = true
  zphase : ∀ u, (s.pc u).zphase = true → s.zc u.1 = .running u.2
  zpre : ∀ u, (s.pc u).zpre = true → s.nget u.1 = 0
  mphase : ∀ u, (s.pc u).mphase = true → s.mc u.1 = .running u.2
  mpre : ∀ u, (s.pc u).mpre = true → s.nmod u.1 = 0
  has_zip : ∀ u, (s.pc u).needZip = true → s.zip.isSome = true
  has_mod : ∀ u, s.pc u = .mUnlock true → s.modf.isSome = true
  loc : ∀ u, Local n s (s.pc u)
  /-- a killed process never runs again -/
  dead_idle : ∀ u, s.dead u.1 = true → s.pc u = .idle

end CueVerif.ModCache
