/-
C13 — the ORACLE: a formal semantics `valid` of the JSON Schema keyword subset named in the
property's quantifier, written from the JSON Schema specification (draft 2020-12:
json-schema-core §10 "applicators", json-schema-validation §6 "assertions"), independent of
the importer's code.  Core Lean only (the driver links this).

Keyword subset: type, enum, const, minimum/maximum/exclusiveMinimum/exclusiveMaximum,
multipleOf, minLength/maxLength, pattern, properties, required, additionalProperties,
patternProperties, propertyNames, min/maxProperties, items, min/maxItems, uniqueItems,
contains, allOf/anyOf/oneOf/not, if/then/else, $defs/$ref.  Extras that only occur in
schemas coming back from `jsonschema.Generate`: prefixItems, minContains, maxContains and
annotation-only keywords ($schema, title, description, $comment, default, examples, $id).

Draft differences (the importer assumes 2020-12 when there is no `$schema`:
`jsonschema.DefaultVersion = VersionDraft2020_12`):
* numbers: since draft 6 "integer" is any number with a zero fractional part (`1.0` is an
  integer); draft 4 left this to the implementation.  `valid` follows draft 6+.
* equality (enum, const, uniqueItems) is by mathematical value for numbers (`1 = 1.0`), by
  code points for strings, element-wise for arrays, unordered for objects (all drafts).
* `exclusiveMinimum/Maximum` are numbers since draft 6 (booleans in draft 4); numeric here.
* `const`, `contains`, `propertyNames`: draft 6+; `if/then/else`: draft 7+;
  `$defs`: 2019-09+ (`definitions` before); keywords next to `$ref` are ignored up to
  draft 7 and applied from 2019-09 on — applied here.
* `items` with an array value was replaced by `prefixItems` in 2020-12; only the schema
  form of `items` is in the subset.
* string length counts Unicode code points (not UTF-16 units, not bytes): Lean `String.length`.
* `pattern`/`patternProperties` are un-anchored searches (ECMA-262); regular expression
  matching is an opaque parameter `re pattern string`; the driver instantiates it with
  `tinyRe`, a table of five patterns matched directly.

Recursion (`$ref`) makes the semantics non-structural, so `valid` takes FUEL: one unit is
consumed at every descent into a subschema (so fuel bounds nesting depth + reference
unfoldings).  The result is three-valued: `none` = not determined within the budget (out of
fuel or a dangling reference), and `none` is propagated strictly.  `valid_mono`
(Proofs/JsonSchema.lean) shows that a determined verdict never changes with more fuel.
-/
namespace CueVerif.JS

/-! ## JSON values -/

/-- an exact rational `num/den` (`den > 0` by construction: decimals `m·10^e`) -/
structure Num where
  num : Int
  den : Nat
deriving Repr, DecidableEq, Inhabited

namespace Num
def le (a b : Num) : Bool := decide (a.num * (b.den : Int) ≤ b.num * (a.den : Int))
def lt (a b : Num) : Bool := decide (a.num * (b.den : Int) < b.num * (a.den : Int))
def eq (a b : Num) : Bool := decide (a.num * (b.den : Int) = b.num * (a.den : Int))
/-- zero fractional part -/
def isInt (a : Num) : Bool := decide (a.num % (a.den : Int) = 0)
/-- `a` is an integer multiple of `m` (the schema parser guarantees `m > 0`) -/
def isMultipleOf (a m : Num) : Bool :=
  decide ((a.num * (m.den : Int)) % (m.num * (a.den : Int)) = 0)
def ofInt (z : Int) : Num := ⟨z, 1⟩
end Num

inductive Json where
  | null
  | bool (b : Bool)
  | num (n : Num)
  | str (s : String)
  | arr (xs : List Json)
  | obj (kvs : List (String × Json))
deriving Repr, Inhabited

/-- the six primitive kinds of the JSON data model -/
inductive Kind where
  | null | bool | number | string | array | object
deriving Repr, DecidableEq, Inhabited

def Json.kind : Json → Kind
  | .null => .null | .bool _ => .bool | .num _ => .number
  | .str _ => .string | .arr _ => .array | .obj _ => .object

/-- the seven names usable in `type` -/
inductive TypeName where
  | null | boolean | number | integer | string | array | object
deriving Repr, DecidableEq, Inhabited

def typeMatches : TypeName → Json → Bool
  | .null, .null => true
  | .boolean, .bool _ => true
  | .number, .num _ => true
  | .integer, .num n => n.isInt
  | .string, .str _ => true
  | .array, .arr _ => true
  | .object, .obj _ => true
  | _, _ => false

/-! JSON equality (json-schema-core §4.2.2): numbers by value, objects unordered.
Object keys are assumed distinct (the generators never repeat a key). -/
mutual
def jeq : Json → Json → Bool
  | .null, .null => true
  | .bool a, .bool b => a == b
  | .num a, .num b => a.eq b
  | .str a, .str b => a == b
  | .arr xs, .arr ys => jeqList xs ys
  | .obj a, .obj b => a.length == b.length && jeqObj a b
  | _, _ => false
def jeqList : List Json → List Json → Bool
  | [], [] => true
  | x :: xs, y :: ys => jeq x y && jeqList xs ys
  | _, _ => false
def jeqObj : List (String × Json) → List (String × Json) → Bool
  | [], _ => true
  | (k, v) :: rest, b =>
    (match b.find? (fun p => p.1 == k) with
     | some p => jeq v p.2
     | none => false) && jeqObj rest b
end

/-- all elements pairwise different w.r.t. `jeq` -/
def allDistinct : List Json → Bool
  | [] => true
  | x :: xs => !(xs.any (jeq x)) && allDistinct xs

/-! ## Schemas -/

inductive Ref where
  | root                 -- "#"
  | defn (name : String) -- "#/$defs/<name>"
deriving Repr, DecidableEq, Inhabited

mutual
inductive Schema where
  | bool (b : Bool)
  | obj (kws : List Kw)
inductive Kw where
  | type (ts : List TypeName)
  | enum (vs : List Json)
  | const (v : Json)
  | minimum (n : Num) | maximum (n : Num)
  | exclusiveMinimum (n : Num) | exclusiveMaximum (n : Num)
  | multipleOf (n : Num)
  | minLength (n : Nat) | maxLength (n : Nat)
  | pattern (p : String)
  | properties (ps : List (String × Schema))
  | patternProperties (ps : List (String × Schema))
  | additionalProperties (s : Schema)
  | propertyNames (s : Schema)
  | required (ks : List String)
  | minProperties (n : Nat) | maxProperties (n : Nat)
  | items (s : Schema)
  | prefixItems (ss : List Schema)
  | minItems (n : Nat) | maxItems (n : Nat)
  | uniqueItems (b : Bool)
  | contains (s : Schema)
  | minContains (n : Nat) | maxContains (n : Nat)
  | allOf (ss : List Schema) | anyOf (ss : List Schema) | oneOf (ss : List Schema)
  | not (s : Schema)
  | ifS (s : Schema) | thenS (s : Schema) | elseS (s : Schema)
  | defs (ds : List (String × Schema))
  | ref (r : Ref)
  | annot (name : String)
end

instance : Inhabited Schema := ⟨.bool true⟩

/-! sibling look-ups: the keywords whose meaning depends on adjacent keywords of the same
schema object (additionalProperties ← properties/patternProperties; if ← then/else;
items ← prefixItems; contains ← minContains/maxContains) -/
def findProps : List Kw → List (String × Schema)
  | [] => []
  | .properties ps :: _ => ps
  | _ :: r => findProps r
def findPatProps : List Kw → List (String × Schema)
  | [] => []
  | .patternProperties ps :: _ => ps
  | _ :: r => findPatProps r
def findPrefix : List Kw → List Schema
  | [] => []
  | .prefixItems ss :: _ => ss
  | _ :: r => findPrefix r
def findThen : List Kw → Option Schema
  | [] => none
  | .thenS s :: _ => some s
  | _ :: r => findThen r
def findElse : List Kw → Option Schema
  | [] => none
  | .elseS s :: _ => some s
  | _ :: r => findElse r
def findMinContains : List Kw → Option Nat
  | [] => none
  | .minContains n :: _ => some n
  | _ :: r => findMinContains r
def findMaxContains : List Kw → Option Nat
  | [] => none
  | .maxContains n :: _ => some n
  | _ :: r => findMaxContains r
def findDefs : List Kw → List (String × Schema)
  | [] => []
  | .defs ds :: _ => ds
  | _ :: r => findDefs r

/-- `$ref` resolution against the root schema: "#" and "#/$defs/<name>" -/
def resolve (root : Schema) : Ref → Option Schema
  | .root => some root
  | .defn name =>
    match root with
    | .bool _ => none
    | .obj kws => (findDefs kws).lookup name

/-! ## three-valued, strict connectives -/

/-- conjunction: undetermined if any operand is -/
def all3 : List (Option Bool) → Option Bool
  | [] => some true
  | none :: _ => none
  | some b :: r => (all3 r).map (b && ·)

/-- number of `some true`; undetermined if any operand is -/
def count3 : List (Option Bool) → Option Nat
  | [] => some 0
  | none :: _ => none
  | some b :: r => (count3 r).map ((if b then 1 else 0) + ·)

def any3 (l : List (Option Bool)) : Option Bool := (count3 l).map (decide <| 1 ≤ ·)
def one3 (l : List (Option Bool)) : Option Bool := (count3 l).map (· == 1)
def not3 (o : Option Bool) : Option Bool := o.map (!·)

/-! ## the semantics -/

/-- The meaning of ONE keyword `kw` of a schema object whose complete keyword list is `kws`
on instance `j`; `rec` evaluates subschemas (with one unit of fuel less), `res` resolves
references.  Keywords specific to one kind hold vacuously on instances of other kinds. -/
def kwHolds (re : String → String → Bool) (rec : Schema → Json → Option Bool)
    (res : Ref → Option Schema) (kws : List Kw) : Kw → Json → Option Bool
  -- any instance
  | .type ts, j => some (ts.any (typeMatches · j))
  | .enum vs, j => some (vs.any (jeq · j))
  | .const v, j => some (jeq v j)
  -- numbers
  | .minimum m, .num x => some (m.le x)
  | .maximum m, .num x => some (x.le m)
  | .exclusiveMinimum m, .num x => some (m.lt x)
  | .exclusiveMaximum m, .num x => some (x.lt m)
  | .multipleOf m, .num x => some (x.isMultipleOf m)
  -- strings
  | .minLength n, .str s => some (decide (n ≤ s.length))
  | .maxLength n, .str s => some (decide (s.length ≤ n))
  | .pattern p, .str s => some (re p s)
  -- objects
  | .properties ps, .obj kvs =>
    all3 (kvs.map fun kv => match ps.lookup kv.1 with
      | some s => rec s kv.2
      | none => some true)
  | .patternProperties ps, .obj kvs =>
    all3 (kvs.map fun kv => all3 ((ps.filter fun p => re p.1 kv.1).map fun p => rec p.2 kv.2))
  | .additionalProperties s, .obj kvs =>
    all3 ((kvs.filter fun kv =>
        !((findProps kws).any (·.1 == kv.1)) && !((findPatProps kws).any fun p => re p.1 kv.1)).map
      fun kv => rec s kv.2)
  | .propertyNames s, .obj kvs => all3 (kvs.map fun kv => rec s (.str kv.1))
  | .required ks, .obj kvs => some (ks.all fun k => kvs.any (·.1 == k))
  | .minProperties n, .obj kvs => some (decide (n ≤ kvs.length))
  | .maxProperties n, .obj kvs => some (decide (kvs.length ≤ n))
  -- arrays
  | .items s, .arr xs => all3 ((xs.drop (findPrefix kws).length).map (rec s))
  | .prefixItems ss, .arr xs => all3 (List.zipWith rec ss xs)
  | .minItems n, .arr xs => some (decide (n ≤ xs.length))
  | .maxItems n, .arr xs => some (decide (xs.length ≤ n))
  | .uniqueItems b, .arr xs => some (!b || allDistinct xs)
  | .contains s, .arr xs =>
    (count3 (xs.map (rec s))).map fun c =>
      decide ((findMinContains kws).getD 1 ≤ c) &&     -- minContains defaults to 1
      (match findMaxContains kws with | some m => decide (c ≤ m) | none => true)
  -- applicators on any instance
  | .allOf ss, j => all3 (ss.map (rec · j))
  | .anyOf ss, j => any3 (ss.map (rec · j))
  | .oneOf ss, j => one3 (ss.map (rec · j))
  | .not s, j => not3 (rec s j)
  | .ifS s, j =>
    match rec s j with
    | none => none
    | some true => (match findThen kws with | some t => rec t j | none => some true)
    | some false => (match findElse kws with | some e => rec e j | none => some true)
  | .ref r, j => (match res r with | some t => rec t j | none => none)
  -- then/else without if, min/maxContains without contains, $defs, annotations: no assertion;
  -- kind-specific keywords on instances of another kind: no assertion
  | _, _ => some true

/-- `valid re root fuel s j`: does instance `j` satisfy schema `s` (a subschema of `root`,
against which references are resolved)? -/
def valid (re : String → String → Bool) (root : Schema) : Nat → Schema → Json → Option Bool
  | 0, _, _ => none
  | _ + 1, .bool b, _ => some b
  | n + 1, .obj kws, j =>
    all3 (kws.map fun kw => kwHolds re (valid re root n) (resolve root) kws kw j)

/-- the kind a keyword is specific to (`none`: applies to every instance) -/
def Kw.kindOf : Kw → Option Kind
  | .minimum _ | .maximum _ | .exclusiveMinimum _ | .exclusiveMaximum _ | .multipleOf _ => some .number
  | .minLength _ | .maxLength _ | .pattern _ => some .string
  | .properties _ | .patternProperties _ | .additionalProperties _ | .propertyNames _
  | .required _ | .minProperties _ | .maxProperties _ => some .object
  | .items _ | .prefixItems _ | .minItems _ | .maxItems _ | .uniqueItems _ | .contains _ => some .array
  | _ => none

/-! ## the five regular expressions of the generators, matched directly -/

def tinyReKnown (p : String) : Bool :=
  p == "^a" || p == "b$" || p == "^[0-9]+$" || p == "." || p == "^$"

/-- un-anchored search semantics of the five patterns (no newlines occur in generated
strings; `.` does not match a newline) -/
def tinyRe (p s : String) : Bool :=
  let cs := s.toList
  if p == "^a" then cs.head? == some 'a'
  else if p == "b$" then cs.getLast? == some 'b'
  else if p == "^[0-9]+$" then !cs.isEmpty && cs.all Char.isDigit
  else if p == "." then cs.any (· != '\n')
  else if p == "^$" then cs.isEmpty
  else false

end CueVerif.JS
