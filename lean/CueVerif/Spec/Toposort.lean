/-
C02 — specification layer for the field ordering: graphs as vertex/edge SETS, reachability,
strongly connected components, "respects every precedence edge that is not on a cycle",
"same graph, other presentation".  Written from the property text (DESIGN §C02) and graph
theory, independent of the transcription in Model/Toposort.lean.
-/
import CueVerif.Model.Toposort
import CueVerif.Spec.Sanitize
namespace CueVerif.Toposort
open CueVerif.Sanitize (TotalPreorder SortedBy)

/-- reachability along edges -/
inductive Reach (g : Graph) : Label → Label → Prop
  | refl (v : Label) : Reach g v v
  | step {u w v : Label} : w ∈ g.out u → Reach g w v → Reach g u v

/-- the graph is well formed: no node is listed twice, edges stay inside the node set
(`GraphBuilder.AddEdge` creates both end points; `nodesByFeature` is a map) -/
structure Graph.WF (g : Graph) : Prop where
  nodup : g.nodes.Nodup
  closed : ∀ u ∈ g.nodes, ∀ v ∈ g.out u, v ∈ g.nodes

/-- two presentations of the same graph: same vertex set, same edge set -/
structure Graph.Same (g g' : Graph) : Prop where
  nodes : g.nodes.Perm g'.nodes
  edges : ∀ u v, v ∈ g.out u ↔ v ∈ g'.out u

/-- `comps` is the partition of the nodes into strongly connected components (in any order,
each listed in any order): the contract of `StronglyConnectedComponents()` -/
structure IsSCC (g : Graph) (comps : List Comp) : Prop where
  nodup : comps.flatten.Nodup
  nonempty : ∀ c ∈ comps, c ≠ []
  cover : ∀ v, v ∈ g.nodes ↔ ∃ c ∈ comps, v ∈ c
  scc : ∀ c ∈ comps, ∀ d ∈ comps, ∀ u ∈ c, ∀ v ∈ d, (c = d ↔ (Reach g u v ∧ Reach g v u))

/-- contract of `slices.SortFunc` at every element type -/
structure SortFn.Contract (S : SortFn) : Prop where
  perm : ∀ {α : Type} (cmp : α → α → Ordering) (l : List α), (S.sort cmp l).Perm l
  sorted : ∀ {α : Type} (cmp : α → α → Ordering) (l : List α), TotalPreorder cmp → SortedBy cmp (S.sort cmp l)

/-- the comparison tells the labels of the graph apart -/
def LabelsDistinct (fixed : Bool) (g : Graph) : Prop :=
  ∀ a ∈ g.nodes, ∀ b ∈ g.nodes, cmpLabel fixed a b = .eq → a = b

/-- `u` comes strictly before `v` in `l` -/
def Before (l : List Label) (u v : Label) : Prop :=
  ∃ l1 l2 l3, l = l1 ++ u :: l2 ++ v :: l3

end CueVerif.Toposort
