/-
C19 — specification of the label intern table, written from the property text
("indices are never reassigned, equal strings get equal indices, distinct strings
distinct indices, the table only grows"), independent of the code.

The abstract object is an INSERT-ONCE map: a duplicate-free list of keys; the index of a
key is its position.  `intern` is its single atomic operation.  Core Lean only.
-/
namespace CueVerif.InternSpec

abbrev Key := List Nat

/-- position of `k` in `tbl`, if present -/
def idxOf? (tbl : List Key) (k : Key) : Option Nat :=
  match tbl with
  | [] => none
  | x :: r => if x = k then some 0 else (idxOf? r k).map (· + 1)

/-- the atomic insert-once operation: the existing index, or append and return the new one -/
def intern (tbl : List Key) (k : Key) : Nat × List Key :=
  match idxOf? tbl k with
  | some i => (i, tbl)
  | none => (tbl.length, tbl ++ [k])

/-- the atomic reverse lookup -/
def name (tbl : List Key) (i : Nat) : Option Key := tbl[i]?

/-- a sequential history of `intern` calls with their results -/
def replay (tbl : List Key) : List (Key × Nat) → Option (List Key)
  | [] => some tbl
  | (k, r) :: h =>
    let (r', tbl') := intern tbl k
    if r' = r then replay tbl' h else none

/-- Is a set of observed (key, index) results of concurrent `intern` calls, all started
on a table of `base` entries none of which is one of the keys, explainable by SOME
sequential order of atomic `intern`s?  Decision procedure used by the driver: order the
observations by index (insertion order is index order), and replay. -/
def insertSorted (x : Key × Nat) : List (Key × Nat) → List (Key × Nat)
  | [] => [x]
  | y :: ys => if x.2 ≤ y.2 then x :: y :: ys else y :: insertSorted x ys

def sortByIdx (obs : List (Key × Nat)) : List (Key × Nat) := obs.foldr insertSorted []

/-- placeholders for the `base` pre-existing entries: keys that cannot collide with byte
strings (a single element ≥ 256) -/
def baseTable (base : Nat) : List Key := (List.range base).map fun i => [256 + i]

def explainable (base : Nat) (obs : List (Key × Nat)) : Bool :=
  (replay (baseTable base) (sortByIdx obs)).isSome

end CueVerif.InternSpec
