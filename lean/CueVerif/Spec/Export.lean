/-
C07 — specification side, written from the property text ("printing an evaluated value as CUE and
evaluating it again gives the same value … projected to what the profile promises to show"),
independent of the exporter.

  * labels: the printed label must read back as THE SAME regular (string) field: `LabelRoundTrips`;
  * conjunctions of types and bounds: the printed conjunction must have the same DENOTATION (set
    of satisfying atoms, C03's `sat`) as the original: `SameDenotation`;
  * values: what `cue.Final()` promises to show of a value — `projFinal`: optional fields are
    dropped, closedness is forgotten (a final value is data: nothing will be unified with it),
    recursively; regular and required fields are kept.  The result is again a normal form (no
    trailing empty slots).

Core Lean only.
-/
import CueVerif.Model.Export
import CueVerif.Spec.Scalar
namespace CueVerif.Export
open CueVerif

/-- the label printed for the string `s` compiles to the regular field named `s` -/
def LabelRoundTrips (E : Quote.Env) (lU dU : Nat → Bool) (nfc : Bytes → Bytes) (s : Bytes) : Prop :=
  parseLabel nfc (printLabel E lU dU s) = some (.str s)

/-- two conjunct lists are satisfied by exactly the same atoms -/
def SameDenotation (re : Scalar.Bytes → Scalar.Bytes → Bool) (cs ds : List Scalar.Constraint) : Prop :=
  ∀ a, Scalar.satAll re ds a = Scalar.satAll re cs a

open Core

/-- drop trailing empty slots (the normal form of a slot list) -/
def trimSlots : Slots → Slots
  | .nil => .nil
  | .cons s rest =>
    let r := trimSlots rest
    if !s.isSome && r.isNil then .nil else .cons s r

mutual
/-- what `cue.Final()` shows of a value -/
def projFinal : Val → Val
  | .bot => .bot
  | .top => .top
  | .sc s => .sc s
  | .struct xs _ => .struct (trimSlots (projSlots xs)) false
  | .list vs => .list (projVals vs)
def projSlots : Slots → Slots
  | .nil => .nil
  | .cons s rest => .cons (projSlot s) (projSlots rest)
def projSlot : Slot → Slot
  | .none => .none
  | .some .optional _ => .none
  | .some t v => .some t (projFinal v)
def projVals : Vals → Vals
  | .nil => .nil
  | .cons v rest => .cons (projFinal v) (projVals rest)
end

end CueVerif.Export
