/-
Property-level specification for C10, document level: RFC 8259 §2–§5 written as a small
reference parser (not from the Go code).  Core only.  Built on the token grammars of
Spec/Json.lean (`JItem`/`denote` for strings, `JNum` for numbers).

  JSON-text = ws value ws
  ws        = *( %x20 / %x09 / %x0A / %x0D )
  value     = false / null / true / object / array / number / string
  object    = begin-object [ member *( value-separator member ) ] end-object
  member    = string name-separator value
  array     = begin-array [ value *( value-separator value ) ] end-array
  (the six structural characters may be surrounded by ws)

JSON data (`JVal`): null, booleans, numbers as the EXACT decimal the spelling denotes
(`(-1)^neg * coeff * 10^exp`, kept as the triple so that nothing is rounded or normalised),
strings as the UTF-8 byte string the token denotes, arrays, objects as member lists in document
order (duplicates are kept: RFC 8259 §4 leaves their meaning open).

`parseJSON` is total by explicit fuel (`length + 1`: every level of the recursion consumes at
least one byte before it recurses).  That this much fuel is always enough, for arbitrary texts,
is proved (Props `C10_parse_fuel`, `C10_parse_fuel_mono`); the parser is also compared with Go's
encoding/json on every run.
-/
import CueVerif.Spec.Json
namespace CueVerif.Json
open CueVerif.Quote (Bytes decodeRune)

/-- JSON data -/
inductive JVal where
  | null
  | bool (b : Bool)
  | num (neg : Bool) (coeff : Nat) (exp : Int)
  | str (s : Bytes)
  | arr (es : List JVal)
  | obj (ms : List (Bytes × JVal))

/-- put `a` in front of the list part of a parse result -/
def consFst {α β : Type} (a : α) : Option (List α × β) → Option (List α × β)
  | some (as, r) => some (a :: as, r)
  | none => none

def isWs (c : Nat) : Bool := c == 0x20 || c == 0x09 || c == 0x0A || c == 0x0D

def skipWs (s : Bytes) : Bytes := s.dropWhile isWs

/-- the `*char quotation-mark` part of a string token (after the opening quote); returns the
items and what follows the closing quote.  Same grammar as `parseBody` of Spec/Json.lean, which
insists on the end of input after the quote. -/
def pStrBody : Nat → Bytes → Option (List JItem × Bytes)
  | 0, _ => none
  | _ + 1, [] => none
  | fuel + 1, c :: rest =>
    if c == 0x22 then some ([], rest)
    else if c == 0x5C then
      match rest with
      | 0x75 :: a :: b :: c' :: d :: rest' =>
        if isHexChar a && isHexChar b && isHexChar c' && isHexChar d then
          consFst (JItem.u a b c' d) (pStrBody fuel rest')
        else none
      | e :: rest' =>
        match escOfLetter e with
        | some x =>
          consFst (JItem.esc x) (pStrBody fuel rest')
        | none => none
      | [] => none
    else if c < 0x20 then none
    else if c < 0x80 then
      consFst (JItem.raw c) (pStrBody fuel rest)
    else
      let rw := decodeRune (c :: rest)
      if rw.2 < 2 then none
      else
        consFst (JItem.raw rw.1) (pStrBody fuel (rest.drop (rw.2 - 1)))

/-- a string token after its opening quote: the string it denotes and the rest of the text -/
def pString (s : Bytes) : Option (Bytes × Bytes) :=
  (pStrBody (s.length + 1) s).map fun p => (denote p.1, p.2)

/-- `[ minus ]` -/
def pMinus (s : Bytes) : Bool × Bytes :=
  match s with
  | 0x2D :: u => (true, u)
  | _ => (false, s)

/-- `int = zero / ( digit1-9 *DIGIT )`: after a leading zero the int part is over -/
def pInt (u : Bytes) : Option (Bytes × Bytes) :=
  match spanDigits u with
  | ([], _) => none
  | (48 :: more, r0) => some ([48], more ++ r0)
  | (int, r0) => some (int, r0)

/-- `[ frac ]`, `frac = decimal-point 1*DIGIT` -/
def pFrac (r1 : Bytes) : Option (Option Bytes × Bytes) :=
  match r1 with
  | 0x2E :: r =>
    match spanDigits r with
    | ([], _) => none
    | (f, r2) => some (some f, r2)
  | _ => some (none, r1)

def pSign (r : Bytes) : Option Bool × Bytes :=
  match r with
  | 0x2D :: r' => (some true, r')
  | 0x2B :: r' => (some false, r')
  | _ => (none, r)

/-- `[ exp ]`, `exp = e [ minus / plus ] 1*DIGIT` -/
def pExp (r2 : Bytes) : Option (Option JExp × Bytes) :=
  match r2 with
  | [] => some (none, [])
  | c :: r =>
    if c == 0x65 || c == 0x45 then
      match spanDigits (pSign r).2 with
      | ([], _) => none
      | (ds, r4) => some (some { upper := c == 0x45, sign := (pSign r).1, digits := ds }, r4)
    else some (none, c :: r)

/-- a number token at the head of `s`, read greedily along the grammar
`[ minus ] int [ frac ] [ exp ]` (a production that has been entered — `.` or `e` seen — must be
completed), and the rest of the text.  This is also how a JSON tokenizer frames numbers in a
stream: `01` is `0` followed by `1`, `1-2` is `1` followed by `-2`, `1.x` and `1e+` are errors. -/
def pNumber (s : Bytes) : Option (JNum × Bytes) :=
  match pInt (pMinus s).2 with
  | none => none
  | some (int, r1) =>
    match pFrac r1 with
    | none => none
    | some (frac, r2) =>
      match pExp r2 with
      | none => none
      | some (exp, r3) => some ({ neg := (pMinus s).1, int := int, frac := frac, exp := exp }, r3)

mutual
/-- `value`, at the head of the text (no leading ws); returns the rest -/
def pValue : Nat → Bytes → Option (JVal × Bytes)
  | 0, _ => none
  | fuel + 1, s =>
    match s with
    | [] => none
    | c :: r =>
      if c == 0x6E then                                   -- null
        (if r.take 3 == [0x75, 0x6C, 0x6C] then some (.null, r.drop 3) else none)
      else if c == 0x74 then                              -- true
        (if r.take 3 == [0x72, 0x75, 0x65] then some (.bool true, r.drop 3) else none)
      else if c == 0x66 then                              -- false
        (if r.take 4 == [0x61, 0x6C, 0x73, 0x65] then some (.bool false, r.drop 4) else none)
      else if c == 0x22 then                              -- string
        (pString r).map fun p => (JVal.str p.1, p.2)
      else if c == 0x5B then                              -- array
        match skipWs r with
        | [] => none
        | c1 :: r1 =>
          if c1 == 0x5D then some (.arr [], r1)
          else (pElems fuel (c1 :: r1)).map fun p => (JVal.arr p.1, p.2)
      else if c == 0x7B then                              -- object
        match skipWs r with
        | [] => none
        | c1 :: r1 =>
          if c1 == 0x7D then some (.obj [], r1)
          else (pMembers fuel (c1 :: r1)).map fun p => (JVal.obj p.1, p.2)
      else                                                -- number
        (pNumber s).map fun p => (JVal.num p.1.neg p.1.coeff p.1.exponent, p.2)

/-- `value *( ws "," ws value ) ws "]"` -/
def pElems : Nat → Bytes → Option (List JVal × Bytes)
  | 0, _ => none
  | fuel + 1, s =>
    match pValue fuel s with
    | none => none
    | some (v, r) =>
      match skipWs r with
      | [] => none
      | c :: r' =>
        if c == 0x2C then consFst v (pElems fuel (skipWs r'))
        else if c == 0x5D then some ([v], r')
        else none

/-- `member *( ws "," ws member ) ws "}"`, `member = string ws ":" ws value` -/
def pMembers : Nat → Bytes → Option (List (Bytes × JVal) × Bytes)
  | 0, _ => none
  | fuel + 1, s =>
    match s with
    | [] => none
    | q :: r =>
      if q != 0x22 then none
      else
        match pString r with
        | none => none
        | some (k, r1) =>
          match skipWs r1 with
          | [] => none
          | c :: r2 =>
            if c != 0x3A then none
            else
              match pValue fuel (skipWs r2) with
              | none => none
              | some (v, r3) =>
                match skipWs r3 with
                | [] => none
                | c' :: r4 =>
                  if c' == 0x2C then consFst (k, v) (pMembers fuel (skipWs r4))
                  else if c' == 0x7D then some ([(k, v)], r4)
                  else none
end

/-- `JSON-text = ws value ws`: the data a JSON text denotes, `none` = not a JSON text -/
def parseJSON (s : Bytes) : Option JVal :=
  match pValue (s.length + 1) (skipWs s) with
  | some (v, r) => if (skipWs r).isEmpty then some v else none
  | none => none

/-- a stream of JSON texts as json.Decoder frames it: values separated by optional ws;
`(values read before the first failure, whether the whole input was consumed)` -/
def parseStream : Nat → Bytes → List JVal × Bool
  | 0, _ => ([], false)
  | fuel + 1, s =>
    let s1 := skipWs s
    if s1.isEmpty then ([], true)
    else
      match pValue (s1.length + 1) s1 with
      | none => ([], false)
      | some (v, r) =>
        -- a value must consume something; the guard keeps the definition obviously total
        if r.length < s1.length then
          let (vs, ok) := parseStream fuel r
          (v :: vs, ok)
        else ([v], false)

end CueVerif.Json
