/-
Property-level specification for C10, written from RFC 8259 (not from the Go code).  Core only.

JSON texts are byte strings (`Quote.Bytes = List Nat`).  The two token grammars the property
quantifies over are given GENERATIVELY, exactly as the RFC's ABNF reads:

  string = quotation-mark *char quotation-mark
  char   = unescaped / escape ( %x22 / %x5C / %x2F / %x62 / %x66 / %x6E / %x72 / %x74 / %x75 4HEXDIG )
  unescaped = %x20-21 / %x23-5B / %x5D-10FFFF          (written in UTF-8, RFC 8259 §8.1)

  number = [ minus ] int [ frac ] [ exp ]
  int = zero / ( digit1-9 *DIGIT )      frac = decimal-point 1*DIGIT      exp = e [ minus / plus ] 1*DIGIT

A string token is a list of `JItem`s (`stringText items` is its spelling, `denote items` the
string it denotes, as UTF-8 bytes); a number token is a `JNum` (`JNum.text` its spelling,
`JNum.coeff`/`JNum.exponent` the exact decimal `(-1)^neg * coeff * 10^exponent` it denotes).
`JsonString t` / `JsonNumber t` are "t is the spelling of some well-formed token".

The only thing shared with the models is the UTF-8 codec of Model/Quote.lean (`encodeRune`),
an external standard that the C09 check cross-checks against Go's unicode/utf8.

`parseString` / `parseNumber` are executable recognisers for the same grammars, used by the
driver to answer protocol questions (they are compared with Go's encoding/json on every run).
-/
import CueVerif.Model.Quote
namespace CueVerif.Json
open CueVerif.Quote (Bytes encodeRune decodeRune)

/-! ## strings -/

/-- the eight two-character escapes of RFC 8259 §7 -/
inductive Esc where
  | quote | backslash | slash | b | f | n | r | t
  deriving Repr, DecidableEq

/-- the character written after the backslash -/
def Esc.letter : Esc → Nat
  | .quote => 0x22 | .backslash => 0x5C | .slash => 0x2F | .b => 0x62 | .f => 0x66
  | .n => 0x6E | .r => 0x72 | .t => 0x74

/-- the character the escape denotes -/
def Esc.value : Esc → Nat
  | .quote => 0x22 | .backslash => 0x5C | .slash => 0x2F | .b => 8 | .f => 12
  | .n => 10 | .r => 13 | .t => 9

/-- HEXDIG (both cases, RFC 8259 refers to RFC 5234 and explicitly allows lower case) -/
def isHexChar (c : Nat) : Bool :=
  (decide (48 ≤ c) && decide (c ≤ 57)) || (decide (65 ≤ c) && decide (c ≤ 70)) ||
    (decide (97 ≤ c) && decide (c ≤ 102))

def hexCharVal (c : Nat) : Nat := if c ≤ 57 then c - 48 else if c ≤ 70 then c - 55 else c - 87

/-- one `char` of the grammar -/
inductive JItem where
  | raw (r : Nat)            -- an unescaped code point, spelled as its UTF-8 encoding
  | esc (e : Esc)            -- backslash + letter
  | u (a b c d : Nat)        -- backslash u + four HEXDIG characters
  deriving Repr, DecidableEq

/-- a Unicode scalar value (what UTF-8 can encode) -/
def isScalar (r : Nat) : Bool := decide (r ≤ 0x10FFFF) && !(decide (0xD800 ≤ r) && decide (r < 0xE000))

def JItem.wf : JItem → Bool
  | .raw r => isScalar r && decide (0x20 ≤ r) && r != 0x22 && r != 0x5C
  | .esc _ => true
  | .u a b c d => isHexChar a && isHexChar b && isHexChar c && isHexChar d

def JItem.text : JItem → Bytes
  | .raw r => encodeRune r
  | .esc e => [0x5C, e.letter]
  | .u a b c d => [0x5C, 0x75, a, b, c, d]

def bodyText : List JItem → Bytes
  | [] => []
  | i :: t => i.text ++ bodyText t

/-- the spelling of a string token -/
def stringText (items : List JItem) : Bytes := 0x22 :: (bodyText items ++ [0x22])

def WfItems (items : List JItem) : Prop := ∀ i ∈ items, i.wf = true

/-- `t` is an RFC 8259 string token -/
def JsonString (t : Bytes) : Prop := ∃ items, WfItems items ∧ t = stringText items

/-- the UTF-16 code unit a `\uXXXX` escape denotes -/
def uVal (a b c d : Nat) : Nat :=
  ((hexCharVal a * 16 + hexCharVal b) * 16 + hexCharVal c) * 16 + hexCharVal d

def isHigh (v : Nat) : Bool := decide (0xD800 ≤ v) && decide (v < 0xDC00)
def isLow (v : Nat) : Bool := decide (0xDC00 ≤ v) && decide (v < 0xE000)
def combine (hi lo : Nat) : Nat := 0x10000 + (hi - 0xD800) * 0x400 + (lo - 0xDC00)

/-- "surrogate escapes are well paired": every `\uD800..\uDBFF` is immediately followed by a
`\uDC00..\uDFFF` and no low surrogate escape stands alone — i.e. the token denotes a sequence
of Unicode scalar values (RFC 8259 §8.2 calls the other case "unpredictable"). -/
def wellPaired : List JItem → Bool
  | [] => true
  | .raw _ :: t => wellPaired t
  | .esc _ :: t => wellPaired t
  | .u a b c d :: .u a' b' c' d' :: t' =>
    if isHigh (uVal a b c d) then isLow (uVal a' b' c' d') && wellPaired t'
    else !isLow (uVal a b c d) && wellPaired (.u a' b' c' d' :: t')
  | .u a b c d :: t => !isHigh (uVal a b c d) && !isLow (uVal a b c d) && wellPaired t
termination_by l => l.length
decreasing_by all_goals simp_wf <;> omega

/-- the string a token denotes, as UTF-8 (RFC 8259 §7: escapes denote the character, a
`\uXXXX` escape the code unit, a high+low surrogate pair the supplementary code point).  For
tokens that are not `wellPaired` the RFC assigns no meaning; this definition then follows Go's
encoding/json (U+FFFD for each unpaired surrogate — `encodeRune` of a surrogate is U+FFFD), so
that it can be compared with Go on every token. -/
def denote : List JItem → Bytes
  | [] => []
  | .raw r :: t => encodeRune r ++ denote t
  | .esc e :: t => e.value :: denote t
  | .u a b c d :: .u a' b' c' d' :: t' =>
    if isHigh (uVal a b c d) && isLow (uVal a' b' c' d') then
      encodeRune (combine (uVal a b c d) (uVal a' b' c' d')) ++ denote t'
    else encodeRune (uVal a b c d) ++ denote (.u a' b' c' d' :: t')
  | .u a b c d :: t => encodeRune (uVal a b c d) ++ denote t
termination_by l => l.length
decreasing_by all_goals simp_wf <;> omega

/-- "no HTML escaping": a `\uXXXX` escape is only ever used for a control character, for
U+2028 / U+2029 (which Go escapes unconditionally) — never for `<`, `>`, `&` or anything else
printable. -/
def JItem.plainEscape : JItem → Bool
  | .raw _ => true
  | .esc _ => true
  | .u a b c d => decide (uVal a b c d < 0x20) || uVal a b c d == 0x2028 || uVal a b c d == 0x2029

/-! ### executable recogniser (driver only) -/

def escOfLetter (c : Nat) : Option Esc :=
  if c == 0x22 then some .quote else if c == 0x5C then some .backslash
  else if c == 0x2F then some .slash else if c == 0x62 then some .b
  else if c == 0x66 then some .f else if c == 0x6E then some .n
  else if c == 0x72 then some .r else if c == 0x74 then some .t else none

/-- the body of a string token up to and including the closing quote, which must be the last
byte; `none` = not an RFC 8259 string token -/
def parseBody : Nat → Bytes → Option (List JItem)
  | 0, _ => none
  | _ + 1, [] => none
  | fuel + 1, c :: rest =>
    if c == 0x22 then (if rest.isEmpty then some [] else none)
    else if c == 0x5C then
      match rest with
      | 0x75 :: a :: b :: c' :: d :: rest' =>
        if isHexChar a && isHexChar b && isHexChar c' && isHexChar d then
          (parseBody fuel rest').map (JItem.u a b c' d :: ·)
        else none
      | e :: rest' =>
        match escOfLetter e with
        | some x => (parseBody fuel rest').map (JItem.esc x :: ·)
        | none => none
      | [] => none
    else if c < 0x20 then none
    else if c < 0x80 then (parseBody fuel rest).map (JItem.raw c :: ·)
    else
      let rw := decodeRune (c :: rest)
      if rw.2 < 2 then none
      else (parseBody fuel (rest.drop (rw.2 - 1))).map (JItem.raw rw.1 :: ·)

def parseString (t : Bytes) : Option (List JItem) :=
  match t with
  | 0x22 :: rest => parseBody (rest.length + 1) rest
  | _ => none

/-! ## numbers (RFC 8259 §6) -/

def isDigit (c : Nat) : Bool := decide (48 ≤ c) && decide (c ≤ 57)

def allDigits (ds : Bytes) : Bool := ds.all isDigit

/-- value of a string of decimal digit characters (leading zeros allowed) -/
def digitsVal (ds : Bytes) : Nat := ds.foldl (fun a c => a * 10 + (c - 48)) 0

structure JExp where
  upper : Bool              -- written `E` rather than `e`
  sign : Option Bool        -- `some true` = '-', `some false` = '+', `none` = no sign
  digits : Bytes
  deriving Repr, DecidableEq

structure JNum where
  neg : Bool
  int : Bytes
  frac : Option Bytes
  exp : Option JExp
  deriving Repr, DecidableEq

def JExp.wf (e : JExp) : Bool := !e.digits.isEmpty && allDigits e.digits

def JExp.text (e : JExp) : Bytes :=
  (if e.upper then 0x45 else 0x65) ::
    ((match e.sign with
      | some true => [0x2D]
      | some false => [0x2B]
      | none => []) ++ e.digits)

def JExp.value (e : JExp) : Int :=
  match e.sign with
  | some true => - (digitsVal e.digits : Int)
  | _ => (digitsVal e.digits : Int)

def fracWf : Option Bytes → Bool
  | none => true
  | some f => !f.isEmpty && allDigits f

def expWf : Option JExp → Bool
  | none => true
  | some e => e.wf

/-- `int = zero / ( digit1-9 *DIGIT )`, `frac = "." 1*DIGIT`, `exp = e [sign] 1*DIGIT` -/
def JNum.wf (n : JNum) : Bool :=
  !n.int.isEmpty && allDigits n.int && (n.int == [48] || n.int.head? != some 48) &&
    fracWf n.frac && expWf n.exp

def fracText : Option Bytes → Bytes
  | none => []
  | some f => 0x2E :: f

def expText : Option JExp → Bytes
  | none => []
  | some e => e.text

/-- the spelling without the minus sign -/
def JNum.utext (n : JNum) : Bytes := n.int ++ (fracText n.frac ++ expText n.exp)

/-- the spelling -/
def JNum.text (n : JNum) : Bytes := (if n.neg then [0x2D] else []) ++ n.utext

/-- `t` is an RFC 8259 number token -/
def JsonNumber (t : Bytes) : Prop := ∃ n : JNum, n.wf = true ∧ t = n.text

def fracDigits : Option Bytes → Bytes
  | none => []
  | some f => f

def expValue : Option JExp → Int
  | none => 0
  | some e => e.value

/-- the number denoted is `(-1)^neg * coeff * 10^exponent` -/
def JNum.coeff (n : JNum) : Nat := digitsVal (n.int ++ fracDigits n.frac)
def JNum.exponent (n : JNum) : Int := expValue n.exp - ((fracDigits n.frac).length : Int)

/-- CUE's kind rule restricted to JSON spellings: a number is an `int` iff it is written
without fraction and without exponent, a `float` otherwise -/
def JNum.isFloat (n : JNum) : Bool := n.frac.isSome || n.exp.isSome

/-! ### executable recogniser (driver only) -/

def spanDigits (s : Bytes) : Bytes × Bytes := s.span isDigit

def parseNumber (t : Bytes) : Option JNum :=
  let (neg, u) := match t with
    | 0x2D :: u => (true, u)
    | _ => (false, t)
  let (int, r1) := spanDigits u
  if int.isEmpty || !(int == [48] || int.head? != some 48) then none
  else
    let fr : Option (Option Bytes × Bytes) :=
      match r1 with
      | 0x2E :: r =>
        let (f, r2) := spanDigits r
        if f.isEmpty then none else some (some f, r2)
      | _ => some (none, r1)
    match fr with
    | none => none
    | some (frac, r2) =>
      match r2 with
      | [] => some { neg := neg, int := int, frac := frac, exp := none }
      | c :: r =>
        if c == 0x65 || c == 0x45 then
          let (sign, r3) : Option Bool × Bytes := match r with
            | 0x2D :: r' => (some true, r')
            | 0x2B :: r' => (some false, r')
            | _ => (none, r)
          let (ds, r4) := spanDigits r3
          if ds.isEmpty || !r4.isEmpty then none
          else some { neg := neg, int := int, frac := frac,
                      exp := some { upper := c == 0x45, sign := sign, digits := ds } }
        else none

end CueVerif.Json
