/-
Property-level vocabulary for C09 (core only), written from the property text:
"for every string or byte sequence, each quoting form the library can produce (single line,
multi-line, with any number of #, ASCII-only) unquotes to exactly the original".

The property is a statement about the composition of the two library functions, so the
specification consists of the round-trip equation itself plus the predicates its statement
needs.  `RoundTrips` is what the harness evaluates directly on the implementation
(`literal.Unquote(form.Quote(s)) == s`).
-/
import CueVerif.Model.Quote
namespace CueVerif.Quote

/-- the round-trip requirement for one form and one string -/
def RoundTrips (E : Env) (f : Form) (s : Bytes) : Prop := unquote (quote E f s) = .ok s

/-- the same for the OLD variant of `singleLineHashCount` (before /repo a2b8800) -/
def RoundTripsOld (E : Env) (f : Form) (s : Bytes) : Prop := unquote (quoteOld E f s) = .ok s

/-- "ASCII-only": every byte of the literal is below 0x80 -/
def IsAscii (s : Bytes) : Prop := ∀ b ∈ s, b < 0x80

/-- strings the `String`/`Label` forms can represent without loss: valid UTF-8
(invalid bytes are replaced by U+FFFD by design: "Conversions may be lossy") -/
def Representable (f : Form) (s : Bytes) : Prop := f.exact = true ∨ validUTF8 s = true

end CueVerif.Quote
