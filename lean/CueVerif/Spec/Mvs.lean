/-
The invariant of the concurrent MVS traversal (what is true in every reachable state).
-/
import CueVerif.Model.Mvs
namespace CueVerif.Mvs

/-- nodes whose path/version have been pushed into `selected`: the roots and the
requirements of every node `Require` was called for (= keys of `g.isRoot`) -/
def Marked (g : Graph) (roots : List Node) (s : St) (n : Node) : Prop :=
  n ∈ roots ∨ ∃ m ∈ s.required, n ∈ g m

structure Inv (g : Graph) (roots : List Node) (s : St) : Prop where
  /-- `Require` is called at most once per node (its "already been set" panic is dead) -/
  nodup_required : s.required.Nodup
  /-- an item is in at most one place, once -/
  nodup_work : (s.todo ++ s.fetched ++ s.required).Nodup
  /-- everything added is todo, in flight or done — nothing is lost -/
  added_cases : ∀ n, n ∈ s.added ↔ n ∈ s.todo ∨ n ∈ s.fetched ∨ n ∈ s.required
  /-- only reachable nodes are ever visited -/
  added_reach : ∀ n ∈ s.added, Reach g roots n
  /-- every added node is marked (so `Require`'s "not reachable" panic is dead) -/
  added_marked : ∀ n ∈ s.added, Marked g roots s n
  roots_added : ∀ n ∈ roots, n ∈ s.added
  /-- a runner in its Add phase has been Required, and owes a suffix of its requirements -/
  adding_ok : ∀ e ∈ s.adding, e.1 ∈ s.required ∧ ∃ pre, g e.1 = pre ++ e.2
  /-- every requirement of a Required node is added or still owed by some runner -/
  closed : ∀ m ∈ s.required, ∀ n ∈ g m, n ∈ s.added ∨ ∃ e ∈ s.adding, n ∈ e.2
  /-- selected is an upper bound of the marked versions of the path … -/
  sel_ub : ∀ p v, Marked g roots s (p, v) → v ≤ s.sel p
  /-- … and is attained by a marked node, or is "none" -/
  sel_att : ∀ p, s.sel p = 0 ∨ Marked g roots s (p, s.sel p)

end CueVerif.Mvs
