import CueVerif.Proofs.ModzipCreate
/-!
C15, GROUNDWORK towards "the verdict of checkFiles does not depend on the order of a list
without duplicate paths" (see notes/C15.md, "Not done: permutation invariance").  Nothing in
Props/C15.lean depends on this file yet.  Proved here:
  * the set of nested-module directories (`haveCUEMod`) and hence `inSubmodule` are invariant
    under permutation of the list;
  * `ccCheck` depends on the collision map only through `ccLookup` (maps that agree on every
    lookup give the same verdict and again agreeing maps) — the congruence needed for the swap
    lemma of two collision checks;
  * the size budget: two admissions commute.
-/
namespace CueVerif.Modzip

theorem haveCUEMod_perm (U : Uni) {l l' : List FEnt} (h : l.Perm l') :
    (haveCUEMod U l).Perm (haveCUEMod U l') := by
  unfold haveCUEMod
  exact h.filterMap _

theorem inSubmoduleAux_congr (hv hv' : List Str) (h : ∀ d, d ∈ hv ↔ d ∈ hv') (fuel : Nat)
    (p : Str) : inSubmoduleAux hv fuel p = inSubmoduleAux hv' fuel p := by
  induction fuel generalizing p with
  | zero => rfl
  | succ fuel ih =>
    rw [inSubmoduleAux_succ, inSubmoduleAux_succ]
    have hc : hv.contains (pathSplit p).1 = hv'.contains (pathSplit p).1 := by
      rw [Bool.eq_iff_iff]
      simp only [List.contains_iff_mem]
      exact h _
    rw [hc, ih]

/-- `inSubmodule` (the only use of the first loop of checkFiles) is the same for a list and
any permutation of it -/
theorem inSubmodule_perm (U : Uni) {l l' : List FEnt} (h : l.Perm l') (p : Str) :
    inSubmodule (haveCUEMod U l) p = inSubmodule (haveCUEMod U l') p :=
  inSubmoduleAux_congr _ _ (fun _ => (haveCUEMod_perm U h).mem_iff) _ p

/-- two collision maps that answer every lookup alike -/
def CCEq (a b : CC) : Prop := ∀ k, ccLookup a k = ccLookup b k

theorem CCEq.cons {a b : CC} (h : CCEq a b) (e : List Nat × Str × Bool) : CCEq (e :: a) (e :: b) := by
  intro k
  obtain ⟨k', v⟩ := e
  simp only [ccLookup]
  split
  · rfl
  · exact h k

/-- the collision check sees the map only through lookups -/
theorem ccCheck_congr (U : Uni) (fuel : Nat) (a b : CC) (p : Str) (d : Bool) (h : CCEq a b) :
    (ccCheck U fuel a p d).2 = (ccCheck U fuel b p d).2 ∧
    CCEq (ccCheck U fuel a p d).1 (ccCheck U fuel b p d).1 := by
  induction fuel generalizing a b p d with
  | zero => exact ⟨rfl, h⟩
  | succ fuel ih =>
    rw [Coll.ccCheck_succ, Coll.ccCheck_succ, h (foldKey U p)]
    cases hl : ccLookup b (foldKey U p) with
    | none =>
      dsimp only
      by_cases hp : pathDir p ≠ sDot
      · rw [if_pos hp, if_pos hp]
        exact ih _ _ _ _ (h.cons _)
      · rw [if_neg hp, if_neg hp]
        exact ⟨rfl, h.cons _⟩
    | some v =>
      obtain ⟨op, oDir⟩ := v
      dsimp only
      by_cases h1 : p ≠ op
      · rw [if_pos h1, if_pos h1]; exact ⟨rfl, h⟩
      · rw [if_neg h1, if_neg h1]
        by_cases h2 : d ≠ oDir
        · rw [if_pos h2, if_pos h2]; exact ⟨rfl, h⟩
        · rw [if_neg h2, if_neg h2]
          by_cases h3 : (!d) = true
          · rw [if_pos h3, if_pos h3]; exact ⟨rfl, h⟩
          · rw [if_neg h3, if_neg h3]
            dsimp only
            by_cases hp : pathDir p ≠ sDot
            · rw [if_pos hp, if_pos hp]
              exact ih _ _ _ _ h
            · rw [if_neg hp, if_neg hp]
              exact ⟨rfl, h⟩

/-- the size budget: admitting two files commutes (the budget only decreases, so a file that
does not fit after the other one makes the other order fail as well) -/
theorem budget_commute (m x y : Int) :
    ((0 ≤ x ∧ x ≤ m) ∧ (0 ≤ y ∧ y ≤ m - x)) ↔ ((0 ≤ y ∧ y ≤ m) ∧ (0 ≤ x ∧ x ≤ m - y)) := by
  constructor <;> (rintro ⟨⟨a, b⟩, c, d⟩; exact ⟨⟨c, by omega⟩, a, by omega⟩)

end CueVerif.Modzip
