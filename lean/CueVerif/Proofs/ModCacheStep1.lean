import CueVerif.Proofs.ModCacheBase
/-! C16: `Inv` is preserved by the transitions of each program point (part 1) -/
namespace CueVerif.ModCache

theorem inv_idle {n s t c s' o} (h : Inv n s) (hp : s.pc t = .idle)
    (hn : next n s t c = some (s', o)) : Inv n s' := by
  open_next
  all_goals step_pre
  all_goals step_main

theorem inv_fStatDir {n s t c s' o} (h : Inv n s) (hp : s.pc t = .fStatDir)
    (hn : next n s t c = some (s', o)) : Inv n s' := by
  open_next
  all_goals step_pre
  all_goals step_main

theorem inv_fStatMark {n s t c s' o} (h : Inv n s) (hp : s.pc t = .fStatMark)
    (hn : next n s t c = some (s', o)) : Inv n s' := by
  open_next
  all_goals step_pre
  all_goals step_main

theorem inv_cStatDir {n s t c s' o} (h : Inv n s) (hp : s.pc t = .cStatDir)
    (hn : next n s t c = some (s', o)) : Inv n s' := by
  open_next
  all_goals step_pre
  all_goals step_main

theorem inv_cStatMark {n s t c s' o} (h : Inv n s) (hp : s.pc t = .cStatMark)
    (hn : next n s t c = some (s', o)) : Inv n s' := by
  open_next
  all_goals step_pre
  all_goals step_main

theorem inv_zEnter {n s t c s' o} (h : Inv n s) (hp : s.pc t = .zEnter)
    (hn : next n s t c = some (s', o)) : Inv n s' := by
  open_next
  all_goals step_pre
  all_goals step_main

theorem inv_zStat1 {n s t c s' o} (h : Inv n s) (hp : s.pc t = .zStat1)
    (hn : next n s t c = some (s', o)) : Inv n s' := by
  open_next
  all_goals step_pre
  all_goals step_main

theorem inv_zLock {n s t c s' o} (h : Inv n s) (hp : s.pc t = .zLock)
    (hn : next n s t c = some (s', o)) : Inv n s' := by
  open_next
  all_goals step_pre
  all_goals step_main

theorem inv_zStat2 {n s t c s' o} (h : Inv n s) (hp : s.pc t = .zStat2)
    (hn : next n s t c = some (s', o)) : Inv n s' := by
  open_next
  all_goals step_pre
  all_goals step_main

theorem inv_zClean {n s t c s' o} (h : Inv n s) (hp : s.pc t = .zClean)
    (hn : next n s t c = some (s', o)) : Inv n s' := by
  open_next
  all_goals step_pre
  all_goals step_main

end CueVerif.ModCache
