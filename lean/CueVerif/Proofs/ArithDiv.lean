/-
C06 helper lemmas, part B: div/mod (Euclidean) and quo/rem (truncated) identities for all
operand signs, zero divisors.  Core Lean only.
-/
import CueVerif.Model.DecArith
import CueVerif.Spec.Arith
namespace CueVerif.Proofs.ArithDiv
open CueVerif CueVerif.Arith CueVerif.Spec.Arith

/-- `big.Int.Div/Mod` semantics satisfy the spec's Euclidean identity -/
theorem div_mod (x y : Int) (hy : y ≠ 0) : EuclidSpec x y (intFn .div x y) (intFn .mod x y) := by
  refine ⟨?_, ?_, ?_⟩
  · show x = y * (x / y) + x % y
    have := Int.mul_ediv_add_emod x y
    omega
  · exact Int.emod_nonneg x hy
  · exact Int.emod_lt x hy

theorem tmod_sign (x y : Int) : Int.tmod x y = 0 ∨ (Int.tmod x y).sign = x.sign := by
  rcases Int.lt_trichotomy x 0 with hx | hx | hx
  · -- x < 0: tmod ≤ 0
    have h1 : Int.tmod x y ≤ 0 := by
      have := Int.tmod_nonneg (a := -x) y (by omega)
      rw [Int.neg_tmod] at this
      omega
    rcases Int.lt_or_eq_of_le h1 with h | h
    · right; rw [Int.sign_eq_neg_one_of_neg h, Int.sign_eq_neg_one_of_neg hx]
    · left; exact h
  · subst hx; left; simp
  · have h1 : 0 ≤ Int.tmod x y := Int.tmod_nonneg y (by omega)
    rcases Int.lt_or_eq_of_le h1 with h | h
    · right; rw [Int.sign_eq_one_of_pos h, Int.sign_eq_one_of_pos hx]
    · left; exact h.symm

/-- `big.Int.Quo/Rem` semantics satisfy the spec's truncated identity -/
theorem quo_rem (x y : Int) (hy : y ≠ 0) : TruncSpec x y (intFn .quo x y) (intFn .rem x y) := by
  refine ⟨?_, ?_, tmod_sign x y⟩
  · show x = Int.tdiv x y * y + Int.tmod x y
    have := Int.mul_tdiv_add_tmod x y
    rw [Int.mul_comm] at this
    omega
  · show (Int.tmod x y).natAbs < y.natAbs
    rw [Int.natAbs_tmod]
    exact Nat.mod_lt _ (by omega)

/-- the quotient is truncated towards zero: `|q·y| ≤ |x|` and `q` has the sign of `x/y` or is 0 -/
theorem quo_trunc (x y : Int) : (Int.tdiv x y * y).natAbs ≤ x.natAbs := by
  rw [Int.natAbs_mul, Int.natAbs_tdiv]
  exact Nat.div_mul_le_self _ _

theorem intDivOp_spec (op : IOp) (a b : Num) (ha : a.k = .int) (hb : b.k = .int)
    (hz : b.d.coeff ≠ 0) :
    intDivOp op a b = .num ⟨.int, Dec.ofInt (intFn op (toIntegral a.d) (toIntegral b.d))⟩ := by
  simp [intDivOp, ha, hb, hz]

theorem toIntegral_of_nonneg (d : Dec) (h : 0 ≤ d.exp) : toIntegral d = d.coeff * 10 ^ d.exp.toNat := by
  simp [toIntegral, h]

theorem toIntegral_ne_zero (d : Dec) (h : 0 ≤ d.exp) (hz : d.coeff ≠ 0) : toIntegral d ≠ 0 := by
  rw [toIntegral_of_nonneg d h]
  have : (10 : Int) ^ d.exp.toNat ≠ 0 := Int.pow_ne_zero (by decide)
  exact Int.mul_ne_zero hz this

/-- every division form is an error on a zero divisor -/
theorem zero_div (a b : Num) (hz : b.d.coeff = 0) :
    (∀ op, ∃ e, intDivOp op a b = .err e) ∧ quoOp a b = .err .divZero := by
  refine ⟨fun op => ?_, ?_⟩
  · unfold intDivOp
    by_cases hk : (a.k != .int || b.k != .int) = true
    · exact ⟨.argKind, by simp [hk]⟩
    · exact ⟨.divZero, by simp [hk, hz]⟩
  · simp [quoOp, hz]

/-- … and only then (for int operands): no spurious errors -/
theorem intDivOp_ok (op : IOp) (a b : Num) (ha : a.k = .int) (hb : b.k = .int)
    (hz : b.d.coeff ≠ 0) : ∃ n, intDivOp op a b = .num n ∧ n.k = .int ∧ n.d.exp = 0 :=
  ⟨_, intDivOp_spec op a b ha hb hz, rfl, rfl⟩

end CueVerif.Proofs.ArithDiv
