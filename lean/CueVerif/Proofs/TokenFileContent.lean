/-
The line table the scanner builds is the content-based one (C09): its entries are exactly
offset 0 and the offsets after the line feed bytes that lie inside the text.  Core Lean only.
-/
import CueVerif.Proofs.TokenFile
namespace CueVerif.TokenFile

theorem mem_newlineOffsets : ∀ (c : List Nat) (off x : Int),
    x ∈ newlineOffsets c off ↔ ∃ i : Nat, c[i]? = some 10 ∧ x = off + (i : Int) + 1 := by
  intro c
  induction c with
  | nil => intro off x; simp [newlineOffsets]
  | cons b rest ih =>
    intro off x
    unfold newlineOffsets
    rw [List.mem_append, ih]
    constructor
    · rintro (h | ⟨i, hi, hx⟩)
      · split at h
        · rename_i hb
          simp only [List.mem_singleton] at h
          refine ⟨0, ?_, by omega⟩
          simp only [List.getElem?_cons_zero]
          have : b = 10 := by simpa using hb
          rw [this]
        · simp at h
      · exact ⟨i + 1, by simpa using hi, by omega⟩
    · rintro ⟨i, hi, hx⟩
      cases i with
      | zero =>
        left
        simp only [List.getElem?_cons_zero, Option.some.injEq] at hi
        subst hi
        simp only [beq_self_eq_true, if_true, List.mem_singleton]
        omega
      | succ j =>
        right
        exact ⟨j, by simpa using hi, by omega⟩

theorem newlineOffsets_gt (c : List Nat) (off x : Int) (h : x ∈ newlineOffsets c off) : off < x := by
  obtain ⟨i, _, hx⟩ := (mem_newlineOffsets c off x).mp h
  omega

theorem newlineOffsets_sorted : ∀ (c : List Nat) (off : Int), (newlineOffsets c off).Pairwise (· < ·) := by
  intro c
  induction c with
  | nil => intro off; simp [newlineOffsets]
  | cons b rest ih =>
    intro off
    unfold newlineOffsets
    rw [List.pairwise_append]
    refine ⟨by split <;> simp, ih _, ?_⟩
    intro a ha y hy
    have := newlineOffsets_gt rest (off + 1) y hy
    split at ha
    · simp only [List.mem_singleton] at ha; omega
    · simp at ha

theorem lastLt_of_all (lines : List Int) (x : Int) (h : ∀ l ∈ lines, l < x) : lastLt lines x = true := by
  unfold lastLt
  split
  · rfl
  · rename_i l hl
    have : l ∈ lines := List.mem_of_getLast? hl
    simpa using h l this

/-- `AddLine` calls with strictly increasing offsets above everything in the table append
exactly the offsets below the file size -/
theorem addLines_sorted : ∀ (offs : List Int) (f : File), offs.Pairwise (· < ·) →
    (∀ x ∈ offs, ∀ l ∈ f.lines, l < x) →
    (addLines f offs).lines = f.lines ++ offs.filter (fun x => decide (x < f.size)) := by
  intro offs
  induction offs with
  | nil => intro f _ _; simp [addLines]
  | cons o rest ih =>
    intro f hs hgt
    rw [List.pairwise_cons] at hs
    have hl := lastLt_of_all f.lines o (fun l hl => hgt o (by simp) l hl)
    show (addLines (addLine f o) rest).lines = _
    unfold addLine
    by_cases ho : o < f.size
    · simp only [hl, ho, decide_true, Bool.and_self, if_true]
      rw [ih _ hs.2]
      · simp [List.filter_cons, ho]
      · intro x hx l hl'
        simp only [List.mem_append, List.mem_singleton] at hl'
        rcases hl' with h | h
        · exact hgt x (by simp [hx]) l h
        · subst h; exact hs.1 x hx
    · simp only [hl, ho, decide_false, Bool.and_false, Bool.false_eq_true, if_false]
      rw [ih _ hs.2 (fun x hx l hl' => hgt x (by simp [hx]) l hl')]
      simp [List.filter_cons, ho]

/-- the table built by the scanner, as a list -/
theorem scannedFile_lines (c : List Nat) :
    (scannedFile c).lines = 0 :: (newlineOffsets c 0).filter (fun x => decide (x < (c.length : Int))) := by
  unfold scannedFile
  rw [addLines_sorted _ _ (newlineOffsets_sorted c 0)]
  · rfl
  · intro x hx l hl
    simp only [newFile, List.mem_singleton] at hl
    subst hl
    exact newlineOffsets_gt c 0 x hx

/-- … and by content: its entries are exactly the line starts of the text -/
theorem mem_scannedFile_lines (c : List Nat) (x : Int) : x ∈ (scannedFile c).lines ↔ IsLineStart c x := by
  rw [scannedFile_lines]
  simp only [List.mem_cons, List.mem_filter, decide_eq_true_eq, mem_newlineOffsets]
  unfold IsLineStart
  constructor
  · rintro (h | ⟨⟨i, hi, hx⟩, hlt⟩)
    · exact Or.inl h
    · exact Or.inr ⟨i, hi, by omega, by omega⟩
  · rintro (h | ⟨i, hi, hx, hlt⟩)
    · exact Or.inl h
    · exact Or.inr ⟨⟨i, hi, by omega⟩, by omega⟩

theorem scannedFile_wf (c : List Nat) : WF (scannedFile c) :=
  addLines_wf _ _ (newFile_wf _ (by omega))

/-- in a well-formed table, the start of the reported line is the GREATEST table entry that is
≤ the offset -/
theorem good_greatest (f : File) (hwf : WF f) (o : Int) (p : Position) (g : GoodPosition f o p)
    (x : Int) (hx : x ∈ f.lines) (hxo : x ≤ o) : x ≤ o - (p.column - 1) := by
  obtain ⟨_, _, _, a1, a2, a3, a4, a5⟩ := g
  obtain ⟨k, hk⟩ := List.getElem?_of_mem hx
  rcases Nat.lt_trichotomy k (p.line - 1).toNat with hlt | heq | hgt
  · have := sorted_get f.lines hwf.sorted _ _ _ _ hlt hk a4
    omega
  · rw [heq] at hk; rw [hk] at a4; have := Option.some.inj a4; omega
  · exfalso
    have hkb : k < f.lines.length := (List.getElem?_eq_some_iff.mp hk).1
    have hlb : p.line.toNat < f.lines.length := by omega
    obtain ⟨w, hw⟩ : ∃ w, f.lines[p.line.toNat]? = some w := ⟨_, List.getElem?_eq_getElem hlb⟩
    have h5 := a5 w hw
    rcases Nat.lt_or_ge p.line.toNat k with h | h
    · have := sorted_get f.lines hwf.sorted _ _ _ _ h hw hk; omega
    · have hk' : k = p.line.toNat := by omega
      rw [hk'] at hk; rw [hk] at hw; have := Option.some.inj hw; omega

/-- `Position` on the table the scanner builds for the text `c`, characterised by the CONTENT:
the reported line starts at a line start of the text (offset 0 or just after a line feed), and
no line start of the text lies between it and the offset -/
theorem position_content (c : List Nat) (o rel : Int) (hr0 : 0 ≤ rel) (hr1 : rel < 64) :
    ∃ p, position (scannedFile c) (pos (scannedFile c) o rel) = .ok p ∧
      GoodPosition (scannedFile c) (fixOffset (scannedFile c) o) p ∧
      IsLineStart c (p.offset - (p.column - 1)) ∧
      (∀ x, IsLineStart c x → x ≤ p.offset → x ≤ p.offset - (p.column - 1)) := by
  obtain ⟨p, hp, hg⟩ := position_good (scannedFile c) (scannedFile_wf c) o rel hr0 hr1
  refine ⟨p, hp, hg, ?_, ?_⟩
  · rw [← mem_scannedFile_lines]
    have h1 := hg.1
    have h7 := hg.2.2.2.2.2.2.1
    rw [h1]
    exact List.mem_of_getElem? h7
  · intro x hx hxo
    rw [← mem_scannedFile_lines] at hx
    have h1 := hg.1
    rw [h1] at hxo ⊢
    exact good_greatest _ (scannedFile_wf c) _ p hg x hx hxo

theorem linesForContentLoop_eq : ∀ (c : List Nat) (line off : Int), 0 ≤ off →
    linesForContentLoop c line off =
      (if c ≠ [] ∧ 0 ≤ line then [line] else []) ++
        (newlineOffsets c off).filter (fun x => decide (x < off + (c.length : Int))) := by
  intro c
  induction c with
  | nil => intro line off _; simp [linesForContentLoop, newlineOffsets]
  | cons b rest ih =>
    intro line off hoff
    unfold linesForContentLoop newlineOffsets
    dsimp only
    rw [ih _ (off + 1) (by omega)]
    have hf : ∀ x : Int, decide (x < off + 1 + (rest.length : Int)) = decide (x < off + ((b :: rest).length : Int)) := by
      intro x; rw [decide_eq_decide]; simp only [List.length_cons]; omega
    simp only [List.filter_append, hf]
    by_cases hb : b = 10
    · subst hb
      cases rest with
      | nil => simp [newlineOffsets]
      | cons r rs =>
        have : (0:Int) ≤ off + 1 := by omega
        simp [List.filter_cons, this]
        have h1 : (1 : Int) < (rs.length : Int) + 1 + 1 := by omega
        simp [h1]
    · have hb' : (b == 10) = false := by simpa using hb
      simp [hb']

/-- for a non-empty text, `SetLinesForContent` yields the same table as the scanner -/
theorem setLinesForContent_eq_scanned (f : File) (c : List Nat) (hc : c ≠ []) :
    (setLinesForContent f c).lines = (scannedFile c).lines := by
  rw [scannedFile_lines]
  unfold setLinesForContent
  dsimp only
  rw [linesForContentLoop_eq c 0 0 (by omega)]
  simp [hc]

end CueVerif.TokenFile
