import CueVerif.Model.Dec
/-!
Lemmas about the exact decimal model `CueVerif.Dec` (core Lean only).
-/
namespace CueVerif.Dec

open Std

theorem ten_pow_pos (n : Nat) : (0 : Int) < 10 ^ n := Int.pow_pos (by decide)

/-! ### `compare` on `Int` -/

theorem compare_mul_right (x y p : Int) (hp : 0 < p) :
    compare (x * p) (y * p) = compare x y := by
  rcases Int.lt_trichotomy x y with h | h | h
  · rw [Int.compare_eq_lt.2 h, Int.compare_eq_lt]
    exact Int.mul_lt_mul_of_pos_right h hp
  · subst h
    rw [Int.compare_eq_eq.2 rfl, Int.compare_eq_eq.2 rfl]
  · rw [Int.compare_eq_gt.2 h, Int.compare_eq_gt]
    exact Int.mul_lt_mul_of_pos_right h hp

theorem compare_congr (x y x' y' : Int) (h1 : x < y ↔ x' < y') (h2 : y < x ↔ y' < x') :
    compare x y = compare x' y' := by
  rcases Int.lt_trichotomy x y with h | h | h
  · rw [Int.compare_eq_lt.2 h, Int.compare_eq_lt.2 (h1.1 h)]
  · have e : x' = y' := by
      rcases Int.lt_trichotomy x' y' with h' | h' | h'
      · have := h1.2 h'; omega
      · exact h'
      · have := h2.2 h'; omega
    rw [Int.compare_eq_eq.2 h, Int.compare_eq_eq.2 e]
  · rw [Int.compare_eq_gt.2 h, Int.compare_eq_gt.2 (h2.1 h)]

/-! ### `shift` and `cmp` -/

/-- re-scaling: for e' ≤ e ≤ d.exp -/
theorem shift_shift (d : Dec) (e e' : Int) (h1 : e' ≤ e) (h2 : e ≤ d.exp) :
    shift d e' = shift d e * 10 ^ (e - e').toNat := by
  unfold shift
  have : (d.exp - e').toNat = (d.exp - e).toNat + (e - e').toNat := by omega
  rw [this, Int.pow_add, Int.mul_assoc]

theorem shift_self (d : Dec) : shift d d.exp = d.coeff := by
  simp [shift]

theorem shift_ofInt (n e : Int) : shift (ofInt n) e = n * 10 ^ (-e).toNat := by
  simp [shift, ofInt]

theorem shift_ofInt_zero (n : Int) : shift (ofInt n) 0 = n := by
  simp [shift, ofInt]

/-- comparison can be done at ANY common exponent below both -/
theorem cmp_at (a b : Dec) (e : Int) (ha : e ≤ a.exp) (hb : e ≤ b.exp) :
    cmp a b = compare (shift a e) (shift b e) := by
  unfold cmp
  have hm : e ≤ min a.exp b.exp := by omega
  rw [shift_shift a (min a.exp b.exp) e hm (by omega),
    shift_shift b (min a.exp b.exp) e hm (by omega),
    compare_mul_right _ _ _ (ten_pow_pos _)]

instance : OrientedCmp Dec.cmp where
  eq_swap {a b} := by
    rw [cmp_at a b (min a.exp b.exp) (by omega) (by omega),
      cmp_at b a (min a.exp b.exp) (by omega) (by omega), Int.compare_swap]

instance : TransCmp Dec.cmp where
  isLE_trans {a b c} h1 h2 := by
    have ha : min a.exp (min b.exp c.exp) ≤ a.exp := by omega
    have hb : min a.exp (min b.exp c.exp) ≤ b.exp := by omega
    have hc : min a.exp (min b.exp c.exp) ≤ c.exp := by omega
    rw [cmp_at _ _ _ ha hb] at h1
    rw [cmp_at _ _ _ hb hc] at h2
    rw [cmp_at _ _ _ ha hc]
    exact TransCmp.isLE_trans h1 h2

theorem cmp_ofInt_ofInt (m n : Int) : cmp (ofInt m) (ofInt n) = compare m n := by
  rw [cmp_at _ _ 0 (by simp [ofInt]) (by simp [ofInt]), shift_ofInt_zero, shift_ofInt_zero]


theorem sub_exp (a b : Dec) : (sub a b).exp = min a.exp b.exp := rfl
theorem sub_coeff (a b : Dec) :
    (sub a b).coeff = shift a (min a.exp b.exp) - shift b (min a.exp b.exp) := rfl

theorem shift_sub (a b : Dec) (e : Int) (ha : e ≤ a.exp) (hb : e ≤ b.exp) :
    shift (sub a b) e = shift a e - shift b e := by
  have hm : e ≤ min a.exp b.exp := by omega
  rw [shift_shift a (min a.exp b.exp) e hm (by omega),
    shift_shift b (min a.exp b.exp) e hm (by omega), ← Int.sub_mul]
  rfl

theorem sub_coeff_neg_iff (a b : Dec) : (sub a b).coeff < 0 ↔ cmp a b = .lt := by
  rw [sub_coeff, cmp, Int.compare_eq_lt]
  omega

theorem cmp_sub_zero (a b : Dec) : cmp (sub a b) (ofInt 0) = cmp a b := by
  have h0 : (ofInt 0).exp = 0 := rfl
  have ha : min (min a.exp b.exp) 0 ≤ a.exp := by omega
  have hb : min (min a.exp b.exp) 0 ≤ b.exp := by omega
  rw [cmp_at (sub a b) (ofInt 0) (min (min a.exp b.exp) 0) (by rw [sub_exp]; omega) (by omega),
    cmp_at a b _ ha hb, shift_sub a b _ ha hb, shift_ofInt, Int.zero_mul]
  apply compare_congr <;> omega

/-! ### integers vs decimals -/

theorem floor_of_nonneg (a : Dec) (h : 0 ≤ a.exp) : floor a = shift a 0 := by
  simp [floor, shift, h]

theorem floor_of_neg (a : Dec) (h : a.exp < 0) : floor a = a.coeff / 10 ^ (-a.exp).toNat := by
  have : ¬ 0 ≤ a.exp := by omega
  simp [floor, this]

theorem ceil_of_nonneg (a : Dec) (h : 0 ≤ a.exp) : ceil a = shift a 0 := by
  have : 0 ≤ (neg a).exp := h
  rw [ceil, floor_of_nonneg _ this]
  simp [shift, neg, Int.neg_mul]

theorem ceil_of_neg (a : Dec) (h : a.exp < 0) :
    ceil a = -((-a.coeff) / 10 ^ (-a.exp).toNat) := by
  have : (neg a).exp < 0 := h
  rw [ceil, floor_of_neg _ this]
  rfl

theorem cmp_ofInt_of_nonneg (n : Int) (a : Dec) (h : 0 ≤ a.exp) :
    cmp (ofInt n) a = compare n (shift a 0) := by
  rw [cmp_at (ofInt n) a 0 (Int.le_refl _) h, shift_ofInt_zero]

theorem cmp_ofInt_of_neg (n : Int) (a : Dec) (h : a.exp < 0) :
    cmp (ofInt n) a = compare (n * 10 ^ (-a.exp).toNat) a.coeff := by
  have h0 : (ofInt n).exp = 0 := rfl
  rw [cmp_at (ofInt n) a a.exp (by omega) (Int.le_refl _), shift_ofInt, shift_self]

theorem ofInt_le_iff (n : Int) (a : Dec) : (cmp (ofInt n) a).isLE = true ↔ n ≤ floor a := by
  by_cases h : 0 ≤ a.exp
  · rw [cmp_ofInt_of_nonneg n a h, floor_of_nonneg a h, Int.isLE_compare]
  · have h : a.exp < 0 := by omega
    rw [cmp_ofInt_of_neg n a h, floor_of_neg a h, Int.isLE_compare,
      Int.le_ediv_iff_mul_le (ten_pow_pos _)]

theorem ofInt_gt_iff (n : Int) (a : Dec) : cmp (ofInt n) a = .gt ↔ floor a < n := by
  by_cases h : 0 ≤ a.exp
  · rw [cmp_ofInt_of_nonneg n a h, floor_of_nonneg a h, Int.compare_eq_gt]
  · have h : a.exp < 0 := by omega
    rw [cmp_ofInt_of_neg n a h, floor_of_neg a h, Int.compare_eq_gt,
      Int.ediv_lt_iff_lt_mul (ten_pow_pos _)]

theorem ofInt_ge_iff (n : Int) (a : Dec) : (cmp (ofInt n) a).isGE = true ↔ ceil a ≤ n := by
  by_cases h : 0 ≤ a.exp
  · rw [cmp_ofInt_of_nonneg n a h, ceil_of_nonneg a h, Int.isGE_compare]
  · have h : a.exp < 0 := by omega
    rw [cmp_ofInt_of_neg n a h, ceil_of_neg a h, Int.isGE_compare]
    have := Int.le_ediv_iff_mul_le (a := -n) (b := -a.coeff) (ten_pow_pos (-a.exp).toNat)
    rw [Int.neg_mul] at this
    omega

theorem ofInt_lt_iff (n : Int) (a : Dec) : cmp (ofInt n) a = .lt ↔ n < ceil a := by
  by_cases h : 0 ≤ a.exp
  · rw [cmp_ofInt_of_nonneg n a h, ceil_of_nonneg a h, Int.compare_eq_lt]
  · have h : a.exp < 0 := by omega
    rw [cmp_ofInt_of_neg n a h, ceil_of_neg a h, Int.compare_eq_lt]
    have := Int.ediv_lt_iff_lt_mul (a := -a.coeff) (b := -n) (ten_pow_pos (-a.exp).toNat)
    rw [Int.neg_mul] at this
    omega


theorem isInt_of_exp_nonneg (a : Dec) (h : 0 ≤ a.exp) : isInt a = true := by
  simp [isInt, h]

theorem isInt_of_exp_neg (a : Dec) (h : a.exp < 0) :
    isInt a = (a.coeff % 10 ^ (-a.exp).toNat == 0) := by
  have : ¬ 0 ≤ a.exp := by omega
  simp [isInt, this]

theorem dvd_of_isInt (a : Dec) (h : a.exp < 0) (hi : isInt a = true) :
    10 ^ (-a.exp).toNat ∣ a.coeff := by
  rw [isInt_of_exp_neg a h] at hi
  exact Int.dvd_of_emod_eq_zero (by simpa using hi)

theorem not_dvd_of_not_isInt (a : Dec) (hi : isInt a = false) :
    a.exp < 0 ∧ ¬ 10 ^ (-a.exp).toNat ∣ a.coeff := by
  by_cases h : 0 ≤ a.exp
  · rw [isInt_of_exp_nonneg a h] at hi; cases hi
  · have h : a.exp < 0 := by omega
    refine ⟨h, fun hd => ?_⟩
    rw [isInt_of_exp_neg a h, Int.emod_eq_zero_of_dvd hd] at hi
    simp at hi

theorem cmp_ofInt_floor_of_isInt (a : Dec) (h : isInt a = true) :
    cmp (ofInt (floor a)) a = .eq := by
  by_cases he : 0 ≤ a.exp
  · rw [cmp_ofInt_of_nonneg _ a he, floor_of_nonneg a he, Int.compare_eq_eq]
  · have he : a.exp < 0 := by omega
    rw [cmp_ofInt_of_neg _ a he, floor_of_neg a he, Int.compare_eq_eq,
      Int.ediv_mul_cancel (dvd_of_isInt a he h)]

theorem cmp_floor_of_isInt (a : Dec) (h : isInt a = true) : cmp a (ofInt (floor a)) = .eq := by
  rw [OrientedCmp.eq_swap (cmp := cmp), cmp_ofInt_floor_of_isInt a h]
  rfl

theorem ceil_eq_floor_of_isInt (a : Dec) (h : isInt a = true) : ceil a = floor a := by
  by_cases he : 0 ≤ a.exp
  · rw [ceil_of_nonneg a he, floor_of_nonneg a he]
  · have he : a.exp < 0 := by omega
    rw [ceil_of_neg a he, floor_of_neg a he, Int.neg_ediv_of_dvd (dvd_of_isInt a he h),
      Int.neg_neg]

theorem ceil_eq_floor_add_one (a : Dec) (h : isInt a = false) : ceil a = floor a + 1 := by
  obtain ⟨he, hd⟩ := not_dvd_of_not_isInt a h
  rw [ceil_of_neg a he, floor_of_neg a he, Int.neg_ediv, if_neg hd,
    Int.sign_eq_one_of_pos (ten_pow_pos _)]
  omega

theorem intVal?_eq_some (d : Dec) (z : Int) (h : intVal? d = some z) : cmp d (ofInt z) = .eq := by
  unfold intVal? at h
  split at h
  · next hi =>
    cases h
    exact cmp_floor_of_isInt d hi
  · cases h

theorem cmp_eq_iff_at (a b : Dec) (e : Int) (ha : e ≤ a.exp) (hb : e ≤ b.exp) :
    cmp a b = .eq ↔ shift a e = shift b e := by
  rw [cmp_at a b e ha hb, Int.compare_eq_eq]

/-- subtraction respects value-equality with integers -/
theorem cmp_sub_ofInt (hi lo : Dec) (H L : Int) (h1 : cmp hi (ofInt H) = .eq)
    (h2 : cmp lo (ofInt L) = .eq) : cmp (sub hi lo) (ofInt (H - L)) = .eq := by
  have hH : (ofInt H).exp = 0 := rfl
  have hL : (ofInt L).exp = 0 := rfl
  have hHL : (ofInt (H - L)).exp = 0 := rfl
  have ha : min (min hi.exp lo.exp) 0 ≤ hi.exp := by omega
  have hb : min (min hi.exp lo.exp) 0 ≤ lo.exp := by omega
  have h0 : min (min hi.exp lo.exp) 0 ≤ 0 := by omega
  rw [cmp_eq_iff_at _ _ _ ha (by omega)] at h1
  rw [cmp_eq_iff_at _ _ _ hb (by omega)] at h2
  rw [cmp_eq_iff_at _ _ (min (min hi.exp lo.exp) 0) (by rw [sub_exp]; omega) (by omega),
    shift_sub _ _ _ ha hb, h1, h2, shift_ofInt, shift_ofInt, shift_ofInt, Int.sub_mul]

theorem sub34_eq (a b d : Dec) (h : sub34 a b = some d) : d = sub a b := by
  simp only [sub34] at h
  split at h
  · cases h
  · cases h; rfl


theorem roundHalfUp_of_lt (p : Nat) (d : Dec) (h : d.coeff.natAbs < 10 ^ p) :
    roundHalfUp p d = (d, false) := by
  simp only [roundHalfUp]
  rw [if_pos h]

theorem trunc_of_isInt (d : Dec) (h : isInt d = true) : trunc d = floor d := by
  unfold trunc
  split
  · rfl
  · exact ceil_eq_floor_of_isInt d h

theorem coeff_ne_zero_of_not_isInt (d : Dec) (h : isInt d = false) : d.coeff ≠ 0 := by
  intro h0
  have := (not_dvd_of_not_isInt d h).2
  rw [h0] at this
  exact this (Int.dvd_zero _)

/-- a rounding that is not Inexact preserves the value -/
theorem roundHalfUp_exact (p : Nat) (d : Dec) (h : (roundHalfUp p d).2 = false) :
    cmp (roundHalfUp p d).1 d = .eq := by
  unfold roundHalfUp at h ⊢
  by_cases hm : d.coeff.natAbs < 10 ^ p
  · simp only [hm, if_true]; exact ReflCmp.compare_self
  · simp only [hm, if_false] at h ⊢
    generalize numDigits d.coeff.natAbs - p = k at h ⊢
    have hr : d.coeff.natAbs % 10 ^ k = 0 := by simpa using h
    have hpos : 0 < 10 ^ k := Nat.pow_pos (by decide)
    have hq : ¬ (10 ^ k ≤ 2 * (d.coeff.natAbs % 10 ^ k)) := by rw [hr]; omega
    simp only [hq, if_false]
    have hmq : (d.coeff.natAbs / 10 ^ k) * 10 ^ k = d.coeff.natAbs :=
      Nat.div_mul_cancel (Nat.dvd_of_mod_eq_zero hr)
    have hmq' : ((d.coeff.natAbs / 10 ^ k : Nat) : Int) * (10 : Int) ^ k = (d.coeff.natAbs : Int) := by
      have := congrArg (fun n : Nat => (n : Int)) hmq
      simpa [Int.natCast_mul, Int.natCast_pow] using this
    rw [cmp_eq_iff_at _ _ d.exp (by simp only []; omega) (Int.le_refl _), shift_self]
    simp only [shift]
    have e : (d.exp + (k : Int) - d.exp).toNat = k := by omega
    rw [e]
    by_cases hneg : d.coeff < 0
    · simp only [hneg, if_true]
      rw [Int.neg_mul, hmq']; omega
    · simp only [hneg, if_false]
      rw [hmq']; omega

theorem roundInt34_eq (z : Int) (x : Dec) (h : roundInt34 z = some x) : cmp x (ofInt z) = .eq := by
  unfold roundInt34 at h
  simp only at h
  split at h
  · cases h
  · rename_i hr
    cases h
    exact roundHalfUp_exact _ _ (by simpa using hr)

/-- when `BaseContext.Ceil` is not Inexact its result is the ceiling -/
theorem ceil34?_eq (d x : Dec) (h : ceil34? d = some x) : cmp x (ofInt (ceil d)) = .eq := by
  unfold ceil34? at h
  cases hi : isInt d
  · have hc := ceil_eq_floor_add_one d hi
    have hne := coeff_ne_zero_of_not_isInt d hi
    rw [hi, if_neg (by simp)] at h
    by_cases hp : 0 < d.coeff
    · have ht : trunc d = floor d := by unfold trunc; rw [if_pos (by omega)]
      rw [if_pos hp, ht, ← hc] at h
      exact roundInt34_eq _ _ h
    · have ht : trunc d = ceil d := by unfold trunc; rw [if_neg (by omega)]
      rw [if_neg hp, ht] at h
      cases h; exact ReflCmp.compare_self
  · rw [hi, if_pos rfl, trunc_of_isInt d hi, ← ceil_eq_floor_of_isInt d hi] at h
    cases h; exact ReflCmp.compare_self

theorem floor34?_eq (d x : Dec) (h : floor34? d = some x) : cmp x (ofInt (floor d)) = .eq := by
  unfold floor34? at h
  cases hi : isInt d
  · have hc := ceil_eq_floor_add_one d hi
    have hne := coeff_ne_zero_of_not_isInt d hi
    rw [hi, if_neg (by simp)] at h
    by_cases hp : d.coeff < 0
    · have ht : trunc d = ceil d := by unfold trunc; rw [if_neg (by omega)]
      have e : trunc d - 1 = floor d := by omega
      rw [if_pos hp, e] at h
      exact roundInt34_eq _ _ h
    · have ht : trunc d = floor d := by unfold trunc; rw [if_pos (by omega)]
      rw [if_neg hp, ht] at h
      cases h; exact ReflCmp.compare_self
  · rw [hi, if_pos rfl, trunc_of_isInt d hi] at h
    cases h; exact ReflCmp.compare_self


theorem shift_neg (a : Dec) (e : Int) : shift (neg a) e = - shift a e := by
  simp [shift, neg, Int.neg_mul]

theorem cmp_neg (a b : Dec) : cmp (neg a) (neg b) = cmp b a := by
  have ha : min a.exp b.exp ≤ a.exp := by omega
  have hb : min a.exp b.exp ≤ b.exp := by omega
  rw [cmp_at (neg a) (neg b) (min a.exp b.exp) ha hb, cmp_at b a (min a.exp b.exp) hb ha,
    shift_neg, shift_neg]
  apply compare_congr <;> omega

theorem floor_le_ceil (a : Dec) : floor a ≤ ceil a := by
  cases h : isInt a
  · rw [ceil_eq_floor_add_one a h]; omega
  · rw [ceil_eq_floor_of_isInt a h]; omega

theorem add_exp (a b : Dec) : (add a b).exp = min a.exp b.exp := rfl

theorem shift_add (a b : Dec) (e : Int) (ha : e ≤ a.exp) (hb : e ≤ b.exp) :
    shift (add a b) e = shift a e + shift b e := by
  have hm : e ≤ min a.exp b.exp := by omega
  rw [shift_shift a (min a.exp b.exp) e hm (by omega),
    shift_shift b (min a.exp b.exp) e hm (by omega), ← Int.add_mul]
  rfl

theorem cmp_add_right (a b c : Dec) : cmp (add a c) (add b c) = cmp a b := by
  have ha : min a.exp (min b.exp c.exp) ≤ a.exp := by omega
  have hb : min a.exp (min b.exp c.exp) ≤ b.exp := by omega
  have hc : min a.exp (min b.exp c.exp) ≤ c.exp := by omega
  rw [cmp_at (add a c) (add b c) (min a.exp (min b.exp c.exp))
      (by rw [add_exp]; omega) (by rw [add_exp]; omega),
    cmp_at a b _ ha hb, shift_add _ _ _ ha hc, shift_add _ _ _ hb hc]
  apply compare_congr <;> omega

end CueVerif.Dec
