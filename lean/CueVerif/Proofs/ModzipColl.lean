import CueVerif.Spec.Modzip
/-!
C15, collision freedom: the names `checkZip` / `checkFiles` report as valid are pairwise
distinct under case folding and none of them is (up to case folding) a directory another
valid name lies in.

Self-contained (needs nothing from `Proofs/ModzipPath.lean`): the few facts about
`splitOn` / `joinSlash` / `pathDir` used here are proved locally under `Coll.`-prefixed names.
-/
namespace CueVerif.Modzip

/-! ### path elements, `splitOn` / `joinSlash` -/

/-- an element that `checkFilePath` accepts (as far as this file cares) -/
def GoodElem (e : Str) : Prop := e ≠ [] ∧ e ≠ sDot ∧ e ≠ sDotDot ∧ 47 ∉ e

def GoodElems (es : List Str) : Prop := ∀ e ∈ es, GoodElem e

theorem Coll.splitOn_ne_nil (sep : Nat) (s : Str) : splitOn sep s ≠ [] := by
  induction s with
  | nil => simp [splitOn]
  | cons c cs ih =>
    unfold splitOn
    split
    · simp
    · split <;> simp

theorem Coll.splitOn_noSep (sep : Nat) (s : Str) : ∀ e ∈ splitOn sep s, sep ∉ e := by
  induction s with
  | nil => simp [splitOn]
  | cons c cs ih =>
    unfold splitOn
    split
    · intro e he
      rcases List.mem_cons.mp he with he | he
      · subst he; simp
      · exact ih e he
    · rename_i hc
      split
      · intro e he
        simp only [List.mem_singleton] at he
        subst he
        simp only [List.mem_singleton]
        exact fun h => hc h.symm
      · rename_i h t heq
        intro e he
        rw [heq] at ih
        rcases List.mem_cons.mp he with he | he
        · subst he
          have := ih h List.mem_cons_self
          simp only [List.mem_cons, not_or]
          exact ⟨fun h => hc h.symm, this⟩
        · exact ih e (List.mem_cons_of_mem _ he)

theorem Coll.joinSlash_cons_cons (c : Nat) (h : Str) (t : List Str) :
    joinSlash ((c :: h) :: t) = c :: joinSlash (h :: t) := by
  cases t <;> simp [joinSlash]

theorem Coll.joinSlash_cons_of_ne_nil (e : Str) (es : List Str) (h : es ≠ []) :
    joinSlash (e :: es) = e ++ 47 :: joinSlash es := by
  cases es with
  | nil => exact absurd rfl h
  | cons a as => simp [joinSlash]

theorem Coll.joinSlash_splitOn (p : Str) : joinSlash (splitOn 47 p) = p := by
  induction p with
  | nil => simp [splitOn, joinSlash]
  | cons c cs ih =>
    unfold splitOn
    split
    · rename_i hc
      rw [Coll.joinSlash_cons_of_ne_nil _ _ (Coll.splitOn_ne_nil _ _), ih, hc]
      rfl
    · split
      · rename_i heq
        exact absurd heq (Coll.splitOn_ne_nil _ _)
      · rename_i h t heq
        rw [heq] at ih
        rw [Coll.joinSlash_cons_cons, ih]

theorem Coll.splitOn_cons_of_ne (c : Nat) (cs h : Str) (t : List Str) (hc : c ≠ 47)
    (heq : splitOn 47 cs = h :: t) : splitOn 47 (c :: cs) = (c :: h) :: t := by
  unfold splitOn
  rw [if_neg hc, heq]

theorem Coll.splitOn_self (e : Str) (h : 47 ∉ e) : splitOn 47 e = [e] := by
  induction e with
  | nil => simp [splitOn]
  | cons c cs ih =>
    simp only [List.mem_cons, not_or] at h
    exact Coll.splitOn_cons_of_ne c cs cs [] (fun hc => h.1 hc.symm) (ih h.2)

theorem Coll.splitOn_append_sep (e rest : Str) (h : 47 ∉ e) :
    splitOn 47 (e ++ 47 :: rest) = e :: splitOn 47 rest := by
  induction e with
  | nil => simp [splitOn]
  | cons c cs ih =>
    simp only [List.mem_cons, not_or] at h
    rw [List.cons_append]
    exact Coll.splitOn_cons_of_ne c _ cs _ (fun hc => h.1 hc.symm) (ih h.2)

theorem Coll.splitOn_joinSlash (es : List Str) (hne : es ≠ []) (h : ∀ e ∈ es, 47 ∉ e) :
    splitOn 47 (joinSlash es) = es := by
  induction es with
  | nil => exact absurd rfl hne
  | cons e es ih =>
    cases es with
    | nil => exact Coll.splitOn_self e (h e List.mem_cons_self)
    | cons a as =>
      rw [Coll.joinSlash_cons_of_ne_nil _ _ (by simp),
        Coll.splitOn_append_sep _ _ (h e List.mem_cons_self),
        ih (by simp) (fun x hx => h x (List.mem_cons_of_mem _ hx))]

theorem Coll.joinSlash_concat (es : List Str) (e : Str) (hne : es ≠ []) :
    joinSlash (es ++ [e]) = joinSlash es ++ 47 :: e := by
  induction es with
  | nil => exact absurd rfl hne
  | cons a as ih =>
    cases as with
    | nil => simp [joinSlash]
    | cons b bs =>
      rw [List.cons_append, List.cons_append,
        Coll.joinSlash_cons_of_ne_nil a (b :: (bs ++ [e])) (by simp), ← List.cons_append,
        ih (by simp), Coll.joinSlash_cons_of_ne_nil a (b :: bs) (by simp), List.append_assoc]
      rfl

theorem Coll.length_le_joinSlash (es : List Str) (h : ∀ e ∈ es, e ≠ []) :
    es.length ≤ (joinSlash es).length := by
  induction es with
  | nil => simp
  | cons a as ih =>
    have ha : 0 < a.length := List.length_pos_iff.mpr (h a List.mem_cons_self)
    cases as with
    | nil => simp only [joinSlash, List.length_cons, List.length_nil]; omega
    | cons b bs =>
      rw [Coll.joinSlash_cons_of_ne_nil _ _ (by simp)]
      have := ih (fun x hx => h x (List.mem_cons_of_mem _ hx))
      simp only [List.length_append, List.length_cons] at this ⊢
      omega

/-! ### path.Split / path.Clean / path.Dir on good names -/

theorem Coll.dropWhile_rev_noSlash (e rest : Str) (h : 47 ∉ e) :
    (e.reverse ++ rest).dropWhile (· != 47) = rest.dropWhile (· != 47) := by
  apply List.dropWhile_append_of_pos
  intro a ha
  simp only [bne_iff_ne, ne_eq]
  rintro rfl
  exact h (List.mem_reverse.mp ha)

theorem Coll.pathSplit_noSlash (e : Str) (h : 47 ∉ e) : (pathSplit e).1 = [] := by
  unfold pathSplit
  have := Coll.dropWhile_rev_noSlash e [] h
  simp only [List.append_nil, List.dropWhile_nil] at this
  simp only [this, List.reverse_nil]

theorem Coll.pathSplit_concat (q e : Str) (h : 47 ∉ e) :
    (pathSplit (q ++ 47 :: e)).1 = q ++ [47] := by
  unfold pathSplit
  simp only [List.reverse_append, List.reverse_cons, List.append_assoc, List.singleton_append]
  rw [Coll.dropWhile_rev_noSlash e _ h]
  simp

theorem Coll.cleanElems_good (rooted : Bool) (es rest st : List Str) (h : GoodElems es) :
    cleanElems rooted (es ++ rest) st = cleanElems rooted rest (es.reverse ++ st) := by
  induction es generalizing st with
  | nil => rfl
  | cons e es ih =>
    obtain ⟨h1, h2, h3, _⟩ := h e List.mem_cons_self
    rw [List.cons_append, cleanElems.eq_def]
    have e1 : e.isEmpty = false := by cases e <;> simp_all
    have e2 : (e == sDot) = false := by simpa using h2
    have e3 : (e == sDotDot) = false := by simpa using h3
    simp only [e1, e2, e3, Bool.or_self, Bool.false_eq_true, if_false]
    rw [ih _ (fun x hx => h x (List.mem_cons_of_mem _ hx))]
    simp

theorem Coll.joinSlash_ne_nil (es : List Str) (hne : es ≠ []) (h : GoodElems es) :
    joinSlash es ≠ [] := by
  intro h0
  have := Coll.length_le_joinSlash es (fun e he => (h e he).1)
  rw [h0] at this
  cases es with
  | nil => exact hne rfl
  | cons a as => simp at this

theorem Coll.joinSlash_head (es : List Str) (hne : es ≠ []) (h : GoodElems es) :
    (joinSlash es).head? ≠ some 47 := by
  cases es with
  | nil => exact absurd rfl hne
  | cons a as =>
    obtain ⟨h1, _, _, h4⟩ := h a List.mem_cons_self
    cases a with
    | nil => exact absurd rfl h1
    | cons c cs =>
      rw [Coll.joinSlash_cons_cons]
      simp only [List.head?_cons, ne_eq, Option.some.injEq]
      rintro rfl
      exact h4 List.mem_cons_self

theorem Coll.pathClean_dirSlash (es : List Str) (hne : es ≠ []) (h : GoodElems es) :
    pathClean (joinSlash es ++ [47]) = joinSlash es := by
  have hj : joinSlash es ++ [47] = joinSlash (es ++ [[]]) := (Coll.joinSlash_concat es [] hne).symm
  have hsplit : splitOn 47 (joinSlash es ++ [47]) = es ++ [[]] := by
    rw [hj]
    apply Coll.splitOn_joinSlash _ (by simp)
    intro e he
    rcases List.mem_append.mp he with he | he
    · exact (h e he).2.2.2
    · simp at he; subst he; simp
  have hhead : (joinSlash es ++ [47]).head? ≠ some 47 := by
    have h1 := Coll.joinSlash_ne_nil es hne h
    have h2 := Coll.joinSlash_head es hne h
    cases hq : joinSlash es with
    | nil => exact absurd hq h1
    | cons c cs => rw [hq] at h2; simpa using h2
  have hne' := Coll.joinSlash_ne_nil es hne h
  unfold pathClean
  have e1 : (joinSlash es ++ [47]).isEmpty = false := by simp
  have e2 : ((joinSlash es ++ [47]).head? == some 47) = false := by simpa using hhead
  have e3 : (joinSlash es).isEmpty = false := by simpa using hne'
  simp only [e1, e2, hsplit, Coll.cleanElems_good false es [[]] [] h, List.append_nil]
  simp [cleanElems, e3]

theorem Coll.pathDir_single (e : Str) (h : 47 ∉ e) : pathDir e = sDot := by
  unfold pathDir
  rw [Coll.pathSplit_noSlash e h]
  rfl

theorem Coll.pathDir_concat (es : List Str) (e : Str) (hne : es ≠ []) (h : GoodElems es)
    (he : 47 ∉ e) : pathDir (joinSlash es ++ 47 :: e) = joinSlash es := by
  unfold pathDir
  rw [Coll.pathSplit_concat _ _ he, Coll.pathClean_dirSlash es hne h]

theorem Coll.joinSlash_ne_sDot (es : List Str) (hne : es ≠ []) (h : GoodElems es) :
    joinSlash es ≠ sDot := by
  intro h0
  have h1 := Coll.splitOn_joinSlash es hne (fun e he => (h e he).2.2.2)
  rw [h0] at h1
  have h2 : splitOn 47 sDot = [sDot] := by decide
  rw [h2] at h1
  have := h sDot (by rw [← h1]; exact List.mem_cons_self)
  exact this.2.1 rfl

/-! ### ancestors of a good name -/

theorem Coll.joinSlash_getLast (es : List Str) (hne : es ≠ []) (h : GoodElems es) :
    (joinSlash es).getLast? ≠ some 47 := by
  rcases List.eq_nil_or_concat es with h0 | ⟨es0, e0, h0⟩
  · exact absurd h0 hne
  · rw [List.concat_eq_append] at h0
    subst h0
    obtain ⟨h1, _, _, h4⟩ := h e0 (by simp)
    have key : ∀ q : Str, (q ++ e0).getLast? ≠ some 47 := by
      intro q hq
      rw [List.getLast?_append] at hq
      cases hl : e0.getLast? with
      | none => exact h1 (List.getLast?_eq_none_iff.mp hl)
      | some x =>
        rw [hl] at hq
        simp only [Option.some_or, Option.some.injEq] at hq
        subst hq
        exact h4 (List.mem_of_getLast? hl)
    by_cases hes0 : es0 = []
    · subst hes0
      exact key []
    · rw [Coll.joinSlash_concat _ _ hes0]
      have := key (joinSlash es0 ++ [47])
      simpa using this

theorem Coll.no_ancestor_single (d e : Str) (h : 47 ∉ e) : ¬ IsAncestor d e := by
  rintro ⟨_, r, _, hr⟩
  apply h
  rw [hr]
  simp

theorem Coll.ancestor_concat (d : Str) (es : List Str) (e : Str) (hne : es ≠ [])
    (h : GoodElems es) (he : 47 ∉ e) (ha : IsAncestor d (joinSlash es ++ 47 :: e)) :
    d = joinSlash es ∨ IsAncestor d (joinSlash es) := by
  obtain ⟨hd, r, hr, heq⟩ := ha
  rcases List.append_eq_append_iff.mp heq with ⟨a', h1, h2⟩ | ⟨c', h1, h2⟩
  · cases a' with
    | nil => left; simpa using h1
    | cons x a'' =>
      exfalso
      simp only [List.cons_append, List.cons.injEq] at h2
      apply he
      rw [h2.2]
      simp
  · cases c' with
    | nil => left; simpa using h1.symm
    | cons x c'' =>
      simp only [List.cons_append, List.cons.injEq] at h2
      obtain ⟨hx, h2⟩ := h2
      subst hx
      right
      refine ⟨hd, c'', ?_, h1⟩
      intro hc
      subst hc
      apply Coll.joinSlash_getLast es hne h
      rw [h1]
      simp

/-! ### what `checkFilePath` guarantees -/

theorem Coll.checkElem_none (U : Uni) (e : Str) (h : checkElem U e = none) :
    e ≠ [] ∧ isDotsOnly e = false := by
  unfold checkElem at h
  split at h
  · cases h
  · rename_i h1
    split at h
    · cases h
    · rename_i h2
      refine ⟨?_, by simpa using h2⟩
      intro h0
      subst h0
      simp at h1

theorem Coll.checkElems_none (U : Uni) (es : List Str) (h : checkElems U es = none) :
    ∀ e ∈ es, checkElem U e = none := by
  induction es with
  | nil => simp
  | cons a as ih =>
    unfold checkElems at h
    split at h
    · cases h
    · rename_i ha
      intro e he
      rcases List.mem_cons.mp he with he | he
      · subst he; exact ha
      · exact ih h e he

theorem Coll.checkFilePath_good (U : Uni) (p : Str) (h : checkFilePath U p = none) :
    ∃ es, es ≠ [] ∧ p = joinSlash es ∧ GoodElems es := by
  refine ⟨splitOn 47 p, Coll.splitOn_ne_nil _ _, (Coll.joinSlash_splitOn p).symm, ?_⟩
  have hce : checkElems U (splitOn 47 p) = none := by
    unfold checkFilePath at h
    split at h
    · cases h
    · split at h
      · cases h
      · split at h
        · cases h
        · split at h
          · cases h
          · exact h
  intro e he
  obtain ⟨h1, h2⟩ := Coll.checkElem_none U e (Coll.checkElems_none U _ hce e he)
  refine ⟨h1, ?_, ?_, Coll.splitOn_noSep 47 p e he⟩
  · intro h0; subst h0; revert h2; decide
  · intro h0; subst h0; revert h2; decide

/-! ### the collision map -/

/-- entries are never removed or overwritten -/
def CCMono (cc cc' : CC) : Prop := ∀ k v, ccLookup cc k = some v → ccLookup cc' k = some v

theorem CCMono.refl (cc : CC) : CCMono cc cc := fun _ _ h => h

theorem CCMono.trans {a b c : CC} (h1 : CCMono a b) (h2 : CCMono b c) : CCMono a c :=
  fun k v h => h2 k v (h1 k v h)

theorem Coll.ccLookup_cons_self (cc : CC) (k : List Nat) (v : Str × Bool) :
    ccLookup ((k, v) :: cc) k = some v := by
  simp [ccLookup]

theorem Coll.ccMono_cons (cc : CC) (k : List Nat) (v : Str × Bool) (h : ccLookup cc k = none) :
    CCMono cc ((k, v) :: cc) := by
  intro k' v' h'
  simp only [ccLookup]
  split
  · rename_i hk
    subst hk
    rw [h] at h'
    cases h'
  · exact h'

theorem Coll.ccCheck_succ (U : Uni) (fuel : Nat) (cc : CC) (p : Str) (isDir : Bool) :
    ccCheck U (fuel + 1) cc p isDir =
      (match (match ccLookup cc (foldKey U p) with
          | some (op, oDir) =>
            if p ≠ op then (cc, some Why.collCase)
            else if isDir ≠ oDir then (cc, some Why.collFileDir)
            else if !isDir then (cc, some Why.collDup)
            else (cc, none)
          | none => ((foldKey U p, p, isDir) :: cc, none) : CC × Option Why) with
      | (cc', some e) => (cc', some e)
      | (cc', none) =>
        if pathDir p ≠ sDot then ccCheck U fuel cc' (pathDir p) true else (cc', none)) := rfl

/-- a successful call: the name was absent (then it is registered) or present with the same
spelling and kind `directory`; then the parent is checked -/
theorem Coll.ccCheck_step_ok (U : Uni) (fuel : Nat) (cc cc' : CC) (p : Str) (isDir : Bool)
    (h : ccCheck U (fuel + 1) cc p isDir = (cc', none)) :
    ∃ cc1, CCMono cc cc1 ∧ ccLookup cc1 (foldKey U p) = some (p, isDir) ∧
      (isDir = false → ccLookup cc (foldKey U p) = none) ∧
      (if pathDir p ≠ sDot then ccCheck U fuel cc1 (pathDir p) true = (cc', none)
       else cc' = cc1) := by
  rw [Coll.ccCheck_succ] at h
  cases hl : ccLookup cc (foldKey U p) with
  | none =>
    simp only [hl] at h
    refine ⟨_, Coll.ccMono_cons cc _ _ hl, Coll.ccLookup_cons_self _ _ _, fun _ => rfl, ?_⟩
    split
    · rename_i hp; rw [if_pos hp] at h; exact h
    · rename_i hp; rw [if_neg hp] at h; exact (Prod.mk.inj h).1.symm
  | some v =>
    obtain ⟨op, oDir⟩ := v
    simp only [hl] at h
    by_cases h1 : p ≠ op
    · rw [if_pos h1] at h; simp at h
    · rw [if_neg h1] at h
      by_cases h2 : isDir ≠ oDir
      · rw [if_pos h2] at h; simp at h
      · rw [if_neg h2] at h
        cases isDir with
        | false => simp at h
        | true =>
          simp only [Bool.not_true, Bool.false_eq_true, if_false] at h
          have h1' : p = op := Decidable.not_not.mp h1
          have h2' : true = oDir := Decidable.not_not.mp h2
          subst h1' h2'
          refine ⟨cc, CCMono.refl cc, hl, (fun hf => by cases hf), ?_⟩
          split
          · rename_i hp; rw [if_pos hp] at h; exact h
          · rename_i hp; rw [if_neg hp] at h; exact (Prod.mk.inj h).1.symm

theorem Coll.ccCheck_mono (U : Uni) (fuel : Nat) (cc : CC) (p : Str) (isDir : Bool) :
    CCMono cc (ccCheck U fuel cc p isDir).1 := by
  induction fuel generalizing cc p isDir with
  | zero => exact CCMono.refl cc
  | succ fuel ih =>
    rw [Coll.ccCheck_succ]
    cases hl : ccLookup cc (foldKey U p) with
    | none =>
      simp only
      split
      · exact (Coll.ccMono_cons cc _ _ hl).trans (ih _ _ _)
      · exact Coll.ccMono_cons cc _ _ hl
    | some v =>
      obtain ⟨op, oDir⟩ := v
      simp only
      by_cases h1 : p ≠ op
      · rw [if_pos h1]; exact CCMono.refl cc
      · rw [if_neg h1]
        by_cases h2 : isDir ≠ oDir
        · rw [if_pos h2]; exact CCMono.refl cc
        · rw [if_neg h2]
          by_cases h3 : (!isDir) = true
          · rw [if_pos h3]; exact CCMono.refl cc
          · rw [if_neg h3]
            simp only
            split
            · exact ih _ _ _
            · exact CCMono.refl cc

/-! ### the key lemmas about `ccCheck` on good names -/

theorem Coll.pathDir_concat' (es : List Str) (e : Str) (hne : es ≠ []) (h : GoodElems es)
    (he : 47 ∉ e) : pathDir (joinSlash (es ++ [e])) = joinSlash es := by
  rw [Coll.joinSlash_concat _ _ hne]
  exact Coll.pathDir_concat es e hne h he

/-- a successful check of a good directory name registers it and all its ancestors as
directories -/
theorem Coll.ccCheck_dirs (U : Uni) (fuel : Nat) (cc cc' : CC) (es : List Str)
    (hne : es ≠ []) (hg : GoodElems es) (hf : es.length ≤ fuel)
    (h : ccCheck U fuel cc (joinSlash es) true = (cc', none)) :
    ccLookup cc' (foldKey U (joinSlash es)) = some (joinSlash es, true) ∧
    ∀ d, IsAncestor d (joinSlash es) → ccLookup cc' (foldKey U d) = some (d, true) := by
  induction fuel generalizing cc es with
  | zero =>
    cases es with
    | nil => exact absurd rfl hne
    | cons a as => simp at hf
  | succ fuel ih =>
    obtain ⟨cc1, _, hl, _, hrec⟩ := Coll.ccCheck_step_ok U fuel cc cc' _ true h
    rcases List.eq_nil_or_concat es with h0 | ⟨es0, e, h0⟩
    · exact absurd h0 hne
    · rw [List.concat_eq_append] at h0
      subst h0
      have he : GoodElem e := hg e (by simp)
      by_cases hes0 : es0 = []
      · subst hes0
        simp only [List.nil_append, joinSlash] at hl hrec ⊢
        rw [Coll.pathDir_single e he.2.2.2] at hrec
        simp only [ne_eq, not_true_eq_false, if_false] at hrec
        subst hrec
        exact ⟨hl, fun d hd => absurd hd (Coll.no_ancestor_single d e he.2.2.2)⟩
      · have hg0 : GoodElems es0 := fun x hx => hg x (List.mem_append_left _ hx)
        rw [Coll.joinSlash_concat _ _ hes0] at hl hrec ⊢
        rw [Coll.pathDir_concat es0 e hes0 hg0 he.2.2.2,
          if_pos (Coll.joinSlash_ne_sDot es0 hes0 hg0)] at hrec
        have hf0 : es0.length ≤ fuel := by
          simp only [List.length_append, List.length_cons, List.length_nil] at hf
          omega
        obtain ⟨i1, i2⟩ := ih cc1 es0 hes0 hg0 hf0 hrec
        have hm' : CCMono cc1 cc' := by
          have := Coll.ccCheck_mono U fuel cc1 (joinSlash es0) true
          rw [hrec] at this
          exact this
        refine ⟨hm' _ _ hl, ?_⟩
        intro d hd
        rcases Coll.ancestor_concat d es0 e hes0 hg0 he.2.2.2 hd with hd | hd
        · subst hd; exact i1
        · exact i2 d hd

/-- the key lemma: a successful check of a good *file* name -/
theorem Coll.ccCheckTop_file (U : Uni) (cc cc' : CC) (es : List Str)
    (hne : es ≠ []) (hg : GoodElems es)
    (h : ccCheckTop U cc (joinSlash es) false = (cc', none)) :
    ccLookup cc (foldKey U (joinSlash es)) = none ∧ CCMono cc cc' ∧
    ccLookup cc' (foldKey U (joinSlash es)) = some (joinSlash es, false) ∧
    ∀ d, IsAncestor d (joinSlash es) → ccLookup cc' (foldKey U d) = some (d, true) := by
  have hmono : CCMono cc cc' := by
    have := Coll.ccCheck_mono U ((joinSlash es).length + 1) cc (joinSlash es) false
    unfold ccCheckTop at h
    rw [h] at this
    exact this
  unfold ccCheckTop at h
  obtain ⟨cc1, _, hl, hnone, hrec⟩ := Coll.ccCheck_step_ok U _ cc cc' _ false h
  refine ⟨hnone rfl, hmono, ?_⟩
  have hlen := Coll.length_le_joinSlash es (fun e he => (hg e he).1)
  rcases List.eq_nil_or_concat es with h0 | ⟨es0, e, h0⟩
  · exact absurd h0 hne
  · rw [List.concat_eq_append] at h0
    subst h0
    have he : GoodElem e := hg e (by simp)
    by_cases hes0 : es0 = []
    · subst hes0
      simp only [List.nil_append, joinSlash] at hl hrec ⊢
      rw [Coll.pathDir_single e he.2.2.2] at hrec
      simp only [ne_eq, not_true_eq_false, if_false] at hrec
      subst hrec
      exact ⟨hl, fun d hd => absurd hd (Coll.no_ancestor_single d e he.2.2.2)⟩
    · have hg0 : GoodElems es0 := fun x hx => hg x (List.mem_append_left _ hx)
      rw [Coll.pathDir_concat' es0 e hes0 hg0 he.2.2.2,
        if_pos (Coll.joinSlash_ne_sDot es0 hes0 hg0)] at hrec
      have hf0 : es0.length ≤ (joinSlash (es0 ++ [e])).length := by
        simp only [List.length_append, List.length_cons, List.length_nil] at hlen
        omega
      obtain ⟨i1, i2⟩ := Coll.ccCheck_dirs U _ cc1 cc' es0 hes0 hg0 hf0 hrec
      have hm' : CCMono cc1 cc' := by
        have := Coll.ccCheck_mono U (joinSlash (es0 ++ [e])).length cc1 (joinSlash es0) true
        rw [hrec] at this
        exact this
      refine ⟨hm' _ _ hl, ?_⟩
      intro d hd
      rw [Coll.joinSlash_concat _ _ hes0] at hd
      rcases Coll.ancestor_concat d es0 e hes0 hg0 he.2.2.2 hd with hd | hd
      · subst hd; exact i1
      · exact i2 d hd

/-! ### the loop invariant -/

structure CollInv (U : Uni) (cc : CC) (valid : List Str) : Prop where
  file : ∀ v ∈ valid, ccLookup cc (foldKey U v) = some (v, false)
  dirs : ∀ v ∈ valid, ∀ d, IsAncestor d v → ccLookup cc (foldKey U d) = some (d, true)
  pw : valid.Pairwise (fun a b => foldKey U a ≠ foldKey U b)

theorem CollInv.collisionFree {U : Uni} {cc : CC} {valid : List Str} (h : CollInv U cc valid) :
    CollisionFree U valid := by
  refine ⟨h.pw, ?_⟩
  intro a ha b hb d hd heq
  have h1 := h.file a ha
  have h2 := h.dirs b hb d hd
  rw [heq, h1] at h2
  cases h2

theorem CollInv.init (U : Uni) : CollInv U [] [] :=
  ⟨by simp, by simp, List.Pairwise.nil⟩

theorem CollInv.mono {U : Uni} {cc cc' : CC} {valid : List Str} (h : CollInv U cc valid)
    (hm : CCMono cc cc') : CollInv U cc' valid :=
  ⟨fun v hv => hm _ _ (h.file v hv), fun v hv d hd => hm _ _ (h.dirs v hv d hd), h.pw⟩

theorem CollInv.add {U : Uni} {cc cc' : CC} {valid : List Str} (h : CollInv U cc valid)
    (p : Str) (hp : checkFilePath U p = none) (hc : ccCheckTop U cc p false = (cc', none)) :
    CollInv U cc' (valid ++ [p]) := by
  obtain ⟨es, hne, rfl, hg⟩ := Coll.checkFilePath_good U p hp
  obtain ⟨k1, k2, k3, k4⟩ := Coll.ccCheckTop_file U cc cc' es hne hg hc
  refine ⟨?_, ?_, ?_⟩
  · intro v hv
    rcases List.mem_append.mp hv with hv | hv
    · exact k2 _ _ (h.file v hv)
    · rw [List.mem_singleton.mp hv]; exact k3
  · intro v hv d hd
    rcases List.mem_append.mp hv with hv | hv
    · exact k2 _ _ (h.dirs v hv d hd)
    · rw [List.mem_singleton.mp hv] at hd; exact k4 d hd
  · rw [List.pairwise_append]
    refine ⟨h.pw, List.pairwise_singleton _ _, ?_⟩
    intro a ha b hb heq
    rw [List.mem_singleton.mp hb] at heq
    have := h.file a ha
    rw [heq, k1] at this
    cases this

/-- what one loop iteration may do to (collision map, valid names) -/
def CollStep (U : Uni) (cc : CC) (valid : List Str) (cc' : CC) (valid' : List Str) : Prop :=
  (CCMono cc cc' ∧ valid' = valid) ∨
  ∃ p, checkFilePath U p = none ∧ ccCheckTop U cc p false = (cc', none) ∧ valid' = valid ++ [p]

theorem CollInv.step {U : Uni} {cc cc' : CC} {valid valid' : List Str} (h : CollInv U cc valid)
    (hs : CollStep U cc valid cc' valid') : CollInv U cc' valid' := by
  rcases hs with ⟨hm, rfl⟩ | ⟨p, hp, hc, rfl⟩
  · exact h.mono hm
  · exact h.add p hp hc

theorem Coll.ccCheckTop_mono {U : Uni} {cc cc' : CC} {p : Str} {isDir : Bool} {w : Option Why}
    (h : ccCheckTop U cc p isDir = (cc', w)) : CCMono cc cc' := by
  have := Coll.ccCheck_mono U (p.length + 1) cc p isDir
  unfold ccCheckTop at h
  rw [h] at this
  exact this

/-! ### CheckZip -/

theorem Coll.czStep_step (U : Uni) (st : CZState) (e : ZEnt) :
    CollStep U st.cc st.cf.valid (czStep U st e).cc (czStep U st e).cf.valid := by
  unfold czStep
  dsimp only
  generalize (e.name.getLast? == some 47) = isDir
  cases isDir
  · simp only [Bool.false_eq_true, if_false]
    split
    · exact Or.inl ⟨CCMono.refl _, rfl⟩
    · split
      · exact Or.inl ⟨CCMono.refl _, rfl⟩
      · rename_i hp
        split
        · exact Or.inl ⟨CCMono.refl _, rfl⟩
        · split
          · rename_i cc' w hcc
            exact Or.inl ⟨Coll.ccCheckTop_mono hcc, rfl⟩
          · rename_i cc' hcc
            split
            · exact Or.inl ⟨Coll.ccCheckTop_mono hcc, rfl⟩
            · rename_i isMod _
              cases isMod <;> simp only [Bool.false_eq_true, if_false, if_true] <;>
                (repeat' split) <;>
                first
                | exact Or.inl ⟨Coll.ccCheckTop_mono hcc, rfl⟩
                | exact Or.inr ⟨_, hp, hcc, rfl⟩
  · simp only [if_true]
    generalize e.name.dropLast = name
    (repeat' split) <;>
      first
      | exact Or.inl ⟨CCMono.refl _, rfl⟩
      | exact Or.inl ⟨Coll.ccCheckTop_mono (by assumption), rfl⟩

theorem Coll.czFold_inv (U : Uni) (z : List ZEnt) (st : CZState)
    (h : CollInv U st.cc st.cf.valid) :
    CollInv U (z.foldl (czStep U) st).cc (z.foldl (czStep U) st).cf.valid := by
  induction z generalizing st with
  | nil => exact h
  | cons e es ih => exact ih _ (h.step (Coll.czStep_step U st e))

/-- the names CheckZip reports valid are collision free -/
theorem checkZip_collisionFree (U : Uni) (zipSize : Nat) (z : List ZEnt) :
    CollisionFree U (checkZip U zipSize z).valid := by
  unfold checkZip
  split
  · exact (CollInv.init U).collisionFree
  · exact (Coll.czFold_inv U z {} (CollInv.init U)).collisionFree

/-! ### checkFiles -/

theorem Coll.addError_cc (st : CFState) (p : Str) (o : Bool) (w : Why) :
    (st.addError p o w).cc = st.cc := by
  unfold CFState.addError
  split
  · rfl
  · split <;> rfl

theorem Coll.addError_valid (st : CFState) (p : Str) (o : Bool) (w : Why) :
    (st.addError p o w).cf.valid = st.cf.valid := by
  unfold CFState.addError
  split
  · rfl
  · split <;> rfl

theorem Coll.collStep_addError {U : Uni} {cc : CC} {valid : List Str} {st : CFState}
    (p : Str) (o : Bool) (w : Why) (h : CollStep U cc valid st.cc st.cf.valid) :
    CollStep U cc valid (st.addError p o w).cc (st.addError p o w).cf.valid := by
  rw [Coll.addError_cc, Coll.addError_valid]
  exact h

/-- the part of `cfStep` after the collision check succeeded (`st` already has the new map) -/
def Coll.cfTail (st : CFState) (f : FEnt) : CFState :=
  let p := f.path
  if f.kind = .symlink then st.addError p true .symlink
  else if f.kind ≠ .regular then st.addError p true .notRegular
  else
    let size := f.size
    let st : CFState :=
      if 0 ≤ size ∧ size ≤ st.maxSize then { st with maxSize := st.maxSize - size }
      else { st with cf := { st.cf with sizeError := true } }
    if p = sCueModModule ∧ size > maxCUEMod then st.addError p false .cueModSize
    else
      let st := if p = sCueModModule then { st with found := true } else st
      if p = sLICENSE ∧ size > maxLICENSE then st.addError p false .licenseSize
      else { st with cf := { st.cf with valid := st.cf.valid ++ [p] }, validEnts := st.validEnts ++ [f] }

theorem Coll.cfStep_eq (U : Uni) (have_ : List Str) (st : CFState) (f : FEnt) :
    cfStep U have_ st f =
      (let p := f.path
      if f.kind = .lstatErr then st.addError p false .lstat
      else if f.kind = .dir then st
      else if p ≠ pathClean p then st.addError p false .notClean
      else if isAbs p then st.addError p false .notRelative
      else if isVendoredPackage p then st.addError p true .vendored
      else if inSubmodule have_ p then st.addError p true .submodule
      else if p = sHgArchival then st.addError p true .hgArchival
      else if p = sLocalModule then st.addError p true .localModule
      else match checkFilePath U p with
      | some e => st.addError p false (.path e)
      | none =>
      match cueModTopRule U p with
      | some w => st.addError p false w
      | none =>
      match ccCheckTop U st.cc p false with
      | (cc', some w) => ({ st with cc := cc' }).addError p false w
      | (cc', none) => Coll.cfTail { st with cc := cc' } f) := rfl

theorem Coll.cfTail_spec (st : CFState) (f : FEnt) :
    (Coll.cfTail st f).cc = st.cc ∧
    ((Coll.cfTail st f).cf.valid = st.cf.valid ∨
     (Coll.cfTail st f).cf.valid = st.cf.valid ++ [f.path]) := by
  unfold Coll.cfTail
  dsimp only
  by_cases h1 : f.kind = .symlink
  · rw [if_pos h1, Coll.addError_cc, Coll.addError_valid]; exact ⟨rfl, Or.inl rfl⟩
  rw [if_neg h1]
  by_cases h2 : f.kind ≠ .regular
  · rw [if_pos h2, Coll.addError_cc, Coll.addError_valid]; exact ⟨rfl, Or.inl rfl⟩
  rw [if_neg h2]
  generalize hst1 : (if 0 ≤ f.size ∧ f.size ≤ st.maxSize then
      ({ st with maxSize := st.maxSize - f.size } : CFState)
    else { st with cf := { st.cf with sizeError := true } }) = st1
  have k1 : st1.cc = st.cc ∧ st1.cf.valid = st.cf.valid := by
    rw [← hst1]; split <;> exact ⟨rfl, rfl⟩
  clear hst1
  by_cases h4 : f.path = sCueModModule ∧ f.size > maxCUEMod
  · rw [if_pos h4, Coll.addError_cc, Coll.addError_valid]; exact ⟨k1.1, Or.inl k1.2⟩
  rw [if_neg h4]
  generalize hst2 : (if f.path = sCueModModule then ({ st1 with found := true } : CFState)
    else st1) = st2
  have k2 : st2.cc = st1.cc ∧ st2.cf.valid = st1.cf.valid := by
    rw [← hst2]; split <;> exact ⟨rfl, rfl⟩
  clear hst2
  by_cases h6 : f.path = sLICENSE ∧ f.size > maxLICENSE
  · rw [if_pos h6, Coll.addError_cc, Coll.addError_valid]
    exact ⟨k2.1.trans k1.1, Or.inl (k2.2.trans k1.2)⟩
  rw [if_neg h6]
  refine ⟨k2.1.trans k1.1, Or.inr ?_⟩
  show st2.cf.valid ++ [f.path] = st.cf.valid ++ [f.path]
  rw [k2.2, k1.2]

theorem Coll.collStep_cfTail {U : Uni} {st : CFState} {f : FEnt} {cc' : CC}
    (hp : checkFilePath U f.path = none)
    (hcc : ccCheckTop U st.cc f.path false = (cc', none)) :
    CollStep U st.cc st.cf.valid (Coll.cfTail { st with cc := cc' } f).cc
      (Coll.cfTail { st with cc := cc' } f).cf.valid := by
  obtain ⟨t1, t2⟩ := Coll.cfTail_spec { st with cc := cc' } f
  rcases t2 with t2 | t2
  · exact Or.inl ⟨by rw [t1]; exact Coll.ccCheckTop_mono hcc, t2⟩
  · exact Or.inr ⟨f.path, hp, by rw [t1]; exact hcc, t2⟩

theorem Coll.cfStep_step (U : Uni) (have_ : List Str) (st : CFState) (f : FEnt) :
    CollStep U st.cc st.cf.valid (cfStep U have_ st f).cc (cfStep U have_ st f).cf.valid := by
  rw [Coll.cfStep_eq]
  dsimp only
  (repeat' split) <;>
    first
    | exact Or.inl ⟨CCMono.refl _, rfl⟩
    | exact Coll.collStep_addError _ _ _ (Or.inl ⟨CCMono.refl _, rfl⟩)
    | exact Coll.collStep_addError _ _ _ (Or.inl ⟨Coll.ccCheckTop_mono (by assumption), rfl⟩)
    | exact Coll.collStep_cfTail (by assumption) (by assumption)

theorem Coll.cfFold_inv (U : Uni) (have_ : List Str) (files : List FEnt) (st : CFState)
    (h : CollInv U st.cc st.cf.valid) :
    CollInv U (files.foldl (cfStep U have_) st).cc (files.foldl (cfStep U have_) st).cf.valid := by
  induction files generalizing st with
  | nil => exact h
  | cons e es ih => exact ih _ (h.step (Coll.cfStep_step U have_ st e))

/-- the names checkFiles reports valid are collision free -/
theorem checkFiles_collisionFree (U : Uni) (files : List FEnt) :
    CollisionFree U (checkFiles U files).1.valid :=
  (Coll.cfFold_inv U (haveCUEMod U files) files {} (CollInv.init U)).collisionFree

end CueVerif.Modzip
