/-
C13 — towards semantic preservation through `translate`: state invariants, the abstract
"a member translation is good" bundle, and the state-level step lemmas of the combinator builders
(`not`, `anyOf`, `oneOf`, `allOf`), all RELATIVE to the allowed types handed to the member and to
one fixed instance.  Core Lean only.
-/
import CueVerif.Proofs.JsonSchemaCCFlat
namespace CueVerif.CCm
open CueVerif.JS CueVerif.Skel

variable (re : String → String → Bool)

def isFalseS : Schema → Bool
  | .bool false => true
  | _ => false

/-- invariants of a `state` while the keywords are applied (at one instance `j`) -/
structure SInv (st : TSt) (j : Json) : Prop where
  closed : IntClosed st.allowed
  closedK : IntClosed st.known
  own : Own re st
  sub : ∀ k, st.allowed k = true → st.known k = true
  knownJ : st.all.all (acc re · j) = true → hasCore st.known (coreOf j) = true

/-- what the induction hypothesis provides about the translation of a member `s` under allowed
types `T` (`vf` = the oracle's verdict on members, `tr` = the translation of members) -/
structure GoodA (tr : KSet → Schema → TSub) (vf : Schema → Option Bool) (j : Json) (T : KSet)
    (s : Schema) : Prop where
  closed : IntClosed (tr T s).allowed
  closedK : IntClosed (tr T s).known
  sub : ∀ k, (tr T s).allowed k = true → (tr T s).known k = true
  soundK : acc re (tr T s).expr j = true → hasCore (tr T s).known (coreOf j) = true
  defined : (vf s).isSome = true
  exact : hasCore T (coreOf j) = true → vf s = some (acc re (tr T s).expr j)
  sound : hasCore T (coreOf j) = true → acc re (tr T s).expr j = true →
    hasCore (tr T s).allowed (coreOf j) = true
  exactNC : hasCore T (coreOf j) = true → (tr T s).hasC = false → isFalseS s = false →
    acc re (tr T s).expr j = hasCore (tr T s).allowed (coreOf j)

/-- the verdict as a Boolean -/
def vd (vf : Schema → Option Bool) (s : Schema) : Bool := (vf s).getD false

theorem vf_eq_vd (vf : Schema → Option Bool) (s : Schema) (h : (vf s).isSome = true) :
    vf s = some (vd vf s) := by
  unfold vd
  cases hv : vf s with
  | none => rw [hv] at h; cases h
  | some b => rfl

theorem map_vf (vf : Schema → Option Bool) (ss : List Schema) (h : ∀ s ∈ ss, (vf s).isSome = true) :
    ss.map vf = (ss.map (vd vf)).map some := by
  induction ss with
  | nil => rfl
  | cons a r ih =>
    simp only [List.map_cons]
    rw [vf_eq_vd vf a (h a (List.mem_cons_self ..)), ih (fun s hs => h s (List.mem_cons_of_mem _ hs))]

/-! ## generic state steps -/

theorem stAcc_def (st : TSt) (j : Json) :
    stAcc re st j = (hasCore st.allowed (coreOf j) && st.all.all (acc re · j) &&
      (st.types (coreOf j)).all (acc re · j)) := rfl

theorem stAcc_addAll (st : TSt) (c : CC) (j : Json) :
    stAcc re (addAll st c) j = (stAcc re st j && acc re c j) := by
  unfold addAll
  cases hc : c.isTop
  · simp only [Bool.false_eq_true, ↓reduceIte, stAcc, List.all_append, List.all_cons, List.all_nil,
      Bool.and_true]
    generalize hasCore st.allowed (coreOf j) = A
    generalize st.all.all (fun x => acc re x j) = B
    generalize (st.types (coreOf j)).all (fun x => acc re x j) = C
    generalize acc re c j = D
    cases A <;> cases B <;> cases C <;> cases D <;> rfl
  · have : c = .top := by cases c <;> simp [CC.isTop] at hc <;> rfl
    subst this
    simp [acc]

theorem addAll_allowed (st : TSt) (c : CC) : (addAll st c).allowed = st.allowed := by
  unfold addAll; split <;> rfl
theorem addAll_known (st : TSt) (c : CC) : (addAll st c).known = st.known := by
  unfold addAll; split <;> rfl
theorem addAll_types (st : TSt) (c : CC) : (addAll st c).types = st.types := by
  unfold addAll; split <;> rfl
theorem addAll_all_all (st : TSt) (c : CC) (j : Json) :
    (addAll st c).all.all (acc re · j) = (st.all.all (acc re · j) && acc re c j) := by
  unfold addAll
  cases hc : c.isTop
  · simp [List.all_append]
  · have : c = .top := by cases c <;> simp [CC.isTop] at hc <;> rfl
    subst this
    simp [acc]

/-- narrowing `allowedTypes` to `A'` (⊆ the old one), `knownTypes` by `K`, and adding the
all-constraint `c` whose acceptance implies a kind in `K` -/
theorem narrow_step (st : TSt) (j : Json) (A' K : KSet) (c : CC) (hI : SInv re st j)
    (h1 : IntClosed A') (h2 : ∀ k, A' k = true → st.allowed k = true) (hK : IntClosed K)
    (hAK : ∀ k, A' k = true → K k = true)
    (hcK : acc re c j = true → hasCore K (coreOf j) = true) :
    SInv re (addAll { st with allowed := A', known := st.known.inter K } c) j ∧
    stAcc re (addAll { st with allowed := A', known := st.known.inter K } c) j =
      (hasCore A' (coreOf j) && st.all.all (acc re · j) && (st.types (coreOf j)).all (acc re · j) &&
        acc re c j) := by
  constructor
  · refine ⟨?_, ?_, ?_, ?_, ?_⟩
    · rw [addAll_allowed]; exact h1
    · rw [addAll_known]; exact IntClosed_inter _ _ hI.closedK hK
    · intro t c' hm; rw [addAll_types] at hm; exact hI.own t c' hm
    · intro k hk
      rw [addAll_allowed] at hk
      rw [addAll_known]
      simp only [KSet.inter, Bool.and_eq_true]
      exact ⟨hI.sub k (h2 k hk), hAK k hk⟩
    · intro hall
      rw [addAll_all_all] at hall
      simp only [Bool.and_eq_true] at hall
      rw [addAll_known]
      simp only []
      rw [hasCore_inter _ _ hI.closedK hK, hI.knownJ hall.1, hcK hall.2]
      rfl
  · rw [stAcc_addAll]; rfl

/-- the same without touching `knownTypes` -/
theorem narrow_step0 (st : TSt) (j : Json) (A' : KSet) (c : CC) (hI : SInv re st j)
    (h1 : IntClosed A') (h2 : ∀ k, A' k = true → st.allowed k = true) :
    SInv re (addAll { st with allowed := A' } c) j ∧
    stAcc re (addAll { st with allowed := A' } c) j =
      (hasCore A' (coreOf j) && st.all.all (acc re · j) && (st.types (coreOf j)).all (acc re · j) &&
        acc re c j) := by
  constructor
  · refine ⟨?_, ?_, ?_, ?_, ?_⟩
    · rw [addAll_allowed]; exact h1
    · rw [addAll_known]; exact hI.closedK
    · intro t c' hm; rw [addAll_types] at hm; exact hI.own t c' hm
    · intro k hk
      rw [addAll_allowed] at hk
      rw [addAll_known]
      exact hI.sub k (h2 k hk)
    · intro hall
      rw [addAll_all_all] at hall
      simp only [Bool.and_eq_true] at hall
      rw [addAll_known]
      exact hI.knownJ hall.1
  · rw [stAcc_addAll]; rfl

theorem hasCore_sub (a b : KSet) (h : ∀ k, a k = true → b k = true) (t : CoreType)
    (ha : hasCore a t = true) : hasCore b t = true := Skel.hasCore_mono a b h t ha

/-- `stAcc` with a smaller allowed set in front: the old `hasCore allowed` is implied -/
theorem narrow_absorb (st : TSt) (j : Json) (A' : KSet) (h2 : ∀ k, A' k = true → st.allowed k = true)
    (X : Bool) :
    (hasCore A' (coreOf j) && st.all.all (acc re · j) && (st.types (coreOf j)).all (acc re · j) && X) =
      (stAcc re st j && (hasCore A' (coreOf j) && X)) := by
  rw [stAcc_def]
  cases hA : hasCore A' (coreOf j)
  · simp
  · rw [hasCore_sub A' st.allowed h2 _ hA]
    simp

/-! ## `not` -/

theorem SInv_addAll (st : TSt) (j : Json) (c : CC) (hI : SInv re st j) : SInv re (addAll st c) j := by
  refine ⟨?_, ?_, ?_, ?_, ?_⟩
  · rw [addAll_allowed]; exact hI.closed
  · rw [addAll_known]; exact hI.closedK
  · intro t c' hm; rw [addAll_types] at hm; exact hI.own t c' hm
  · intro k hk
    rw [addAll_allowed] at hk
    rw [addAll_known]
    exact hI.sub k hk
  · intro hall
    rw [addAll_all_all] at hall
    simp only [Bool.and_eq_true] at hall
    rw [addAll_known]
    exact hI.knownJ hall.1

theorem not_step (tr vf) (st : TSt) (s : Schema) (j : Json) (hI : SInv re st j)
    (hg : GoodA re tr vf j KSet.full s) :
    SInv re (bNot tr s st) j ∧ (not3 (vf s)).isSome = true ∧
    stAcc re (bNot tr s st) j = (stAcc re st j && (not3 (vf s)).getD false) := by
  have hx := hg.exact (Skel.hasCore_full _)
  refine ⟨SInv_addAll re st j _ hI, by rw [hx]; rfl, ?_⟩
  unfold bNot
  rw [stAcc_addAll, hx, acc_matchN]
  simp only [List.countP_cons, List.countP_nil, Bound.ok, not3, Option.map_some, Option.getD_some]
  cases acc re (tr KSet.full s).expr j <;> simp

end CueVerif.CCm
