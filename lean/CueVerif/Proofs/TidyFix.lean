/-
C17 (cue mod tidy), proofs over ALL main modules / registries / fuels:

  A. the graph the model selects versions from is C14's pruned requirement graph and the
     selection is its minimal-version selection (`specSel_upper`, `specSel_attained`,
     `graphSel_eq_specSel`, `graphSel_none_iff`, `preach_iff_mvs_reach`);
  B. "no unused entry": every module `tidy` lists provided a package of the final load
     (`tidyRoots_provides`, `tidyRoots_nodup`, `tidyRoots_complete`, `tidy_lists_providers`,
     `loadOne_ext_hasPkg`);
  C. CheckTidy is a fixpoint test: when it accepts a file, Tidy succeeds on it and lists exactly
     the same module versions (`check_ok_tidy_noop`).

`example`s are TESTS (satisfiability of the hypotheses on a small universe), not the property.
Core Lean only.
-/
import CueVerif.Spec.Tidy
namespace CueVerif.Tidy

/-! ## A.1  maxRank -/

theorem foldl_max_init_le (l : List Nat) (a : Nat) : a ≤ l.foldl max a := by
  induction l generalizing a with
  | nil => exact Nat.le_refl _
  | cons x xs ih => exact Nat.le_trans (Nat.le_max_left a x) (ih _)

theorem foldl_max_mem_le (l : List Nat) (a x : Nat) (h : x ∈ l) : x ≤ l.foldl max a := by
  induction l generalizing a with
  | nil => cases h
  | cons y ys ih =>
    rcases List.mem_cons.1 h with rfl | h
    · exact Nat.le_trans (Nat.le_max_right a _) (foldl_max_init_le _ _)
    · exact ih _ h

theorem foldl_max_attained (l : List Nat) (a : Nat) : l.foldl max a = a ∨ l.foldl max a ∈ l := by
  induction l generalizing a with
  | nil => exact Or.inl rfl
  | cons y ys ih =>
    rcases ih (max a y) with h | h
    · rw [List.foldl_cons, h]
      rcases Nat.le_total a y with hay | hay
      · rw [Nat.max_eq_right hay]; exact Or.inr (List.mem_cons_self ..)
      · rw [Nat.max_eq_left hay]; exact Or.inl rfl
    · exact Or.inr (List.mem_cons_of_mem _ h)

theorem maxRank_ge (l : List Nat) : ∀ x ∈ l, x ≤ maxRank l :=
  fun x h => foldl_max_mem_le l 0 x h

theorem maxRank_attained (l : List Nat) : maxRank l = 0 ∨ maxRank l ∈ l :=
  foldl_max_attained l 0

/-! ## A.2  the selected versions are the minimal version selection of the pruned graph -/

/-- the node list the model folds over is exactly the reachable set of the pruned graph -/
theorem mem_graphNodes_iff (reg : Reg) (roots : List (MPath × Nat)) (n : MPath × Nat) :
    n ∈ graphNodes reg roots ↔ PReach reg roots n := by
  constructor
  · intro h
    rcases List.mem_append.1 h with h | h
    · exact .root h
    · rcases List.mem_flatMap.1 h with ⟨r, hr, hn⟩
      refine .dep hr ?_
      have hc : roots.contains r = true := List.contains_iff_mem.2 hr
      simp only [prunedGraph, hc, if_true]
      exact hn
  · intro h
    cases h with
    | root h => exact List.mem_append_left _ h
    | dep hr hn =>
      rename_i r
      have hc : roots.contains r = true := List.contains_iff_mem.2 hr
      simp only [prunedGraph, hc, if_true] at hn
      exact List.mem_append_right _ (List.mem_flatMap.2 ⟨r, hr, hn⟩)

theorem specSel_upper (reg : Reg) (roots : List (MPath × Nat)) (mp : MPath) (v : Nat) :
    PReach reg roots (mp, v) → v ≤ specSel reg roots mp := by
  intro h
  apply maxRank_ge
  refine List.mem_map.2 ⟨(mp, v), ?_, rfl⟩
  exact List.mem_filter.2 ⟨(mem_graphNodes_iff reg roots _).2 h, by simp⟩

theorem specSel_attained (reg : Reg) (roots : List (MPath × Nat)) (mp : MPath) :
    specSel reg roots mp = 0 ∨ PReach reg roots (mp, specSel reg roots mp) := by
  rcases maxRank_attained (((graphNodes reg roots).filter (fun n => n.1 == mp)).map (·.2)) with h | h
  · exact Or.inl h
  · right
    rcases List.mem_map.1 h with ⟨n, hn, he⟩
    rcases List.mem_filter.1 hn with ⟨hg, hm⟩
    have hm' : n.1 = mp := by simpa using hm
    have : n = (mp, specSel reg roots mp) := by
      rcases n with ⟨a, b⟩
      simp only at hm' he
      subst hm'
      simp only [specSel]
      rw [← he]
    rw [← this]
    exact (mem_graphNodes_iff reg roots n).1 hg

/-- minimal version selection, as a characterisation: the selected version of a path is the
least upper bound of the versions of that path reachable in the pruned graph -/
theorem specSel_least (reg : Reg) (roots : List (MPath × Nat)) (mp : MPath) (b : Nat)
    (hb : ∀ v, PReach reg roots (mp, v) → v ≤ b) : specSel reg roots mp ≤ b := by
  rcases specSel_attained reg roots mp with h | h
  · rw [h]; exact Nat.zero_le _
  · exact hb _ h

theorem graphSel_eq_specSel (reg : Reg) (roots : List (MPath × Nat)) (g : MPath → Nat)
    (h : graphSel reg roots = some g) : g = specSel reg roots := by
  unfold graphSel at h
  split at h
  · funext mp
    have := Option.some.inj h
    rw [← this]; rfl
  · cases h

theorem graphSel_none_iff (reg : Reg) (roots : List (MPath × Nat)) :
    graphSel reg roots = none ↔ ∃ r ∈ roots, reg.find r.1 r.2 = none := by
  unfold graphSel
  constructor
  · intro h
    split at h
    · cases h
    · rename_i hall
      have : ∃ r ∈ roots, ¬ ((reg.find r.1 r.2).isSome = true) := by
        simpa [List.all_eq_true] using hall
      rcases this with ⟨r, hr, hn⟩
      exact ⟨r, hr, by simpa using hn⟩
  · rintro ⟨r, hr, hn⟩
    split
    · rename_i hall
      have := (List.all_eq_true.1 hall) r hr
      rw [hn] at this
      cases this
    · rfl

theorem graphSel_some_iff (reg : Reg) (roots : List (MPath × Nat)) :
    (∃ g, graphSel reg roots = some g) ↔ ∀ r ∈ roots, ∃ m, reg.find r.1 r.2 = some m := by
  constructor
  · rintro ⟨g, hg⟩ r hr
    cases hf : reg.find r.1 r.2 with
    | some m => exact ⟨m, rfl⟩
    | none =>
      have := (graphSel_none_iff reg roots).2 ⟨r, hr, hf⟩
      rw [this] at hg; cases hg
  · intro h
    cases hg : graphSel reg roots with
    | some g => exact ⟨g, rfl⟩
    | none =>
      rcases (graphSel_none_iff reg roots).1 hg with ⟨r, hr, hn⟩
      rcases h r hr with ⟨m, hm⟩
      rw [hm] at hn; cases hn

/-! ## A.3  PReach is C14's `Mvs.Reach` on an encoded graph -/

/-- the pruned graph as a C14 graph: node (0,0) is the main module, a module path `mp` is the
path id `e mp` -/
def mvsGraph (reg : Reg) (roots : List (MPath × Nat)) (e : MPath → Nat) : Mvs.Graph :=
  fun n =>
    if n = (0, 0) then roots.map (fun r => (e r.1, r.2))
    else (roots.filter (fun r => (e r.1, r.2) = n)).flatMap (fun r =>
      (prunedGraph reg roots (some r)).map (fun d => (e d.1, d.2)))

theorem mvs_reach_decode (reg : Reg) (roots : List (MPath × Nat)) (e : MPath → Nat)
    (x : Mvs.Node) (h : Mvs.Reach (mvsGraph reg roots e) [(0, 0)] x) :
    x = (0, 0) ∨ ∃ n, x = (e n.1, n.2) ∧ PReach reg roots n := by
  induction h with
  | root h => left; simpa using h
  | dep hm hn _ =>
    rename_i m n
    right
    unfold mvsGraph at hn
    split at hn
    · rcases List.mem_map.1 hn with ⟨r, hr, he⟩
      exact ⟨r, he.symm, .root hr⟩
    · rcases List.mem_flatMap.1 hn with ⟨r, hr, hd⟩
      rcases List.mem_map.1 hd with ⟨d, hd, he⟩
      exact ⟨d, he.symm, .dep (List.mem_filter.1 hr).1 hd⟩

theorem preach_iff_mvs_reach (reg : Reg) (roots : List (MPath × Nat)) (e : MPath → Nat)
    (hinj : ∀ a b, e a = e b → a = b) (hne : ∀ a, e a ≠ 0) (mp : MPath) (v : Nat) :
    PReach reg roots (mp, v) ↔
      (Mvs.Reach (mvsGraph reg roots e) [(0, 0)] (e mp, v) ∧ (e mp, v) ≠ (0, 0)) := by
  have hne' : ∀ (a : MPath) (w : Nat), (e a, w) ≠ ((0, 0) : Nat × Nat) := by
    intro a w h; exact hne a (Prod.mk.inj h).1
  constructor
  · intro h
    refine ⟨?_, hne' mp v⟩
    cases h with
    | root h =>
      refine .dep (.root (List.mem_singleton.2 rfl)) ?_
      simp only [mvsGraph, if_true]
      exact List.mem_map.2 ⟨(mp, v), h, rfl⟩
    | dep hr hn =>
      rename_i r
      have hrr : Mvs.Reach (mvsGraph reg roots e) [(0, 0)] (e r.1, r.2) := by
        refine .dep (.root (List.mem_singleton.2 rfl)) ?_
        simp only [mvsGraph, if_true]
        exact List.mem_map.2 ⟨r, hr, rfl⟩
      refine .dep hrr ?_
      simp only [mvsGraph, if_neg (hne' r.1 r.2)]
      refine List.mem_flatMap.2 ⟨r, List.mem_filter.2 ⟨hr, by simp⟩, ?_⟩
      exact List.mem_map.2 ⟨(mp, v), hn, rfl⟩
  · rintro ⟨h, _⟩
    rcases mvs_reach_decode reg roots e _ h with h0 | ⟨n, hn, hp⟩
    · exact absurd h0 (hne' mp v)
    · have h1 := (Prod.mk.inj hn).1
      have h2 := (Prod.mk.inj hn).2
      have : n = (mp, v) := by
        rcases n with ⟨a, b⟩
        simp only at h1 h2
        rw [hinj _ _ h1, h2]
      rw [← this]; exact hp

/-- consequence: the model's selection is the maximum over C14's reachable set -/
theorem specSel_mvs (reg : Reg) (roots : List (MPath × Nat)) (e : MPath → Nat)
    (hinj : ∀ a b, e a = e b → a = b) (hne : ∀ a, e a ≠ 0) (mp : MPath) :
    (∀ v, Mvs.Reach (mvsGraph reg roots e) [(0, 0)] (e mp, v) → v ≤ specSel reg roots mp) ∧
    (specSel reg roots mp = 0 ∨
      Mvs.Reach (mvsGraph reg roots e) [(0, 0)] (e mp, specSel reg roots mp)) := by
  constructor
  · intro v h
    apply specSel_upper
    exact (preach_iff_mvs_reach reg roots e hinj hne mp v).2
      ⟨h, fun h0 => hne mp (Prod.mk.inj h0).1⟩
  · rcases specSel_attained reg roots mp with h | h
    · exact Or.inl h
    · exact Or.inr ((preach_iff_mvs_reach reg roots e hinj hne mp _).1 h).1

/-! ## B.  no unused entry -/

/-! ### sortDedup membership -/

theorem mem_insertBy {α} (k : α → List Nat) (x y : α) (l : List α) :
    y ∈ insertBy k x l → y = x ∨ y ∈ l := by
  induction l with
  | nil => intro h; left; simpa [insertBy] using h
  | cons z zs ih =>
    intro h
    unfold insertBy at h
    split at h
    · rcases List.mem_cons.1 h with h | h
      · exact Or.inl h
      · exact Or.inr h
    · split at h
      · rcases List.mem_cons.1 h with h | h
        · exact Or.inr (h ▸ List.mem_cons_self ..)
        · rcases ih h with h | h
          · exact Or.inl h
          · exact Or.inr (List.mem_cons_of_mem _ h)
      · exact Or.inr h

theorem mem_insertBy_of_mem_fx {α} (k : α → List Nat) (x y : α) (l : List α) :
    y ∈ l → y ∈ insertBy k x l := by
  induction l with
  | nil => intro h; cases h
  | cons z zs ih =>
    intro h
    unfold insertBy
    split
    · exact List.mem_cons_of_mem _ h
    · split
      · rcases List.mem_cons.1 h with h | h
        · exact h ▸ List.mem_cons_self ..
        · exact List.mem_cons_of_mem _ (ih h)
      · exact h

theorem lexLt_tri (a b : List Nat) (h1 : lexLt a b = false) (h2 : lexLt b a = false) : a = b := by
  induction a generalizing b with
  | nil => cases b with
    | nil => rfl
    | cons y ys => simp [lexLt] at h1
  | cons x xs ih => cases b with
    | nil => simp [lexLt] at h2
    | cons y ys =>
      unfold lexLt at h1 h2
      by_cases hxy : x < y
      · simp [hxy] at h1
      · by_cases hyx : y < x
        · simp [hyx] at h2
        · simp only [hxy, hyx, if_false] at h1 h2
          have : x = y := by omega
          rw [this, ih ys h1 h2]

theorem insertBy_covers {α} (k : α → List Nat) (x : α) (l : List α) :
    ∃ y ∈ insertBy k x l, k y = k x := by
  induction l with
  | nil => exact ⟨x, by simp [insertBy], rfl⟩
  | cons z zs ih =>
    unfold insertBy
    split
    · exact ⟨x, List.mem_cons_self .., rfl⟩
    · split
      · rcases ih with ⟨y, hy, he⟩
        exact ⟨y, List.mem_cons_of_mem _ hy, he⟩
      · rename_i h1 h2
        refine ⟨z, List.mem_cons_self .., ?_⟩
        exact (lexLt_tri _ _ (by simpa using h1) (by simpa using h2)).symm

theorem mem_foldl_insertBy_fx {α} (k : α → List Nat) (l acc : List α) (y : α) :
    y ∈ l.foldl (fun acc x => insertBy k x acc) acc → y ∈ acc ∨ y ∈ l := by
  induction l generalizing acc with
  | nil => intro h; exact Or.inl h
  | cons x xs ih =>
    intro h
    rcases ih _ h with h | h
    · rcases mem_insertBy k x y acc h with h | h
      · exact Or.inr (h ▸ List.mem_cons_self ..)
      · exact Or.inl h
    · exact Or.inr (List.mem_cons_of_mem _ h)

theorem foldl_insertBy_mono {α} (k : α → List Nat) (l acc : List α) (y : α) :
    (∃ z ∈ acc, k z = k y) → ∃ z ∈ l.foldl (fun acc x => insertBy k x acc) acc, k z = k y := by
  induction l generalizing acc with
  | nil => intro h; exact h
  | cons x xs ih =>
    rintro ⟨z, hz, he⟩
    exact ih _ ⟨z, mem_insertBy_of_mem_fx k x z acc hz, he⟩

theorem foldl_insertBy_covers {α} (k : α → List Nat) (l acc : List α) (y : α) :
    y ∈ l → ∃ z ∈ l.foldl (fun acc x => insertBy k x acc) acc, k z = k y := by
  induction l generalizing acc with
  | nil => intro h; cases h
  | cons x xs ih =>
    intro h
    rcases List.mem_cons.1 h with h | h
    · subst h
      exact foldl_insertBy_mono k xs _ y (insertBy_covers k y acc)
    · exact ih _ h

/-- members of `sortDedup k l` are members of `l` -/
theorem mem_sortDedup_fx {α} (k : α → List Nat) (l : List α) (y : α) :
    y ∈ sortDedup k l → y ∈ l := by
  intro h
  rcases mem_foldl_insertBy_fx k l [] y h with h | h
  · cases h
  · exact h

/-- every key of `l` survives in `sortDedup k l` -/
theorem sortDedup_covers {α} (k : α → List Nat) (l : List α) (y : α) :
    y ∈ l → ∃ z ∈ sortDedup k l, k z = k y :=
  foldl_insertBy_covers k l [] y

theorem MPath.key_inj_fx (a b : MPath) (h : a.key = b.key) : a = b := by
  unfold MPath.key at h
  rcases List.append_inj' h rfl with ⟨h1, h2⟩
  rcases a with ⟨ab, am⟩
  rcases b with ⟨bb, bm⟩
  simp only at h1 h2
  have : am = bm := by
    have := List.cons.inj h2
    omega
  rw [h1, this]

/-! ### tidyRoots -/

def trStep (acc : List (MPath × Nat)) (p : Imp × PkgRes) : List (MPath × Nat) :=
  match p.2 with
  | .ok (.ext mp v) _ _ => if acc.any (fun a => a.1 == mp) then acc else acc ++ [(mp, v)]
  | _ => acc

theorem tidyRoots_eq (pkgs : List (Imp × PkgRes)) : tidyRoots pkgs = pkgs.foldl trStep [] := rfl

theorem trStep_spec (acc : List (MPath × Nat)) (p : Imp × PkgRes) :
    (trStep acc p = acc ∧
      ∀ mp v imps bad, p.2 = .ok (.ext mp v) imps bad → mp ∈ acc.map (·.1)) ∨
    (∃ mp v imps bad, p.2 = .ok (.ext mp v) imps bad ∧ mp ∉ acc.map (·.1) ∧
      trStep acc p = acc ++ [(mp, v)]) := by
  rcases p with ⟨k, res⟩
  cases res with
  | std => left; exact ⟨rfl, fun _ _ _ _ h => by cases h⟩
  | err b => left; exact ⟨rfl, fun _ _ _ _ h => by cases h⟩
  | ok prov imps bad =>
    cases prov with
    | main => left; exact ⟨rfl, fun _ _ _ _ h => by cases h⟩
    | ext mp v =>
      by_cases hin : mp ∈ acc.map (·.1)
      · left
        have hany : acc.any (fun a => a.1 == mp) = true := by
          rcases List.mem_map.1 hin with ⟨a, ha, he⟩
          exact List.any_eq_true.2 ⟨a, ha, by simp [he]⟩
        refine ⟨by simp only [trStep, hany, if_true], ?_⟩
        intro mp' v' imps' bad' h
        cases h; exact hin
      · right
        have hany : acc.any (fun a => a.1 == mp) = false := by
          rw [Bool.eq_false_iff]
          intro h
          rcases List.any_eq_true.1 h with ⟨a, ha, he⟩
          exact hin (List.mem_map.2 ⟨a, ha, by simpa using he⟩)
        exact ⟨mp, v, imps, bad, rfl, hin, by simp [trStep, hany]⟩

theorem foldl_trStep_mono (pkgs : List (Imp × PkgRes)) (acc : List (MPath × Nat)) (r : MPath × Nat) :
    r ∈ acc → r ∈ pkgs.foldl trStep acc := by
  induction pkgs generalizing acc with
  | nil => exact id
  | cons p ps ih =>
    intro h
    apply ih
    rcases trStep_spec acc p with ⟨he, _⟩ | ⟨mp, v, imps, bad, _, _, he⟩
    · rw [he]; exact h
    · rw [he]; exact List.mem_append_left _ h

theorem foldl_trStep_provides (pkgs : List (Imp × PkgRes)) (acc : List (MPath × Nat)) (r : MPath × Nat) :
    r ∈ pkgs.foldl trStep acc →
      r ∈ acc ∨ ∃ k imps bad, (k, PkgRes.ok (Prov.ext r.1 r.2) imps bad) ∈ pkgs := by
  induction pkgs generalizing acc with
  | nil => exact Or.inl
  | cons p ps ih =>
    intro h
    rcases ih _ h with h | ⟨k, imps, bad, h⟩
    · rcases trStep_spec acc p with ⟨he, _⟩ | ⟨mp, v, imps, bad, hp, _, he⟩
      · rw [he] at h; exact Or.inl h
      · rw [he] at h
        rcases List.mem_append.1 h with h | h
        · exact Or.inl h
        · right
          have : r = (mp, v) := by simpa using h
          subst this
          refine ⟨p.1, imps, bad, ?_⟩
          have : p = (p.1, PkgRes.ok (Prov.ext mp v) imps bad) := by rw [← hp]
          rw [← this]; exact List.mem_cons_self ..
    · exact Or.inr ⟨k, imps, bad, List.mem_cons_of_mem _ h⟩

theorem foldl_trStep_nodup (pkgs : List (Imp × PkgRes)) (acc : List (MPath × Nat)) :
    (acc.map (·.1)).Nodup → ((pkgs.foldl trStep acc).map (·.1)).Nodup := by
  induction pkgs generalizing acc with
  | nil => exact id
  | cons p ps ih =>
    intro h
    apply ih
    rcases trStep_spec acc p with ⟨he, _⟩ | ⟨mp, v, imps, bad, _, hnin, he⟩
    · rw [he]; exact h
    · rw [he, List.map_append]
      refine List.nodup_append.2 ⟨h, by simp, ?_⟩
      intro a ha b hb
      have : b = mp := by simpa using hb
      subst this
      intro hab; subst hab; exact hnin ha

theorem foldl_trStep_complete (pkgs : List (Imp × PkgRes)) (acc : List (MPath × Nat))
    (k : Imp) (mp : MPath) (v : Nat) (imps : List Imp) (bad : Bool) :
    (k, PkgRes.ok (Prov.ext mp v) imps bad) ∈ pkgs → mp ∈ (pkgs.foldl trStep acc).map (·.1) := by
  induction pkgs generalizing acc with
  | nil => intro h; cases h
  | cons p ps ih =>
    intro h
    rcases List.mem_cons.1 h with h | h
    · subst h
      have : mp ∈ (trStep acc (k, PkgRes.ok (Prov.ext mp v) imps bad)).map (·.1) := by
        rcases trStep_spec acc (k, PkgRes.ok (Prov.ext mp v) imps bad) with
          ⟨he, hin⟩ | ⟨mp', v', imps', bad', hp, _, he⟩
        · rw [he]; exact hin mp v imps bad rfl
        · rw [he]
          cases hp
          simp
      rcases List.mem_map.1 this with ⟨a, ha, he⟩
      exact List.mem_map.2 ⟨a, foldl_trStep_mono ps _ a ha, he⟩
    · exact ih _ h

/-- every module `tidyRoots` lists provided a loaded package, at the listed version -/
theorem tidyRoots_provides (pkgs : List (Imp × PkgRes)) (r : MPath × Nat) :
    r ∈ tidyRoots pkgs → ∃ k imps bad, (k, PkgRes.ok (Prov.ext r.1 r.2) imps bad) ∈ pkgs := by
  intro h
  rcases foldl_trStep_provides pkgs [] r h with h | h
  · cases h
  · exact h

/-- one entry per module path -/
theorem tidyRoots_nodup (pkgs : List (Imp × PkgRes)) : ((tidyRoots pkgs).map (·.1)).Nodup :=
  foldl_trStep_nodup pkgs [] List.nodup_nil

/-- every module that provided a loaded package is listed -/
theorem tidyRoots_complete (pkgs : List (Imp × PkgRes)) (k : Imp) (mp : MPath) (v : Nat)
    (imps : List Imp) (bad : Bool) (h : (k, PkgRes.ok (Prov.ext mp v) imps bad) ∈ pkgs) :
    mp ∈ (tidyRoots pkgs).map (·.1) :=
  foldl_trStep_complete pkgs [] k mp v imps bad h

theorem nodup_fst_functional {α β} (l : List (α × β)) (h : (l.map (·.1)).Nodup)
    (a : α) (b b' : β) (h1 : (a, b) ∈ l) (h2 : (a, b') ∈ l) : b = b' := by
  induction l with
  | nil => cases h1
  | cons x xs ih =>
    rw [List.map_cons, List.nodup_cons] at h
    rcases List.mem_cons.1 h1 with h1 | h1 <;> rcases List.mem_cons.1 h2 with h2 | h2
    · rw [← h2] at h1; exact (Prod.mk.inj h1).2
    · exact absurd (List.mem_map.2 ⟨(a, b'), h2, by rw [← h1]⟩) h.1
    · exact absurd (List.mem_map.2 ⟨(a, b), h1, by rw [← h2]⟩) h.1
    · exact ih h.2 h1 h2

theorem tidyRoots_functional (pkgs : List (Imp × PkgRes)) (mp : MPath) (v v' : Nat)
    (h1 : (mp, v) ∈ tidyRoots pkgs) (h2 : (mp, v') ∈ tidyRoots pkgs) : v = v' :=
  nodup_fst_functional _ (tidyRoots_nodup pkgs) mp v v' h1 h2

/-! ### the listed module version really contains the package directory -/

theorem locate_ext_hasPkg (main : Mod) (reg : Reg) (imp : Imp) (dflt : Path → Option Nat)
    (sel : MPath → Option Nat) (ps : List Path) (r : List Prov)
    (h : locate main reg imp dflt sel ps = .ok r) (mp : MPath) (v : Nat) (hm : Prov.ext mp v ∈ r) :
    ∃ m, reg.find mp v = some m ∧ m.hasPkg imp.path = true ∧ sel mp = some v := by
  induction ps generalizing r with
  | nil =>
    simp only [locate] at h
    cases h; cases hm
  | cons pre rest ih =>
    simp only [locate] at h
    split at h
    · exact ih r h hm
    · rename_i j _
      split at h
      · split at h
        · cases h
        · rename_i r' hr'
          cases h
          split at hm
          · rcases List.mem_cons.1 hm with hm | hm
            · cases hm
            · exact ih r' hr' hm
          · exact ih r' hr' hm
      · split at h
        · exact ih r h hm
        · rename_i v' hsel
          split at h
          · cases h
          · rename_i m hfind
            split at h
            · cases h
            · rename_i r' hr'
              cases h
              split at hm
              · rename_i hhas
                rcases List.mem_cons.1 hm with hm | hm
                · cases hm
                  exact ⟨m, hfind, hhas, hsel⟩
                · exact ih r' hr' hm
              · exact ih r' hr' hm

theorem importFrom_ext_hasPkg (main : Mod) (reg : Reg) (rs : Reqs) (imp : Imp)
    (dflt : Path → Option Nat) (mp : MPath) (v : Nat)
    (h : importFrom main reg rs imp dflt = .ok (some (.ext mp v))) :
    ∃ m, reg.find mp v = some m ∧ m.hasPkg imp.path = true := by
  unfold importFrom at h
  split at h
  · cases h
  · cases h
  · rename_i p hl
    cases h
    rcases locate_ext_hasPkg main reg imp dflt _ _ _ hl mp v (List.mem_singleton.2 rfl) with ⟨m, h1, h2, _⟩
    exact ⟨m, h1, h2⟩
  · split at h
    · cases h
    · simp only at h
      split at h
      · cases h
      · cases h
      · rename_i p hl
        cases h
        rcases locate_ext_hasPkg main reg imp dflt _ _ _ hl mp v (List.mem_singleton.2 rfl) with ⟨m, h1, h2, _⟩
        exact ⟨m, h1, h2⟩
      · cases h

/-- a package loaded from an external module: that module version exists in the registry and
contains the package directory -/
theorem loadOne_ext_hasPkg (main : Mod) (reg : Reg) (rs : Reqs) (key : Imp) (mp : MPath) (v : Nat)
    (imps : List Imp) (bad : Bool) (h : loadOne main reg rs key = .ok (.ext mp v) imps bad) :
    ∃ m, reg.find mp v = some m ∧ m.hasPkg key.path = true := by
  unfold loadOne at h
  split at h
  · cases h
  · split at h
    · cases h
    · cases h
    · cases h
    · rename_i mp' v' himp
      split at h
      · cases h
      · simp only at h
        have h1 := PkgRes.ok.inj h
        have h2 := Prov.ext.inj h1.1
        rw [← h2.1, ← h2.2]
        exact importFrom_ext_hasPkg main reg rs key _ mp' v' himp

/-- every entry `loadAll` adds is `loadOne` of its key -/
theorem loadAll_mem (main : Mod) (reg : Reg) (rs : Reqs) (f : Nat) (q : List Imp)
    (done out : List (Imp × PkgRes)) (h : loadAll main reg rs f q done = some out) :
    ∀ p ∈ out, p ∈ done ∨ p.2 = loadOne main reg rs p.1 := by
  induction f generalizing q done with
  | zero =>
    cases q with
    | nil => simp only [loadAll] at h; cases h; exact fun p hp => Or.inl hp
    | cons k q => simp [loadAll] at h
  | succ f ih =>
    cases q with
    | nil => simp only [loadAll] at h; cases h; exact fun p hp => Or.inl hp
    | cons k q =>
      simp only [loadAll] at h
      split at h
      · exact ih _ _ h
      · intro p hp
        rcases ih _ _ h p hp with hd | hd
        · rcases List.mem_append.1 hd with hd | hd
          · exact Or.inl hd
          · right
            have : p = (k, loadOne main reg rs k) := by simpa using hd
            rw [this]
        · exact Or.inr hd

/-! ### lifting to `tidy` -/

theorem tidy_ok_inv (main : Mod) (reg : Reg) (fuel : Nat) (ds : List Dep)
    (h : tidy main reg fuel = .ok ds) :
    wfMain main = true ∧ ∃ rs pkgs g,
      resolveLoop (normMod main) reg fuel fuel (initReqs (normMod main)) = .ok (rs, pkgs) ∧
      pkgs.any (fun p => p.2.isErr) = false ∧
      graphSel reg (tidyRoots pkgs) = some g ∧
      ds = depsOf (tidyRoots pkgs) (keepImpliedDefaults rs pkgs) := by
  unfold tidy at h
  split at h
  · cases h
  · rename_i hwf
    simp only at h
    split at h
    · cases h
    · rename_i rs pkgs hres
      split at h
      · cases h
      · rename_i hany
        split at h
        · cases h
        · rename_i g hg
          refine ⟨by simpa using hwf, rs, pkgs, g, hres, by simpa using hany, hg, ?_⟩
          exact (Except.ok.inj h).symm

theorem mem_depsOf (roots : List (MPath × Nat)) (dflts : List (Path × Nat)) (d : Dep)
    (h : d ∈ depsOf roots dflts) :
    (d.mp, d.rank) ∈ roots ∧ d.dflt = (lookupD dflts d.mp.base == some d.mp.major) := by
  have := mem_sortDedup_fx _ _ _ h
  rcases List.mem_map.1 this with ⟨r, hr, he⟩
  subst he
  exact ⟨hr, rfl⟩

/-- "no unused entry": every module version `tidy` lists provided, without error, a package of
the final load -/
theorem tidy_lists_providers (main : Mod) (reg : Reg) (fuel : Nat) (ds : List Dep)
    (h : tidy main reg fuel = .ok ds) :
    ∀ d ∈ ds, ∃ rs pkgs,
      resolveLoop (normMod main) reg fuel fuel (initReqs (normMod main)) = .ok (rs, pkgs) ∧
      ∃ k imps, (k, PkgRes.ok (Prov.ext d.mp d.rank) imps false) ∈ pkgs := by
  intro d hd
  rcases tidy_ok_inv main reg fuel ds h with ⟨_, rs, pkgs, g, hres, hany, _, hds⟩
  refine ⟨rs, pkgs, hres, ?_⟩
  subst hds
  rcases tidyRoots_provides pkgs _ (mem_depsOf _ _ d hd).1 with ⟨k, imps, bad, hk⟩
  have : bad = false := by
    have := (List.any_eq_false.1 hany) _ hk
    simpa [PkgRes.isErr] using this
  subst this
  exact ⟨k, imps, hk⟩

/-! ## C.  CheckTidy is a fixpoint test -/

theorem checkTidy_ok_inv (main : Mod) (reg : Reg) (fuel : Nat) (h : checkTidy main reg fuel = .ok) :
    wfMain main = true ∧ ∃ pkgs g,
      loadAll (normMod main) reg (initReqs (normMod main)) fuel (rootKeys (normMod main)) [] = some pkgs ∧
      pkgs.find? (fun p => p.2.isErr) = none ∧
      graphSel reg (tidyRoots pkgs) = some g ∧
      sameRoots (tidyRoots pkgs) (initReqs (normMod main)).roots = true := by
  unfold checkTidy at h
  split at h
  · cases h
  · rename_i hwf
    simp only at h
    split at h
    · cases h
    · rename_i pkgs hload
      split at h
      · cases h
      · cases h
      · rename_i hfind
        split at h
        · cases h
        · rename_i g hg
          split at h
          · rename_i hsame
            exact ⟨by simpa using hwf, pkgs, g, hload, hfind, hg, hsame⟩
          · cases h

def rmStep (main : Mod) (reg : Reg) (rs : Reqs)
    (acc : List (MPath × Nat) × List (Path × Nat)) (p : Imp × PkgRes) :
    List (MPath × Nat) × List (Path × Nat) :=
  match p.2 with
  | .err true =>
    let cands := queryImport main reg rs p.1
    (cands.foldl addNew acc.1,
     if p.1.major.isNone then cands.foldl (fun d c => setDflt d c.1.base c.1.major) acc.2 else acc.2)
  | _ => acc

theorem resolveMissing_eq (main : Mod) (reg : Reg) (rs : Reqs) (pkgs : List (Imp × PkgRes)) :
    resolveMissing main reg rs pkgs = pkgs.foldl (rmStep main reg rs) ([], rs.dflts) := rfl

theorem rmStep_noop (main : Mod) (reg : Reg) (rs : Reqs)
    (acc : List (MPath × Nat) × List (Path × Nat)) (p : Imp × PkgRes)
    (hp : p.2 ≠ PkgRes.err true) : rmStep main reg rs acc p = acc := by
  unfold rmStep
  split
  · rename_i he; exact absurd he hp
  · rfl

/-- nothing is missing: `resolveMissingImports` adds nothing and leaves the defaults alone -/
theorem resolveMissing_noop (main : Mod) (reg : Reg) (rs : Reqs) (pkgs : List (Imp × PkgRes))
    (h : ∀ p ∈ pkgs, p.2 ≠ PkgRes.err true) :
    resolveMissing main reg rs pkgs = ([], rs.dflts) := by
  rw [resolveMissing_eq]
  generalize (([], rs.dflts) : List (MPath × Nat) × List (Path × Nat)) = acc
  induction pkgs generalizing acc with
  | nil => rfl
  | cons p ps ih =>
    rw [List.foldl_cons, rmStep_noop main reg rs acc p (h p (List.mem_cons_self ..))]
    exact ih (fun q hq => h q (List.mem_cons_of_mem _ hq)) acc

theorem resolveLoop_noop (main : Mod) (reg : Reg) (lf f : Nat) (rs : Reqs)
    (pkgs : List (Imp × PkgRes))
    (hload : loadAll main reg rs lf (rootKeys main) [] = some pkgs)
    (h : ∀ p ∈ pkgs, p.2 ≠ PkgRes.err true) :
    resolveLoop main reg lf (f + 1) rs = .ok (rs, pkgs) := by
  simp only [resolveLoop, hload, resolveMissing_noop main reg rs pkgs h, List.isEmpty_nil, if_true]

/-! ### keepImpliedDefaults changes nothing when the tidy roots are the load roots -/

/-- one step of `keepImpliedDefaults` -/
def kidStep (rs : Reqs) (troots : List (MPath × Nat)) (d : List (Path × Nat)) (p : Imp × PkgRes) :
    List (Path × Nat) :=
  match p.1.major, p.2 with
  | none, .ok (.ext mp _) _ _ =>
    match rs.defaultMajor mp.base with
    | .nonexplicit m =>
      if (Reqs.defaultMajor { roots := troots, dflts := d } mp.base) = .ambiguous then setDflt d mp.base m
      else d
    | _ => d
  | _, _ => d

theorem keepImpliedDefaults_eq (rs : Reqs) (pkgs : List (Imp × PkgRes)) :
    keepImpliedDefaults rs pkgs = pkgs.foldl (kidStep rs (tidyRoots pkgs)) rs.dflts := rfl

theorem nodup_of_nodup_map {α β} (f : α → β) : ∀ l : List α, (l.map f).Nodup → l.Nodup
  | [], _ => List.nodup_nil
  | a :: t, h => by
    rw [List.map_cons, List.nodup_cons] at h
    rw [List.nodup_cons]
    exact ⟨fun ha => h.1 (List.mem_map_of_mem ha), nodup_of_nodup_map f t h.2⟩

theorem nodup_all_eq (l : List (MPath × Nat)) (r : MPath × Nat) (hn : l.Nodup) (h : ∀ x ∈ l, x = r) :
    l = [] ∨ l = [r] := by
  match l, hn, h with
  | [], _, _ => exact Or.inl rfl
  | [a], _, h => right; rw [h a (by simp)]
  | a :: b :: t, hn, h =>
    exfalso
    have ha := h a (by simp)
    have hb := h b (by simp)
    rw [List.nodup_cons] at hn
    exact hn.1 (by rw [ha, ← hb]; simp)

/-- if a base path has an implied default in `rs` (exactly one root of that base path), a root
list drawn from `rs.roots` with one entry per module path cannot make it ambiguous -/
theorem defaultMajor_not_ambiguous (rs : Reqs) (troots : List (MPath × Nat)) (d : List (Path × Nat))
    (b : Path) (m : Nat) (hsub : ∀ x ∈ troots, x ∈ rs.roots) (hnd : (troots.map (·.1)).Nodup)
    (h : rs.defaultMajor b = .nonexplicit m) :
    Reqs.defaultMajor { roots := troots, dflts := d } b ≠ .ambiguous := by
  unfold Reqs.defaultMajor at h ⊢
  cases hl : lookupD rs.dflts b with
  | some x => rw [hl] at h; cases h
  | none =>
    rw [hl] at h
    simp only at h
    cases hf : rs.roots.filter (fun r => r.1.base == b) with
    | nil => rw [hf] at h; cases h
    | cons r t =>
      cases t with
      | cons r2 t2 => rw [hf] at h; cases h
      | nil =>
        cases hd : lookupD d b with
        | some x => simp
        | none =>
          simp only
          have hnod : (troots.filter (fun r => r.1.base == b)).Nodup :=
            List.Nodup.sublist List.filter_sublist (nodup_of_nodup_map _ _ hnd)
          have hall : ∀ x ∈ troots.filter (fun r => r.1.base == b), x = r := by
            intro x hx
            have hx' := List.mem_filter.1 hx
            have : x ∈ rs.roots.filter (fun r => r.1.base == b) := List.mem_filter.2 ⟨hsub x hx'.1, hx'.2⟩
            rw [hf] at this
            simpa using this
          rcases nodup_all_eq _ r hnod hall with h0 | h1
          · rw [h0]; simp
          · rw [h1]; simp

theorem kidStep_noop (rs : Reqs) (troots : List (MPath × Nat)) (p : Imp × PkgRes)
    (hsub : ∀ x ∈ troots, x ∈ rs.roots) (hnd : (troots.map (·.1)).Nodup) :
    kidStep rs troots rs.dflts p = rs.dflts := by
  unfold kidStep
  split
  · split
    · rename_i m hm
      rw [if_neg (defaultMajor_not_ambiguous rs troots rs.dflts _ m hsub hnd hm)]
    · rfl
  · rfl

theorem keepImpliedDefaults_noop (rs : Reqs) (pkgs : List (Imp × PkgRes))
    (hsub : ∀ x ∈ tidyRoots pkgs, x ∈ rs.roots) : keepImpliedDefaults rs pkgs = rs.dflts := by
  rw [keepImpliedDefaults_eq]
  have hnd := tidyRoots_nodup pkgs
  generalize tidyRoots pkgs = troots at hsub hnd ⊢
  induction pkgs with
  | nil => rfl
  | cons p t ih => rw [List.foldl_cons, kidStep_noop rs troots p hsub hnd]; exact ih

theorem sameRoots_iff (a b : List (MPath × Nat)) :
    sameRoots a b = true ↔ ∀ x, x ∈ a ↔ x ∈ b := by
  simp only [sameRoots, Bool.and_eq_true, List.all_eq_true, List.contains_iff_mem]
  constructor
  · rintro ⟨h1, h2⟩ x; exact ⟨h1 x, h2 x⟩
  · intro h; exact ⟨fun x hx => (h x).1 hx, fun x hx => (h x).2 hx⟩

/-- `depsOf` lists exactly the module versions of a root list with one entry per path -/
theorem depsOf_members (roots : List (MPath × Nat)) (dflts : List (Path × Nat))
    (hnd : (roots.map (·.1)).Nodup) (mp : MPath) (v : Nat) :
    (mp, v) ∈ roots ↔ ∃ d ∈ depsOf roots dflts, d.mp = mp ∧ d.rank = v := by
  constructor
  · intro h
    have hm : ({ mp := mp, rank := v, dflt := lookupD dflts mp.base == some mp.major } : Dep) ∈
        roots.map (fun r => ({ mp := r.1, rank := r.2, dflt := lookupD dflts r.1.base == some r.1.major } : Dep)) :=
      List.mem_map.2 ⟨(mp, v), h, rfl⟩
    rcases sortDedup_covers (fun d : Dep => d.mp.key) _ _ hm with ⟨z, hz, hk⟩
    refine ⟨z, hz, ?_⟩
    have hzmp : z.mp = mp := MPath.key_inj_fx _ _ hk
    refine ⟨hzmp, ?_⟩
    have hzr := (mem_depsOf roots dflts z hz).1
    rw [hzmp] at hzr
    exact nodup_fst_functional roots hnd mp _ _ hzr h
  · rintro ⟨d, hd, h1, h2⟩
    have := (mem_depsOf roots dflts d hd).1
    rw [h1, h2] at this
    exact this

/-- When CheckTidy accepts a module file, Tidy succeeds on it and lists exactly the same module
versions, each with the `default` flag the file's own defaults give it.  (`0 < fuel`: with no
fuel at all `tidy` gives up before loading anything, while `checkTidy` still accepts a main
module without imports.) -/
theorem check_ok_tidy_noop (main : Mod) (reg : Reg) (fuel : Nat) (hf : 0 < fuel)
    (h : checkTidy main reg fuel = .ok) :
    ∃ ds, tidy main reg fuel = .ok ds ∧
      (∀ mp v, (mp, v) ∈ (initReqs (normMod main)).roots ↔ ∃ d ∈ ds, d.mp = mp ∧ d.rank = v) ∧
      (∀ d ∈ ds, d.dflt = (lookupD (fileDflts (normMod main)) d.mp.base == some d.mp.major)) := by
  rcases checkTidy_ok_inv main reg fuel h with ⟨hwf, pkgs, g, hload, hfind, hg, hsame⟩
  have hne : ∀ p ∈ pkgs, p.2 ≠ PkgRes.err true := by
    intro p hp he
    have := List.find?_eq_none.1 hfind p hp
    rw [he] at this
    exact this rfl
  have hany : pkgs.any (fun p => p.2.isErr) = false := by
    rw [List.any_eq_false]
    intro p hp
    exact List.find?_eq_none.1 hfind p hp
  obtain ⟨f, rfl⟩ : ∃ f, fuel = f + 1 := ⟨fuel - 1, by omega⟩
  have hres := resolveLoop_noop (normMod main) reg (f + 1) f (initReqs (normMod main)) pkgs hload hne
  have hkid : keepImpliedDefaults (initReqs (normMod main)) pkgs = (initReqs (normMod main)).dflts :=
    keepImpliedDefaults_noop _ pkgs (fun x hx => ((sameRoots_iff _ _).1 hsame x).1 hx)
  refine ⟨depsOf (tidyRoots pkgs) (initReqs (normMod main)).dflts, ?_, ?_, ?_⟩
  · simp only [tidy, hwf, hres, hany, hg]
    rw [← hkid]
    rfl
  · intro mp v
    rw [← depsOf_members _ _ (tidyRoots_nodup pkgs)]
    exact ((sameRoots_iff _ _).1 hsame (mp, v)).symm
  · intro d hd
    exact (mem_depsOf _ _ d hd).2

/-- without `0 < fuel` the statement is false (an artefact of the model's fuel, not of the code:
the code has no fuel); `check_ok_tidy_noop` is the partial with exactly the excluded region -/
def check_ok_tidy_noop_anyfuel_stmt : Prop :=
  ∀ (main : Mod) (reg : Reg) (fuel : Nat), checkTidy main reg fuel = .ok →
    ∃ ds, tidy main reg fuel = .ok ds

theorem check_ok_tidy_noop_anyfuel_false : ¬ check_ok_tidy_noop_anyfuel_stmt := by
  intro h
  rcases h ⟨⟨[8,5],0⟩,0,[],[]⟩ (regOf []) 0 (by decide) with ⟨ds, hds⟩
  have : tidy ⟨⟨[8,5],0⟩,0,[],[]⟩ (regOf []) 0 = .error .other := rfl
  rw [this] at hds; cases hds

/-! ### the final load of `resolveLoop` was made with the requirements it returns -/

theorem addNew_ne_nil (acc : List (MPath × Nat)) (c : MPath × Nat) : addNew acc c ≠ [] := by
  unfold addNew
  split
  · rename_i h
    intro he; rw [he] at h; simp at h
  · simp

theorem foldl_addNew_nil (cands acc : List (MPath × Nat)) (h : cands.foldl addNew acc = []) :
    cands = [] ∧ acc = [] := by
  induction cands generalizing acc with
  | nil => exact ⟨rfl, h⟩
  | cons c cs ih => exact absurd (ih _ h).2 (addNew_ne_nil acc c)

theorem rmStep_nil (main : Mod) (reg : Reg) (rs : Reqs)
    (acc : List (MPath × Nat) × List (Path × Nat)) (p : Imp × PkgRes)
    (h : (rmStep main reg rs acc p).1 = []) : acc.1 = [] ∧ (rmStep main reg rs acc p).2 = acc.2 := by
  unfold rmStep at h ⊢
  split
  · rename_i he
    simp only [he] at h
    rcases foldl_addNew_nil _ _ h with ⟨hc, ha⟩
    refine ⟨ha, ?_⟩
    simp only [hc, List.foldl_nil, ite_self]
  · rename_i hne
    split at h
    · rename_i he; exact (hne he).elim
    · exact ⟨h, rfl⟩

theorem foldl_rmStep_nil (main : Mod) (reg : Reg) (rs : Reqs) (pkgs : List (Imp × PkgRes))
    (acc : List (MPath × Nat) × List (Path × Nat))
    (h : (pkgs.foldl (rmStep main reg rs) acc).1 = []) :
    acc.1 = [] ∧ (pkgs.foldl (rmStep main reg rs) acc).2 = acc.2 := by
  induction pkgs generalizing acc with
  | nil => exact ⟨h, rfl⟩
  | cons p ps ih =>
    rw [List.foldl_cons] at h ⊢
    rcases ih _ h with ⟨h1, h2⟩
    rcases rmStep_nil main reg rs acc p h1 with ⟨h3, h4⟩
    exact ⟨h3, by rw [h2, h4]⟩

/-- no module to add ⇒ the default-major-version map is unchanged -/
theorem resolveMissing_nil_dflts (main : Mod) (reg : Reg) (rs : Reqs) (pkgs : List (Imp × PkgRes))
    (h : (resolveMissing main reg rs pkgs).1 = []) : (resolveMissing main reg rs pkgs).2 = rs.dflts := by
  rw [resolveMissing_eq] at h ⊢
  exact (foldl_rmStep_nil main reg rs pkgs _ h).2

theorem resolveLoop_ok_load (main : Mod) (reg : Reg) (lf f : Nat) (rs rs' : Reqs)
    (pkgs : List (Imp × PkgRes)) (h : resolveLoop main reg lf f rs = .ok (rs', pkgs)) :
    loadAll main reg rs' lf (rootKeys main) [] = some pkgs := by
  induction f generalizing rs with
  | zero => simp [resolveLoop] at h
  | succ f ih =>
    unfold resolveLoop at h
    split at h
    · cases h
    · rename_i pkgs0 hload
      generalize hrm : resolveMissing main reg rs pkgs0 = res at h
      rcases res with ⟨adds, dflts'⟩
      simp only at h
      split at h
      · rename_i hemp
        have hadds : adds = [] := by simpa using hemp
        have h1 := Except.ok.inj h
        have hd : dflts' = rs.dflts := by
          have := resolveMissing_nil_dflts main reg rs pkgs0 (by rw [hrm]; exact hadds)
          rw [hrm] at this; exact this
        have h2 := (Prod.mk.inj h1)
        rw [← h2.1, ← h2.2, hd]
        exact hload
      · split at h
        · cases h
        · split at h
          · cases h
          · exact ih _ h

/-- "no unused entry", registry form: every module version `tidy` lists exists in the registry
and contains the directory of a package (key `k`) that the final load — made with the returned
requirements `rs` — resolved to it without error -/
theorem tidy_no_unused (main : Mod) (reg : Reg) (fuel : Nat) (ds : List Dep)
    (h : tidy main reg fuel = .ok ds) :
    ∀ d ∈ ds, ∃ rs pkgs k imps m,
      resolveLoop (normMod main) reg fuel fuel (initReqs (normMod main)) = .ok (rs, pkgs) ∧
      (k, PkgRes.ok (Prov.ext d.mp d.rank) imps false) ∈ pkgs ∧
      loadOne (normMod main) reg rs k = PkgRes.ok (Prov.ext d.mp d.rank) imps false ∧
      reg.find d.mp d.rank = some m ∧ m.hasPkg k.path = true := by
  intro d hd
  rcases tidy_lists_providers main reg fuel ds h d hd with ⟨rs, pkgs, hres, k, imps, hk⟩
  have hload := resolveLoop_ok_load _ _ _ _ _ _ _ hres
  have hone : loadOne (normMod main) reg rs k = PkgRes.ok (Prov.ext d.mp d.rank) imps false := by
    rcases loadAll_mem _ _ _ _ _ _ _ hload _ hk with h0 | h0
    · cases h0
    · exact h0.symm
  rcases loadOne_ext_hasPkg _ _ _ _ _ _ _ _ hone with ⟨m, h1, h2⟩
  exact ⟨rs, pkgs, k, imps, m, hres, hk, hone, h1, h2⟩

/-! ### the `default` flags of a well-formed file are the ones `tidy` writes -/

theorem nodupKeys_nodup {α} [DecidableEq α] (l : List α) (h : nodupKeys l = true) : l.Nodup := by
  induction l with
  | nil => exact List.nodup_nil
  | cons x xs ih =>
    simp only [nodupKeys, Bool.and_eq_true, Bool.not_eq_true', List.contains_eq_mem,
      decide_eq_false_iff_not] at h
    exact List.nodup_cons.2 ⟨h.1, ih h.2⟩

theorem nodup_map_inj {α β} (f : α → β) (l : List α) (h : (l.map f).Nodup) (a b : α)
    (ha : a ∈ l) (hb : b ∈ l) (he : f a = f b) : a = b := by
  induction l with
  | nil => cases ha
  | cons x xs ih =>
    rw [List.map_cons, List.nodup_cons] at h
    rcases List.mem_cons.1 ha with ha | ha <;> rcases List.mem_cons.1 hb with hb | hb
    · rw [ha, hb]
    · exact absurd (List.mem_map.2 ⟨b, hb, by rw [← he, ha]⟩) h.1
    · exact absurd (List.mem_map.2 ⟨a, ha, by rw [he, hb]⟩) h.1
    · exact ih h.2 ha hb

theorem lookupD_some (L : List (Path × Nat)) (b : Path) (j : Nat) (h : lookupD L b = some j) :
    (b, j) ∈ L := by
  unfold lookupD at h
  cases hf : L.find? (fun e => e.1 == b) with
  | none => rw [hf] at h; cases h
  | some e =>
    rw [hf] at h
    have h1 : e.2 = j := Option.some.inj h
    have h2 : e.1 = b := by simpa using List.find?_some hf
    have := List.mem_of_find?_eq_some hf
    rw [← h1, ← h2]; exact this

theorem lookupD_of_mem (L : List (Path × Nat)) (b : Path) (j : Nat) (h : (b, j) ∈ L) :
    ∃ j', lookupD L b = some j' := by
  unfold lookupD
  cases hf : L.find? (fun e => e.1 == b) with
  | none =>
    have := List.find?_eq_none.1 hf _ h
    simp at this
  | some e => exact ⟨e.2, rfl⟩

theorem mpath_eq_of_pair (a b : MPath) (h : (a.base, a.major) = (b.base, b.major)) : a = b := by
  rcases a with ⟨x, y⟩
  rcases b with ⟨x', y'⟩
  simp only at h
  rw [(Prod.mk.inj h).1, (Prod.mk.inj h).2]

theorem flags_core (deps : List Dep) (mmp : MPath) (L : List (Path × Nat))
    (hmem : ∀ e, e ∈ L ↔
      e = (mmp.base, mmp.major) ∨ ∃ d' ∈ deps, d'.dflt = true ∧ e = (d'.mp.base, d'.mp.major))
    (hfun : ∀ e e', e ∈ L → e' ∈ L → e.1 = e'.1 → e = e')
    (hinj : ∀ d d', d ∈ deps → d' ∈ deps → d.mp = d'.mp → d = d')
    (hmain : ∀ d ∈ deps, d.mp ≠ mmp) :
    ∀ d ∈ deps, d.dflt = (lookupD L d.mp.base == some d.mp.major) := by
  intro d hd
  cases hfl : d.dflt with
  | true =>
    have hin : (d.mp.base, d.mp.major) ∈ L := (hmem _).2 (Or.inr ⟨d, hd, hfl, rfl⟩)
    rcases lookupD_of_mem _ _ _ hin with ⟨j', hj'⟩
    have hin' := lookupD_some _ _ _ hj'
    have : ((d.mp.base, j') : Path × Nat) = (d.mp.base, d.mp.major) := hfun _ _ hin' hin rfl
    have hj : j' = d.mp.major := (Prod.mk.inj this).2
    rw [hj', hj]; simp
  | false =>
    symm
    rw [beq_eq_false_iff_ne]
    intro hl
    rcases (hmem _).1 (lookupD_some _ _ _ hl) with he | ⟨d', hd', hf', he⟩
    · exact hmain d hd (mpath_eq_of_pair _ _ he)
    · have := hinj _ _ hd hd' (mpath_eq_of_pair _ _ he)
      rw [this, hf'] at hfl; cases hfl

theorem mem_fileDflts (main : Mod) (e : Path × Nat) : e ∈ fileDflts main ↔
    e = (main.mp.base, main.mp.major) ∨
      ∃ d' ∈ main.deps, d'.dflt = true ∧ e = (d'.mp.base, d'.mp.major) := by
  simp only [fileDflts, List.mem_cons, List.mem_map, List.mem_filter]
  constructor
  · rintro (h | ⟨d', ⟨hd', hf⟩, he⟩)
    · exact Or.inl h
    · exact Or.inr ⟨d', hd', hf, he.symm⟩
  · rintro (h | ⟨d', hd', hf, he⟩)
    · exact Or.inl h
    · exact Or.inr ⟨d', ⟨hd', hf⟩, he.symm⟩

theorem wfMain_inv (main : Mod) (hwf : wfMain main = true) :
    (∀ e e', e ∈ fileDflts main → e' ∈ fileDflts main → e.1 = e'.1 → e = e') ∧
    (∀ d d', d ∈ main.deps → d' ∈ main.deps → d.mp = d'.mp → d = d') ∧
    (∀ d ∈ main.deps, d.mp ≠ main.mp) := by
  simp only [wfMain, Bool.and_eq_true, Bool.not_eq_true'] at hwf
  rcases hwf with ⟨⟨h1, h2⟩, h3⟩
  have n1 := nodupKeys_nodup _ h1
  have n3 := nodupKeys_nodup _ h3
  refine ⟨fun e e' he he' h => nodup_map_inj (·.1) _ n3 _ _ he he' h,
    fun d d' hd hd' h => nodup_map_inj (·.mp) _ n1 _ _ hd hd' h, ?_⟩
  intro d hd hmp
  have : main.deps.any (fun d => d.mp == main.mp) = true :=
    List.any_eq_true.2 ⟨d, hd, by simp [hmp]⟩
  rw [this] at h2; cases h2

/-- in a module file that ParseNonStrict accepts, `default: true` sits exactly on the entries
whose major version is the file's default for their base path -/
theorem wfMain_flags (main : Mod) (hwf : wfMain main = true) :
    ∀ d ∈ main.deps, d.dflt = (lookupD (fileDflts main) d.mp.base == some d.mp.major) := by
  rcases wfMain_inv main hwf with ⟨a, b, c⟩
  exact flags_core main.deps main.mp (fileDflts main) (mem_fileDflts main) a b c

/-- the same after the file has been read (entries sorted) -/
theorem wfMain_flags_norm (main : Mod) (hwf : wfMain main = true) :
    ∀ d ∈ (normMod main).deps,
      d.dflt = (lookupD (fileDflts (normMod main)) d.mp.base == some d.mp.major) := by
  rcases wfMain_inv main hwf with ⟨a, b, c⟩
  have hsub : ∀ d, d ∈ (normMod main).deps → d ∈ main.deps := fun d hd => mem_sortDedup_fx _ _ d hd
  have hsubL : ∀ e, e ∈ fileDflts (normMod main) → e ∈ fileDflts main := by
    intro e he
    rcases (mem_fileDflts (normMod main) e).1 he with h | ⟨d', hd', hf, h⟩
    · exact (mem_fileDflts main e).2 (Or.inl h)
    · exact (mem_fileDflts main e).2 (Or.inr ⟨d', hsub d' hd', hf, h⟩)
  exact flags_core (normMod main).deps (normMod main).mp (fileDflts (normMod main))
    (mem_fileDflts (normMod main))
    (fun e e' he he' h => a e e' (hsubL e he) (hsubL e' he') h)
    (fun d d' hd hd' h => b d d' (hsub d hd) (hsub d' hd') h)
    (fun d hd => c d (hsub d hd))

/-- When CheckTidy accepts a module file, Tidy succeeds on it and its output has exactly the
entries (module path, version AND `default` flag) of the file as read. -/
theorem check_ok_tidy_same_deps (main : Mod) (reg : Reg) (fuel : Nat) (hf : 0 < fuel)
    (h : checkTidy main reg fuel = .ok) :
    ∃ ds, tidy main reg fuel = .ok ds ∧ ∀ d, d ∈ ds ↔ d ∈ (normMod main).deps := by
  rcases check_ok_tidy_noop main reg fuel hf h with ⟨ds, ht, hm, hfl⟩
  have hwf := (checkTidy_ok_inv main reg fuel h).1
  have hfl' := wfMain_flags_norm main hwf
  refine ⟨ds, ht, fun d => ⟨fun hd => ?_, fun hd => ?_⟩⟩
  · have : (d.mp, d.rank) ∈ (initReqs (normMod main)).roots := (hm d.mp d.rank).2 ⟨d, hd, rfl, rfl⟩
    rcases List.mem_map.1 this with ⟨d', hd', he⟩
    have h1 := (Prod.mk.inj he).1
    have h2 := (Prod.mk.inj he).2
    have h3 : d'.dflt = d.dflt := by rw [hfl' d' hd', hfl d hd, h1]
    have : d' = d := by
      rcases d with ⟨x, y, z⟩
      rcases d' with ⟨x', y', z'⟩
      simp only at h1 h2 h3
      rw [h1, h2, h3]
    rw [← this]; exact hd'
  · have : (d.mp, d.rank) ∈ (initReqs (normMod main)).roots := List.mem_map.2 ⟨d, hd, rfl⟩
    rcases (hm d.mp d.rank).1 this with ⟨d', hd', h1, h2⟩
    have h3 : d'.dflt = d.dflt := by rw [hfl' d hd, hfl d' hd', h1]
    have : d' = d := by
      rcases d with ⟨x, y, z⟩
      rcases d' with ⟨x', y', z'⟩
      simp only at h1 h2 h3
      rw [h1, h2, h3]
    rw [← this]; exact hd'

/-! ## an explicit injective, nowhere-zero encoding of module paths (the hypotheses of
`preach_iff_mvs_reach` are satisfiable) -/

/-- `1ˣ0` in front of the binary digits of `n` -/
def encG : Nat → Nat → Nat
  | 0, n => 2 * n
  | x + 1, n => 2 * encG x n + 1

def encL : List Nat → Nat
  | [] => 1
  | x :: xs => encG x (encL xs)

def encMP (mp : MPath) : Nat := encL (mp.major :: mp.base)

theorem encG_inj (x y n m : Nat) (h : encG x n = encG y m) : x = y ∧ n = m := by
  induction x generalizing y with
  | zero => cases y with
    | zero => simp only [encG] at h; exact ⟨rfl, by omega⟩
    | succ y => simp only [encG] at h; omega
  | succ x ih => cases y with
    | zero => simp only [encG] at h; omega
    | succ y =>
      simp only [encG] at h
      rcases ih y (by omega) with ⟨h1, h2⟩
      exact ⟨by rw [h1], h2⟩

theorem encG_pos (x n : Nat) (h : 0 < n) : 1 < encG x n := by
  induction x with
  | zero => simp only [encG]; omega
  | succ x ih => simp only [encG]; omega

theorem encL_pos (l : List Nat) : 0 < encL l := by
  cases l with
  | nil => exact Nat.one_pos
  | cons x xs =>
    have := encG_pos x (encL xs) (encL_pos xs)
    simp only [encL]; omega

theorem encL_inj (a b : List Nat) (h : encL a = encL b) : a = b := by
  induction a generalizing b with
  | nil => cases b with
    | nil => rfl
    | cons y ys =>
      have := encG_pos y (encL ys) (encL_pos ys)
      simp only [encL] at h; omega
  | cons x xs ih => cases b with
    | nil =>
      have := encG_pos x (encL xs) (encL_pos xs)
      simp only [encL] at h; omega
    | cons y ys =>
      simp only [encL] at h
      rcases encG_inj _ _ _ _ h with ⟨h1, h2⟩
      rw [h1, ih ys h2]

theorem encMP_inj (a b : MPath) (h : encMP a = encMP b) : a = b := by
  have := List.cons.inj (encL_inj _ _ h)
  rcases a with ⟨x, y⟩
  rcases b with ⟨x', y'⟩
  simp only at this
  rw [this.1, this.2]

theorem encMP_ne_zero (a : MPath) : encMP a ≠ 0 := Nat.pos_iff_ne_zero.1 (encL_pos _)

/-- `PReach` IS C14's reachability, for the concrete encoding -/
theorem preach_iff_mvs_reach_enc (reg : Reg) (roots : List (MPath × Nat)) (mp : MPath) (v : Nat) :
    PReach reg roots (mp, v) ↔
      (Mvs.Reach (mvsGraph reg roots encMP) [(0, 0)] (encMP mp, v) ∧ (encMP mp, v) ≠ (0, 0)) :=
  preach_iff_mvs_reach reg roots encMP encMP_inj encMP_ne_zero mp v

/-! ## TESTS: the hypotheses are satisfiable on a small universe (samples, not the property) -/

namespace FixExample

def main0 : Mod := ⟨⟨[8,5],0⟩, 0, [], [⟨[8,5,10], [⟨[8,1,10], none⟩]⟩]⟩
def mods : List Mod := [⟨⟨[8,1],0⟩, 3, [], [⟨[8,1,10], []⟩]⟩]
def dep1 : Dep := ⟨⟨[8,1],0⟩, 3, true⟩
/-- the same module with the tidied module file -/
def main1 : Mod := { main0 with deps := [dep1] }

example : maxRank [2, 5, 3] = 5 := by decide
example : specSel (regOf mods) [(⟨[8,1],0⟩, 3)] ⟨[8,1],0⟩ = 3 := by decide
example : PReach (regOf mods) [(⟨[8,1],0⟩, 3)] (⟨[8,1],0⟩, 3) := .root (by decide)
example : (graphSel (regOf mods) [(⟨[8,1],0⟩, 3)]).isSome = true := by decide
example : (graphSel (regOf mods) [(⟨[8,2],0⟩, 3)]).isSome = false := by decide
example : Mvs.Reach (mvsGraph (regOf mods) [(⟨[8,1],0⟩, 3)] encMP) [(0, 0)] (encMP ⟨[8,1],0⟩, 3) :=
  ((preach_iff_mvs_reach_enc _ _ _ _).1 (.root (by decide))).1

example : tidyRoots [(⟨[8,1,10], none⟩, .ok (.ext ⟨[8,1],0⟩ 3) [] false)] = [(⟨[8,1],0⟩, 3)] := by
  decide
example : loadOne (normMod main0) (regOf mods) (initReqs (normMod main1)) ⟨[8,1,10], none⟩ =
    .ok (.ext ⟨[8,1],0⟩ 3) [] false := by decide

/-- `tidy` adds the missing requirement … -/
example : tidy main0 (regOf mods) 50 = .ok [dep1] := by rfl
/-- … CheckTidy rejects the untidy file and accepts the tidied one … -/
example : checkTidy main0 (regOf mods) 50 = .nottidy := by decide
example : checkTidy main1 (regOf mods) 50 = .ok := by decide
/-- … on which `tidy` is a no-op (instance of `check_ok_tidy_noop`) -/
example : tidy main1 (regOf mods) 50 = .ok [dep1] := by rfl

end FixExample

end CueVerif.Tidy
